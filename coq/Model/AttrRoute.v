(* Attribute families: which runtime channel an attribute written `prefix:name` on a normal element
   or a <slot> element reaches, and under which (normalised) name. Model of the prefix table and of
   the "dash to camel case" block of Element::parse (parse/tag.rs), composed with the channel each
   stored attribute is generated to (proc_gen/tag.rs). The result is the key under which the
   reference runtime records the delivery:
     r:<n>  property            r!:<n> property with a model (two-way) path
     p:<n>  change listener     wl:<n> worklet        d:<n> dataset     m:<n> mark
     v:<n>:<final><mut><capture>  event listener      l:<n> slot value (on <slot>)
     g:<n>  generic             a:<n>  extra attribute
     i: id   c: class   y: style   slot   slotname     sref:<n> slot value reference
   None = the attribute is rejected (a diagnostic) and reaches no channel. *)
From GE Require Export Model.Str Model.Lit Model.Escape.

Inductive ekind := KView | KSlot.

Fixpoint split_colon_aux (s cur : str) : list str :=
  match s with
  | [] => [rev cur]
  | c :: r => if c =? 58 then rev cur :: split_colon_aux r [] else split_colon_aux r (c :: cur)
  end.
Definition split_colon (s : str) : list str := split_colon_aux s [].


Definition lower_str (s : str) : str := map to_ascii_lower s.

Definition data_hyphen_name (n : str) : str := dash_to_camel (lower_str (skipn 5 n)).
(* `data-xxx` with a non-empty xxx; a bare `data-` is an ordinary attribute *)
Definition is_data_hyphen (n : str) : bool :=
  starts_with (lit "data-") n && match skipn 5 n with [] => false | _ => true end.

Definition ev_key (n : str) (final mut capture : bool) : str :=
  let b (x : bool) := if x then lit "1" else lit "0" in
  lit "v:" ++ n ++ lit ":" ++ b final ++ b mut ++ b capture.

Definition route (k : ekind) (raw : str) : option str :=
  match split_colon raw with
  | [n] =>
      if str_eqb n [] then None
      else if str_eqb n (lit "id") then Some (lit "i:")
      else if str_eqb n (lit "slot") then Some (lit "slot")
      else match k with
           | KView =>
               if str_eqb n (lit "class") then Some (lit "c:")
               else if str_eqb n (lit "style") then Some (lit "y:")
               else if is_data_hyphen n then Some (lit "d:" ++ data_hyphen_name n)
               else Some (lit "r:" ++ n)
           | KSlot =>
               if str_eqb n (lit "name") then Some (lit "slotname")
               else if is_data_hyphen n then Some (lit "d:" ++ data_hyphen_name n)
               else Some (lit "l:" ++ dash_to_camel n)
           end
  | [p; n] =>
      if str_eqb n [] then None
      else
        let view_only (r : str) := match k with KView => Some r | KSlot => None end in
        if str_eqb p (lit "model") then view_only (lit "r!:" ++ dash_to_camel n)
        else if str_eqb p (lit "change") then view_only (lit "p:" ++ dash_to_camel n)
        else if str_eqb p (lit "worklet") then view_only (lit "wl:" ++ dash_to_camel n)
        else if str_eqb p (lit "generic") then view_only (lit "g:" ++ n)
        else if str_eqb p (lit "extra-attr") then view_only (lit "a:" ++ n)
        else if str_eqb p (lit "data") then Some (lit "d:" ++ n)
        else if str_eqb p (lit "mark") then Some (lit "m:" ++ n)
        else if str_eqb p (lit "bind") then Some (ev_key n false false false)
        else if str_eqb p (lit "mut-bind") then Some (ev_key n false true false)
        else if str_eqb p (lit "catch") then Some (ev_key n true false false)
        else if str_eqb p (lit "capture-bind") then Some (ev_key n false false true)
        else if str_eqb p (lit "capture-mut-bind") then Some (ev_key n false true true)
        else if str_eqb p (lit "capture-catch") then Some (ev_key n true false true)
        else if str_eqb p (lit "slot") then Some (lit "sref:" ++ dash_to_camel n)
        else None
  | _ => None
  end.
