(* Model of proc_gen/expr.rs: Expression::to_proc_gen_rec (value text, hoisted `var $x=..`
   statements, path analysis), the update guard text (to_path_analysis_str) and l-value
   paths (is_legal_lvalue_path / to_lvalue_path_arr). Exact text. *)
From GE Require Export Model.Str Model.Lit Model.Hex Model.Escape Model.VarName Model.Expr Model.JsAst.

(* ---------- expression levels (stringify::expr::ExpressionLevel) ---------- *)
Definition L_Lit := 0. Definition L_Member := 1. Definition L_Unary := 2. Definition L_Multiply := 3.
Definition L_Plus := 4. Definition L_Shift := 5. Definition L_Comparison := 6. Definition L_Eq := 7.
Definition L_BitAnd := 8. Definition L_BitXor := 9. Definition L_BitOr := 10. Definition L_LogicAnd := 11.
Definition L_LogicOr := 12. Definition L_Cond := 13.

Definition binop_level (op : binop) : N :=
  match op with
  | BMul | BDiv | BRem => L_Multiply
  | BAdd | BSub => L_Plus
  | BShl | BShr | BUshr => L_Shift
  | BLt | BGt | BLe | BGe | BInstanceof => L_Comparison
  | BEq | BNe | BEqq | BNeq => L_Eq
  | BAnd => L_BitAnd
  | BXor => L_BitXor
  | BOr => L_BitOr
  | BLAnd => L_LogicAnd
  | BLOr => L_LogicOr
  | BNullish => L_Cond
  end.

(* proc_gen_expression_level *)
Definition pg_level (e : expr) : N :=
  match e with
  | EScope _ => L_Lit
  | EField _ => L_Member
  | EToStr _ => L_Member
  | EUndef | ENull | EStr _ | EInt _ | EFloat _ | EBool _ => L_Lit
  | EObj _ | EArr _ | EMember _ _ | EIndex _ _ | ECall _ _ => L_Member
  | EUn _ _ => L_Unary
  | EBin op _ _ => binop_level op
  | ECond _ _ _ => L_Cond
  end.

(* allowed level of the left / right operand of a binary operator, as written in to_proc_gen_rec *)
Definition binop_left_allow (op : binop) : N :=
  match op with
  | BMul | BDiv | BRem => L_Multiply
  | BAdd | BSub => L_Plus
  | BShl | BShr | BUshr => L_Shift
  | BLt | BGt | BLe | BGe | BInstanceof => L_Comparison
  | BEq | BNe | BEqq | BNeq => L_Eq
  | BAnd => L_BitAnd
  | BXor => L_BitXor
  | BOr => L_BitOr
  | BLAnd => L_LogicAnd
  | BLOr => L_LogicOr
  | BNullish => L_Cond
  end.
Definition binop_right_allow (op : binop) : N :=
  match op with
  | BMul | BDiv | BRem => L_Unary
  | BAdd | BSub => L_Multiply
  | BShl | BShr | BUshr => L_Plus
  | BLt | BGt | BLe | BGe | BInstanceof => L_Shift
  | BEq | BNe | BEqq | BNeq => L_Comparison
  | BAnd => L_Eq
  | BXor => L_BitAnd
  | BOr => L_BitXor
  | BLAnd => L_BitOr
  | BLOr => L_LogicAnd
  | BNullish => L_Cond
  end.

Definition binop_text (op : binop) : str :=
  match op with
  | BMul => lit "*" | BDiv => lit "/" | BRem => lit "%" | BAdd => lit "+" | BSub => lit "-"
  | BShl => lit "<<" | BShr => lit ">>" | BUshr => lit ">>>"
  | BLt => lit "<" | BGt => lit ">" | BLe => lit "<=" | BGe => lit ">=" | BInstanceof => lit " instanceof "
  | BEq => lit "==" | BNe => lit "!=" | BEqq => lit "===" | BNeq => lit "!=="
  | BAnd => lit "&" | BXor => lit "^" | BOr => lit "|" | BLAnd => lit "&&" | BLOr => lit "||"
  | BNullish => lit "??"   (* not used by the generator: `??` is emitted as a conditional *)
  end.
Definition unop_text (op : unop) : str :=
  match op with
  | UNot => lit "!" | UBitNot => lit "~" | UPos => lit " +" | UNeg => lit " -"
  | UTypeof => lit " typeof " | UVoid => lit " void "
  end.

(* ---------- scopes at generation time ---------- *)
Inductive lvkind :=
  | LvInvalid
  | LvVar (name : str) (from_data : bool)
  | LvScript (abs_path : str)
  | LvInline (path : str) (mod_name : str).
Record scope_var := { sv_var : str; sv_upt : option str; sv_lv : lvkind }.
Definition scope_nth (scopes : list scope_var) (i : nat) : scope_var :=
  nth i scopes {| sv_var := lit "?"; sv_upt := None; sv_lv := LvInvalid |}.

(* ---------- path slices ---------- *)
Inductive ptail := TStatic (s : str) | TIndirect (ident : str).
Inductive phead :=
  | HIdent (s : str)
  | HScope (i : nat)
  | HObj (fields : list (option str * pres))
  | HArr (items : list pres) (spread : list pres)
  | HCond (ident : str) (t f : pres)
with pres := PRes (p : option ppath) (subs : list ppath)       (* (PathAnalysisState, Vec<PathSliceList>) *)
with ppath := PPath (h : phead) (tail : list ptail).

Definition gls (s : str) : str := gen_lit_str (fun _ => false) s.
(* NOTE: identifiers / member names only contain [A-Za-z0-9_$], for which Rust's Debug never
   uses \u{..}; string literals inside expressions go through gen_lit_str with the observed
   escaping and are supplied pre-rendered by the dump (see EStr handling in the driver). *)

Section PathStr.
  Variable scopes : list scope_var.
  Variable is_template_data : bool.
  Variable lit_str : str -> str.   (* gen_lit_str as observed (escaping table of the implementation) *)

  (* to_path_analysis_str_group_prefix *)
  Definition group_prefix (strs : list str) : str :=
    match strs with
    | [] => []
    | [a] => lit "!!" ++ a ++ lit "||"
    | _ => lit "!!(" ++ join (lit "||") strs ++ lit ")||"
    end.

  Fixpoint path_str (p : ppath) : str :=
    match p with
    | PPath h tail =>
      let head :=
        match h with
        | HIdent s => lit "U." ++ s
        | HScope i => match sv_upt (scope_nth scopes i) with Some x => x | None => lit "undefined" end
        | HObj fields =>
            (* returns (prepend, s, need_object_assign, next_need_comma_sep) folded over fields *)
            let fix go (fs : list (option str * pres)) (prepend s : str) (need_assign next_comma : bool) {struct fs}
                : str * str * bool :=
              match fs with
              | [] => (prepend, s, need_assign)
              | (key, r) :: rest =>
                  match pres_str r with
                  | Some sub_s =>
                      match key with
                      | Some k => go rest prepend (s ++ (if next_comma then lit "," else []) ++ k ++ lit ":" ++ sub_s) need_assign true
                      | None => go rest (prepend ++ lit "(" ++ sub_s ++ lit ")===true||")
                                   (s ++ lit "},Q.c(" ++ sub_s ++ lit "),{") true false
                      end
                  | None => go rest prepend s need_assign next_comma
                  end
              end in
            let '(prepend, s, need_assign) := go fields [] [] false false in
            if is_template_data then
              (if need_assign then prepend ++ lit "Object.assign({" ++ s ++ lit "})"
               else prepend ++ lit "{" ++ s ++ lit "}")
            else
              (if need_assign then prepend ++ lit "Q.b(Object.assign({" ++ s ++ lit "}))"
               else prepend ++ lit "Q.b({" ++ s ++ lit "})")
        | HArr items spread =>
            let fix go_spread (l : list pres) : str :=
              match l with
              | [] => []
              | r :: rest => (match pres_str r with Some sub_s => lit "(" ++ sub_s ++ lit ")!==undefined||" | None => [] end)
                             ++ go_spread rest
              end in
            (* positional: an item without a path leaves a hole *)
            let fix go_items (l : list pres) (next_comma : bool) : str :=
              match l with
              | [] => []
              | r :: rest =>
                  (if next_comma then lit "," else []) ++
                  match pres_str r with
                  | Some s => s ++ go_items rest true
                  | None => go_items rest true
                  end
              end in
            go_spread spread ++ lit "Q.a([" ++ go_items items false ++ lit "])"
        | HCond ident t f =>
            lit "(" ++ ident ++ lit "?" ++
            (match pres_str t with Some s => s | None => lit "undefined" end) ++ lit ":" ++
            (match pres_str f with Some s => s | None => lit "undefined" end) ++ lit ")"
        end in
      fold_left (fun ret t => match t with
                              | TStatic s => lit "Z(" ++ ret ++ lit "," ++ lit_str s ++ lit ")"
                              | TIndirect i => lit "Z(" ++ ret ++ lit "," ++ i ++ lit ")"
                              end) tail head
    end
  (* PathAnalysisState::to_path_analysis_str : None = nothing written *)
  with pres_str (r : pres) : option str :=
    match r with
    | PRes p subs =>
        let fix subs_strs (l : list ppath) : list str :=
          match l with [] => [] | x :: rest => path_str x :: subs_strs rest end in
        let prefix := group_prefix (subs_strs subs) in
        match p with
        | Some path => Some (prefix ++ path_str path)
        | None => match subs with [] => None | _ => Some (prefix ++ lit "undefined") end
        end
    end.

  (* lvalue_state_expr *)
  Definition guard_str (r : pres) : str :=
    match pres_str r with Some s => s | None => lit "undefined" end.

  (* ---------- l-value paths ---------- *)
  Definition tail_all_ok (tail : list ptail) : bool := true.  (* every ptail is StaticMember/IndirectValue *)

  Fixpoint legal_lvalue (model : option bool) (p : ppath) : bool :=
    match p with
    | PPath h tail =>
        match h with
        | HIdent _ => negb (match model with Some false => true | _ => false end)
        | HScope i =>
            match sv_lv (scope_nth scopes i) with
            | LvInvalid => false
            | LvVar _ from_data =>
                match model with
                | Some m => negb ((m && negb from_data) || (negb m && from_data))
                | None => true
                end
            | LvScript _ | LvInline _ _ => negb (match model with Some true => true | _ => false end)
            end
        | HCond _ (PRes tp _) (PRes fp _) =>
            let tb := match tp with Some x => legal_lvalue model x | None => false end in
            let fb := match fp with Some x => legal_lvalue model x | None => false end in
            tb || fb
        | HObj _ | HArr _ _ => false
        end
    end.

  Definition tail_items (tail : list ptail) : list str :=
    map (fun t => match t with TStatic s => lit_str s | TIndirect i => i end) tail.

  (* the `br` closure of to_lvalue_path_arr: "[" items "]" (".slice(1)")? *)
  Definition lvalue_br (model : option bool) (p : ppath) : str :=
    match p with
    | PPath h tail =>
        let items := tail_items tail in
        let with_first (first : str) (need_slice : bool) :=
          lit "[" ++ join (lit ",") (first :: items) ++ lit "]" ++ (if need_slice then lit ".slice(1)" else []) in
        let failed := lit "[]" in   (* write_items returned early: "[" then "]" *)
        (* the path variable of a loop item is null at run time when the chosen list has no data path *)
        let nullable (name : str) (t : str) := lit "(" ++ name ++ lit "?" ++ t ++ lit ":null)" in
        match model with
        | Some true =>
            match h with
            | HIdent s => with_first (lit_str s) false
            | HScope i => match sv_lv (scope_nth scopes i) with
                          | LvVar name true => nullable name (with_first (lit "..." ++ name) true)
                          | LvVar name false => nullable name failed
                          | _ => failed
                          end
            | HCond _ _ _ => lit "[" ++ join (lit ",") items ++ lit "]"
            | _ => failed
            end
        | _ =>
            match h with
            | HIdent s => with_first (lit "0," ++ lit_str s) false
            | HScope i => match sv_lv (scope_nth scopes i) with
                          | LvInvalid => failed
                          | LvVar name _ => nullable name (with_first (lit "..." ++ name) false)
                          | LvScript abs => with_first (lit "1," ++ lit_str abs) false
                          | LvInline path m => with_first (lit "2," ++ lit_str path ++ lit "," ++ lit_str m) false
                          end
            | HCond _ _ _ => lit "[" ++ join (lit ",") items ++ lit "]"
            | _ => failed
            end
        end
    end.

  (* write_lvalue_path / to_lvalue_path_arr; returns (text, wrote_a_path) *)
  Fixpoint lvalue_path_p (model : option bool) (path : ppath) {struct path} : str * bool :=
    if legal_lvalue model path then
      match path with
      | PPath (HCond cond (PRes tp _) (PRes fp _)) tail =>
          let '(ts, tok) := match tp with Some x => lvalue_path_p model x | None => (lit "null", false) end in
          let '(fs, fok) := match fp with Some x => lvalue_path_p model x | None => (lit "null", false) end in
          match tail with
          | [] => (cond ++ lit "?" ++ ts ++ lit ":" ++ fs, true)
          | _ =>
              (* Q.e(path, rest): the rest appended to the path of the branch, `null` staying `null` *)
              let ext := lit "," ++ lvalue_br model path in
              (cond ++ lit "?Q.e(" ++ ts ++ (if tok then ext else []) ++ lit "):Q.e(" ++ fs ++ (if fok then ext else []) ++ lit ")", true)
          end
      | _ => (lvalue_br model path, true)
      end
    else (lit "null", false).

  Definition lvalue_path (model : option bool) (p : option ppath) : str * bool :=
    match p with Some path => lvalue_path_p model path | None => (lit "null", false) end.
End PathStr.

(* ---------- generation state ---------- *)
(* `hoists` is ghost information (it never reaches the emitted text): which expression each hoisted
   private variable was assigned; the soundness theorems of the path analysis use it *)
Record gst := { next_priv : N; stmts : list str; hoists : list (str * expr); hoists_js : list (str * jx) }.
Definition mk_gst (n : N) : gst := {| next_priv := n; stmts := []; hoists := []; hoists_js := [] |}.
Definition emit_stmt (st : gst) (s : str) : gst :=
  {| next_priv := next_priv st; stmts := stmts st ++ [s]; hoists := hoists st; hoists_js := hoists_js st |}.
Definition emit_hoist (st : gst) (ident : str) (e : expr) (text : str) (j : jx) : gst :=
  {| next_priv := next_priv st; stmts := stmts st ++ [lit "var " ++ ident ++ lit "=" ++ text];
     hoists := hoists st ++ [(ident, e)]; hoists_js := hoists_js st ++ [(ident, j)] |}.
Definition gen_private (st : gst) : str * gst :=
  (36 :: var_name (next_priv st),
   {| next_priv := next_priv st + 1; stmts := stmts st; hoists := hoists st; hoists_js := hoists_js st |}).

(* `g_js` is ghost: the emitted value as a tree (Model/JsAst.v); it never reaches the text *)
Record gout := { g_val : str; g_pas : option ppath; g_calc : list ppath; g_js : jx }.

Definition end_path (o : gout) : gout :=
  {| g_val := g_val o; g_pas := None;
     g_calc := g_calc o ++ match g_pas o with Some p => [p] | None => [] end; g_js := g_js o |}.

Definition push_tail (p : option ppath) (t : ptail) : option ppath :=
  match p with Some (PPath h tail) => Some (PPath h (tail ++ [t])) | None => None end.

Definition z_to_str (z : Z) : str :=
  match z with
  | Z0 => lit "0"
  | Zpos p => to_dec (Npos p)
  | Zneg p => 45 :: to_dec (Npos p)
  end.

Section Gen.
  Variable scopes : list scope_var.
  Variable lit_str : str -> str.

  Definition paren_if (b : bool) (s : str) : str := if b then lit "(" ++ s ++ lit ")" else s.

  Definition wrapg (allow lvl : N) (r : gst * gout) : gst * gout :=
    let '(st', o) := r in
    (st', {| g_val := paren_if (allow <? lvl) (g_val o); g_pas := g_pas o; g_calc := g_calc o;
             g_js := if allow <? lvl then JParen (g_js o) else g_js o |}).

  (* to_proc_gen_rec without the outer parenthesisation decision; a child printed at a position
     that allows level `allow` is `wrapg allow (pg_level child) (gen_core child st)`:
     the retry `self.to_proc_gen_rec(.., Cond, ..)` inside "(" ")" only changes the text. *)
  Fixpoint gen_core (e : expr) (st : gst) {struct e} : gst * gout :=
      match e with
      | EScope i =>
          let sc := scope_nth scopes i in
          let in_path :=
            match sv_lv sc with
            | LvScript _ | LvInline _ _ => true
            | LvInvalid | LvVar _ _ => match sv_upt sc with Some _ => true | None => false end
            end in
          (st, {| g_val := sv_var sc; g_pas := if in_path then Some (PPath (HScope i) []) else None; g_calc := [];
                   g_js := JScope i (sv_var sc) |})
      | EField x => (st, {| g_val := lit "D." ++ x; g_pas := Some (PPath (HIdent x) []); g_calc := []; g_js := JData x |})
      | EToStr v =>
          let '(st1, o1) := wrapg L_Cond (pg_level v) (gen_core v st) in
          let o1 := end_path o1 in
          (st1, {| g_val := lit "Y(" ++ g_val o1 ++ lit ")"; g_pas := None; g_calc := g_calc o1; g_js := JToStr (g_js o1) |})
      | EUndef => (st, {| g_val := lit "undefined"; g_pas := None; g_calc := []; g_js := JUndef |})
      | ENull => (st, {| g_val := lit "null"; g_pas := None; g_calc := []; g_js := JNull |})
      | EStr s => (st, {| g_val := lit_str s; g_pas := None; g_calc := []; g_js := JStr s |})
      | EInt z => (st, {| g_val := z_to_str z; g_pas := None; g_calc := []; g_js := JInt z |})
      | EFloat t => (st, {| g_val := if str_eqb t (lit "inf") then lit "Infinity" else t; g_pas := None; g_calc := []; g_js := JFloat t |})
      | EBool b => (st, {| g_val := if b then lit "true" else lit "false"; g_pas := None; g_calc := []; g_js := JBool b |})
      | EObj fs =>
          let '(st1, s, need_assign, subs) := gen_obj fs st [] false false [] in
          let v := if need_assign then lit "Object.assign({" ++ s ++ lit "})" else lit "{" ++ s ++ lit "}" in
          (st1, {| g_val := v; g_pas := Some (PPath (HObj subs) []); g_calc := []; g_js := JOpaque L_Member v |})
      | EArr fs =>
          let '(st1, s, need_concat, items, spread) := gen_arr fs st [] false false [] [] in
          let v := if need_concat then lit "[].concat([" ++ s ++ lit "])" else lit "[" ++ s ++ lit "]" in
          (st1, {| g_val := v; g_pas := Some (PPath (HArr items spread) []); g_calc := []; g_js := JOpaque L_Member v |})
      | EMember o k =>
          let '(st1, o1) := wrapg L_Cond (pg_level o) (gen_core o st) in
          (st1, {| g_val := lit "X(" ++ g_val o1 ++ lit ")." ++ k;
                   g_pas := push_tail (g_pas o1) (TStatic k); g_calc := g_calc o1; g_js := JMember (g_js o1) k |})
      | EIndex o k =>
          let '(ident, st0) := gen_private st in
          let '(st1, ok) := wrapg L_Cond (pg_level k) (gen_core k st0) in
          let ok := end_path ok in
          let st2 := emit_hoist st1 ident k (g_val ok) (g_js ok) in
          let '(st3, oo) := wrapg L_Cond (pg_level o) (gen_core o st2) in
          (st3, {| g_val := lit "X(" ++ g_val oo ++ lit ")[" ++ ident ++ lit "]";
                   g_pas := push_tail (g_pas oo) (TIndirect ident); g_calc := g_calc ok ++ g_calc oo;
                   g_js := JIndex (g_js oo) ident |})
      | ECall f args =>
          let '(st1, of) := wrapg L_Cond (pg_level f) (gen_core f st) in
          let of := end_path of in
          let '(st2, s, calc) := gen_args args st1 true in
          let v := lit "P(" ++ g_val of ++ lit ")(" ++ s ++ lit ")" in
          (st2, {| g_val := v; g_pas := None; g_calc := g_calc of ++ calc; g_js := JOpaque L_Member v |})
      | EUn op v =>
          let '(st1, o1) := wrapg L_Unary (pg_level v) (gen_core v st) in
          let o1 := end_path o1 in
          (st1, {| g_val := unop_text op ++ g_val o1; g_pas := None; g_calc := g_calc o1; g_js := JUn op (g_js o1) |})
      | EBin BNullish l r =>
          let '(ident, st0) := gen_private st in
          let '(st1, ol) := wrapg L_Cond (pg_level l) (gen_core l st0) in
          let ol := end_path ol in
          let st2 := emit_hoist st1 ident l (g_val ol) (g_js ol) in
          let '(st3, or) := wrapg L_Cond (pg_level r) (gen_core r st2) in
          let or := end_path or in
          (st3, {| g_val := ident ++ lit "!=null?" ++ ident ++ lit ":" ++ g_val or; g_pas := None;
                   g_calc := g_calc ol ++ g_calc or; g_js := JNullishVar ident (g_js or) |})
      | EBin op l r =>
          let '(st1, ol) := wrapg (binop_left_allow op) (pg_level l) (gen_core l st) in
          let ol := end_path ol in
          let '(st2, or) := wrapg (binop_right_allow op) (pg_level r) (gen_core r st1) in
          let or := end_path or in
          (st2, {| g_val := g_val ol ++ binop_text op ++ g_val or; g_pas := None; g_calc := g_calc ol ++ g_calc or;
                   g_js := JBin op (g_js ol) (g_js or) |})
      | ECond c t f =>
          let '(ident, st0) := gen_private st in
          let '(st1, oc) := wrapg L_Cond (pg_level c) (gen_core c st0) in
          let oc := end_path oc in
          let st2 := emit_hoist st1 ident c (g_val oc) (g_js oc) in
          let '(st3, ot) := wrapg L_Cond (pg_level t) (gen_core t st2) in
          let '(st4, of) := wrapg L_Cond (pg_level f) (gen_core f st3) in
          (st4, {| g_val := ident ++ lit "?" ++ g_val ot ++ lit ":" ++ g_val of;
                   g_pas := Some (PPath (HCond ident (PRes (g_pas ot) (g_calc ot)) (PRes (g_pas of) (g_calc of))) []);
                   g_calc := g_calc oc; g_js := JCondVar ident (g_js ot) (g_js of) |})
      end

  with gen_args (l : exprs) (st : gst) (first : bool) {struct l} : gst * str * list ppath :=
    match l with
    | XNil => (st, [], [])
    | XCons e r =>
        let '(st1, o) := wrapg L_Cond (pg_level e) (gen_core e st) in
        let o := end_path o in
        let '(st2, s, calc) := gen_args r st1 false in
        (st2, (if first then [] else lit ",") ++ g_val o ++ s, g_calc o ++ calc)
    end

  with gen_obj (l : ofields) (st : gst) (s : str) (need_assign next_comma : bool)
               (subs : list (option str * pres)) {struct l}
      : gst * str * bool * list (option str * pres) :=
    match l with
    | ONil => (st, s, need_assign, subs)
    | ONamed k v r =>
        let '(st1, o) := wrapg L_Cond (pg_level v) (gen_core v st) in
        gen_obj r st1 (s ++ (if next_comma then lit "," else []) ++ k ++ lit ":" ++ g_val o) need_assign true
                (subs ++ [(Some k, PRes (g_pas o) (g_calc o))])
    | OSpread v r =>
        let '(st1, o) := wrapg L_Cond (pg_level v) (gen_core v st) in
        gen_obj r st1 (s ++ lit "},X(" ++ g_val o ++ lit "),{") true false
                (subs ++ [(None, PRes (g_pas o) (g_calc o))])
    end

  with gen_arr (l : afields) (st : gst) (s : str) (need_concat next_comma : bool)
               (items spread : list pres) {struct l}
      : gst * str * bool * list pres * list pres :=
    match l with
    | ANil => (st, s, need_concat, items, spread)
    | ANormal v r =>
        let '(st1, o) := wrapg L_Cond (pg_level v) (gen_core v st) in
        let pr := PRes (g_pas o) (g_calc o) in
        let s' := s ++ (if next_comma then lit "," else []) ++ g_val o in
        match spread with
        | [] => gen_arr r st1 s' need_concat true (items ++ [pr]) spread
        | _ => gen_arr r st1 s' need_concat true items (spread ++ [pr])
        end
    | ASpread v r =>
        let '(st1, o) := wrapg L_Cond (pg_level v) (gen_core v st) in
        (* the operand goes through the helper Q.d (a string spreads into its characters) *)
        gen_arr r st1 (s ++ lit "],Q.d(" ++ g_val o ++ lit "),[") true false items (spread ++ [PRes (g_pas o) (g_calc o)])
    | AHole r =>
        let s' := s ++ (if next_comma then lit "," else []) ++ lit "," in
        match spread with
        | [] => gen_arr r st s' need_concat false (items ++ [PRes None []]) spread
        | _ => gen_arr r st s' need_concat false items (spread ++ [PRes None []])
        end
    end.

  Definition gen (e : expr) (allow : N) (st : gst) : gst * gout := wrapg allow (pg_level e) (gen_core e st).

  (* to_proc_gen_prepare: (statements emitted, value, result for guards / l-values) *)
  Definition prepare (e : expr) (st : gst) : gst * str * pres :=
    let '(st1, o) := gen e L_Cond st in
    (st1, g_val o, PRes (g_pas o) (g_calc o)).
End Gen.
