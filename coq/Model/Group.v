(* Model of group.rs emission order: the group is a HashMap (here: an association list in
   an ARBITRARY iteration order); every emit API iterates the entries sorted by key. *)
From GE Require Export Model.Str Model.BindingMap.
From Coq Require Export Permutation.

Section Group.
  Variable V : Type.

  (* HashMap::insert : replace the value of an existing key, else add *)
  Fixpoint hm_insert (k : str) (v : V) (m : list (str * V)) : list (str * V) :=
    match m with
    | [] => [(k, v)]
    | (k', v') :: r => if str_eqb k k' then (k, v) :: r else (k', v') :: hm_insert k v r
    end.
  Definition hm_build (ins : list (str * V)) : list (str * V) :=
    fold_left (fun m kv => hm_insert (fst kv) (snd kv) m) ins [].

  (* HashMap::extend (TmplGroup::import_group: `self.trees.extend(group.trees.clone())`): every entry of the other map is
     inserted, in that map's iteration order *)
  Definition hm_extend (m g : list (str * V)) : list (str * V) :=
    fold_left (fun m kv => hm_insert (fst kv) (snd kv) m) g m.
  Fixpoint hm_get (k : str) (m : list (str * V)) : option V :=
    match m with [] => None | (k', v) :: r => if str_eqb k k' then Some v else hm_get k r end.

  Fixpoint insert_by_key (x : str * V) (l : list (str * V)) : list (str * V) :=
    match l with
    | [] => [x]
    | y :: r => if str_ltb (fst x) (fst y) then x :: y :: r else y :: insert_by_key x r
    end.
  (* sort_by(|a, b| a.0.cmp(b.0)) on entries with distinct keys *)
  Definition sort_by_key (l : list (str * V)) : list (str * V) := fold_right insert_by_key [] l.

  (* what an emit API writes: one rendered item per entry, in key order; `iter_order` is
     the HashMap's iteration order (any permutation of the entries) *)
  Definition emit (render : str * V -> str) (iter_order : list (str * V) -> list (str * V))
             (m : list (str * V)) : list str :=
    map render (sort_by_key (iter_order m)).
End Group.
