(* Model of the attribute / text-node level of proc_gen/tag.rs: the statements emitted for
   one value (guard `C||K||..`, setter call, binding-map writer). Exact text. *)
From GE Require Export Model.ExprGen Model.BindingMap.

Section TagGen.
  Variable scopes : list scope_var.
  Variable lit_str : str -> str.

  Definition join_stmts (l : list str) : str := join (lit ";") l.

  (* BindingMapKeys::to_proc_gen_write_map: "A[k][i]=" per advertised key, then the function *)
  Definition write_map_prefix (b : bmc) (keys : list (str * N)) : str :=
    concat_str (map (fun k => if get_field b (fst k)
                              then lit "A[" ++ lit_str (fst k) ++ lit "][" ++ to_dec (snd k) ++ lit "]="
                              else []) keys).

  Definition attr_name_maybe_event_binding (n : str) : bool :=
    starts_with (lit "bind") n || starts_with (lit "capture-bind") n || starts_with (lit "catch") n
    || starts_with (lit "capture-catch") n || starts_with (lit "on") n.

  Inductive attr_kind := AkNormal | AkModel.

  (* the trailing l-value argument(s) of O(N,name,value...) *)
  Definition normal_attr_lvalue (kind : attr_kind) (name : str) (r : pres) : str :=
    match r with
    | PRes p _ =>
      match kind with
      | AkModel =>
          if (match p with Some path => legal_lvalue scopes (Some true) path | None => false end)
          then lit "," ++ fst (lvalue_path scopes lit_str (Some true) p) else []
      | AkNormal =>
          if attr_name_maybe_event_binding name then
            if (match p with Some path => legal_lvalue scopes (Some false) path | None => false end)
            then lit ",undefined," ++ fst (lvalue_path scopes lit_str (Some false) p) else []
          else []
      end
    end.

  (* NormalAttribute::to_proc_gen_as_normal for a dynamic value: the statements appended to
     the enclosing function body; `keys` = Some when a binding map is collected for the value *)
  Definition normal_attr_dynamic (kind : attr_kind) (name : str) (e : expr)
             (b : bmc) (keys : option (list (str * N))) (st : gst) : gst * list str :=
    let '(st1, v, r) := prepare scopes lit_str e (mk_gst (next_priv st)) in
    let main := lit "if(C||K||" ++ guard_str scopes false lit_str r ++ lit ")O(N," ++ lit_str name ++ lit ","
                ++ v ++ normal_attr_lvalue kind name r ++ lit ")" in
    let st_out := (mk_gst (next_priv st1)) in
    let bm :=
      match keys with
      | Some ks =>
          if keys_is_empty b ks then []
          else
            let '(st2, v2, r2) := prepare scopes lit_str e (mk_gst (next_priv st1)) in
            [write_map_prefix b ks ++ lit "(D,E,T)=>{" ++
             join_stmts (stmts st2 ++ [lit "O(N," ++ lit_str name ++ lit "," ++ v2 ++ normal_attr_lvalue kind name r2 ++ lit ")";
                                       lit "E(N)"]) ++ lit "}"]
      | None => []
      end in
    (st_out, stmts st1 ++ [main] ++ bm).

  (* write_attribute_value (class `L` / style `R.y` / id `R.i`) and Attribute::to_proc_gen_with_method (data-* `R.d` /
     mark `M`) for a dynamic value; `call` is the text of the call up to the value: `L(N,` or `R.d(N,"k",`.  The
     binding-map updater ends by reporting the element (`E(N)`): a component may only queue the change
     (fix 53ac0a3 for class / style / id) *)
  Definition setter_call (method : str) (name : option str) : str :=
    method ++ lit "(N," ++ match name with Some n => lit_str n ++ lit "," | None => [] end.

  Definition setter_dynamic (call : str) (e : expr) (b : bmc) (keys : option (list (str * N))) (st : gst)
    : gst * list str :=
    let '(st1, v, r) := prepare scopes lit_str e (mk_gst (next_priv st)) in
    let main := lit "if(C||K||" ++ guard_str scopes false lit_str r ++ lit ")" ++ call ++ v ++ lit ")" in
    let bm :=
      match keys with
      | Some ks =>
          if keys_is_empty b ks then []
          else
            let '(st2, v2, _) := prepare scopes lit_str e (mk_gst (next_priv st1)) in
            [write_map_prefix b ks ++ lit "(D,E,T)=>{" ++
             join_stmts (stmts st2 ++ [call ++ v2 ++ lit ")"; lit "E(N)"]) ++ lit "}"]
      | None => []
      end in
    (mk_gst (next_priv st1), stmts st1 ++ [main] ++ bm).

  (* EventBinding::to_proc_gen (`R.v(N,"tap",v,catch,mut,capture,!0[,script path])`) and
     NormalAttribute::to_proc_gen_as_change_property (`R.p(N,"p",v[,script path])`) for a dynamic value: the listener
     setters take effect at once, their updaters do not report the element *)
  Definition script_lvalue_tail (r : pres) : str :=
    match r with
    | PRes p _ =>
        if (match p with Some path => legal_lvalue scopes (Some false) path | None => false end)
        then lit "," ++ fst (lvalue_path scopes lit_str (Some false) p) else []
    end.

  Definition js_bool (b : bool) : str := if b then lit "!0" else lit "!1".
  Definition event_call_post (is_catch is_mut is_capture : bool) : str :=
    lit "," ++ js_bool is_catch ++ lit "," ++ js_bool is_mut ++ lit "," ++ js_bool is_capture ++ lit ",!0".

  Definition listener_dynamic (call_pre call_post : str) (e : expr) (b : bmc) (keys : option (list (str * N)))
             (st : gst) : gst * list str :=
    let '(st1, v, r) := prepare scopes lit_str e (mk_gst (next_priv st)) in
    let main := lit "if(C||K||" ++ guard_str scopes false lit_str r ++ lit ")" ++ call_pre ++ v ++ call_post
                ++ script_lvalue_tail r ++ lit ")" in
    let bm :=
      match keys with
      | Some ks =>
          if keys_is_empty b ks then []
          else
            let '(st2, v2, r2) := prepare scopes lit_str e (mk_gst (next_priv st1)) in
            [write_map_prefix b ks ++ lit "(D,E,T)=>{" ++
             join_stmts (stmts st2 ++ [call_pre ++ v2 ++ call_post ++ script_lvalue_tail r2 ++ lit ")"]) ++ lit "}"]
      | None => []
      end in
    (mk_gst (next_priv st1), stmts st1 ++ [main] ++ bm).

  (* text node with a dynamic value *)
  Definition text_dynamic (e : expr) (b : bmc) (keys : option (list (str * N))) (st : gst) : gst * list str :=
    let '(st1, v, r) := prepare scopes lit_str e (mk_gst (next_priv st)) in
    let bm :=
      match keys with
      | Some ks =>
          if keys_is_empty b ks then []
          else
            let '(st2, v2, _) := prepare scopes lit_str e (mk_gst (next_priv st1)) in
            lit ",(N)=>{" ++ write_map_prefix b ks ++ lit "(D,E,T)=>{" ++
            join_stmts (stmts st2 ++ [lit "T(N,Y(" ++ v2 ++ lit "))"]) ++ lit "}}"
      | None => []
      end in
    ((mk_gst (next_priv st1)),
     stmts st1 ++ [lit "C||K||" ++ guard_str scopes false lit_str r ++ lit "?T(Y(" ++ v ++ lit ")" ++ bm ++ lit "):T()"]).

  (* the `A={...}` initialiser *)
  Definition bmc_init (b : bmc) : str :=
    lit "Object.assign(Object.create(null),{" ++
    join (lit ",") (map (fun kv => lit_str (fst kv) ++ lit ":new Array(" ++ to_dec (snd kv) ++ lit ")") (list_fields b)) ++ lit "})".
End TagGen.
