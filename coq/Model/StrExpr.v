(* Model of stringify/expr.rs: the expression printer of the stringifier (exact text), with its
   level function and operand accept levels. *)
From GE Require Export Model.ExprGen Model.WxStr.

Definition sx_binop_level (op : binop) : N :=
  match op with BNullish => L_LogicOr | _ => binop_level op end.

(* ExpressionLevel::from_expression *)
Definition sx_level (e : expr) : N :=
  match e with
  | EScope _ | EField _ => L_Lit
  | EToStr _ => L_Member
  | EUndef | ENull | EStr _ | EInt _ | EFloat _ | EBool _ | EObj _ | EArr _ => L_Lit
  | EMember _ _ | EIndex _ _ | ECall _ _ => L_Member
  | EUn _ _ => L_Unary
  | EBin op _ _ => sx_binop_level op
  | ECond _ _ _ => L_Cond
  end.

(* accept levels handed to the operands, as written in expression_strigify_write *)
Definition sx_left (op : binop) : N := sx_binop_level op.
Definition sx_right (op : binop) : N :=
  match op with
  | BMul | BDiv | BRem => L_Unary
  | BAdd | BSub => L_Multiply
  | BShl | BShr | BUshr => L_Plus
  | BLt | BGt | BLe | BGe | BInstanceof => L_Shift
  | BEq | BNe | BEqq | BNeq => L_Comparison
  | BAnd => L_Eq
  | BXor => L_BitAnd
  | BOr => L_BitXor
  | BLAnd => L_BitOr
  | BLOr => L_LogicAnd
  | BNullish => L_LogicAnd
  end.

Definition sx_binop_text (op : binop) : str :=
  match op with BNullish => lit "??" | _ => binop_text op end.

Section SxPrint.
  Variable names : nat -> str.           (* scope names (plain or mangled) *)

  Definition sx_float (t : str) : str := if str_eqb t (lit "inf") then lit "1e999" else t.

  Definition is_shortcut (k : str) (v : expr) : bool :=
    match v with
    | EScope i => str_eqb (names i) k
    | EField x => str_eqb x k
    | _ => false
    end.

  Fixpoint sx_core (e : expr) : str :=
    let sub (c : expr) (accept : N) := paren_if (accept <? sx_level c) (sx_core c) in
    match e with
    | EScope i => names i
    | EField x => x
    | EToStr _ => lit "<illegal expression>"      (* panic!("illegal expression") : never reached by the tag printer *)
    | EUndef => lit "undefined"
    | ENull => lit "null"
    | EStr s => wx_lit_str s          (* str_literal: the escapes the expression parser reads back *)
    | EInt z => z_to_str z
    | EFloat t => sx_float t
    | EBool b => if b then lit "true" else lit "false"
    | EObj fs => lit "{" ++ sx_obj fs true ++ lit "}"
    | EArr fs => lit "[" ++ sx_arr fs true ++ lit "]"
    | EMember o k =>
        (match o with
         | EInt _ | EFloat _ => lit "(" ++ sx_core o ++ lit ")"
         | _ => sub o L_Member
         end) ++ lit "." ++ k
    | EIndex o k => sub o L_Member ++ lit "[" ++ sub k L_Cond ++ lit "]"
    | ECall f args => sub f L_Member ++ lit "(" ++ sx_args args true ++ lit ")"
    | EUn op v => unop_text op ++ sub v L_Unary
    | EBin op l r => sub l (sx_left op) ++ sx_binop_text op ++ sub r (sx_right op)
    | ECond c t f => sub c L_LogicOr ++ lit "?" ++ sub t L_Cond ++ lit ":" ++ sub f L_Cond
    end
  with sx_args (l : exprs) (first : bool) : str :=
    match l with
    | XNil => []
    | XCons e r => (if first then [] else lit ",") ++ paren_if (L_Cond <? sx_level e) (sx_core e) ++ sx_args r false
    end
  with sx_obj (l : ofields) (first : bool) : str :=
    match l with
    | ONil => []
    | ONamed k v r =>
        (if first then [] else lit ",") ++ k ++
        (if is_shortcut k v then [] else lit ":" ++ paren_if (L_Cond <? sx_level v) (sx_core v)) ++ sx_obj r false
    | OSpread v r =>
        (if first then [] else lit ",") ++ lit "..." ++ paren_if (L_Cond <? sx_level v) (sx_core v) ++ sx_obj r false
    end
  with sx_arr (l : afields) (first : bool) : str :=
    match l with
    | ANil => []
    | ANormal v r => (if first then [] else lit ",") ++ paren_if (L_Cond <? sx_level v) (sx_core v) ++ sx_arr r false
    | ASpread v r => (if first then [] else lit ",") ++ lit "..." ++ paren_if (L_Cond <? sx_level v) (sx_core v) ++ sx_arr r false
    | AHole r =>
        (if first then [] else lit ",") ++
        (match r with ANil => lit "," | _ => [] end) ++ sx_arr r false
    end.

  (* expression_strigify_write *)
  Definition sx_print (e : expr) (accept : N) : str := paren_if (accept <? sx_level e) (sx_core e).

  (* ---- Value::Dynamic printing (stringify/tag.rs, split_expression): mixed text is printed as
     text pieces and {{ }} pieces, any other expression as one binding ---- *)
  Definition is_template_ws (c : N) : bool := (c =? 32) || ((9 <=? c) && (c <=? 13)).

  Fixpoint is_text_piece (e : expr) : bool :=
    match e with
    | EToStr _ | EStr _ => true
    | EBin BAdd l r => is_text_piece l && is_text_piece r
    | _ => false
    end.

  (* a text piece: escaped; its trailing `{` is escaped as well when a `{` follows in the value (a binding, or a literal piece
     that starts with `{`) *)
  Definition text_piece (binding_follows : bool) (s : str) : str :=
    let t := escape_html_body s in
    if binding_follows then
      match rev t with
      | 123 :: r => rev r ++ lit "&#123;"
      | _ => t
      end
    else t.

  Definition binding (e : expr) : str := lit "{{" ++ sx_print e L_Cond ++ lit "}}".

  (* string literals only, all blank: as text the value would be dropped when parsed again *)
  Fixpoint is_blank_literals (e : expr) : bool :=
    match e with
    | EStr s => forallb is_template_ws s
    | EBin BAdd l r => is_blank_literals l && is_blank_literals r
    | _ => false
    end.

  (* whether the text printed for the pieces starts with `{` (a binding, or a literal that starts
     with `{`); None when nothing is printed for them *)
  Fixpoint starts_with_brace (e : expr) : option bool :=
    match e with
    | EToStr _ => Some true
    | EStr s => match s with c :: _ => Some (c =? 123) | [] => None end
    | EBin BAdd l r => match starts_with_brace l with Some b => Some b | None => starts_with_brace r end
    | _ => Some true
    end.

  Fixpoint sx_split (e : expr) (whole follows : bool) : str :=
    match e with
    | EStr s =>
        if whole && negb (match s with [] => true | _ => false end) && forallb is_template_ws s
        then binding e           (* a whitespace-only literal stays a binding *)
        else text_piece follows s
    | EToStr v => binding v
    | EBin BAdd l r =>
        if is_text_piece l && is_text_piece r && negb (whole && is_blank_literals e)
        then sx_split l false (match starts_with_brace r with Some b => b | None => follows end) ++ sx_split r false follows
        else binding e
    | _ => binding e
    end.

  Definition sx_value (e : expr) : str := sx_split e true false.
End SxPrint.
