(* Update-path trees and the DENOTATION of the path-analysis results of Model/ExprGen.v:
   what the emitted guard  C||K||<pres_str r>  evaluates to under a tree U, read off the
   structure (ppath / pres) the text is printed from.
     U.x            -> the child x of the root
     Z(a, k)        -> function(a,b){if(a===true)return true;if(a)return a[b]}
     !!(s1||..)||p  -> true when a sub-path is marked, else p
     ($c ? r1 : r2) -> the branch the hoisted condition selects
   A tree is undefined (UNone), true (UAll) or an object (UNode, children by key).
   Children are a function so that structural induction reaches them directly; `of_list`
   builds one from an association list for the executable correspondence. *)
From GE Require Export Model.Str Model.Lit Model.Expr Model.ExprGen Model.Val.

Inductive upt := UNone | UAll | UNode (children : str -> upt).

Definition utruthy (u : upt) : bool := match u with UNone => false | _ => true end.

(* Z(a, k) *)
Definition zchild (u : upt) (k : str) : upt :=
  match u with
  | UNone => UNone
  | UAll => UAll
  | UNode f => f k
  end.

Fixpoint of_list (l : list (str * upt)) : str -> upt :=
  fun k => match l with
           | [] => UNone
           | (k', u) :: r => if str_eqb k k' then u else of_list r k
           end.

(* null-safe property read lifted to "evaluation failed / outside the fragment" *)
Definition getp (a : option val) (k : str) : option val :=
  match a with Some x => get_prop x k | None => None end.

(* U covers the difference between two values: wherever the tree is undefined the values
   agree, and an object node constrains each property by the matching child. *)
Inductive covers : upt -> option val -> option val -> Prop :=
  | cov_all : forall a b, covers UAll a b
  | cov_none : forall a, covers UNone a a
  | cov_node : forall f a b, (forall k, covers (f k) (getp a k) (getp b k)) -> covers (UNode f) a b.

(* the property key a hoisted index value selects (strings and integers; anything else is
   outside the evaluation fragment) *)
Definition zkey (v : option val) : option str :=
  match v with
  | Some (VStr s) => Some s
  | Some (VNum z) => Some (z_to_js_str z)
  | _ => None
  end.

(* the property key JavaScript derives from a value: String(v) *)
Definition jskey (v : option val) : option str :=
  match v with Some x => to_js_string x | None => None end.

(* PathAnalysisState::to_path_analysis_str writes nothing for a result without any path *)
Definition pres_has (r : pres) : bool :=
  match r with PRes None [] => false | _ => true end.

(* {k1: t1, k2: t2, ...}[k] : the last field of that name *)
Fixpoint lookup_last (kt : list (str * upt)) (k : str) : upt :=
  match kt with
  | [] => UNone
  | (k', t) :: rest =>
      match existsb (fun x => str_eqb (fst x) k) rest with
      | true => lookup_last rest k
      | false => if str_eqb k' k then t else UNone
      end
  end.

Definition arr_child (ts : list upt) (k : str) : upt :=
  if str_eqb k (lit "length") then UAll
  else match index_of_key k with
       | Some i => match nth_N i ts with Some t => t | None => UNone end
       | None => UNone
       end.

Section Denote.
  Variable scopes : list scope_var.           (* generation-time scopes (for items, slot values, modules) *)
  Variable sval : str -> upt.                 (* values of the scopes' update-path variables, by name *)
  Variable root : str -> upt.                 (* U, an object in update mode *)
  Variable hv : str -> option val.            (* values of the hoisted variables *)

  (* the tree a scope variable is guarded by: its update-path variable, `undefined` when it has none *)
  Definition scope_tree (i : nat) : upt :=
    match sv_upt (scope_nth scopes i) with Some x => sval x | None => UNone end.

  Definition zstep (u : upt) (t : ptail) : upt :=
    match t with
    | TStatic k => zchild u k
    | TIndirect i =>
        (* a[String(k)]; Z(true, k) is true whatever the key *)
        match jskey (hv i) with
        | Some k => zchild u k
        | None => match u with UAll => UAll | _ => UNone end
        end
    end.

  Definition hv_truthy (i : str) : bool :=
    match hv i with Some v => truthy v | None => false end.

  Fixpoint upath (p : ppath) : upt :=
    match p with
    | PPath h tail => fold_left zstep tail (uhead h)
    end
  with uhead (h : phead) : upt :=
    match h with
    | HIdent x => root x
    | HCond i t f => if hv_truthy i then upres t else upres f
    | HScope i => scope_tree i
    | HObj fields =>
        (* Q.b({k: tree, ...}): the object itself when a value is truthy, else undefined. Fields
           without any path are not written. (Spreads: conservative, outside the fragment.) *)
        if existsb (fun f => match fst f with None => true | Some _ => false end) fields then UAll
        else
          let kt := (fix go (fs : list (option str * pres)) : list (str * upt) :=
                       match fs with
                       | [] => []
                       | (Some k, r) :: rest => (if pres_has r then [(k, upres r)] else []) ++ go rest
                       | (None, _) :: rest => go rest
                       end) fields in
          if existsb (fun x => utruthy (snd x)) kt then UNode (lookup_last kt) else UNone
    | HArr items spread =>
        (* Q.a([tree, , tree]): positional; `length` is a number (truthy, not a tree) *)
        match spread with
        | _ :: _ => UAll
        | [] =>
            let ts := (fix go (l : list pres) : list upt :=
                         match l with
                         | [] => []
                         | r :: rest => (if pres_has r then upres r else UNone) :: go rest
                         end) items in
            if existsb utruthy ts then UNode (arr_child ts) else UNone
        end
    end
  with upres (r : pres) : upt :=
    match r with
    | PRes p subs =>
        if (fix any (l : list ppath) : bool :=
              match l with [] => false | x :: rest => utruthy (upath x) || any rest end) subs
        then UAll
        else match p with Some q => upath q | None => UNone end
    end.

  Definition any_marked (l : list ppath) : bool := existsb (fun p => utruthy (upath p)) l.

  (* the guard  !!(subs)||path  is taken when this is true *)
  Definition guard_den (r : pres) : bool := utruthy (upres r).
End Denote.

(* the fragment of binding expressions the soundness theorem covers: data fields, scope variables, member and
   index access, literals, unary and binary operators (including ??), conditionals *)
Inductive frag : expr -> Prop :=
  | fr_field : forall x, frag (EField x)
  | fr_scope : forall i, frag (EScope i)
  | fr_undef : frag EUndef
  | fr_null : frag ENull
  | fr_str : forall s, frag (EStr s)
  | fr_int : forall z, frag (EInt z)
  | fr_float : forall t, frag (EFloat t)
  | fr_bool : forall b, frag (EBool b)
  | fr_tostr : forall v, frag v -> frag (EToStr v)
  | fr_member : forall o k, frag o -> frag (EMember o k)
  | fr_index : forall o k, frag o -> frag k -> frag (EIndex o k)
  | fr_un : forall op v, frag v -> frag (EUn op v)
  | fr_bin : forall op l r, frag l -> frag r -> frag (EBin op l r)
  | fr_cond : forall c t f, frag c -> frag t -> frag f -> frag (ECond c t f).

(* the larger fragment of the second soundness theorem: additionally object literals with named
   fields and array literals with plain items whose field values evaluate inside the value
   fragment under both data (Val.eval is partial: floats, calls ... are outside) *)
Section Frag2.
  Variable ev0 ev1 : env.
  Inductive frag2 : expr -> Prop :=
    | f2_field : forall x, frag2 (EField x)
    | f2_scope : forall i, frag2 (EScope i)
    | f2_undef : frag2 EUndef
    | f2_null : frag2 ENull
    | f2_str : forall s, frag2 (EStr s)
    | f2_int : forall z, frag2 (EInt z)
    | f2_float : forall t, frag2 (EFloat t)
    | f2_bool : forall b, frag2 (EBool b)
    | f2_tostr : forall v, frag2 v -> frag2 (EToStr v)
    | f2_member : forall o k, frag2 o -> frag2 (EMember o k)
    | f2_index : forall o k, frag2 o -> frag2 k -> frag2 (EIndex o k)
    | f2_un : forall op v, frag2 v -> frag2 (EUn op v)
    | f2_bin : forall op l r, frag2 l -> frag2 r -> frag2 (EBin op l r)
    | f2_cond : forall c t f, frag2 c -> frag2 t -> frag2 f -> frag2 (ECond c t f)
    | f2_obj : forall fs, frag2_o fs -> frag2 (EObj fs)
    | f2_arr : forall fs, frag2_a fs -> frag2 (EArr fs)
  with frag2_o : ofields -> Prop :=
    | f2o_nil : frag2_o ONil
    | f2o_named : forall k v r, frag2 v -> eval ev0 v <> None -> eval ev1 v <> None -> frag2_o r -> frag2_o (ONamed k v r)
  with frag2_a : afields -> Prop :=
    | f2a_nil : frag2_a ANil
    | f2a_normal : forall v r, frag2 v -> eval ev0 v <> None -> eval ev1 v <> None -> frag2_a r -> frag2_a (ANormal v r).
End Frag2.

Scheme frag2_mut := Induction for frag2 Sort Prop
  with frag2_o_mut := Induction for frag2_o Sort Prop
  with frag2_a_mut := Induction for frag2_a Sort Prop.

(* the hoisted variables hold the values of their expressions under the new data *)
Definition hv_ok (hoisted : list (str * expr)) (hv : str -> option val) (ev : env) : Prop :=
  forall i e, In (i, e) hoisted -> hv i = eval ev e.
