(* Update-path trees and the DENOTATION of the path-analysis results of Model/ExprGen.v:
   what the emitted guard  C||K||<pres_str r>  evaluates to under a tree U, read off the
   structure (ppath / pres) the text is printed from.
     U.x            -> the child x of the root
     Z(a, k)        -> function(a,b){if(a===true)return true;if(a)return a[b]}
     !!(s1||..)||p  -> true when a sub-path is marked, else p
     ($c ? r1 : r2) -> the branch the hoisted condition selects
   A tree is undefined (UNone), true (UAll) or an object (UNode, children by key).
   Children are a function so that structural induction reaches them directly; `of_list`
   builds one from an association list for the executable correspondence. *)
From GE Require Export Model.Str Model.Lit Model.Expr Model.ExprGen Model.Val.

Inductive upt := UNone | UAll | UNode (children : str -> upt).

Definition utruthy (u : upt) : bool := match u with UNone => false | _ => true end.

(* Z(a, k) *)
Definition zchild (u : upt) (k : str) : upt :=
  match u with
  | UNone => UNone
  | UAll => UAll
  | UNode f => f k
  end.

Fixpoint of_list (l : list (str * upt)) : str -> upt :=
  fun k => match l with
           | [] => UNone
           | (k', u) :: r => if str_eqb k k' then u else of_list r k
           end.

(* null-safe property read lifted to "evaluation failed / outside the fragment" *)
Definition getp (a : option val) (k : str) : option val :=
  match a with Some x => get_prop x k | None => None end.

(* U covers the difference between two values: wherever the tree is undefined the values
   agree, and an object node constrains each property by the matching child. *)
Inductive covers : upt -> option val -> option val -> Prop :=
  | cov_all : forall a b, covers UAll a b
  | cov_none : forall a, covers UNone a a
  | cov_node : forall f a b, (forall k, covers (f k) (getp a k) (getp b k)) -> covers (UNode f) a b.

(* the property key a hoisted index value selects (strings and integers; anything else is
   outside the evaluation fragment) *)
Definition zkey (v : option val) : option str :=
  match v with
  | Some (VStr s) => Some s
  | Some (VNum z) => Some (z_to_js_str z)
  | _ => None
  end.

(* the property key JavaScript derives from a value: String(v) *)
Definition jskey (v : option val) : option str :=
  match v with Some x => to_js_string x | None => None end.

Section Denote.
  Variable scopes : list scope_var.           (* generation-time scopes (for items, slot values, modules) *)
  Variable sval : str -> upt.                 (* values of the scopes' update-path variables, by name *)
  Variable root : str -> upt.                 (* U, an object in update mode *)
  Variable hv : str -> option val.            (* values of the hoisted variables *)

  (* the tree a scope variable is guarded by: its update-path variable, `undefined` when it has none *)
  Definition scope_tree (i : nat) : upt :=
    match sv_upt (scope_nth scopes i) with Some x => sval x | None => UNone end.

  Definition zstep (u : upt) (t : ptail) : upt :=
    match t with
    | TStatic k => zchild u k
    | TIndirect i =>
        (* a[String(k)]; Z(true, k) is true whatever the key *)
        match jskey (hv i) with
        | Some k => zchild u k
        | None => match u with UAll => UAll | _ => UNone end
        end
    end.

  Definition hv_truthy (i : str) : bool :=
    match hv i with Some v => truthy v | None => false end.

  Fixpoint upath (p : ppath) : upt :=
    match p with
    | PPath h tail => fold_left zstep tail (uhead h)
    end
  with uhead (h : phead) : upt :=
    match h with
    | HIdent x => root x
    | HCond i t f => if hv_truthy i then upres t else upres f
    | HScope i => scope_tree i
    | HObj _ | HArr _ _ => UAll                 (* outside the fragment: conservative *)
    end
  with upres (r : pres) : upt :=
    match r with
    | PRes p subs =>
        if (fix any (l : list ppath) : bool :=
              match l with [] => false | x :: rest => utruthy (upath x) || any rest end) subs
        then UAll
        else match p with Some q => upath q | None => UNone end
    end.

  Definition any_marked (l : list ppath) : bool := existsb (fun p => utruthy (upath p)) l.

  (* the guard  !!(subs)||path  is taken when this is true *)
  Definition guard_den (r : pres) : bool := utruthy (upres r).
End Denote.

(* the fragment of binding expressions the soundness theorem covers: data fields, scope variables, member and
   index access, literals, unary and binary operators (including ??), conditionals *)
Inductive frag : expr -> Prop :=
  | fr_field : forall x, frag (EField x)
  | fr_scope : forall i, frag (EScope i)
  | fr_undef : frag EUndef
  | fr_null : frag ENull
  | fr_str : forall s, frag (EStr s)
  | fr_int : forall z, frag (EInt z)
  | fr_float : forall t, frag (EFloat t)
  | fr_bool : forall b, frag (EBool b)
  | fr_tostr : forall v, frag v -> frag (EToStr v)
  | fr_member : forall o k, frag o -> frag (EMember o k)
  | fr_index : forall o k, frag o -> frag k -> frag (EIndex o k)
  | fr_un : forall op v, frag v -> frag (EUn op v)
  | fr_bin : forall op l r, frag l -> frag r -> frag (EBin op l r)
  | fr_cond : forall c t f, frag c -> frag t -> frag f -> frag (ECond c t f).

(* the hoisted variables hold the values of their expressions under the new data *)
Definition hv_ok (hoisted : list (str * expr)) (hv : str -> option val) (ev : env) : Prop :=
  forall i e, In (i, e) hoisted -> hv i = eval ev e.
