(* Model of glass-easel-stylesheet-compiler/src/output.rs (`StyleSheetOutput`):
   text buffer, `prev_ser_type`, running UTF-16 length, source-map entries.
   Every mutation of an output goes through `apply_op`; `o_toks` is a ghost token-level view of
   the text (separators and preserved spaces appear as `TWs " "`, raw segments carry the tokens
   they were built from) used to compare with the re-tokenised implementation output. *)
From GE Require Export Model.CssTok.
Open Scope N_scope.

Record entry := mkentry { e_dst_col : N; e_src : pos; e_name : option str }.

Inductive op :=
| OpRaw (s : str) (ghost : list tok)              (* append_raw *)
| OpTok (t : tok) (p : pos) (src : option tok)    (* append_token *)
| OpTokSP (t : tok) (p : pos) (src : option tok). (* append_token_space_preserved *)

Record ostate := mkout {
  o_chunks : list str;        (* text, as a reversed list of appended pieces *)
  o_utf16 : N;                (* `utf16_len` counter *)
  o_prev : sertype;           (* `prev_ser_type` *)
  o_entries : list entry;     (* source-map tokens, reversed *)
  o_toks : list tok;          (* ghost: emitted tokens, reversed *)
}.

Definition o_init : ostate := mkout [] 0 SNothing [] [].

Definition o_text (st : ostate) : str := concat (rev (o_chunks st)).

Definition sp : str := [32].

Definition push_text (st : ostate) (s : str) (ts : list tok) : ostate :=
  mkout (s :: o_chunks st) (o_utf16 st + utf16_length s) (o_prev st) (o_entries st)
        (rev_append ts (o_toks st)).

Definition set_prev (st : ostate) (t : sertype) : ostate :=
  mkout (o_chunks st) (o_utf16 st) t (o_entries st) (o_toks st).

Definition add_entry (st : ostate) (e : entry) : ostate :=
  mkout (o_chunks st) (o_utf16 st) (o_prev st) (e :: o_entries st) (o_toks st).

Definition append_raw (st : ostate) (s : str) (ghost : list tok) : ostate :=
  push_text (set_prev st SNothing) s ghost.

Definition append_token (st : ostate) (t : tok) (p : pos) (src : option tok) : ostate :=
  let st1 := if needs_separator (o_prev st) (ser_type t)
             then mkout (sp :: o_chunks st) (o_utf16 st + 1) (o_prev st) (o_entries st)
                        (TWs sp :: o_toks st)
             else st in
  let st2 := set_prev st1 (ser_type t) in
  let st3 := add_entry st2 (mkentry (o_utf16 st2) p (option_map ser_tok src)) in
  push_text st3 (ser_tok t) [t].

Definition append_token_sp (st : ostate) (t : tok) (p : pos) (src : option tok) : ostate :=
  match t with
  | TWs _ =>
      mkout (sp :: o_chunks st) (o_utf16 st + 1) SWhiteSpace (o_entries st) (TWs sp :: o_toks st)
  | _ => append_token st t p src
  end.

Definition apply_op (st : ostate) (o : op) : ostate :=
  match o with
  | OpRaw s g => append_raw st s g
  | OpTok t p src => append_token st t p src
  | OpTokSP t p src => append_token_sp st t p src
  end.

Definition run_ops (ops : list op) : ostate := fold_left apply_op ops o_init.

(* `cur_utf8_len` is used only as a mark for `get_output_segment(mark..cur)`; the model marks by
   the number of pieces, which denotes the same suffix because the text only grows by appending *)
Definition o_mark (st : ostate) : nat * nat := (length (o_chunks st), length (o_toks st)).

Definition segment_since (st : ostate) (mark : nat * nat) : str * list tok :=
  (concat (rev (firstn (length (o_chunks st) - fst mark) (o_chunks st))),
   rev (firstn (length (o_toks st) - snd mark) (o_toks st))).

Definition o_tokens (st : ostate) : list tok := rev (o_toks st).
Definition o_map (st : ostate) : list entry := rev (o_entries st).
