(* ASCII string literals as code-point lists: `lit "abc"`. *)
From Coq Require Export String Ascii.
From GE Require Export Model.Str.

Definition lit (s : string) : str := List.map N_of_ascii (list_ascii_of_string s).

Fixpoint concat_str (l : list str) : str :=
  match l with [] => [] | a :: r => a ++ concat_str r end.
