(* C10 — rpx conversion is arithmetically right; other numbers keep their value. Pinned statements.
   The f32 operations and the decimal printer are transliterated dependency code
   (Model/CssNum.v), tied to the binaries by differential testing only. *)
From GE Require Import Model.Str Model.CssNum Model.CssTok Model.CssOut Model.CssUrlEnc Model.Css.
From GE Require Import Model.CssSpec Proofs.CssNumProofs Proofs.CssSpecProofs Proofs.CssTokProofs Proofs.CssShapeProofs Proofs.CssSheetShape.
From Coq Require Import ZArith.
Open Scope N_scope.

Theorem C10_rpx_only : forall o st n u p,
  str_eqb u [114; 112; 120] = false -> write_maybe_rpx_dimension o st n u p = tok_at st (TDim n u) p None.
Proof. exact rpx_only. Qed.
Print Assumptions C10_rpx_only.

Theorem C10_rpx_formula : forall o st n p,
  write_maybe_rpx_dimension o st n [114; 112; 120] p =
  tok_at st (TDim (mknum (n_sign n)
                         (rpx_new_int (f_div (f_mul (n_bits n) f_100) (rpx_ratio o)))
                         (f_div (f_mul (n_bits n) f_100) (rpx_ratio o)) []) [118; 119])
         p (Some (TDim n [114; 112; 120])).
Proof. exact rpx_formula. Qed.
Print Assumptions C10_rpx_formula.

(* integers exactly, over the i32 range: refuted (6-significant-digit printing, D16) *)
Theorem C10_int_exact_refuted : ~ C10_int_exact_full.
Proof. exact int_exact_refuted. Qed.
Print Assumptions C10_int_exact_refuted.

(* bounded part obtained by evaluating the model on every value: 0 .. 100000 *)
Theorem C10_int_exact_upto_100000 : forall i : Z, (0 <= i <= 100000)%Z -> int_prints_exactly i = true.
Proof. exact int_exact_upto_100000. Qed.
Print Assumptions C10_int_exact_upto_100000.

(* "wherever it occurs ... at-rule preludes": refuted for a dimension directly in the prelude of an
   at-rule (`@a 75rpx;` stays `75rpx`; known finding D29, pinned by the unit test
   transform_rpx_in_simple_at_rules): the sheet is well-formed, lies in class 29 only, and the model
   of the code does not conform to the specification, which wants `10vw` *)
Theorem C10_prelude_rpx_refuted :
  wf_tree plain d29_tree = true /\ model_conforms plain d29_tree (P 0 9) = false /\
  known plain d29_tree = [K29] /\
  map ser_tok (o_tokens (w_normal (transform plain d29_tree (P 0 9)))) = [[64;97]; [32]; [55;53;114;112;120]; [59]] /\
  map (fun e => ser_tok (e_tok e)) (so_normal (expected plain d29_tree)) = [[64;97]; [49;48;118;119]; [59]].
Proof. exact prelude_rpx_refuted_d29. Qed.
Print Assumptions C10_prelude_rpx_refuted.

(* "Every dimension with unit rpx, wherever it occurs ... and no other unit is converted": the unit of every dimension of
   the whole normal output is the specification's - `vw` exactly for the `rpx` dimensions of declaration values, functions,
   blocks of selectors and of at-rule preludes (media / container / supports conditions), custom properties, @import
   conditions; unchanged everywhere else - for every sheet and option set, outside class D29 (above).  Shapes carry the unit
   (CssSpec.tok_shape keeps it and forgets the value, which C10_rpx_formula gives). *)
Theorem C10_units_exact_sheet : forall o tree endp,
  shaped tree = true -> k29_list tree = false ->
  so_complete (expected o tree) = true ->
  shp (o_tokens (w_normal (transform o tree endp))) = shp (map e_tok (so_normal (expected o tree))).
Proof. exact shape_exact_sheet. Qed.
Print Assumptions C10_units_exact_sheet.
