(* C10 — rpx conversion is arithmetically right; other numbers keep their value. Pinned statements.
   The f32 operations and the decimal printer are transliterated dependency code
   (Model/CssNum.v), tied to the binaries by differential testing only. *)
From GE Require Import Model.Str Model.CssNum Model.CssTok Model.CssOut Model.CssUrlEnc Model.Css.
From GE Require Import Proofs.CssNumProofs.
From Coq Require Import ZArith.
Open Scope N_scope.

Theorem C10_rpx_only : forall o st n u p,
  str_eqb u [114; 112; 120] = false -> write_maybe_rpx_dimension o st n u p = tok_at st (TDim n u) p None.
Proof. exact rpx_only. Qed.
Print Assumptions C10_rpx_only.

Theorem C10_rpx_formula : forall o st n p,
  write_maybe_rpx_dimension o st n [114; 112; 120] p =
  tok_at st (TDim (mknum (n_sign n)
                         (rpx_new_int (f_div (f_mul (n_bits n) f_100) (rpx_ratio o)))
                         (f_div (f_mul (n_bits n) f_100) (rpx_ratio o)) []) [118; 119])
         p (Some (TDim n [114; 112; 120])).
Proof. exact rpx_formula. Qed.
Print Assumptions C10_rpx_formula.

(* integers exactly, over the i32 range: refuted (6-significant-digit printing, D16) *)
Theorem C10_int_exact_refuted : ~ C10_int_exact_full.
Proof. exact int_exact_refuted. Qed.
Print Assumptions C10_int_exact_refuted.

(* bounded part obtained by evaluating the model on every value: 0 .. 100000 *)
Theorem C10_int_exact_upto_100000 : forall i : Z, (0 <= i <= 100000)%Z -> int_prints_exactly i = true.
Proof. exact int_exact_upto_100000. Qed.
Print Assumptions C10_int_exact_upto_100000.
