(* C09 — class prefixing hits every class selector and nothing else. Pinned statements. *)
From GE Require Import Model.Str Model.CssNum Model.CssTok Model.CssOut Model.CssUrlEnc Model.Css Model.CssSpec.
From GE Require Import Proofs.CssSpecProofs Proofs.CssTokProofs.
Open Scope N_scope.

(* "nothing else", for every token tree and every option set without @import / :host rewriting:
   every output token that is not an identifier and not a dimension is an unchanged input token
   (ids, attribute selectors and values, pseudo names, strings, hashes, numbers, percentages ...);
   an identifier is either unchanged or `<prefix>--<itself>`; without a prefix nothing changes *)
Theorem C09_prefix_nothing_else : forall o tree endp,
  shaped tree = true -> import_sign o = None -> convert_host o = false ->
  Forall2 (tok_rel o) (strip (flatten tree)) (strip (o_tokens (w_normal (transform o tree endp)))).
Proof. intros o tree endp H0 H1 H2. exact (proj1 (tokens_preserved o tree endp H0 H1 H2)). Qed.
Print Assumptions C09_prefix_nothing_else.

Theorem C09_tok_rel_not_ident : forall o a b,
  tok_rel o a b -> (forall s, a <> TIdent s) -> (forall n u, a <> TDim n u) -> b = a.
Proof. exact tok_rel_not_ident. Qed.
Print Assumptions C09_tok_rel_not_ident.

Theorem C09_prefix_none_identity : forall o st s p in_class,
  class_prefix o = None -> class_prefix_sign o = None ->
  write_maybe_class_name o st s p in_class = tok_sp st (TIdent s) p None.
Proof. exact prefix_none_identity. Qed.
Print Assumptions C09_prefix_none_identity.

Theorem C09_prefix_only_after_dot : forall o st s p,
  write_maybe_class_name o st s p false = tok_sp st (TIdent s) p None.
Proof. exact prefix_only_after_dot. Qed.
Print Assumptions C09_prefix_only_after_dot.

Theorem C09_prefix_form : forall o st s p pre,
  class_prefix o = Some pre ->
  write_maybe_class_name o st s p true =
  tok_sp (match class_prefix_sign o with Some c => tok_at st (TComment c) p None | None => st end)
         (TIdent (pre ++ [45; 45] ++ s)) p (Some (TIdent s)).
Proof. exact prefix_form. Qed.
Print Assumptions C09_prefix_form.

(* "every class selector and nothing else", whole sheet: still refuted, now by D25
   (`@import 'a' layer(b.t)` prefixes the layer name); the former witness `.a:not(:is(.b .c))` (D13)
   satisfies the statement since fix f5fc923 (Example prefix_exact_former_d13) *)
Theorem C09_prefix_exact_refuted : ~ C09_prefix_exact_full.
Proof. exact prefix_exact_refuted. Qed.
Print Assumptions C09_prefix_exact_refuted.
