(* C09 — class prefixing hits every class selector and nothing else. Pinned statements. *)
From GE Require Import Model.Str Model.CssNum Model.CssTok Model.CssOut Model.CssUrlEnc Model.Css Model.CssSpec.
From GE Require Import Proofs.CssSpecProofs Proofs.CssTokProofs Proofs.CssClassProofs Proofs.CssSheetClass.
Open Scope N_scope.

(* "nothing else", for every token tree and every option set without @import / :host rewriting:
   every output token that is not an identifier and not a dimension is an unchanged input token
   (ids, attribute selectors and values, pseudo names, strings, hashes, numbers, percentages ...);
   an identifier is either unchanged or `<prefix>--<itself>`; without a prefix nothing changes *)
Theorem C09_prefix_nothing_else : forall o tree endp,
  shaped tree = true -> import_sign o = None -> convert_host o = false ->
  Forall2 (tok_rel o) (strip (flatten tree)) (strip (o_tokens (w_normal (transform o tree endp)))).
Proof. intros o tree endp H0 H1 H2. exact (proj1 (tokens_preserved o tree endp H0 H1 H2)). Qed.
Print Assumptions C09_prefix_nothing_else.

Theorem C09_tok_rel_not_ident : forall o a b,
  tok_rel o a b -> (forall s, a <> TIdent s) -> (forall n u, a <> TDim n u) -> b = a.
Proof. exact tok_rel_not_ident. Qed.
Print Assumptions C09_tok_rel_not_ident.

Theorem C09_prefix_none_identity : forall o st s p in_class,
  class_prefix o = None -> class_prefix_sign o = None ->
  write_maybe_class_name o st s p in_class = tok_sp st (TIdent s) p None.
Proof. exact prefix_none_identity. Qed.
Print Assumptions C09_prefix_none_identity.

Theorem C09_prefix_only_after_dot : forall o st s p,
  write_maybe_class_name o st s p false = tok_sp st (TIdent s) p None.
Proof. exact prefix_only_after_dot. Qed.
Print Assumptions C09_prefix_only_after_dot.

Theorem C09_prefix_form : forall o st s p pre,
  class_prefix o = Some pre ->
  write_maybe_class_name o st s p true =
  tok_sp (match class_prefix_sign o with Some c => tok_at st (TComment c) p None | None => st end)
         (TIdent (pre ++ [45; 45] ++ s)) p (Some (TIdent s)).
Proof. exact prefix_form. Qed.
Print Assumptions C09_prefix_form.

(* "every class selector", at every nesting depth: for EVERY prelude of a qualified rule (blocks and
   functions nested arbitrarily, comments anywhere; no `{}` at its top level) and every declaration
   block, the identifiers and sign comments written to the normal output are exactly those the
   specification demands (CssSpec.sel_spec / val_spec): each identifier directly after a `.` in
   selector context is `<prefix>--<name>` (preceded by the sign comment), every other one unchanged *)
Theorem C09_class_exact_rule : forall o prelude pb body e c rest st,
  shaped prelude = true -> shaped body = true -> no_curly prelude = true -> w_using_low st = false ->
  idc (o_tokens (w_normal (snd (qr_loop o (prelude ++ Block TCurly pb body e c :: rest) false false st)))) =
  idc (o_tokens (w_normal st)) ++
  idc (map e_tok (sel_spec o false prelude true false false false ++
                  [mke GFree TCurly] ++ val_spec o false body None false ++ [mke GFree TCloseCurly])).
Proof. exact class_exact_rule_normal. Qed.
Print Assumptions C09_class_exact_rule.

(* WHOLE SHEETS (every size, every nesting depth of at-rules, selector functions and blocks) and EVERY OPTION SET
   (class prefix, sign, import sign, host conversion): on every well-shaped token tree whose rules the specification finds
   complete (each has its `;` or `{}` terminator, each `@import` with a sign is one the specification accepts), the
   identifiers and comments of the normal output are exactly the specification's: every identifier directly after a `.`
   in selector context - qualified-rule preludes, blocks of at-rule preludes, every depth of selector functions, every rule
   inside every rule-bearing at-rule, the `supports(..)` / media conditions of an `@import` - is `<prefix>--<name>` preceded
   by the sign comment; layer names are not touched; the import placeholder comment stands where the specification puts
   it; `:host` rules (pure or combined) contribute nothing to the normal output; nothing else is touched or added.
   Composition of C09_class_exact_rule over rule splitting, at-rule preludes, nested rule lists, the @import walkers and
   the :host classification (Proofs/CssSheetClass.v, lockstep induction on the fuel) *)
Theorem C09_class_exact_sheet : forall o tree endp,
  shaped tree = true ->
  so_complete (expected o tree) = true ->
  idc (o_tokens (w_normal (transform o tree endp))) = idc (map e_tok (so_normal (expected o tree))).
Proof. exact class_exact_sheet. Qed.
Print Assumptions C09_class_exact_sheet.

(* the hypotheses are inhabited by a sheet with nested at-rules and selector functions, and by the former D25 witness
   (an @import with a sign, a layer(a.b) condition and a class prefix) *)
Example C09_class_exact_sheet_inhabited_import :
  shaped d25_tree = true /\ so_complete (expected d25_opts d25_tree) = true /\ import_sign d25_opts <> None.
Proof. vm_compute. repeat split; discriminate. Qed.

(* the hypotheses are inhabited by a sheet with nested at-rules and selector functions *)
Example C09_class_exact_sheet_inhabited :
  shaped d14_tree = true /\ so_complete (expected with_prefix d14_tree) = true /\
  map ser_tok (idc (o_tokens (w_normal (transform with_prefix d14_tree (mkpos 0 17))))) = [[120]; [112;45;45;97]; [112;45;45;98]].
Proof. vm_compute. repeat split; reflexivity. Qed.

(* history: the whole-sheet statement was refuted by D13 and then by D25 (layer names prefixed); both are repaired, both
   former witnesses satisfy it, and it is now the theorem above *)
Theorem C09_former_witnesses_now_exact :
  (map ser_tok (idents (o_tokens (w_normal (transform with_prefix d13_tree (mkpos 0 20))))) =
   map ser_tok (idents (map e_tok (so_normal (expected with_prefix d13_tree))))) /\
  (map ser_tok (idents (o_tokens (w_normal (transform d25_opts d25_tree (mkpos 0 23))))) =
   map ser_tok (idents (map e_tok (so_normal (expected d25_opts d25_tree))))).
Proof. split; [exact prefix_exact_former_d13 | apply former_d25_now_conforms]. Qed.
Print Assumptions C09_former_witnesses_now_exact.
