(* C02 — emitted JavaScript is syntactically valid: identifier and literal level theorems.
   (Whole-artefact validity is decided by translation validation under node; see DESIGN.md.) *)
From GE Require Import Model.Str Model.VarName Model.JsLex Model.Escape Proofs.VarNameProofs Proofs.EscapeProofs.

Theorem C02_var_name_valid : forall id, is_identifier_name (var_name id) = true.
Proof. exact var_name_valid. Qed.
Print Assumptions C02_var_name_valid.

Theorem C02_var_name_injective : forall a b, var_name a = var_name b -> a = b.
Proof. exact var_name_injective. Qed.
Print Assumptions C02_var_name_injective.

Theorem C02_var_name_not_runtime : forall id, 26 <= id -> forall c, is_upper c = true -> var_name id <> [c].
Proof. exact var_name_not_runtime. Qed.
Print Assumptions C02_var_name_not_runtime.

(* the allocator always terminates within its fuel, never returns a reserved word or a
   name in the forbidden list, and returns a valid identifier *)
Theorem C02_alloc_total : forall id, exists name id', alloc id = Some (name, id').
Proof. exact alloc_total. Qed.
Print Assumptions C02_alloc_total.

Theorem C02_alloc_not_reserved : forall id name id', alloc id = Some (name, id') -> ~ In name js_reserved.
Proof. exact alloc_not_reserved. Qed.
Print Assumptions C02_alloc_not_reserved.

Theorem C02_alloc_valid : forall id name id', alloc id = Some (name, id') -> is_identifier_name name = true.
Proof. exact alloc_valid. Qed.
Print Assumptions C02_alloc_valid.

Theorem C02_alloc_fresh : forall id1 n1 id1' id2 n2 id2',
  alloc id1 = Some (n1, id1') -> alloc id2 = Some (n2, id2') -> id1' <= id2 -> n1 <> n2.
Proof. exact alloc_fresh. Qed.
Print Assumptions C02_alloc_fresh.

(* the raw counter does reach reserved words (what the repaired defect was) *)
Theorem C02_raw_counter_reaches_reserved : In (var_name 2218) js_reserved.
Proof. vm_compute. tauto. Qed.
Print Assumptions C02_raw_counter_reaches_reserved.

(* every embedded string constant is a strict-mode string literal *)
Theorem C02_lit_str_is_string_literal : forall (esc_u : N -> bool) (s rest : str),
  Forall (fun c => c < 1114112) s ->
  exists v, js_string_decode (gen_lit_str esc_u s ++ rest) = Some (v, rest).
Proof. intros e s r H. exists s. now apply lit_str_roundtrip. Qed.
Print Assumptions C02_lit_str_is_string_literal.
