(* C03 — binding expressions evaluate with JavaScript semantics. Pinned statements. *)
From GE Require Import Model.Str Model.Lit Model.Expr Model.ExprGen Proofs.ExprGenProofs.

(* the generator's operand-level tables are exactly those of the stratified ECMAScript grammar
   (left-associative: same level on the left, one level tighter on the right) *)
Theorem C03_tables_ok : forall op, op <> BNullish -> table_ok op = true.
Proof. exact tables_ok. Qed.
Print Assumptions C03_tables_ok.

(* the table before the repair of `(a|b)^c` does not satisfy the condition *)
Theorem C03_legacy_xor_table_refuted : (legacy_left_allow BXor =? binop_level BXor) = false.
Proof. exact legacy_table_refuted. Qed.
Print Assumptions C03_legacy_xor_table_refuted.

(* parenthesisation decision: an operand is wrapped exactly when its level is looser than
   the position allows, and wrapping changes nothing else *)
Theorem C03_gen_paren_decision : forall scopes lit_str e allow st,
  let '(st1, o1) := gen scopes lit_str e allow st in
  let '(st2, o2) := gen scopes lit_str e L_Cond st in
  st1 = st2 /\ g_pas o1 = g_pas o2 /\ g_calc o1 = g_calc o2 /\
  g_val o1 = paren_if (allow <? pg_level e) (g_val o2).
Proof. exact gen_paren_decision. Qed.
Print Assumptions C03_gen_paren_decision.
