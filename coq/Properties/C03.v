(* C03 — binding expressions evaluate with JavaScript semantics. Pinned statements. *)
From GE Require Import Model.Str Model.Lit Model.Expr Model.ExprGen Proofs.ExprGenProofs.

(* the generator's operand-level tables are exactly those of the stratified ECMAScript grammar
   (left-associative: same level on the left, one level tighter on the right) *)
Theorem C03_tables_ok : forall op, op <> BNullish -> table_ok op = true.
Proof. exact tables_ok. Qed.
Print Assumptions C03_tables_ok.

(* the table before the repair of `(a|b)^c` does not satisfy the condition *)
Theorem C03_legacy_xor_table_refuted : (legacy_left_allow BXor =? binop_level BXor) = false.
Proof. exact legacy_table_refuted. Qed.
Print Assumptions C03_legacy_xor_table_refuted.

(* parenthesisation decision: an operand is wrapped exactly when its level is looser than
   the position allows, and wrapping changes nothing else *)
Theorem C03_gen_paren_decision : forall scopes lit_str e allow st,
  let '(st1, o1) := gen scopes lit_str e allow st in
  let '(st2, o2) := gen scopes lit_str e L_Cond st in
  st1 = st2 /\ g_pas o1 = g_pas o2 /\ g_calc o1 = g_calc o2 /\
  g_val o1 = paren_if (allow <? pg_level e) (g_val o2).
Proof. exact gen_paren_decision. Qed.
Print Assumptions C03_gen_paren_decision.

(* ---- the emitted value expression as a tree (ghost field g_js of the generator model) ---- *)
From GE Require Import Model.JsSem Model.Upt Proofs.JsGenProofs Proofs.JsHoistProofs.

(* T1: for EVERY expression form, the tree prints to exactly the text the generator emits *)
Theorem C03_emitted_text_is_tree : forall scopes lit_str e st,
  print_js lit_str (g_js (snd (gen_core scopes lit_str e st))) = g_val (snd (gen_core scopes lit_str e st)).
Proof. exact text_twin. Qed.
Print Assumptions C03_emitted_text_is_tree.

(* T2: in that tree every operand of a unary / binary operator has a grammar level the
   ECMAScript production admits at its position, or is parenthesised (nn: integer literals carry
   no sign, as the scanner produces them) *)
Theorem C03_emitted_respects_precedence : forall scopes lit_str e st,
  nn e -> wf_prec (g_js (snd (gen_core scopes lit_str e st))).
Proof. exact emitted_respects_precedence. Qed.
Print Assumptions C03_emitted_respects_precedence.

(* T3 + T4: for every expression of the fragment (data fields, scope variables, member / index
   access, literals, unary and binary operators incl. && || ??, conditionals, string conversion),
   running the hoisted `var` statements in order from ANY initial values and then evaluating the
   emitted tree yields the value of the source expression *)
Theorem C03_compile_correct : forall scopes lit_str ev e n henv0, frag e ->
  let r := gen_core scopes lit_str e (mk_gst n) in
  jeval ev (run_hoists ev (hoists_js (fst r)) henv0) (g_js (snd r)) = eval ev e.
Proof. exact compile_correct. Qed.
Print Assumptions C03_compile_correct.

(* non-vacuity: a binding with a hoisted condition, a hoisted index and a ?? *)
Module Witness.
  Definition e : expr :=
    ECond (EField (lit "a")) (EIndex (EField (lit "l")) (EBin BNullish (EField (lit "n")) (EField (lit "d"))))
          (EBin BAdd (EStr (lit "x")) (EMember (EField (lit "o")) (lit "k"))).
  Definition d : val := VObj [(lit "a", VNum 1); (lit "n", VNull); (lit "d", VNum 1); (lit "l", VArr [VNum 10; VNum 20]);
                              (lit "o", VObj [(lit "k", VNum 7)])].
  Definition r := gen_core [] (fun s => s) e (mk_gst 0).
  Example three_hoists : length (hoists_js (fst r)) = 3%nat.
  Proof. reflexivity. Qed.
  Example value : jeval {| e_data := d; e_scopes := [] |} (run_hoists {| e_data := d; e_scopes := [] |} (hoists_js (fst r)) (fun _ => None)) (g_js (snd r))
                  = Some (VNum 20).
  Proof. vm_compute. reflexivity. Qed.
  Example in_fragment : frag e.
  Proof. repeat constructor. Qed.
End Witness.

(* ---- source parentheses are honoured exactly; precedence and associativity of the parser ----
   `gp o e` writes e in the concrete syntax of WXML with the parentheses precedence requires plus an extra pair
   around every operand the oracle `o` selects (none, all, any mixture).  Whatever the oracle, the
   character-level parser model (tied to parse/expr.rs by correspondence) reads the text as e.  In particular the
   fully parenthesised spelling - whose grouping no precedence table can change - and the minimal spelling are
   read as the same tree: the parser implements exactly the level tables of `sx_level` / `sx_right`
   (left-associative binary levels, right-nested conditional), which the value differential compares with
   JavaScript on every operator pair. *)
From GE Require Import Model.StrExpr Model.ExprParse Proofs.ExprRoundTrip Proofs.ParenPrinter.
Theorem C03_source_parentheses_honoured : forall (o : expr -> bool) e, wf e -> forall rest,
  parse_cond (gp o e ++ 125%N :: 125%N :: rest) = POk e (125%N :: 125%N :: rest).
Proof. exact extra_parentheses_honoured. Qed.
Print Assumptions C03_source_parentheses_honoured.

Theorem C03_minimal_spelling_is_the_printers : forall names e, wf e -> gp (fun _ => false) e = sx_core names e.
Proof. exact gp_never_is_sx_core. Qed.
Print Assumptions C03_minimal_spelling_is_the_printers.

Example C03_parentheses_example :
  let e := EBin BSub (EBin BSub (EField (lit "a")) (EField (lit "b"))) (EBin BMul (EField (lit "c")) (EUn UNeg (EField (lit "d")))) in
  gp (fun _ => false) e = lit "a-b-c* -d" /\ gp (fun _ => true) e = lit "((a)-(b))-((c)*( -(d)))" /\
  parse_cond (lit "((a)-(b))-((c)*( -(d)))}}") = POk e (lit "}}") /\ parse_cond (lit "a-b-c* -d}}") = POk e (lit "}}").
Proof. cbn zeta. repeat split; vm_compute; reflexivity. Qed.
