(* C17 — :host conversion partitions rules without loss. Pinned statements. *)
From GE Require Import Model.Str Model.CssNum Model.CssTok Model.CssOut Model.CssUrlEnc Model.Css Model.CssSpec.
From GE Require Import Proofs.CssRuleProofs.
Open Scope N_scope.

(* conversion off: the host branch is never taken *)
Theorem C17_host_off_identity : forall o l endp st,
  convert_host o = false -> qrule o l endp st = qr_loop o (skip_ws l) false false st.
Proof. exact host_off_identity. Qed.
Print Assumptions C17_host_off_identity.

(* a pure `:host { body }` rule is handed to host_emit as a whole, for every body, position,
   option set and prior state; the remaining siblings are untouched *)
Theorem C17_host_pure_rule : forall o pc ph pb body be cl rest endp st,
  convert_host o = true ->
  qrule o (Leaf TColon pc :: Leaf (TIdent s_host) ph :: Block TCurly pb body be cl :: rest) endp st =
  (rest, host_emit o st pb body).
Proof. exact host_pure_rule. Qed.
Print Assumptions C17_host_pure_rule.

(* ... and host_emit leaves the normal output exactly as it was (the rule appears in the
   low-priority output only) *)
Theorem C17_host_emit_normal_unchanged : forall o st p body,
  w_normal (host_emit o st p body) = w_normal st.
Proof. exact host_emit_normal_unchanged. Qed.
Print Assumptions C17_host_emit_normal_unchanged.

(* `:host` combined with another selector: nothing is written, one warning *)
Theorem C17_host_combined_dropped_with_warning : forall o pc ph x px pb body be cl rest endp st,
  convert_host o = true -> is_ws_or_comment x = false ->
  qrule o (Leaf TColon pc :: Leaf (TIdent s_host) ph :: Leaf x px :: Block TCurly pb body be cl :: rest) endp st =
  (rest, warn st W_HOST pb).
Proof. exact host_combined_dropped_with_warning. Qed.
Print Assumptions C17_host_combined_dropped_with_warning.

(* `: host` (whitespace after the colon) is not `:host`: ordinary qualified rule (fix bdd7adf, D26) *)
Theorem C17_host_spaced_not_converted : forall o pc w pw r endp st,
  qrule o (Leaf TColon pc :: Leaf (TWs w) pw :: r) endp st =
  qr_loop o (Leaf TColon pc :: Leaf (TWs w) pw :: r) false false st.
Proof. exact host_spaced_not_converted. Qed.
Print Assumptions C17_host_spaced_not_converted.

(* a comment between the colon and `host` does not separate the tokens *)
Theorem C17_host_comment_still_host : forall o pc c pcm ph pb body be cl rest endp st,
  convert_host o = true ->
  qrule o (Leaf TColon pc :: Leaf (TComment c) pcm :: Leaf (TIdent s_host) ph :: Block TCurly pb body be cl :: rest) endp st =
  (rest, host_emit o st pb body).
Proof. exact host_comment_still_host. Qed.
Print Assumptions C17_host_comment_still_host.
