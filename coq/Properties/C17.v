(* C17 — :host conversion partitions rules without loss. Pinned statements. *)
From GE Require Import Model.Str Model.CssNum Model.CssTok Model.CssOut Model.CssUrlEnc Model.Css Model.CssSpec.
From GE Require Import Proofs.CssRuleProofs Proofs.CssHostSpec.
Open Scope N_scope.

(* conversion off: the host branch is never taken *)
Theorem C17_host_off_identity : forall o l endp st,
  convert_host o = false -> qrule o l endp st = qr_loop o (skip_ws l) false false st.
Proof. exact host_off_identity. Qed.
Print Assumptions C17_host_off_identity.

(* a pure `:host { body }` rule is handed to host_emit as a whole, for every body, position,
   option set and prior state; the remaining siblings are untouched *)
Theorem C17_host_pure_rule : forall o pc ph pb body be cl rest endp st,
  convert_host o = true ->
  qrule o (Leaf TColon pc :: Leaf (TIdent s_host) ph :: Block TCurly pb body be cl :: rest) endp st =
  (rest, host_emit o st pb body).
Proof. exact host_pure_rule. Qed.
Print Assumptions C17_host_pure_rule.

(* ... and host_emit leaves the normal output exactly as it was (the rule appears in the
   low-priority output only) *)
Theorem C17_host_emit_normal_unchanged : forall o st p body,
  w_normal (host_emit o st p body) = w_normal st.
Proof. exact host_emit_normal_unchanged. Qed.
Print Assumptions C17_host_emit_normal_unchanged.

(* `:host` combined with another selector: nothing is written, one warning *)
Theorem C17_host_combined_dropped_with_warning : forall o pc ph x px pb body be cl rest endp st,
  convert_host o = true -> is_ws_or_comment x = false ->
  qrule o (Leaf TColon pc :: Leaf (TIdent s_host) ph :: Leaf x px :: Block TCurly pb body be cl :: rest) endp st =
  (rest, warn st W_HOST pb).
Proof. exact host_combined_dropped_with_warning. Qed.
Print Assumptions C17_host_combined_dropped_with_warning.

(* `: host` (whitespace after the colon) is not `:host`: the rule is treated like every rule that does
   not start with `:host` (fix bdd7adf, D26) *)
Theorem C17_host_spaced_not_converted : forall o pc w pw r endp st,
  qrule o (Leaf TColon pc :: Leaf (TWs w) pw :: r) endp st =
  qr_main o (Leaf TColon pc :: Leaf (TWs w) pw :: r) endp st.
Proof. exact host_spaced_not_converted. Qed.
Print Assumptions C17_host_spaced_not_converted.

(* a comment between the colon and `host` does not separate the tokens *)
Theorem C17_host_comment_still_host : forall o pc c pcm ph pb body be cl rest endp st,
  convert_host o = true ->
  qrule o (Leaf TColon pc :: Leaf (TComment c) pcm :: Leaf (TIdent s_host) ph :: Block TCurly pb body be cl :: rest) endp st =
  (rest, host_emit o st pb body).
Proof. exact host_comment_still_host. Qed.
Print Assumptions C17_host_comment_still_host.

(* the classification of the code (two scans) is the specification's, for EVERY prelude without a
   `{}` block, every block, every tail, option set and state: `:host` alone (any letter case,
   comments anywhere, whitespace around) is converted; `:host` / `:host(` anywhere else among the
   top-level tokens of the selector (`:host .a`, `.a, :host`, `a:host`; fixes a899a19 1041599; `::host`, a pseudo-element
   of that name, is not `:host`) is dropped
   with one warning and writes nothing; every other rule goes to the selector walker *)
Theorem C17_host_classification : forall pb be body cl rest o pre endp st,
  convert_host o = true -> no_curly pre = true ->
  match host_kind_of pre with
  | HostPure => qrule o (pre ++ Block TCurly pb body be cl :: rest) endp st = (rest, host_emit o st pb body)
  | HostCombined => exists wp, qrule o (pre ++ Block TCurly pb body be cl :: rest) endp st = (rest, warn st W_HOST wp)
  | HostNone => qrule o (pre ++ Block TCurly pb body be cl :: rest) endp st =
                qr_loop o (skip_ws pre ++ Block TCurly pb body be cl :: rest) false false st
  end.
Proof. exact qrule_matches_spec. Qed.
Print Assumptions C17_host_classification.

Example C17_host_classes_inhabited :
  let p := mkpos 0 0 in
  host_kind_of [Leaf TColon p; Leaf (TIdent [72;79;83;84]) p; Leaf (TWs [32]) p] = HostPure /\
  host_kind_of [Leaf (TDelim 46) p; Leaf (TIdent [97]) p; Leaf TComma p; Leaf (TWs [32]) p;
                Leaf TColon p; Leaf (TIdent s_host) p] = HostCombined /\
  host_kind_of [Leaf (TIdent [97]) p; Leaf TColon p; Block (TFunc s_host) p [] p true] = HostCombined /\
  host_kind_of [Leaf TColon p; Leaf (TWs [32]) p; Leaf (TIdent s_host) p] = HostNone /\
  host_kind_of [Leaf TColon p; Leaf TColon p; Leaf (TIdent s_host) p] = HostNone /\
  host_kind_of [Leaf (TDelim 46) p; Leaf (TIdent s_host) p] = HostNone.
Proof. exact host_classes_inhabited. Qed.
