(* C17 — :host conversion partitions rules without loss. Pinned statements. *)
From GE Require Import Model.Str Model.CssNum Model.CssTok Model.CssOut Model.CssUrlEnc Model.Css Model.CssSpec.
From GE Require Import Proofs.CssRuleProofs Proofs.CssHostSpec.
Open Scope N_scope.

(* conversion off: the host branch is never taken *)
Theorem C17_host_off_identity : forall o l endp st,
  convert_host o = false -> qrule o l endp st = qr_loop o (skip_ws l) false false st.
Proof. exact host_off_identity. Qed.
Print Assumptions C17_host_off_identity.

(* a pure `:host { body }` rule is handed to host_emit as a whole, for every body, position,
   option set and prior state; the remaining siblings are untouched *)
Theorem C17_host_pure_rule : forall o pc ph pb body be cl rest endp st,
  convert_host o = true ->
  qrule o (Leaf TColon pc :: Leaf (TIdent s_host) ph :: Block TCurly pb body be cl :: rest) endp st =
  (rest, host_emit o st pb body).
Proof. exact host_pure_rule. Qed.
Print Assumptions C17_host_pure_rule.

(* ... and host_emit leaves the normal output exactly as it was (the rule appears in the
   low-priority output only) *)
Theorem C17_host_emit_normal_unchanged : forall o st p body,
  w_normal (host_emit o st p body) = w_normal st.
Proof. exact host_emit_normal_unchanged. Qed.
Print Assumptions C17_host_emit_normal_unchanged.

(* `:host` combined with another selector: nothing is written, one warning *)
Theorem C17_host_combined_dropped_with_warning : forall o pc ph x px pb body be cl rest endp st,
  convert_host o = true -> is_ws_or_comment x = false ->
  qrule o (Leaf TColon pc :: Leaf (TIdent s_host) ph :: Leaf x px :: Block TCurly pb body be cl :: rest) endp st =
  (rest, warn st W_HOST pb).
Proof. exact host_combined_dropped_with_warning. Qed.
Print Assumptions C17_host_combined_dropped_with_warning.

(* `: host` (whitespace after the colon) is not `:host`: the rule is treated like every rule that does
   not start with `:host` (fix bdd7adf, D26) *)
Theorem C17_host_spaced_not_converted : forall o pc w pw r endp st,
  qrule o (Leaf TColon pc :: Leaf (TWs w) pw :: r) endp st =
  qr_main o (Leaf TColon pc :: Leaf (TWs w) pw :: r) endp st.
Proof. exact host_spaced_not_converted. Qed.
Print Assumptions C17_host_spaced_not_converted.

(* a comment between the colon and `host` does not separate the tokens *)
Theorem C17_host_comment_still_host : forall o pc c pcm ph pb body be cl rest endp st,
  convert_host o = true ->
  qrule o (Leaf TColon pc :: Leaf (TComment c) pcm :: Leaf (TIdent s_host) ph :: Block TCurly pb body be cl :: rest) endp st =
  (rest, host_emit o st pb body).
Proof. exact host_comment_still_host. Qed.
Print Assumptions C17_host_comment_still_host.

(* the classification of the code (two scans) is the specification's, for EVERY prelude without a
   `{}` block, every block, every tail, option set and state: `:host` alone (any letter case,
   comments anywhere, whitespace around) is converted; `:host` / `:host(` anywhere else among the
   top-level tokens of the selector (`:host .a`, `.a, :host`, `a:host`; fixes a899a19 1041599; `::host`, a pseudo-element
   of that name, is not `:host`) is dropped
   with one warning and writes nothing; every other rule goes to the selector walker *)
Theorem C17_host_classification : forall pb be body cl rest o pre endp st,
  convert_host o = true -> no_curly pre = true ->
  match host_kind_of pre with
  | HostPure => qrule o (pre ++ Block TCurly pb body be cl :: rest) endp st = (rest, host_emit o st pb body)
  | HostCombined => exists wp, qrule o (pre ++ Block TCurly pb body be cl :: rest) endp st = (rest, warn st W_HOST wp)
  | HostNone => qrule o (pre ++ Block TCurly pb body be cl :: rest) endp st =
                qr_loop o (skip_ws pre ++ Block TCurly pb body be cl :: rest) false false st
  end.
Proof. exact qrule_matches_spec. Qed.
Print Assumptions C17_host_classification.

Example C17_host_classes_inhabited :
  let p := mkpos 0 0 in
  host_kind_of [Leaf TColon p; Leaf (TIdent [72;79;83;84]) p; Leaf (TWs [32]) p] = HostPure /\
  host_kind_of [Leaf (TDelim 46) p; Leaf (TIdent [97]) p; Leaf TComma p; Leaf (TWs [32]) p;
                Leaf TColon p; Leaf (TIdent s_host) p] = HostCombined /\
  host_kind_of [Leaf (TIdent [97]) p; Leaf TColon p; Block (TFunc s_host) p [] p true] = HostCombined /\
  host_kind_of [Leaf TColon p; Leaf (TWs [32]) p; Leaf (TIdent s_host) p] = HostNone /\
  host_kind_of [Leaf TColon p; Leaf TColon p; Leaf (TIdent s_host) p] = HostNone /\
  host_kind_of [Leaf (TDelim 46) p; Leaf (TIdent s_host) p] = HostNone.
Proof. exact host_classes_inhabited. Qed.

(* ---- the low-priority output ---- *)
From GE Require Import Proofs.CssTokProofs Proofs.CssClassProofs Proofs.CssFrame Proofs.CssHostLow Proofs.CssSheetLow.

(* what one converted rule adds to the low-priority output, in the identifier / comment projection: the replayed wrappers
   (the ghost tokens of the stack items, one per enclosing at-rule), the attribute selector(s), the block as a value *)
Theorem C17_host_rule_low_identifiers : forall o st p body,
  shaped body = true -> w_using_low st = false ->
  lout (host_emit o st p body) =
  lout st ++ stack_idc st ++
  eidc (host_selector o ++ [mke GFree TCurly] ++ val_spec o false body None false ++ [mke GFree TCloseCurly]).
Proof. exact host_emit_low_idc. Qed.
Print Assumptions C17_host_rule_low_identifiers.

(* every other rule leaves the low-priority output, the wrapper stack and the mode alone (the selector walker; the same
   holds for the value walkers and the `@import` branch: Proofs/CssFrame.v) *)
Theorem C17_other_rules_leave_low_output : forall o l ic hw st,
  w_using_low st = false ->
  w_using_low (snd (qr_loop o l ic hw st)) = false /\ w_low (snd (qr_loop o l ic hw st)) = w_low st /\
  w_stack (snd (qr_loop o l ic hw st)) = w_stack st.
Proof. intros o l ic hw st H. exact (Fr_qr_loop st o l ic hw st (Fr_refl st H)). Qed.
Print Assumptions C17_other_rules_leave_low_output.

(* WHOLE SHEETS, every option set: the identifiers and comments of the low-priority output are those of the specification's
   low stream - one block per pure `:host` rule, in source order, each inside the replayed chain of its enclosing at-rules.
   With C09_class_exact_sheet (the same for the normal output): every rule's identifiers appear in exactly one output. *)
Theorem C17_low_exact_sheet : forall o tree endp,
  shaped tree = true ->
  so_complete (expected o tree) = true ->
  idc (o_tokens (w_low (transform o tree endp))) = idc (map e_tok (so_low (expected o tree))).
Proof. exact low_exact_sheet. Qed.
Print Assumptions C17_low_exact_sheet.

Example C17_low_exact_sheet_inhabited :
  let o := mkopts (Some [112]) None 1144750080 None true (Some [104]) in
  let P := mkpos in
  let tree := [Leaf (TAt s_media) (P 0 0); Leaf (TWs [32]) (P 0 6); Leaf (TIdent [120]) (P 0 7);
               Block TCurly (P 0 8)
                 [Leaf TColon (P 0 9); Leaf (TIdent s_host) (P 0 10);
                  Block TCurly (P 0 14) [Leaf (TIdent [97]) (P 0 15); Leaf TColon (P 0 16); Leaf (TIdent [98]) (P 0 17)] (P 0 18) true;
                  Leaf (TDelim 46) (P 0 19); Leaf (TIdent [99]) (P 0 20); Block TCurly (P 0 21) [] (P 0 22) true]
                 (P 0 23) true] in
  shaped tree = true /\ so_complete (expected o tree) = true /\
  idc (o_tokens (w_low (transform o tree (P 0 24)))) = [TIdent [120]; TIdent s_wx_host; TIdent s_is; TIdent [97]; TIdent [98]] /\
  idc (o_tokens (w_normal (transform o tree (P 0 24)))) = [TIdent [120]; TIdent [112; 45; 45; 99]].
Proof. exact low_exact_sheet_inhabited. Qed.

(* ... and in the SHAPE projection (every token that is not white space: kind, unit, strings; numeric values forgotten),
   outside class D29: the low-priority output consists, per pure `:host` rule, of the replayed wrapper chain with its `{`s,
   the attribute selector(s), the declaration block with every rpx length converted, and the closing `}`s *)
From GE Require Proofs.CssShapeProofs Proofs.CssSheetLowShape.
Theorem C17_low_shape_exact_sheet : forall o tree endp,
  shaped tree = true -> k29_list tree = false ->
  so_complete (expected o tree) = true ->
  CssShapeProofs.shp (o_tokens (w_low (transform o tree endp))) = CssShapeProofs.shp (map e_tok (so_low (expected o tree))).
Proof. exact CssSheetLowShape.low_shape_sheet. Qed.
Print Assumptions C17_low_shape_exact_sheet.

(* "with conversion off nothing is moved": for EVERY token tree (malformed ones included) and every option set the
   low-priority output stays empty, the wrapper stack ends empty, the mode is the normal output *)
From GE Require Proofs.CssHostOff.
Theorem C17_host_off_nothing_moved : forall o tree endp,
  convert_host o = false ->
  w_low (transform o tree endp) = o_init /\ w_stack (transform o tree endp) = [] /\
  w_using_low (transform o tree endp) = false.
Proof. exact CssHostOff.host_off_nothing_moved. Qed.
Print Assumptions C17_host_off_nothing_moved.

(* the partition itself: in the specification every complete qualified rule feeds exactly one stream - the normal one (no
   `:host`, or conversion off), the low-priority one (pure `:host`), or neither, with one warning (combined); the two
   whole-sheet theorems (C09_class_exact_sheet / C08_token_shapes_exact_sheet for the normal output, C17_low_exact_sheet /
   C17_low_shape_exact_sheet for the low-priority one) carry this over to the outputs of the transformer *)
From GE Require Proofs.CssSheetClass Proofs.CssPartition.
Theorem C17_rule_feeds_exactly_one_stream : forall o chain prelude t p body e c,
  let q := CssSheetClass.q_this o chain prelude (Some (Block t p body e c)) in
  match (if convert_host o then host_kind_of prelude else HostNone) with
  | HostNone => so_low q = [] /\ so_warn q = [] /\ so_normal q <> []
  | HostPure => so_normal q = [] /\ so_warn q = [] /\ so_low q <> []
  | HostCombined => so_normal q = [] /\ so_low q = [] /\ so_warn q = [W_HOST]
  end.
Proof. exact CssPartition.spec_rule_partition. Qed.
Print Assumptions C17_rule_feeds_exactly_one_stream.
