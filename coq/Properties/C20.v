(* C20 — compilation is a deterministic function of the set of inputs. Pinned statements. *)
From GE Require Import Model.Str Model.BindingMap Model.Group Proofs.GroupProofs.

Theorem C20_emit_iteration_order_independent :
  forall (V : Type) (render : str * V -> str) (o1 o2 : list (str * V) -> list (str * V)) m,
  (forall l, Permutation (o1 l) l) -> (forall l, Permutation (o2 l) l) ->
  NoDup (map fst m) -> emit V render o1 m = emit V render o2 m.
Proof. exact emit_iteration_order_independent. Qed.
Print Assumptions C20_emit_iteration_order_independent.

Theorem C20_emit_insertion_order_independent :
  forall (V : Type) (render : str * V -> str) (o1 o2 : list (str * V) -> list (str * V)) ins1 ins2,
  (forall l, Permutation (o1 l) l) -> (forall l, Permutation (o2 l) l) ->
  NoDup (map fst ins1) -> Permutation ins1 ins2 ->
  emit V render o1 (hm_build V ins1) = emit V render o2 (hm_build V ins2).
Proof. exact emit_insertion_order_independent. Qed.
Print Assumptions C20_emit_insertion_order_independent.

Theorem C20_unsorted_emission_refuted :
  let m := [([97], 1%N); ([98], 2%N)] in
  map (fun kv : str * N => fst kv) (id m) <> map (fun kv => fst kv) (rev m).
Proof. exact unsorted_emission_refuted. Qed.
Print Assumptions C20_unsorted_emission_refuted.

(* "importing one group into another is equivalent to adding its files directly": `import_group` extends the map with the
   entries of the other group in THAT map's iteration order (`pg`, any permutation of its entries `g`); the emission equals
   the one after adding the files of `g` one by one - for every receiving history `a` (files of the same path are replaced
   either way) and every iteration order of the resulting maps *)
Theorem C20_import_group_as_direct_add :
  forall (V : Type) (render : str * V -> str) (o1 o2 : list (str * V) -> list (str * V)) a g pg,
  (forall l, Permutation (o1 l) l) -> (forall l, Permutation (o2 l) l) ->
  NoDup (map fst g) -> Permutation pg g ->
  emit V render o1 (hm_extend V (hm_build V a) pg) = emit V render o2 (hm_build V (a ++ g)).
Proof. exact import_group_as_direct_add. Qed.
Print Assumptions C20_import_group_as_direct_add.

(* not vacuous: the receiving group holds `a` and `b`, the imported one `b` (other content) and `c`, iterated backwards *)
Example C20_import_example :
  let a := [([97], 1%N); ([98], 2%N)] in
  let g := [([98], 7%N); ([99], 3%N)] in
  map fst (sort_by_key N (hm_extend N (hm_build N a) (rev g))) = [[97]; [98]; [99]] /\
  map snd (sort_by_key N (hm_extend N (hm_build N a) (rev g))) = [1%N; 7%N; 3%N] /\
  sort_by_key N (hm_extend N (hm_build N a) (rev g)) = sort_by_key N (hm_build N (a ++ g)).
Proof. vm_compute. repeat split. Qed.
