(* C20 — compilation is a deterministic function of the set of inputs. Pinned statements. *)
From GE Require Import Model.Str Model.BindingMap Model.Group Proofs.GroupProofs.

Theorem C20_emit_iteration_order_independent :
  forall (V : Type) (render : str * V -> str) (o1 o2 : list (str * V) -> list (str * V)) m,
  (forall l, Permutation (o1 l) l) -> (forall l, Permutation (o2 l) l) ->
  NoDup (map fst m) -> emit V render o1 m = emit V render o2 m.
Proof. exact emit_iteration_order_independent. Qed.
Print Assumptions C20_emit_iteration_order_independent.

Theorem C20_emit_insertion_order_independent :
  forall (V : Type) (render : str * V -> str) (o1 o2 : list (str * V) -> list (str * V)) ins1 ins2,
  (forall l, Permutation (o1 l) l) -> (forall l, Permutation (o2 l) l) ->
  NoDup (map fst ins1) -> Permutation ins1 ins2 ->
  emit V render o1 (hm_build V ins1) = emit V render o2 (hm_build V ins2).
Proof. exact emit_insertion_order_independent. Qed.
Print Assumptions C20_emit_insertion_order_independent.

Theorem C20_unsorted_emission_refuted :
  let m := [([97], 1%N); ([98], 2%N)] in
  map (fun kv : str * N => fst kv) (id m) <> map (fun kv => fst kv) (rev m).
Proof. exact unsorted_emission_refuted. Qed.
Print Assumptions C20_unsorted_emission_refuted.
