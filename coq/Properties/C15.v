(* C15 — diagnostics: locations are valid, structural defects are flagged at least at Warn. *)
From GE Require Import Model.Str Model.SrcPos Model.Diag Proofs.PosProofs.

(* the (line, column) bookkeeping done by skip_bytes equals character-wise advancing, whatever
   sequence of cursor moves produced it (next, skip_bytes, skip_whitespace, skip_until_*,
   consume_str*, and try_parse roll-backs restore a previously valid pair) *)
Theorem C15_skip_text_advance : forall p s, skip_text p s = advance_str p s.
Proof. exact skip_text_advance. Qed.
Print Assumptions C15_skip_text_advance.

Theorem C15_skip_text_app : forall p s1 s2, skip_text (skip_text p s1) s2 = skip_text p (s1 ++ s2).
Proof. exact skip_text_app. Qed.
Print Assumptions C15_skip_text_app.

(* hence every position the cursor can have lies inside the source: it decodes to the very
   offset it was taken at (existing line, existing UTF-16 column) *)
Theorem C15_position_decode : forall s k,
  (k <= length s)%nat -> offset_of_position s (position_of_offset s k) = Some k.
Proof. exact position_decode. Qed.
Print Assumptions C15_position_decode.

(* every structural defect kind of the property has a documented level of at least Warn and
   every kind has a level between Note and Fatal (finite table, checked against the binary) *)
Theorem C15_structural_levels :
  forallb (fun d => match level_of (fst d) level_table with Some l => (2 <=? l) && (l =? snd d) | None => false end)
          structural_defects = true.
Proof. vm_compute. reflexivity. Qed.
Print Assumptions C15_structural_levels.

Theorem C15_levels_in_range : forallb (fun e => (1 <=? snd e) && (snd e <=? 4)) level_table = true /\ length level_table = 31%nat.
Proof. split; vm_compute; reflexivity. Qed.
Print Assumptions C15_levels_in_range.

(* ---- no silent failure of the expression / binding parser ----
   The character-level parser model (Model/ExprParse.v, tied to parse/expr.rs and parse/tag.rs by the
   correspondence on ASTs AND on the diagnostics of single bindings) records for every failure whether a
   diagnostic was added before failing.  For every input: the expression parser either has added a diagnostic
   or has failed exactly at the end of the input; and a binding that yields no expression always comes with a
   diagnostic of the binding parser (empty expression, missing expression end, unexpected character after the
   expression) or of the expression parser - an unterminated or garbled binding is never dropped silently. *)
From GE Require Import Model.ExprParse Proofs.ParseDiag.
Theorem C15_expression_failure_is_diagnosed_or_at_end : forall fuel s,
  match parse_cond_fuel fuel s with
  | PFail pos warned => warned = true \/ pos = []
  | POk _ _ => True
  end.
Proof. exact parse_cond_fuel_wd. Qed.
Print Assumptions C15_expression_failure_is_diagnosed_or_at_end.

Theorem C15_failed_binding_is_diagnosed : forall tdata s,
  match binding_d tdata s with
  | (Some _, _, d) => d = DOk
  | (None, _, d) => diagnosed d
  end.
Proof. exact failed_binding_is_diagnosed. Qed.
Print Assumptions C15_failed_binding_is_diagnosed.

(* binding_d is binding with its diagnostic *)
Theorem C15_binding_d_is_binding : forall t s, let '(e, rest, _) := binding_d t s in binding t s = (e, rest).
Proof. exact binding_d_binding. Qed.
Print Assumptions C15_binding_d_is_binding.

Example C15_diagnosed_examples :
  snd (binding_d false (lit " a b }} x")) = DGarbage /\ snd (binding_d false (lit " a + ")) = DMissingEnd false /\
  snd (binding_d false (lit " a + ) }} x")) = DInner true /\ snd (binding_d false (lit " /* c */ }}")) = DEmpty /\
  snd (binding_d false (lit " 'abc }} x")) = DMissingEnd false /\ snd (binding_d false (lit " a ? b }} x")) = DInner true.
Proof. repeat split; vm_compute; reflexivity. Qed.
