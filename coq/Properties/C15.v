(* C15 — diagnostics: locations are valid, structural defects are flagged at least at Warn. *)
From GE Require Import Model.Str Model.SrcPos Model.Diag Proofs.PosProofs.

(* the (line, column) bookkeeping done by skip_bytes equals character-wise advancing, whatever
   sequence of cursor moves produced it (next, skip_bytes, skip_whitespace, skip_until_*,
   consume_str*, and try_parse roll-backs restore a previously valid pair) *)
Theorem C15_skip_text_advance : forall p s, skip_text p s = advance_str p s.
Proof. exact skip_text_advance. Qed.
Print Assumptions C15_skip_text_advance.

Theorem C15_skip_text_app : forall p s1 s2, skip_text (skip_text p s1) s2 = skip_text p (s1 ++ s2).
Proof. exact skip_text_app. Qed.
Print Assumptions C15_skip_text_app.

(* hence every position the cursor can have lies inside the source: it decodes to the very
   offset it was taken at (existing line, existing UTF-16 column) *)
Theorem C15_position_decode : forall s k,
  (k <= length s)%nat -> offset_of_position s (position_of_offset s k) = Some k.
Proof. exact position_decode. Qed.
Print Assumptions C15_position_decode.

(* every structural defect kind of the property has a documented level of at least Warn and
   every kind has a level between Note and Fatal (finite table, checked against the binary) *)
Theorem C15_structural_levels :
  forallb (fun d => match level_of (fst d) level_table with Some l => (2 <=? l) && (l =? snd d) | None => false end)
          structural_defects = true.
Proof. vm_compute. reflexivity. Qed.
Print Assumptions C15_structural_levels.

Theorem C15_levels_in_range : forallb (fun e => (1 <=? snd e) && (snd e <=? 4)) level_table = true /\ length level_table = 31%nat.
Proof. split; vm_compute; reflexivity. Qed.
Print Assumptions C15_levels_in_range.
