(* C11 — emitted l-value paths address the value the expression reads. Theorems about the path
   analysis of Model/ExprGen.v under the denotation of Model/LvPath.v (keys named by a path,
   conditional heads follow the branch taken, dynamic indices follow their hoisted value).
   Scope: bindings in the fragment `frag`, outside wx:for / slot scopes; paths of for-items,
   script members and the array TEXT (prefixes 0/1/2, .slice, .concat) are decided by the text
   and behavioural correspondence (get-put under node). *)
From GE Require Import Model.LvPath Proofs.UptProofs Proofs.LvPathProofs.
Import ListNotations.

(* get: the data found at the denoted path is the value the binding evaluates to *)
Theorem C11_path_names_what_is_read :
  forall scopes lit_str hv ev e, frag e -> forall st,
  let r := gen_core scopes lit_str e st in
  hv_ok (hoists (fst r)) hv ev ->
  forall p ks v, g_pas (snd r) = Some p -> path_den hv p = Some ks -> eval ev e = Some v ->
  get_path (e_data ev) ks = Some v.
Proof. intros scopes lit_str hv ev e Hf st. exact (path_get scopes lit_str hv ev e Hf st). Qed.
Print Assumptions C11_path_names_what_is_read.

(* expressions that are not assignable never receive a path: no model: / event / change: path is
   written for them (lvalue_path answers null) *)
Lemma gen_core_call : forall scopes lit_str f args st,
  gen_core scopes lit_str (ECall f args) st =
  let '(st1, of) := wrapg L_Cond (pg_level f) (gen_core scopes lit_str f st) in
  let of := end_path of in
  let '(st2, s, calc) := gen_args scopes lit_str args st1 true in
  let v := lit "P(" ++ g_val of ++ lit ")(" ++ s ++ lit ")" in
  (st2, {| g_val := v; g_pas := None; g_calc := g_calc of ++ calc; g_js := JOpaque L_Member v |}).
Proof. reflexivity. Qed.

Theorem C11_not_assignable_no_path :
  forall scopes lit_str model st,
  (forall op l r, lvalue_path scopes lit_str model (g_pas (snd (gen_core scopes lit_str (EBin op l r) st))) = (lit "null", false)) /\
  (forall op v, lvalue_path scopes lit_str model (g_pas (snd (gen_core scopes lit_str (EUn op v) st))) = (lit "null", false)) /\
  (forall f args, lvalue_path scopes lit_str model (g_pas (snd (gen_core scopes lit_str (ECall f args) st))) = (lit "null", false)) /\
  (forall v, lvalue_path scopes lit_str model (g_pas (snd (gen_core scopes lit_str (EToStr v) st))) = (lit "null", false)) /\
  (forall s, lvalue_path scopes lit_str model (g_pas (snd (gen_core scopes lit_str (EStr s) st))) = (lit "null", false)) /\
  (forall z, lvalue_path scopes lit_str model (g_pas (snd (gen_core scopes lit_str (EInt z) st))) = (lit "null", false)).
Proof.
  intros scopes lit_str model st. repeat split; intros.
  - destruct op; cbn [gen_core];
      repeat match goal with
             | |- context [gen_private ?s] => destruct (gen_private s)
             | |- context [wrapg ?a ?l ?r] => destruct (wrapg a l r)
             end; reflexivity.
  - cbn [gen_core]. destruct (wrapg L_Unary (pg_level v) (gen_core scopes lit_str v st)). reflexivity.
  - rewrite gen_core_call. destruct (wrapg L_Cond (pg_level f) (gen_core scopes lit_str f st)) as [st1 o1].
    cbv zeta. destruct (gen_args scopes lit_str args st1 true) as [[st2 s] c]. reflexivity.
  - cbn [gen_core]. destruct (wrapg L_Cond (pg_level v) (gen_core scopes lit_str v st)). reflexivity.
Qed.
Print Assumptions C11_not_assignable_no_path.

(* a chain of static members over a data field: the model: path is exactly the list of names,
   the general path the same list behind the marker 0 *)
Fixpoint chain (x : str) (ks : list str) : expr :=
  match ks with
  | [] => EField x
  | k :: r => EMember (chain x r) k
  end.

Lemma chain_pas : forall scopes lit_str x ks st,
  g_pas (snd (gen_core scopes lit_str (chain x ks) st)) = Some (PPath (HIdent x) (map TStatic (rev ks))).
Proof.
  intros scopes lit_str x ks. induction ks as [|k r IH]; intros st.
  - reflexivity.
  - cbn [chain gen_core]. specialize (IH st).
    destruct (gen_core scopes lit_str (chain x r) st) as [st1 o1]. cbn [wrapg snd g_pas] in *.
    rewrite IH. cbn [push_tail rev]. now rewrite map_app.
Qed.

Theorem C11_member_chain_path_text : forall scopes lit_str x ks st,
  let p := g_pas (snd (gen_core scopes lit_str (chain x ks) st)) in
  lvalue_path scopes lit_str (Some true) p =
    (lit "[" ++ join (lit ",") (lit_str x :: map lit_str (rev ks)) ++ lit "]", true) /\
  lvalue_path scopes lit_str None p =
    (lit "[" ++ join (lit ",") ((lit "0," ++ lit_str x) :: map lit_str (rev ks)) ++ lit "]", true).
Proof.
  intros scopes lit_str x ks st. cbv zeta. rewrite chain_pas.
  unfold lvalue_path. cbn [lvalue_path_p legal_lvalue negb lvalue_br tail_items].
  unfold tail_items. rewrite !map_map. cbn [app]. rewrite !app_nil_r.
  replace (map (fun x0 : str => match TStatic x0 with TStatic s => lit_str s | TIndirect i => i end) (rev ks))
    with (map lit_str (rev ks)) by (apply map_ext; reflexivity).
  split; reflexivity.
Qed.
Print Assumptions C11_member_chain_path_text.

(* non-vacuity: a conditional with a dynamic index; the denoted path follows the branch taken *)
Module Witness.
  Definition e : expr := ECond (EField (lit "a")) (EIndex (EField (lit "l")) (EField (lit "d"))) (EMember (EField (lit "o")) (lit "x")).
  Definition d : val := VObj [(lit "a", VNum 1); (lit "d", VNum 1); (lit "l", VArr [VNum 10; VNum 20]);
                              (lit "o", VObj [(lit "x", VStr (lit "ox"))])].
  Definition d' : val := VObj [(lit "a", VNum 0); (lit "d", VNum 1); (lit "l", VArr [VNum 10; VNum 20]);
                              (lit "o", VObj [(lit "x", VStr (lit "ox"))])].
  Definition r := gen_core [] (fun s => s) e (mk_gst 0).
  Definition hv_of (dd : val) (i : str) : option val :=
    match find (fun p => str_eqb (fst p) i) (hoists (fst r)) with
    | Some (_, he) => eval {| e_data := dd; e_scopes := [] |} he
    | None => None
    end.
  Definition den (dd : val) := match g_pas (snd r) with Some p => path_den (hv_of dd) p | None => None end.
  Example path_true_branch : den d = Some [lit "l"; lit "1"].
  Proof. vm_compute. reflexivity. Qed.
  Example path_false_branch : den d' = Some [lit "o"; lit "x"].
  Proof. vm_compute. reflexivity. Qed.
  Example get_true : get_path d [lit "l"; lit "1"] = eval {| e_data := d; e_scopes := [] |} e.
  Proof. vm_compute. reflexivity. Qed.
  Example get_false : get_path d' [lit "o"; lit "x"] = eval {| e_data := d'; e_scopes := [] |} e.
  Proof. vm_compute. reflexivity. Qed.
End Witness.
