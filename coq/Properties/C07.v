(* C07 — the binding-map fast path is only offered where complete. Pinned statements. *)
From GE Require Import Model.Str Model.Expr Model.Tmpl Model.BindingMap Model.Scope Proofs.ScopeProofs.

Theorem C07_disabled_not_advertised : forall b f, is_disabled b f -> get_field b f = false.
Proof. exact is_disabled_not_advertised. Qed.
Print Assumptions C07_disabled_not_advertised.

(* a value inside wx:if / wx:for / template-is / include / slot subtrees, inside a <template name>
   body (analysed with depth 1), or in a structural position (flag `disable`) un-advertises every
   data field it reads *)
Theorem C07_structural_value_disables : forall st disable e f,
  ((0 < s_dyn st)%nat \/ disable = true) ->
  In f (fields_of (convert_scopes (s_scopes st) e)) ->
  is_disabled (s_bmc (fst (fst (analyse_value st disable (VDynamic e))))) f.
Proof. exact structural_value_disables. Qed.
Print Assumptions C07_structural_value_disables.

(* and nothing analysed later (in any order) can advertise it again *)
Theorem C07_analyse_keeps_disabled : forall f,
  (forall n st log, is_disabled (s_bmc st) f -> is_disabled (s_bmc (fst (fst (analyse_node st n log)))) f) /\
  (forall l st log, is_disabled (s_bmc st) f -> is_disabled (s_bmc (fst (fst (analyse_nodes st l log)))) f) /\
  (forall b st conds log, is_disabled (s_bmc st) f -> is_disabled (s_bmc (fst (fst (analyse_bodies st b conds log)))) f).
Proof. exact analyse_keeps_disabled. Qed.
Print Assumptions C07_analyse_keeps_disabled.

Theorem C07_include_disables_all : forall st path log f,
  is_disabled (s_bmc (fst (fst (analyse_node st (NInclude path) log)))) f.
Proof. exact include_disables_all. Qed.
Print Assumptions C07_include_disables_all.

(* slot indices of one field are handed out consecutively from 0, so `new Array(n)` has exactly
   one slot per collected occurrence *)
Theorem C07_add_field_first : forall b f,
  assoc_get f (bm_fields b) = None ->
  snd (add_field b f) = Some 0%N /\ assoc_get f (bm_fields (fst (add_field b f))) = Some (Mapped 1).
Proof. exact add_field_first. Qed.
Print Assumptions C07_add_field_first.

Theorem C07_add_field_consecutive : forall b f n,
  assoc_get f (bm_fields b) = Some (Mapped n) ->
  snd (add_field b f) = Some n /\ assoc_get f (bm_fields (fst (add_field b f))) = Some (Mapped (n + 1)%N).
Proof. exact add_field_consecutive. Qed.
Print Assumptions C07_add_field_consecutive.

(* ---- meaning of the advertised fields ---- *)
From GE Require Import Model.Val Proofs.FieldsProofs.

(* the value of a binding depends on the data only through the top-level fields the analysis
   collects: if two data objects agree on fields_of e (and the scope values are the same) the
   binding has the same value. For every expression form. *)
Theorem C07_value_depends_on_collected_fields : forall ev0 ev1, e_scopes ev0 = e_scopes ev1 ->
  forall e, agree_on ev0 ev1 (fields_of e) -> eval ev0 e = eval ev1 e.
Proof. intros ev0 ev1 Hs. exact (proj1 (eval_depends_on_fields ev0 ev1 Hs)). Qed.
Print Assumptions C07_value_depends_on_collected_fields.

(* and every such field that is not disabled gets a key: the binding's updater is registered
   under B[field] *)
Theorem C07_collect_keys_complete : forall b e f, In f (fields_of e) -> not_disabled b f ->
  exists i, In (f, i) (snd (collect_keys b e)).
Proof. exact collect_keys_complete. Qed.
Print Assumptions C07_collect_keys_complete.

(* ---- the updaters report the element they write to ---- *)
From GE Require Import Model.Lit Model.ExprGen Model.Escape Model.TagGen Proofs.TagGenProofs.

(* ProcGenWrapper.bindingMapUpdate applies the queued property changes of exactly the elements the updaters report
   through `E`; a component may queue what `R.r` (properties) and `R.y` (a property named `style`) write.  Every
   updater the attribute-level generators write - properties, model bindings, class, style, id, data-*, marks -
   ends with `;E(N)}` (class / style / id: fix 53ac0a3). *)
Theorem C07_setter_updater_reports_element : forall scopes lit_str call e b ks st,
  keys_is_empty b ks = false ->
  reports_element (last (snd (setter_dynamic scopes lit_str call e b (Some ks) st)) []).
Proof. exact setter_updater_reports. Qed.
Print Assumptions C07_setter_updater_reports_element.

Theorem C07_property_updater_reports_element : forall scopes lit_str kind name e b ks st,
  keys_is_empty b ks = false ->
  reports_element (last (snd (normal_attr_dynamic scopes lit_str kind name e b (Some ks) st)) []).
Proof. exact normal_attr_updater_reports. Qed.
Print Assumptions C07_property_updater_reports_element.

(* not vacuous: `<v style="{{ a }}"/>` - the key of `a` is advertised and the statements are the ones the
   implementation prints (the correspondence stage compares this text for every generated binding) *)
Example C07_style_updater_text :
  let e := EField (lit "a") in
  let '(b, ks) := collect_keys bmc_new e in
  keys_is_empty b ks = false /\
  snd (setter_dynamic [] (gen_lit_str (fun _ => false)) (setter_call (gen_lit_str (fun _ => false)) (lit "R.y") None)
         e b (Some ks) (mk_gst 0)) =
  [lit "if(C||K||U.a)R.y(N,D.a)"; lit "A[""a""][0]=(D,E,T)=>{R.y(N,D.a);E(N)}"].
Proof. vm_compute. split; reflexivity. Qed.
