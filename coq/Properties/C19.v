(* C19 — stylesheet source maps point each output token at its source token. Pinned statements. *)
From GE Require Import Model.Str Model.CssNum Model.CssTok Model.CssOut Model.CssUrlEnc Model.Css.
From GE Require Import Proofs.CssOutProofs Proofs.CssWalkProofs Proofs.CssSrcPosProofs.
From Coq Require Import Sorting.Sorted.
Open Scope N_scope.

(* the running UTF-16 counter equals the UTF-16 length of the text, after ANY sequence of
   append_raw / append_token / append_token_space_preserved *)
Theorem C19_out_col_invariant : forall ops : list op,
  o_utf16 (run_ops ops) = utf16_length (o_text (run_ops ops)).
Proof. exact out_col_invariant. Qed.
Print Assumptions C19_out_col_invariant.

(* every append_token leaves an entry whose generated column is the UTF-16 length of the text in
   front of the token itself (after the separator); it carries the given source position and,
   for rewritten tokens, the css text of the source token as its name *)
Theorem C19_entry_col_exact : forall ops1 t p src ops2,
  exists pre post,
    o_text (run_ops (ops1 ++ OpTok t p src :: ops2)) = pre ++ ser_tok t ++ post /\
    In (mkentry (utf16_length pre) p (option_map ser_tok src))
       (o_entries (run_ops (ops1 ++ OpTok t p src :: ops2))).
Proof. exact entry_col_exact. Qed.
Print Assumptions C19_entry_col_exact.

Theorem C19_entry_col_exact_sp : forall ops1 t p src ops2,
  is_ws t = false ->
  exists pre post,
    o_text (run_ops (ops1 ++ OpTokSP t p src :: ops2)) = pre ++ ser_tok t ++ post /\
    In (mkentry (utf16_length pre) p (option_map ser_tok src))
       (o_entries (run_ops (ops1 ++ OpTokSP t p src :: ops2))).
Proof. exact entry_col_exact_sp. Qed.
Print Assumptions C19_entry_col_exact_sp.

Theorem C19_entries_monotone : forall ops,
  StronglySorted (fun a b => e_dst_col a <= e_dst_col b) (o_map (run_ops ops)).
Proof. exact entries_monotone. Qed.
Print Assumptions C19_entries_monotone.

Theorem C19_entries_within_text : forall ops e,
  In e (o_map (run_ops ops)) -> e_dst_col e <= utf16_length (o_text (run_ops ops)).
Proof. exact entries_within_text. Qed.
Print Assumptions C19_entries_within_text.

(* the walkers of lib.rs change the outputs only through these operations, for every token
   tree and every option set; hence the theorems above hold for both outputs of `transform` *)
Theorem C19_transform_outputs_are_op_runs : forall o tree endp,
  (exists ops, w_normal (transform o tree endp) = run_ops ops) /\
  (exists ops, w_low (transform o tree endp) = run_ops ops).
Proof. exact transform_outputs_are_op_runs. Qed.
Print Assumptions C19_transform_outputs_are_op_runs.

Theorem C19_transform_col_invariant : forall o tree endp,
  o_utf16 (w_normal (transform o tree endp)) = utf16_length (o_text (w_normal (transform o tree endp))) /\
  o_utf16 (w_low (transform o tree endp)) = utf16_length (o_text (w_low (transform o tree endp))).
Proof. exact transform_col_invariant. Qed.
Print Assumptions C19_transform_col_invariant.

Theorem C19_transform_entries_monotone : forall o tree endp,
  StronglySorted (fun a b => e_dst_col a <= e_dst_col b) (o_map (w_normal (transform o tree endp))) /\
  StronglySorted (fun a b => e_dst_col a <= e_dst_col b) (o_map (w_low (transform o tree endp))).
Proof. exact transform_entries_monotone. Qed.
Print Assumptions C19_transform_entries_monotone.

(* source positions, every token tree and option set: each entry of both outputs carries the start
   position of a node of the input tree, or the end position of a block / of the input *)
Theorem C19_entries_point_into_tree : forall o tree endp,
  Forall (fun e => In (e_src e) (endp :: poss tree)) (o_entries (w_normal (transform o tree endp))) /\
  Forall (fun e => In (e_src e) (endp :: poss tree)) (o_entries (w_low (transform o tree endp))).
Proof. exact entries_point_into_tree. Qed.
Print Assumptions C19_entries_point_into_tree.

(* ... of a NON-COMMENT node (a token start) when the sheet has no comments.  With comments the
   repaired code (fix c88801e) also maps to the token, see Example d22_witness_now_correct; the
   general statement with comments is checked on every generated sheet, not proved. *)
Theorem C19_src_is_token_start_no_comments : forall o tree endp,
  has_comment tree = false -> src_positions_ok o tree endp.
Proof. exact src_is_token_start_no_comments. Qed.
Print Assumptions C19_src_is_token_start_no_comments.
