(* C05 — names resolve lexically to the innermost enclosing scope. Pinned statements. *)
From GE Require Import Model.Str Model.Expr Model.Tmpl Model.BindingMap Model.Scope Proofs.ScopeProofs.

Theorem C05_lookup_innermost : forall scopes name, lookup_scope name (scopes ++ [name]) = Some (length scopes).
Proof. exact lookup_innermost. Qed.
Print Assumptions C05_lookup_innermost.

Theorem C05_lookup_other : forall scopes name other,
  other <> name -> lookup_scope name (scopes ++ [other]) = lookup_scope name scopes.
Proof. exact lookup_other. Qed.
Print Assumptions C05_lookup_other.

Theorem C05_for_index_shadows_item : forall scopes name,
  lookup_scope name (scopes ++ [name; name]) = Some (S (length scopes)).
Proof. exact for_index_shadows_item. Qed.
Print Assumptions C05_for_index_shadows_item.

Theorem C05_lookup_scope_sound : forall name scopes i, lookup_scope name scopes = Some i -> nth i scopes [] = name.
Proof. exact lookup_scope_sound. Qed.
Print Assumptions C05_lookup_scope_sound.

(* resolution is the same wherever the identifier sits inside the expression: for every way of
   giving meaning to the leaves, the converted expression means what the named one means when
   a name denotes its innermost scope, and the data field otherwise *)
Theorem C05_convert_scopes_correct : forall scopes fs fd,
  (forall e, inst fs fd (convert_scopes scopes e) = inst fs (named_denotation scopes fs fd) e) /\
  (forall l, inst_x fs fd (convert_scopes_x scopes l) = inst_x fs (named_denotation scopes fs fd) l) /\
  (forall l, inst_o fs fd (convert_scopes_o scopes l) = inst_o fs (named_denotation scopes fs fd) l) /\
  (forall l, inst_a fs fd (convert_scopes_a scopes l) = inst_a fs (named_denotation scopes fs fd) l).
Proof. exact convert_scopes_correct. Qed.
Print Assumptions C05_convert_scopes_correct.

(* scopes never leak to siblings or following nodes *)
Theorem C05_analyse_no_leak :
  (forall n st log, s_scopes (fst (fst (analyse_node st n log))) = s_scopes st
                    /\ s_dyn (fst (fst (analyse_node st n log))) = s_dyn st) /\
  (forall l st log, s_scopes (fst (fst (analyse_nodes st l log))) = s_scopes st
                    /\ s_dyn (fst (fst (analyse_nodes st l log))) = s_dyn st) /\
  (forall b st conds log, s_scopes (fst (fst (analyse_bodies st b conds log))) = s_scopes st
                    /\ s_dyn (fst (fst (analyse_bodies st b conds log))) = s_dyn st).
Proof. exact analyse_no_leak. Qed.
Print Assumptions C05_analyse_no_leak.

Theorem C05_for_list_does_not_see_its_variables : forall st e item index key children log,
  exists ch' st' log', analyse_node st (NFor (VDynamic e) item index key children) log
                       = (st', NFor (VDynamic (convert_scopes (s_scopes st) e)) item index key ch', log').
Proof. exact for_list_does_not_see_its_variables. Qed.
Print Assumptions C05_for_list_does_not_see_its_variables.

(* the iterator before the repair missed the elements after an array hole *)
Theorem C05_hole_iterator_refuted :
  afields_values_until_hole (AHole (ANormal (EField [105%N]) ANil)) = []
  /\ afields_values (AHole (ANormal (EField [105%N]) ANil)) = [EField [105%N]].
Proof. exact hole_iterator_refuted. Qed.
Print Assumptions C05_hole_iterator_refuted.
