(* C16 — recorded source positions. Pinned statements for the position machinery. *)
From GE Require Import Model.Str Model.SrcPos Proofs.PosProofs.

Theorem C16_position_decode : forall s k,
  (k <= length s)%nat -> offset_of_position s (position_of_offset s k) = Some k.
Proof. exact position_decode. Qed.
Print Assumptions C16_position_decode.

(* the stringifier: the generated position registered for a token is exactly the end of the
   output written before it (so it is the token's actual line / UTF-16 column) ... *)
Theorem C16_srcmap_dst_exact : forall ops1 t name src ops2,
  let st := srun (ops1 ++ WToken t name src :: ops2) in
  exists e, nth_error (o_map st) (length (o_map (srun ops1))) = Some e /\
            e_dst e = advance_str pos0 (o_text (srun ops1)) /\ e_src e = src /\ e_name e = name.
Proof. exact srcmap_dst_exact. Qed.
Print Assumptions C16_srcmap_dst_exact.

(* ... and output positions are non-decreasing *)
Theorem C16_srcmap_monotone : forall ops i j ei ej, (i <= j)%nat ->
  nth_error (o_map (srun ops)) i = Some ei -> nth_error (o_map (srun ops)) j = Some ej ->
  pos_leb (e_dst ei) (e_dst ej) = true.
Proof. exact srcmap_monotone. Qed.
Print Assumptions C16_srcmap_monotone.
