(* C13 — cross-file references resolve by normalised path. Pinned statements only. *)
From GE Require Import Model.Str Model.Path Proofs.StrProofs Proofs.PathProofs.

Theorem C13_resolve_spec : forall base rel, resolve base rel = resolve_spec_fn base rel.
Proof. exact resolve_spec. Qed.
Print Assumptions C13_resolve_spec.

Theorem C13_resolve_normal : forall base rel, Forall nodot (segments (resolve base rel)).
Proof. exact resolve_normal. Qed.
Print Assumptions C13_resolve_normal.

Theorem C13_resolve_is_normal : forall base rel, normalize (resolve base rel) = resolve base rel.
Proof. exact resolve_is_normal. Qed.
Print Assumptions C13_resolve_is_normal.

Theorem C13_resolve_abs : forall b1 b2 rest, resolve b1 (47 :: rest) = resolve b2 (47 :: rest).
Proof. exact resolve_abs. Qed.
Print Assumptions C13_resolve_abs.

Theorem C13_resolve_dir_only : forall dir f1 f2 rel,
  ~ In c_slash f1 -> nodot f1 -> ~ In c_slash f2 -> nodot f2 ->
  resolve (dir ++ c_slash :: f1) rel = resolve (dir ++ c_slash :: f2) rel.
Proof. exact resolve_dir_only. Qed.
Print Assumptions C13_resolve_dir_only.

Theorem C13_resolve_toplevel_file : forall f1 f2 rel,
  ~ In c_slash f1 -> nodot f1 -> ~ In c_slash f2 -> nodot f2 -> resolve f1 rel = resolve f2 rel.
Proof. exact resolve_toplevel_file. Qed.
Print Assumptions C13_resolve_toplevel_file.

Theorem C13_normalize_idem : forall p, normalize (normalize p) = normalize p.
Proof. exact normalize_idem. Qed.
Print Assumptions C13_normalize_idem.

Theorem C13_resolve_normal_base : forall base rel,
  Forall nodot (segments base) ->
  resolve base rel =
    join [c_slash] (rev (walk (if is_abs rel then [] else tl (rev (segments base)))
                              (split c_slash (main_part rel)))).
Proof. exact resolve_normal_base. Qed.
Print Assumptions C13_resolve_normal_base.

(* which definition a <template is> renders (Model/Link.v) *)
From GE Require Import Model.Link Proofs.LinkProofs.
Theorem C13_template_local_first : forall reg base local imports name,
  mem_str name local = true -> template_owner reg base local imports name = Some base.
Proof. exact owner_local. Qed.
Print Assumptions C13_template_local_first.

Theorem C13_template_last_import_wins : forall reg base local pre rel post name p,
  mem_str name local = false ->
  import_defines reg base rel name = Some p ->
  (forall r, In r post -> import_defines reg base r name = None) ->
  template_owner reg base local (pre ++ rel :: post) name = Some p.
Proof. exact owner_last_import. Qed.
Print Assumptions C13_template_last_import_wins.

Theorem C13_template_undefined : forall reg base local imports name,
  mem_str name local = false ->
  (forall r, In r imports -> import_defines reg base r name = None) ->
  template_owner reg base local imports name = None.
Proof. exact owner_undefined. Qed.
Print Assumptions C13_template_undefined.
