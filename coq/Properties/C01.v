(* C01 — totality. Pinned statements for the parts that are modelled at character level:
   the number scanner (every unwrap()/unreachable!() is an explicit Panic outcome) and the
   attribute recovery loops. The rest of the property is decided by isolated execution
   (see DESIGN.md): this file proves what the defect classes of record were about. *)
From GE Require Import Model.Str Model.Lit Model.NumLit Model.TagLoops Proofs.NumLitProofs Proofs.TagLoopsProofs.

Theorem C01_parse_number_total : forall s k, fst (parse_number_fixed s) <> NPanic k.
Proof. exact parse_number_total. Qed.
Print Assumptions C01_parse_number_total.

Theorem C01_legacy_hex_panics : fst (parse_number_legacy (lit "0xg")) = NPanic 3.
Proof. exact legacy_hex_panics. Qed.
Print Assumptions C01_legacy_hex_panics.

(* the attribute loop ends within |s| + 1 iterations and raises at most |s| more diagnostics,
   for every attribute parser that consumes at least one character *)
Theorem C01_attr_loop_terminates : forall (parse_attr : str -> str) (element_tag : bool),
  (forall c r, is_name_start c = true -> (length (parse_attr (c :: r)) < length (c :: r))%nat) ->
  forall fuel s w, (length s < fuel)%nat ->
  exists rest w', attr_loop parse_attr is_template_whitespace element_tag fuel s w = Done rest w'
                  /\ (N.to_nat w' <= N.to_nat w + length s)%nat.
Proof. exact attr_loop_terminates. Qed.
Print Assumptions C01_attr_loop_terminates.

Theorem C01_legacy_attr_loop_diverges : forall parse_attr element_tag fuel w,
  attr_loop parse_attr is_unicode_whitespace element_tag fuel [12288%N] w = OutOfFuel.
Proof. exact legacy_attr_loop_diverges. Qed.
Print Assumptions C01_legacy_attr_loop_diverges.

(* the decoding loop of static text / attribute values (entity scanner, Model/TextDecode.v):
   every step consumes at least one character, whatever the named-reference table *)
From GE Require Import Model.TextDecode Proofs.TextDecodeProofs.
Theorem C01_text_decoder_progress : forall named s, s <> [] ->
  (length (snd (next_piece named s)) < length s)%nat.
Proof. exact next_piece_progress. Qed.
Print Assumptions C01_text_decoder_progress.

(* the value parser (text nodes, attribute values: static pieces, entities, {{ }} bindings with the
   whole expression parser inside, Model/ExprParse.v), run with the input length as fuel, always
   stops because its `until` predicate holds or the input is exhausted - for every input, every
   `until` predicate and every entity table - and never moves backwards *)
From GE Require Import Model.ExprParse Proofs.ExprParseProofs.
Theorem C01_value_parser_terminates : forall named stop s,
  let '(_, rest) := parse_value named stop s in stop rest = true \/ rest = [].
Proof. exact parse_value_done. Qed.
Print Assumptions C01_value_parser_terminates.

Theorem C01_expression_parser_never_moves_backwards : forall fuel s,
  match parse_cond_fuel fuel s with
  | POk _ rest => (length rest <= length s)%nat
  | PFail pos _ => (length pos <= length s)%nat
  end.
Proof. exact parse_cond_fuel_le. Qed.
Print Assumptions C01_expression_parser_never_moves_backwards.

(* the recursion fuel of the expression parser model is adequate: every amount of fuel above the
   input length gives the same result, so the fuel-exhaustion branches never decide an outcome *)
From GE Require Import Proofs.ExprParseFuel.
Theorem C01_expression_parser_fuel_independent : forall n s, (length s < n)%nat -> parse_cond_fuel n s = parse_cond s.
Proof. exact parse_cond_any_fuel. Qed.
Print Assumptions C01_expression_parser_fuel_independent.
