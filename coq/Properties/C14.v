(* C14 — stringify is a faithful inverse of parse: the escaping layer. The tag-level printer and the
   parser are not modelled; the round trip as a whole is decided by execution (DESIGN.md). *)
From GE Require Import Model.Str Model.Hex Model.Escape Model.JsLex Proofs.HtmlEscapeProofs Proofs.EscapeProofs.

(* a re-printed static text is read back by the template parser as exactly the same text ... *)
Theorem C14_static_text_roundtrip : forall s, unescape_html (escape_html_body s) = s.
Proof. exact unescape_escape_html_body. Qed.
Print Assumptions C14_static_text_roundtrip.

(* ... and cannot be mistaken for a binding, a tag or the end of an attribute value *)
Theorem C14_static_text_no_binding_start : forall s, has_double_lbrace (escape_html_body s) = false.
Proof. exact escape_html_body_no_binding_start. Qed.
Print Assumptions C14_static_text_no_binding_start.

Theorem C14_static_text_no_special : forall s, ~ In 60 (escape_html_body s) /\ ~ In 34 (escape_html_body s).
Proof. exact escape_html_body_no_special. Qed.
Print Assumptions C14_static_text_no_special.

(* before the repair, static text "{{x}}" was printed raw *)
Theorem C14_legacy_static_text_becomes_binding :
  has_double_lbrace (legacy_escape_html_body [123; 123; 120; 125; 125]) = true.
Proof. exact legacy_static_text_becomes_binding. Qed.
Print Assumptions C14_legacy_static_text_becomes_binding.

(* string literals inside re-printed expressions are written with gen_lit_str: they denote the
   same string (the WXML expression parser's escapes are a superset of what is emitted) *)
Theorem C14_string_literal_roundtrip : forall (esc_u : N -> bool) (s rest : str),
  Forall (fun c => c < 1114112) s ->
  js_string_decode (gen_lit_str esc_u s ++ rest) = Some (s, rest).
Proof. exact lit_str_roundtrip. Qed.
Print Assumptions C14_string_literal_roundtrip.

(* ---- the stringifier's expression printer (Model/StrExpr.v = stringify/expr.rs + the value
   splitting of stringify/tag.rs, tied to the implementation by text correspondence) ---- *)
From GE Require Import Model.StrExpr Proofs.StrExprProofs.

(* operand accept levels are those of a stratified left-associative grammar: same level on the
   left, one level tighter on the right, for every binary operator incl. ?? *)
Theorem C14_printer_tables_ok : forall op, sx_left op = sx_binop_level op /\ (sx_right op + 1 = sx_binop_level op)%N.
Proof. exact sx_tables_ok. Qed.
Print Assumptions C14_printer_tables_ok.

(* an operand is parenthesised exactly when its level is looser than the position accepts *)
Theorem C14_printer_paren_decision : forall names e a,
  sx_print names e a = paren_if (N.ltb a (sx_level e)) (sx_print names e L_Cond).
Proof. exact sx_paren_decision. Qed.
Print Assumptions C14_printer_paren_decision.

(* a text piece of mixed text followed by the `{{` of a binding: no binding start is created before
   that `{{`, whatever the text (in particular when it ends in `{`) *)
Theorem C14_text_piece_then_binding : forall s, has_double_lbrace (text_piece true s ++ [123%N]) = false.
Proof. exact text_piece_then_binding. Qed.
Print Assumptions C14_text_piece_then_binding.

(* ---- static text read back by the parser's REAL entity scanner (Model/TextDecode.v, tied to the
   implementation by the entscan correspondence), for any named-reference table that knows the
   three references the printer uses ---- *)
From GE Require Import Model.TextDecode Proofs.TextDecodeProofs.
Theorem C14_static_text_roundtrip_real_scanner : forall named,
  named e_lt = Some [60%N] -> named e_quot = Some [34%N] -> named e_amp = Some [38%N] ->
  forall s, decode_text named (escape_html_body s) = s.
Proof. exact decode_escape_html_body. Qed.
Print Assumptions C14_static_text_roundtrip_real_scanner.

(* ---- string literals of re-printed expressions: written by the stringifier's own escaper and read
   back by the expression parser's scanner (Model/WxStr.v, both tied to the implementation) ---- *)
From GE Require Import Model.WxStr Proofs.WxStrProofs.
Theorem C14_expression_string_literal_roundtrip : forall s rest,
  wx_str_decode 34 (tl (wx_lit_str s) ++ rest) = Some (s, rest).
Proof. exact wx_lit_str_roundtrip. Qed.
Print Assumptions C14_expression_string_literal_roundtrip.

(* ---- the expression printer is inverted by the expression parser ----
   For every well-formed expression (what the parser itself produces: identifiers that are not
   reserved words, i64 literals, strings, object / array literals, member / index / call chains,
   unary, binary and conditional operators at any nesting; no float literals), the text the
   stringifier prints (Model/StrExpr.v, tied to stringify/expr.rs) followed by the end of the
   binding is read back by the character-level parser model (Model/ExprParse.v, tied to
   parse/expr.rs) as exactly that expression, leaving exactly the end of the binding. *)
From GE Require Import Model.StrExpr Model.ExprParse Proofs.ExprRtTokens Proofs.ExprRoundTrip Proofs.NumRoundTrip.
Theorem C14_expression_print_parse_roundtrip : forall names e, wf e -> forall rest,
  parse_cond (sx_core names e ++ 125%N :: 125%N :: rest) = POk e (125%N :: 125%N :: rest).
Proof. intros names e H rest. exact (print_parse_cond names num_roundtrip z_to_str_head e H rest). Qed.
Print Assumptions C14_expression_print_parse_roundtrip.

(* the same at every operand position: whatever follows, as long as it cannot continue the expression *)
Theorem C14_expression_roundtrip_any_tail : forall names e, wf e -> forall tail,
  follow_num tail -> stopsM tail -> stopsB 10 tail -> tok_cond tail = None ->
  parse_cond (sx_core names e ++ tail) = POk e (skip tail).
Proof. intros names e H. exact (rt_cond names e (wf_RT names num_roundtrip z_to_str_head e H)). Qed.
Print Assumptions C14_expression_roundtrip_any_tail.

(* non-vacuity: a nested expression with every kind of node is well-formed, and its round trip computes *)
Example C14_roundtrip_example :
  let e := ECond (EBin BLOr (EBin BLt (EField (lit "a")) (EUn UNeg (EInt 3)))
                            (ECall (EMember (EField (lit "f")) (lit "g")) (XCons (EArr (AHole (ANormal (EStr (lit "x")) ANil))) XNil)))
                 (EObj (ONamed (lit "k") (EField (lit "k")) (OSpread (EField (lit "o")) ONil)))
                 (EIndex (EField (lit "l")) (EBin BAdd (EField (lit "i")) (EInt 1))) in
  wf e /\ parse_cond (sx_core (fun _ => []) e ++ lit "}}") = POk e (lit "}}").
Proof.
  split; [|vm_compute; reflexivity].
  cbn; repeat split; try reflexivity; try discriminate; try (intro Hc; discriminate Hc); try (left; reflexivity).
Qed.

(* the number scanner reads back what the printer writes for a non-negative i64 *)
Theorem C14_integer_literal_roundtrip : forall z tail, (0 <= z <= i64_max)%Z -> follow_num tail ->
  num_result (z_to_str z ++ tail) = POk (EInt z) tail.
Proof. exact num_roundtrip. Qed.
Print Assumptions C14_integer_literal_roundtrip.

(* the same through the binding parser (Value::parse_data_binding): the object-inner detection does
   not fire on a printed expression, the expression is read back, and the scan resumes right after
   the closing braces *)
Theorem C14_binding_print_parse_roundtrip : forall names e, wf e -> forall rest,
  ExprParse.binding false (sx_core names e ++ 125%N :: 125%N :: rest) = (Some e, rest).
Proof. intros names e H rest. exact (print_parse_binding names num_roundtrip z_to_str_head e H rest). Qed.
Print Assumptions C14_binding_print_parse_roundtrip.

(* ---- values: what the stringifier prints for a parsed value is read back as that value ----
   The value parser (Value::parse_until_before: static pieces with character references, bindings,
   and the chain it builds from them) inverts the value printer (escape_html_body for static values,
   split_expression for dynamic ones), for every entity table that knows &lt; &quot; &amp; and for both
   callers' `until` predicates (`<` for text, the closing double quote for attribute values):
   - static text of any content;
   - one binding with any well-formed expression that is not made of string literals only;
   - any alternation of non-empty text pieces and bindings (no two texts adjacent), which is exactly the
     shape the parser builds, with the brace-escaping of a text piece in front of a binding. *)
From GE Require Import Proofs.ValueRoundTrip.

Lemma stop_text_ok : forall c x, stop_text (c :: x) = true -> c = 60%N \/ c = 34%N.
Proof.
  intros c x H. left. destruct (N.eq_dec c 60) as [E|E]; [exact E|]. exfalso.
  destruct c as [|p]; [discriminate H|].
  do 7 (try (destruct p as [p|p|]; try (cbn in H; discriminate H))). congruence.
Qed.
Lemma stop_quote_ok : forall c x, stop_quote 34 (c :: x) = true -> c = 60%N \/ c = 34%N.
Proof. intros c x H. right. unfold stop_quote in H. apply N.eqb_eq in H. exact H. Qed.

Theorem C14_mixed_value_roundtrip : forall names named stop,
  named e_lt = Some [60%N] -> named e_quot = Some [34%N] -> named e_amp = Some [38%N] ->
  (forall c x, stop (c :: x) = true -> c = 60%N \/ c = 34%N) ->
  forall p q rest tail, valid (p :: q :: rest) -> first_ok (p :: q :: rest) -> tail_ok stop tail ->
  parse_value named stop (sx_value names (chain_rev (rev (p :: q :: rest))) ++ tail)
  = (RD (chain_rev (rev (p :: q :: rest))) true, tail).
Proof. intros names named stop H1 H2 H3 H4 p q rest tail Hv Hf Ht. exact (mixed_value_roundtrip names named H1 H2 H3 stop H4 p q rest tail Hv Hf Ht). Qed.
Print Assumptions C14_mixed_value_roundtrip.

Theorem C14_static_value_roundtrip : forall (names : nat -> str) named stop,
  named e_lt = Some [60%N] -> named e_quot = Some [34%N] -> named e_amp = Some [38%N] ->
  (forall c x, stop (c :: x) = true -> c = 60%N \/ c = 34%N) ->
  forall v tail, tail_ok stop tail -> parse_value named stop (escape_html_body v ++ tail) = (RS v, tail).
Proof. intros names named stop H1 H2 H3 H4. exact (static_value_roundtrip names named H1 H2 H3 stop H4). Qed.
Print Assumptions C14_static_value_roundtrip.

Theorem C14_single_binding_value_roundtrip : forall names named stop,
  named e_lt = Some [60%N] -> named e_quot = Some [34%N] -> named e_amp = Some [38%N] ->
  (forall c x, stop (c :: x) = true -> c = 60%N \/ c = 34%N) ->
  forall e tail, wf e -> is_text_piece e = false -> tail_ok stop tail ->
  parse_value named stop (sx_value names e ++ tail) = (RD e false, tail).
Proof. intros names named stop H1 H2 H3 H4. exact (single_binding_roundtrip names named H1 H2 H3 stop H4). Qed.
Print Assumptions C14_single_binding_value_roundtrip.

(* both callers' predicates meet the hypothesis; a mixed value in a text node, computed *)
Example C14_value_roundtrip_example :
  let named := fun e => if str_eqb e e_lt then Some [60%N] else if str_eqb e e_quot then Some [34%N]
                        else if str_eqb e e_amp then Some [38%N] else None in
  let ps := [PText (lit "a<{"); PBind (EBin BAdd (EField (lit "x")) (EInt 1)); PBind (EField (lit "y")); PText (lit "{ & ""q""")] in
  valid ps /\ first_ok ps /\ tail_ok stop_text (lit "</v>") /\
  parse_value named stop_text (sx_value (fun _ => []) (chain_rev (rev ps)) ++ lit "</v>") = (RD (chain_rev (rev ps)) true, lit "</v>").
Proof.
  cbn zeta. split; [cbn; repeat split; try discriminate; reflexivity|].
  split; [exact I|]. split; [right; reflexivity|]. vm_compute. reflexivity.
Qed.

(* scope references: after the identifiers of a parsed expression have been resolved against the enclosing
   scopes (convert_scopes), printing it with the scopes' own names (unmangled printing), parsing the text and
   resolving again gives the same expression - for every scope list, including shadowed names *)
From GE Require Import Proofs.ScopeRoundTrip.
Theorem C14_resolved_expression_roundtrip : forall scopes e, wf e -> forall rest,
  match parse_cond (sx_core (scope_names scopes) (convert_scopes scopes e) ++ 125%N :: 125%N :: rest) with
  | POk e' r => convert_scopes scopes e' = convert_scopes scopes e /\ r = 125%N :: 125%N :: rest
  | PFail _ _ => False
  end.
Proof. exact resolved_print_parse. Qed.
Print Assumptions C14_resolved_expression_roundtrip.

(* template data (`data="{{ ... }}"` of <template is>, parsed in object-inner mode): the value is an object
   literal, printed with its braces, and read back in that mode as the same object *)
Theorem C14_template_data_roundtrip : forall names fs, wf (EObj fs) -> forall rest,
  ExprParse.binding true (sx_core names (EObj fs) ++ 125%N :: 125%N :: rest) = (Some (EObj fs), rest).
Proof. intros names fs H rest. exact (print_parse_template_data names num_roundtrip z_to_str_head fs H rest). Qed.
Print Assumptions C14_template_data_roundtrip.

(* ---- the statement over ALL source texts ----
   Whatever text the expression parser accepts (any characters, comments, redundant parentheses, any spelling of
   numbers and strings), the expression it returns - when it contains no float literal - is printed by the
   stringifier as a text that parses back to exactly that expression: parse (print (parse s)) = parse s.
   (The parser's image lies inside the well-formed expressions of the round-trip theorem: C14_parser_image.) *)
From GE Require Import Proofs.ParserImage.
Theorem C14_parser_image : forall s e r, parse_cond s = POk e r -> wff e.
Proof. exact parser_image_wff. Qed.
Print Assumptions C14_parser_image.

Theorem C14_parse_print_parse : forall names s e r, parse_cond s = POk e r -> nofloat e ->
  forall rest, parse_cond (sx_core names e ++ 125%N :: 125%N :: rest) = POk e (125%N :: 125%N :: rest).
Proof. exact parse_print_parse. Qed.
Print Assumptions C14_parse_print_parse.

Example C14_parse_print_parse_example :
  exists e r, parse_cond (lit " ( a /* c */ ? 5+1:{typeof , x :[ , ...b ]} ) .k ['\x41'] ( ) }}") = POk e r /\ nofloat e.
Proof. eexists _, _. split; [vm_compute; reflexivity|]. cbn. tauto. Qed.
