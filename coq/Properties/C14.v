(* C14 — stringify is a faithful inverse of parse: the escaping layer. The tag-level printer and the
   parser are not modelled; the round trip as a whole is decided by execution (DESIGN.md). *)
From GE Require Import Model.Str Model.Hex Model.Escape Model.JsLex Proofs.HtmlEscapeProofs Proofs.EscapeProofs.

(* a re-printed static text is read back by the template parser as exactly the same text ... *)
Theorem C14_static_text_roundtrip : forall s, unescape_html (escape_html_body s) = s.
Proof. exact unescape_escape_html_body. Qed.
Print Assumptions C14_static_text_roundtrip.

(* ... and cannot be mistaken for a binding, a tag or the end of an attribute value *)
Theorem C14_static_text_no_binding_start : forall s, has_double_lbrace (escape_html_body s) = false.
Proof. exact escape_html_body_no_binding_start. Qed.
Print Assumptions C14_static_text_no_binding_start.

Theorem C14_static_text_no_special : forall s, ~ In 60 (escape_html_body s) /\ ~ In 34 (escape_html_body s).
Proof. exact escape_html_body_no_special. Qed.
Print Assumptions C14_static_text_no_special.

(* before the repair, static text "{{x}}" was printed raw *)
Theorem C14_legacy_static_text_becomes_binding :
  has_double_lbrace (legacy_escape_html_body [123; 123; 120; 125; 125]) = true.
Proof. exact legacy_static_text_becomes_binding. Qed.
Print Assumptions C14_legacy_static_text_becomes_binding.

(* string literals inside re-printed expressions are written with gen_lit_str: they denote the
   same string (the WXML expression parser's escapes are a superset of what is emitted) *)
Theorem C14_string_literal_roundtrip : forall (esc_u : N -> bool) (s rest : str),
  Forall (fun c => c < 1114112) s ->
  js_string_decode (gen_lit_str esc_u s ++ rest) = Some (s, rest).
Proof. exact lit_str_roundtrip. Qed.
Print Assumptions C14_string_literal_roundtrip.
