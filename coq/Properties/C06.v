(* C06 — incremental update is sound. Theorems about the path analysis of the code generator
   (Model/ExprGen.v: gen_core / prepare, the structure the guard text is printed from) under the
   denotation of Model/Upt.v. Scope: bindings whose expression is in the fragment `frag` (data
   fields, scope variables such as for items / indices / slot values / script modules, member and
   index access, literals, unary / binary operators including ??, conditionals); a scope variable
   is assumed to come with an update-path variable that covers its change (that is the tag-level
   protocol's side). The remaining expression forms (calls, object / array literals), the tag-level protocol (if / for / template / slot nodes, list diffing) are
   decided by the behavioural correspondence only; see DESIGN.md. *)
From GE Require Import Model.Upt Proofs.UptProofs Proofs.UptObjProofs.
Import ListNotations.

(* If the update-path tree covers the difference between the old and the new data, the hoisted
   variables hold their values under the new data, and the emitted guard is false, then the
   binding evaluates to the same value under old and new data: skipping it keeps nothing stale. *)
Theorem C06_guard_sound :
  forall (scopes : list scope_var) (lit_str : str -> str) (sval : str -> upt) (root : str -> upt)
         (hv : str -> option val) (ev0 ev1 : env),
  covers (UNode root) (Some (e_data ev0)) (Some (e_data ev1)) ->
  (forall i, covers (scope_tree scopes sval i) (Some (nth i (e_scopes ev0) VUndef)) (Some (nth i (e_scopes ev1) VUndef))) ->
  forall e n, frag e ->
  let '(st, v, r) := prepare scopes lit_str e (mk_gst n) in
  hv_ok (hoists st) hv ev1 ->
  guard_den scopes sval root hv r = false ->
  eval ev0 e = eval ev1 e.
Proof. exact guard_sound. Qed.
Print Assumptions C06_guard_sound.

(* the invariant behind it, for every sub-expression: the tree found at the analysed path
   relates the old and the new value *)
Theorem C06_path_relates_values :
  forall scopes lit_str sval root hv ev0 ev1,
  covers (UNode root) (Some (e_data ev0)) (Some (e_data ev1)) ->
  (forall i, covers (scope_tree scopes sval i) (Some (nth i (e_scopes ev0) VUndef)) (Some (nth i (e_scopes ev1) VUndef))) ->
  forall e, frag e -> forall st,
  let r := gen_core scopes lit_str e st in
  hv_ok (hoists (fst r)) hv ev1 ->
  covers (upres scopes sval root hv (PRes (g_pas (snd r)) (g_calc (snd r)))) (eval ev0 e) (eval ev1 e).
Proof.
  intros scopes lit_str sval root hv ev0 ev1 Hc Hs e Hf st. cbv zeta.
  destruct (gen_sound scopes lit_str sval root hv ev0 ev1 Hc Hs e Hf st) as [_ H]. exact H.
Qed.
Print Assumptions C06_path_relates_values.

(* the same for the larger fragment with object literals (named fields) and array literals
   (plain items): the heads Q.b({k: tree}) / Q.a([tree, , tree]) keep keys and positions *)
Theorem C06_guard_sound_literals :
  forall (scopes : list scope_var) (lit_str : str -> str) (sval : str -> upt) (root : str -> upt)
         (hv : str -> option val) (ev0 ev1 : env),
  covers (UNode root) (Some (e_data ev0)) (Some (e_data ev1)) ->
  (forall i, covers (scope_tree scopes sval i) (Some (nth i (e_scopes ev0) VUndef)) (Some (nth i (e_scopes ev1) VUndef))) ->
  forall e n, frag2 ev0 ev1 e ->
  let '(st, v, r) := prepare scopes lit_str e (mk_gst n) in
  hv_ok (hoists st) hv ev1 ->
  guard_den scopes sval root hv r = false ->
  eval ev0 e = eval ev1 e.
Proof. intros scopes lit_str sval root hv ev0 ev1 Hc Hs. exact (guard_sound2 scopes lit_str sval root hv ev0 ev1 Hc Hs). Qed.
Print Assumptions C06_guard_sound_literals.

(* a tree that covers a difference still covers it below any property (what lets the runtime
   hand sub-trees to list items and template data) *)
Theorem C06_covers_descends : forall u a b k, covers u a b -> covers (zchild u k) (getp a k) (getp b k).
Proof. exact covers_zchild. Qed.
Print Assumptions C06_covers_descends.

(* non-vacuity: a concrete binding with a hoisted condition and a hoisted index, data that differ
   in one leaf, a tree marking exactly that leaf: every hypothesis holds and the guard is false
   when the leaf is not read, true when it is *)
Module Witness.
  Definition e : expr := ECond (EField (lit "a")) (EIndex (EField (lit "l")) (EField (lit "d"))) (EField (lit "c")).
  Definition d0 : val := VObj [(lit "a", VNum 1); (lit "d", VNum 0); (lit "c", VStr (lit "C"));
                               (lit "l", VArr [VNum 10; VNum 20]); (lit "z", VNum 5)].
  Definition d1_unread : val := VObj [(lit "a", VNum 1); (lit "d", VNum 0); (lit "c", VStr (lit "C"));
                               (lit "l", VArr [VNum 10; VNum 20]); (lit "z", VNum 6)].
  Definition d1_read : val := VObj [(lit "a", VNum 1); (lit "d", VNum 0); (lit "c", VStr (lit "C"));
                               (lit "l", VArr [VNum 11; VNum 20]); (lit "z", VNum 5)].
  Definition u_unread : str -> upt := of_list [(lit "z", UAll)].
  Definition u_read : str -> upt := of_list [(lit "l", UNode (of_list [(lit "0", UAll)]))].
  Definition prep := prepare [] (fun s => s) e (mk_gst 0).
  Definition hv_of (d : val) (i : str) : option val :=
    match find (fun p => str_eqb (fst p) i) (hoists (fst (fst prep))) with
    | Some (_, he) => eval {| e_data := d; e_scopes := [] |} he
    | None => None
    end.
  Example hoisted_two : length (hoists (fst (fst prep))) = 2%nat.
  Proof. reflexivity. Qed.
  Example guard_false_when_unread : guard_den [] (fun _ => UNone) u_unread (hv_of d1_unread) (snd prep) = false.
  Proof. vm_compute. reflexivity. Qed.
  Example guard_true_when_read : guard_den [] (fun _ => UNone) u_read (hv_of d1_read) (snd prep) = true.
  Proof. vm_compute. reflexivity. Qed.
  Example value_changes_when_read :
    eval {| e_data := d0; e_scopes := [] |} e <> eval {| e_data := d1_read; e_scopes := [] |} e.
  Proof. vm_compute. discriminate. Qed.
  Example hv_ok_holds : hv_ok (hoists (fst (fst prep))) (hv_of d1_unread) {| e_data := d1_unread; e_scopes := [] |}.
  Proof.
    intros i he Hin. vm_compute in Hin.
    destruct Hin as [H|[H|[]]]; inversion H; subst; vm_compute; reflexivity.
  Qed.
  Example covers_holds : covers (UNode u_unread) (Some d0) (Some d1_unread).
  Proof.
    constructor. intros k. unfold u_unread. cbn [of_list getp get_prop d0 d1_unread obj_get fst snd].
    destruct (str_eqb k (lit "z")) eqn:Ez.
    - constructor.
    - repeat match goal with |- context [if str_eqb k ?x then _ else _] => destruct (str_eqb k x) end;
        try rewrite Ez; constructor.
  Qed.
  Example frag_e : frag e.
  Proof. repeat constructor. Qed.

  (* {x: a, y: c}.x with only c marked: skipped; [1, a, 'z'][1] with a marked: re-evaluated (the array
     tree is positional, the object tree keeps its keys) *)
  Definition e_obj : expr := EMember (EObj (ONamed (lit "x") (EField (lit "a")) (ONamed (lit "y") (EField (lit "c")) ONil))) (lit "x").
  Definition e_arr : expr := EIndex (EArr (ANormal (EInt 1) (ANormal (EField (lit "a")) (ANormal (EStr (lit "z")) ANil)))) (EInt 1).
  Definition u_c : str -> upt := of_list [(lit "c", UAll)].
  Definition u_a : str -> upt := of_list [(lit "a", UAll)].
  Definition prep_of (x : expr) := prepare [] (fun s => s) x (mk_gst 0).
  Definition hv_for (x : expr) (d : val) (i : str) : option val :=
    match find (fun p => str_eqb (fst p) i) (hoists (fst (fst (prep_of x)))) with
    | Some (_, he) => eval {| e_data := d; e_scopes := [] |} he
    | None => None
    end.
  Example obj_member_skipped : guard_den [] (fun _ => UNone) u_c (hv_for e_obj d0) (snd (prep_of e_obj)) = false.
  Proof. vm_compute. reflexivity. Qed.
  Example obj_member_taken : guard_den [] (fun _ => UNone) u_a (hv_for e_obj d0) (snd (prep_of e_obj)) = true.
  Proof. vm_compute. reflexivity. Qed.
  Example arr_item_taken : guard_den [] (fun _ => UNone) u_a (hv_for e_arr d0) (snd (prep_of e_arr)) = true.
  Proof. vm_compute. reflexivity. Qed.
  Example arr_item_skipped : guard_den [] (fun _ => UNone) u_c (hv_for e_arr d0) (snd (prep_of e_arr)) = false.
  Proof. vm_compute. reflexivity. Qed.

  (* a for item: {{ item.a }} under the item's update-path variable *)
  Definition item_scopes : list scope_var :=
    [{| sv_var := lit "c"; sv_upt := Some (lit "e"); sv_lv := LvVar (lit "f") true |}].
  Definition e_item : expr := EMember (EScope 0) (lit "a").
  Definition prep_item := prepare item_scopes (fun s => s) e_item (mk_gst 0).
  Definition tree_x (v : str) : upt := if str_eqb v (lit "e") then UNode (of_list [(lit "x", UAll)]) else UNone.
  Definition tree_a (v : str) : upt := if str_eqb v (lit "e") then UNode (of_list [(lit "a", UAll)]) else UNone.
  Example item_guard_false_when_other_member_changes :
    guard_den item_scopes tree_x (fun _ => UNone) (fun _ => None) (snd prep_item) = false.
  Proof. vm_compute. reflexivity. Qed.
  Example item_guard_true_when_member_changes :
    guard_den item_scopes tree_a (fun _ => UNone) (fun _ => None) (snd prep_item) = true.
  Proof. vm_compute. reflexivity. Qed.
End Witness.
