(* C12 — static strings reach the runtime code point for code point. Pinned statements only. *)
From GE Require Import Model.Str Model.Hex Model.Escape Model.JsLex Proofs.HexProofs Proofs.EscapeProofs.

(* For EVERY choice of which characters are written as \u{..} and every string of scalar
   values, the emitted literal is a strict-mode JavaScript string literal whose value is
   exactly that string, whatever follows it. *)
Theorem C12_lit_str_roundtrip : forall (esc_u : N -> bool) (s rest : str),
  Forall (fun c => c < 1114112) s ->
  js_string_decode (gen_lit_str esc_u s ++ rest) = Some (s, rest).
Proof. exact lit_str_roundtrip. Qed.
Print Assumptions C12_lit_str_roundtrip.

(* the repaired defect stays visible: plain Debug escaping is refuted by NUL + digit *)
Theorem C12_legacy_debug_escape_refuted :
  js_string_decode (legacy_gen_lit_str [0; 49]) = None.
Proof. exact legacy_nul_digit_refuted. Qed.
Print Assumptions C12_legacy_debug_escape_refuted.

Theorem C12_hex_roundtrip : forall c tail,
  c < 1114112 -> (match tail with t :: _ => hex_val t = None | [] => True end) ->
  exists cnt, parse_hex_run (to_hex c ++ tail) 0 0 = (c, cnt, tail) /\ 0 < cnt.
Proof. exact to_hex_parse. Qed.
Print Assumptions C12_hex_roundtrip.
