(* C04 — creation renders the tree WXML semantics define. Theorems ABOUT THE SPECIFICATION
   (Model/Render.v); the tie between the specification and the generated code is the
   correspondence run under node (there is no proof about the generator's protocol output). *)
From GE Require Import Model.Str Model.Lit Model.Expr Model.Tmpl Model.Val Model.Render Proofs.RenderProofs.

Theorem C04_render_if_first_truthy : forall subs globals slot_values call ev pre c body post k v,
  all_falsy ev pre -> eval_value ev c = Some v -> truthy v = true ->
  render_if subs globals slot_values call ev (bapp pre (BCons c body post)) k =
  option_map (fun ch => Some [RIf (VNum (Z.of_N (k + blen pre))) ch]) (render_nodes subs globals slot_values call VUndef ev body).
Proof. exact render_if_first_truthy. Qed.
Print Assumptions C04_render_if_first_truthy.

Theorem C04_render_else : forall subs globals slot_values call ev b has_else else_body sv,
  all_falsy ev b ->
  render_node subs globals slot_values call sv ev (NIf b has_else else_body)
  = option_map (fun c => [RIf (VNum 0) c]) (render_nodes subs globals slot_values call VUndef ev else_body).
Proof. exact render_else. Qed.
Print Assumptions C04_render_else.

Theorem C04_render_for_array : forall subs globals slot_values call ev e l item index key children sv r,
  eval ev e = Some (VArr l) ->
  render_node subs globals slot_values call sv ev (NFor (VDynamic e) item index key children) = Some r ->
  exists items, r = [RFor items] /\ length items = length l /\
    forall i x body, nth_error l i = Some x -> nth_error items i = Some body ->
      render_nodes subs globals slot_values call VUndef
        {| e_data := e_data ev; e_scopes := e_scopes ev ++ [x; VNum (Z.of_nat i)] |} children = Some body.
Proof. exact render_for_array. Qed.
Print Assumptions C04_render_for_array.

Theorem C04_render_attrs_one_per_attribute : forall ev l r,
  render_attrs ev l = Some r ->
  map (fun x => match x with RAttr k _ _ => k end) r = map (fun a => chan_key (va_chan a)) (filter delivered l).
Proof. exact render_attrs_one_per_attribute. Qed.
Print Assumptions C04_render_attrs_one_per_attribute.
