(* C04 — creation renders the tree WXML semantics define. Theorems ABOUT THE SPECIFICATION
   (Model/Render.v); the tie between the specification and the generated code is the
   correspondence run under node (there is no proof about the generator's protocol output). *)
From GE Require Import Model.Str Model.Lit Model.Expr Model.Tmpl Model.Val Model.Render Proofs.RenderProofs Model.AttrRoute Proofs.AttrRouteProofs.

Theorem C04_render_if_first_truthy : forall subs globals slot_values call ev pre c body post k v,
  all_falsy ev pre -> eval_value ev c = Some v -> truthy v = true ->
  render_if subs globals slot_values call ev (bapp pre (BCons c body post)) k =
  option_map (fun ch => Some [RIf (VNum (Z.of_N (k + blen pre))) ch]) (render_nodes subs globals slot_values call VUndef ev body).
Proof. exact render_if_first_truthy. Qed.
Print Assumptions C04_render_if_first_truthy.

Theorem C04_render_else : forall subs globals slot_values call ev b has_else else_body sv,
  all_falsy ev b ->
  render_node subs globals slot_values call sv ev (NIf b has_else else_body)
  = option_map (fun c => [RIf (VNum 0) c]) (render_nodes subs globals slot_values call VUndef ev else_body).
Proof. exact render_else. Qed.
Print Assumptions C04_render_else.

Theorem C04_render_for_array : forall subs globals slot_values call ev e l item index key children sv r,
  eval ev e = Some (VArr l) ->
  render_node subs globals slot_values call sv ev (NFor (VDynamic e) item index key children) = Some r ->
  exists items, r = [RFor items] /\ length items = length l /\
    forall i x body, nth_error l i = Some x -> nth_error items i = Some body ->
      render_nodes subs globals slot_values call VUndef
        {| e_data := e_data ev; e_scopes := e_scopes ev ++ [x; VNum (Z.of_nat i)] |} children = Some body.
Proof. exact render_for_array. Qed.
Print Assumptions C04_render_for_array.

Theorem C04_render_attrs_one_per_attribute : forall ev l r,
  render_attrs ev l = Some r ->
  map (fun x => match x with RAttr k _ _ => k end) r = map (fun a => chan_key (va_chan a)) (filter delivered l).
Proof. exact render_attrs_one_per_attribute. Qed.
Print Assumptions C04_render_attrs_one_per_attribute.

(* attribute families: channel and name normalisation, for every name (Model/AttrRoute.v) *)
Theorem C04_route_camel_families : forall n, no_colon n -> n <> [] ->
  route KView (lit "model:" ++ n) = Some (lit "r!:" ++ dash_to_camel n) /\
  route KView (lit "change:" ++ n) = Some (lit "p:" ++ dash_to_camel n) /\
  route KView (lit "worklet:" ++ n) = Some (lit "wl:" ++ dash_to_camel n) /\
  (forall k, route k (lit "slot:" ++ n) = Some (lit "sref:" ++ dash_to_camel n)).
Proof.
  intros n Hn Hne. repeat split.
  - now apply route_model. - now apply route_change. - now apply route_worklet.
  - intros k. now apply route_slot_ref.
Qed.
Print Assumptions C04_route_camel_families.

Theorem C04_route_verbatim_families : forall n, no_colon n -> n <> [] ->
  route KView (lit "generic:" ++ n) = Some (lit "g:" ++ n) /\
  route KView (lit "extra-attr:" ++ n) = Some (lit "a:" ++ n) /\
  (forall k, route k (lit "data:" ++ n) = Some (lit "d:" ++ n)) /\
  (forall k, route k (lit "mark:" ++ n) = Some (lit "m:" ++ n)).
Proof.
  intros n Hn Hne. repeat split.
  - now apply route_generic. - now apply route_extra_attr.
  - intros k. now apply route_data_colon. - intros k. now apply route_mark.
Qed.
Print Assumptions C04_route_verbatim_families.

Theorem C04_route_events : forall k n, no_colon n -> n <> [] ->
  route k (lit "bind:" ++ n) = Some (ev_key n false false false) /\
  route k (lit "mut-bind:" ++ n) = Some (ev_key n false true false) /\
  route k (lit "catch:" ++ n) = Some (ev_key n true false false) /\
  route k (lit "capture-bind:" ++ n) = Some (ev_key n false false true) /\
  route k (lit "capture-mut-bind:" ++ n) = Some (ev_key n false true true) /\
  route k (lit "capture-catch:" ++ n) = Some (ev_key n true false true).
Proof. exact route_events. Qed.
Print Assumptions C04_route_events.

Theorem C04_route_data_hyphen : forall k n, no_colon n -> n <> [] ->
  route k (lit "data-" ++ n) = Some (lit "d:" ++ dash_to_camel (lower_str n)).
Proof. exact route_data_hyphen. Qed.
Print Assumptions C04_route_data_hyphen.

Theorem C04_route_plain : forall n, no_colon n -> n <> [] -> reserved_plain n = false ->
  route KView n = Some (lit "r:" ++ n) /\ route KSlot n = Some (lit "l:" ++ dash_to_camel n).
Proof. exact route_plain. Qed.
Print Assumptions C04_route_plain.
