(* C18 — @import is replaced by a faithful placeholder. Pinned statements. *)
From GE Require Import Model.Str Model.CssNum Model.CssTok Model.CssOut Model.CssUrlEnc Model.Css Model.CssSpec.
From GE Require Import Proofs.CssUrlEncProofs Proofs.CssRuleProofs.
Open Scope N_scope.

(* the path is recoverable exactly: percent-decoding then UTF-8 decoding inverts the encoder,
   for every string of Unicode scalar values *)
Theorem C18_url_roundtrip : forall s, Forall (fun c => c < 1114112) s -> url_decode (url_encode s) = Some s.
Proof. exact url_roundtrip. Qed.
Print Assumptions C18_url_roundtrip.

(* the placeholder uses only [A-Za-z0-9-._~%] *)
Theorem C18_url_alphabet : forall s, Forall (fun c => c < 1114112) s ->
  Forall (fun c => (is_digit c || is_alpha c || (c =? 45) || (c =? 46) || (c =? 95) || (c =? 126) || (c =? 37)) = true)
         (url_encode s).
Proof. exact url_alphabet. Qed.
Print Assumptions C18_url_alphabet.

(* so a path containing "*/" cannot terminate the comment that carries it *)
Theorem C18_url_no_comment_end : forall s pre post, Forall (fun c => c < 1114112) s ->
  url_encode s <> pre ++ [42; 47] ++ post.
Proof. exact url_no_comment_end. Qed.
Print Assumptions C18_url_no_comment_end.

(* `@import "<path>";` writes exactly the placeholder, at the position after the keyword *)
Theorem C18_import_placeholder : forall o sign spos path w pw p ps r endp st,
  import_try o sign spos (Leaf (TWs w) pw :: Leaf (TStr path) p :: Leaf TSemi ps :: r) endp st =
  (Some r, tok_at st (TComment (sign ++ [32] ++ url_encode path)) spos None).
Proof. exact import_placeholder_ws. Qed.
Print Assumptions C18_import_placeholder.

(* a media query wraps the placeholder in one `@media <query> { }` pair *)
Theorem C18_import_media_wrapper : forall o sign spos path p q pq ps r endp st,
  str_eqb_ci q s_layer = false ->
  import_try o sign spos (Leaf (TStr path) p :: Leaf (TIdent q) pq :: Leaf TSemi ps :: r) endp st =
  (Some r,
   tok_at (tok_at (tok_at (tok_at (tok_at st (TAt s_media) spos None) (TIdent q) pq None)
                          TCurly spos None)
                  (TComment (sign ++ [32] ++ url_encode path)) spos None)
          TCloseCurly spos None).
Proof. exact import_placeholder_media. Qed.
Print Assumptions C18_import_media_wrapper.

(* the bare `layer` keyword directly after the target is an anonymous layer, in any letter case
   (fix 89a064d; it was read as the media type `layer`) *)
Theorem C18_import_bare_layer_wrapper : forall o sign spos path p q pq ps r endp st,
  str_eqb_ci q s_layer = true ->
  import_try o sign spos (Leaf (TStr path) p :: Leaf (TIdent q) pq :: Leaf TSemi ps :: r) endp st =
  (Some r,
   tok_at (tok_at (tok_at (tok_at st (TAt q) pq (Some (TIdent q))) TCurly pq None)
                  (TComment (sign ++ [32] ++ url_encode path)) spos None)
          TCloseCurly pq None).
Proof. exact import_placeholder_bare_layer. Qed.
Print Assumptions C18_import_bare_layer_wrapper.

(* `layer(..)` in any letter case: one `@layer <name> { }` wrapper, the name written by the value
   walker (fix 33fc779) *)
Theorem C18_import_layer_wrapper : forall o sign spos path p x px body be cl ps r endp st,
  str_eqb_ci x s_layer = true ->
  import_try o sign spos (Leaf (TStr path) p :: Block (TFunc x) px body be cl :: Leaf TSemi ps :: r) endp st =
  (Some r,
   tok_at (tok_at (tok_at (rpx_body o false body None (tok_at st (TAt x) px (Some (TFunc x)))) TCurly px None)
                  (TComment (sign ++ [32] ++ url_encode path)) spos None)
          TCloseCurly px None).
Proof. exact import_placeholder_layer_fn. Qed.
Print Assumptions C18_import_layer_wrapper.

Theorem C18_import_passthrough : forall o rec p r endp at_start st,
  import_sign o = None ->
  at_rule o rec (Leaf (TAt s_import) p :: r) endp at_start st =
  Some (at_prelude o rec false (o_mark (cur_out st)) r (tok_at st (TAt s_import) p None)).
Proof. exact import_passthrough. Qed.
Print Assumptions C18_import_passthrough.

(* without an import sign the rule passes through with its meaning intact: a dotted layer name is written by the value
   walker, whatever the class prefix (it used to come out as `layer(x.p--y)`) *)
Theorem C18_import_passthrough_layer : forall o rec contain mark path p x px body be cl ps r st,
  str_eqb_ci x s_layer = true ->
  at_prelude o rec contain mark (Leaf (TStr path) p :: Block (TFunc x) px body be cl :: Leaf TSemi ps :: r) st =
  (r, tok_at (tok_at (rpx_body o false body None (tok_at (tok_at st (TStr path) p None) (TFunc x) px None))
                     TCloseParen px None) TSemi ps None).
Proof. exact import_passthrough_layer. Qed.
Print Assumptions C18_import_passthrough_layer.

Theorem C18_import_position_warning : forall o rec sign p r endp st,
  import_sign o = Some sign ->
  exists rest st',
    at_rule o rec (Leaf (TAt s_import) p :: r) endp false st = Some (rest, st') /\
    exists st0, w_warns st0 = mkwarn W_IMPORT_POS (cur_pos r endp) :: w_warns st /\
                st' = snd (import_try o sign (cur_pos r endp) r endp st0).
Proof. exact import_position_warning. Qed.
Print Assumptions C18_import_position_warning.

(* ... and the first position is kept by `@import` / `@charset` rules only (fix 73ca189: the second of
   two leading imports was flagged); rule lists nested in a block never start a sheet *)
Theorem C18_import_start_survives : forall f o x p r endp st rest st',
  str_eqb_ci x s_import || str_eqb_ci x s_charset = true ->
  at_rule o (fun body be s => rules f o body be false s) (Leaf (TAt x) p :: r) endp true st = Some (rest, st') ->
  rules (S f) o (Leaf (TAt x) p :: r) endp true st = rules f o rest endp true st'.
Proof. exact import_start_survives. Qed.
Print Assumptions C18_import_start_survives.

Theorem C18_import_start_lost : forall f o x p r endp at_start st rest st',
  str_eqb_ci x s_import || str_eqb_ci x s_charset = false ->
  at_rule o (fun body be s => rules f o body be false s) (Leaf (TAt x) p :: r) endp at_start st = Some (rest, st') ->
  rules (S f) o (Leaf (TAt x) p :: r) endp at_start st = rules f o rest endp false st'.
Proof. exact import_start_lost. Qed.
Print Assumptions C18_import_start_lost.

(* the url forms write the same placeholder (fix eb11eee; before it the rule was dropped, D17) *)
Theorem C18_import_placeholder_url : forall o sign spos path w pw p ps r endp st,
  import_try o sign spos (Leaf (TWs w) pw :: Leaf (TUrl path) p :: Leaf TSemi ps :: r) endp st =
  (Some r, tok_at st (TComment (sign ++ [32] ++ url_encode path)) spos None).
Proof. exact import_placeholder_url. Qed.
Print Assumptions C18_import_placeholder_url.

Theorem C18_import_placeholder_url_fn : forall o sign spos path w pw p ps pf e c r endp st,
  import_try o sign spos
    (Leaf (TWs w) pw :: Block (TFunc [117; 114; 108]) pf [Leaf (TStr path) p] e c :: Leaf TSemi ps :: r) endp st =
  (Some r, tok_at st (TComment (sign ++ [32] ++ url_encode path)) spos None).
Proof. exact import_placeholder_url_fn. Qed.
Print Assumptions C18_import_placeholder_url_fn.

(* whole-sheet statement over the target forms (string or url token), every sign and path:
   the placeholder carrying the path is in the normal output *)
Theorem C18_import_any_target : C18_import_any_target_full.
Proof. exact import_any_target. Qed.
Print Assumptions C18_import_any_target.

(* balanced wrappers for every input: refuted by a malformed condition list
   (`@import 'a' layer(x) 5;` leaves `@layer x{` open) *)
Theorem C18_import_braces_balanced_refuted : ~ C18_import_braces_balanced_full.
Proof. exact import_braces_balanced_refuted. Qed.
Print Assumptions C18_import_braces_balanced_refuted.
