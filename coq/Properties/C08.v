(* C08 — stylesheet output keeps the token stream and all meaningful whitespace. Pinned statements. *)
From GE Require Import Model.Str Model.CssNum Model.CssTok Model.CssOut Model.CssUrlEnc Model.Css Model.CssSpec.
From GE Require Import Proofs.CssOutProofs Proofs.CssSpecProofs Proofs.CssTokProofs Proofs.CssShapeProofs Proofs.CssSheetShape.
Open Scope N_scope.

(* the separator table of cssparser is honoured by append_token, in both directions *)
Theorem C08_separator_sound : forall st t p src,
  needs_separator (o_prev st) (ser_type t) = true ->
  o_text (append_token st t p src) = o_text st ++ [32] ++ ser_tok t.
Proof. exact separator_sound. Qed.
Print Assumptions C08_separator_sound.

Theorem C08_no_spurious_separator : forall st t p src,
  needs_separator (o_prev st) (ser_type t) = false ->
  o_text (append_token st t p src) = o_text st ++ ser_tok t.
Proof. exact no_spurious_separator. Qed.
Print Assumptions C08_no_spurious_separator.

(* token preservation, for EVERY token tree (well-formed or not; `shaped` only says that block
   nodes open with one of the four block-opening tokens) and every option set without
   @import / :host rewriting: the non-whitespace, non-comment tokens of the normal output are,
   one for one and in order, the tokens of the input (blocks flattened, every block closed),
   each either unchanged, or the class-prefixed form of an identifier, or the vw form of an
   rpx dimension; the low-priority output stays empty *)
Theorem C08_tokens_preserved : forall o tree endp,
  shaped tree = true -> import_sign o = None -> convert_host o = false ->
  Forall2 (tok_rel o) (strip (flatten tree)) (strip (o_tokens (w_normal (transform o tree endp)))) /\
  w_low (transform o tree endp) = o_init.
Proof. exact tokens_preserved. Qed.
Print Assumptions C08_tokens_preserved.

(* full statement (tokens AND meaningful whitespace AND rewrites, both outputs): refuted *)
Theorem C08_conforms_refuted : ~ C08_conforms_full.
Proof. exact conforms_refuted. Qed.
Print Assumptions C08_conforms_refuted.

(* one witness per remaining known class of the token tree, each well-formed, each inside exactly
   its class.  (The former witnesses of D13 / D14 / D23 conform since the fix: commits in /repo:
   Examples former_d13_now_conforms, former_d14_now_conforms, former_d23_now_conforms.) *)
Theorem C08_witness_D15 :
  wf_tree plain d15_tree = true /\ model_conforms plain d15_tree (mkpos 0 9) = false /\
  known plain d15_tree = [15].
Proof. exact conforms_refuted_d15. Qed.
Print Assumptions C08_witness_D15.

Theorem C08_witness_D27 :
  wf_tree plain d27_tree = true /\ model_conforms plain d27_tree (mkpos 0 6) = false /\
  known plain d27_tree = [27].
Proof. exact conforms_refuted_d27. Qed.
Print Assumptions C08_witness_D27.

(* the sheets of the repaired classes now conform (regression anchors) *)
Theorem C08_fixed_D13_D14_D23_conform :
  model_conforms with_prefix d13_tree (mkpos 0 20) = true /\
  model_conforms with_prefix d14_tree (mkpos 0 17) = true /\
  model_conforms plain d23_tree (mkpos 0 19) = true.
Proof.
  split; [apply former_d13_now_conforms | split; [apply former_d14_now_conforms | apply former_d23_now_conforms]].
Qed.
Print Assumptions C08_fixed_D13_D14_D23_conform.

(* WHOLE SHEETS, EVERY OPTION SET: the tokens of the normal output that are not white space - kind, unit and strings of
   each (CssSpec.tok_shape; numeric values are C10's) - are exactly the specification's, in order: nothing dropped, added,
   merged, split or reordered; every class selector prefixed and signed where the specification says; every `rpx`
   dimension a `vw` dimension where the specification converts; `@import` placeholders with their `@layer` / `@supports` /
   `@media` wrappers opened and closed as often as the specification says; `:host` rules absent from the normal output.
   For every well-shaped token tree of every size and depth whose rules are complete and that has no `rpx` dimension
   directly in an at-rule prelude (class D29, the one place where the code deviates: C10_prelude_rpx_refuted).
   What this leaves to the differential run is the white space BETWEEN the tokens (the gap requirements) and the known
   serializer classes D15 D24 D27 D28, which concern the text, not the token kinds. *)
Theorem C08_token_shapes_exact_sheet : forall o tree endp,
  shaped tree = true -> k29_list tree = false ->
  so_complete (expected o tree) = true ->
  shp (o_tokens (w_normal (transform o tree endp))) = shp (map e_tok (so_normal (expected o tree))).
Proof. exact shape_exact_sheet. Qed.
Print Assumptions C08_token_shapes_exact_sheet.

(* the hypotheses are inhabited: nested at-rules with selector functions; an @import with a sign and a dotted layer name *)
Example C08_token_shapes_inhabited :
  (shaped d14_tree = true /\ k29_list d14_tree = false /\ so_complete (expected with_prefix d14_tree) = true) /\
  (shaped d25_tree = true /\ k29_list d25_tree = false /\ so_complete (expected d25_opts d25_tree) = true).
Proof. vm_compute. repeat split; reflexivity. Qed.

(* ... and the same for the LOW-PRIORITY output (the converted `:host` rules inside their replayed at-rule chains): with the
   theorem above, both outputs of the transformer are characterised token shape by token shape *)
From GE Require Proofs.CssSheetLowShape.
Theorem C08_low_token_shapes_exact_sheet : forall o tree endp,
  shaped tree = true -> k29_list tree = false ->
  so_complete (expected o tree) = true ->
  shp (o_tokens (w_low (transform o tree endp))) = shp (map e_tok (so_low (expected o tree))).
Proof. exact CssSheetLowShape.low_shape_sheet. Qed.
Print Assumptions C08_low_token_shapes_exact_sheet.
