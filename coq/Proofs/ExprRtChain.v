(* Round trip print -> parse, generic part: the parser functions indexed by binary level, their
   invariance under leading white space, and the chain that lifts "this text is read as e by
   parse_member" through the unary level and the ten binary levels up to parse_cond. *)
From GE Require Import Model.StrExpr Model.ExprParse Proofs.ExprParseProofs Proofs.ExprParseFuel Proofs.ExprRtTokens.
From Coq Require Import Lia ZifyBool ZifyN.
Import ListNotations.
Local Open Scope nat_scope.

Notation pc := parse_cond.

Fixpoint PL (j : nat) : str -> pres expr :=
  match j with
  | O => p_unary pc
  | S i => level (PL i) (ops_of i)
  end.

Lemma p_lor_PL : p_lor pc = PL 10.
Proof. reflexivity. Qed.

Lemma ops_of_ok : forall i, Forall (fun p => consuming (snd p)) (ops_of i).
Proof.
  intro i. do 10 (destruct i as [|i]; [first [exact ops_mul_ok|exact ops_add_ok|exact ops_shift_ok|exact ops_cmp_ok|exact ops_eq_ok
                                              |exact ops_band_ok|exact ops_bxor_ok|exact ops_bor_ok|exact ops_land_ok|exact ops_lor_ok]|]).
  constructor.
Qed.
Lemma ops_of_skip : forall i, Forall (fun p => skip_invariant (snd p)) (ops_of i).
Proof.
  intro i. do 10 (destruct i as [|i]; [first [exact ops_mul_skip|exact ops_add_skip|exact ops_shift_skip|exact ops_cmp_skip|exact ops_eq_skip
                                              |exact ops_band_skip|exact ops_bxor_skip|exact ops_bor_skip|exact ops_land_skip|exact ops_lor_skip]|]).
  constructor.
Qed.

Lemma PL_le : forall j s, le_res (PL j s) s.
Proof.
  induction j as [|j IH]; intro s; cbn [PL].
  - apply p_unary_le. exact parse_cond_le.
  - apply (level_le pc parse_cond_le); [exact IH|apply ops_of_ok].
Qed.

(* ---- leading white space is invisible to every parser function ---- *)
Definition skipinv {A : Type} (P : str -> pres A) : Prop := forall s, P (skip s) = P s.

Lemma p_lit_skip : skipinv (p_lit pc).
Proof. intro s. unfold p_lit. rewrite skip_idem. reflexivity. Qed.

Lemma p_member_skip : skipinv (p_member pc).
Proof. intro s. unfold p_member. rewrite p_lit_skip. reflexivity. Qed.

Lemma unary_loop_skip : forall n s, unary_loop pc (S n) (skip s) = unary_loop pc (S n) s.
Proof. intros n s. cbn [unary_loop]. rewrite (first_op_skip _ _ unops_skip), p_member_skip. reflexivity. Qed.

Lemma p_unary_skip : skipinv (p_unary pc).
Proof.
  intro s. unfold p_unary. pose proof (skip_le s).
  rewrite (unary_loop_fuel pc parse_cond_le (S (length (skip s))) (S (length s)) (skip s)) by lia.
  apply unary_loop_skip.
Qed.

Lemma level_skip : forall next ops, skipinv next -> skipinv (level next ops).
Proof. intros next ops H s. unfold level. rewrite H. reflexivity. Qed.

Lemma PL_skip : forall j, skipinv (PL j).
Proof. induction j as [|j IH]; cbn [PL]; [exact p_unary_skip|apply level_skip; exact IH]. Qed.

Lemma cond_body_skip : skipinv (cond_body pc).
Proof. intro s. unfold cond_body. rewrite p_lor_PL, (PL_skip 10 s). reflexivity. Qed.

Lemma parse_cond_skip : skipinv pc.
Proof. intro s. rewrite (parse_cond_unfold (skip s)), (parse_cond_unfold s). apply cond_body_skip. Qed.

Lemma skipinv_eq : forall (A : Type) (P : str -> pres A) x y, skipinv P -> skip x = skip y -> P x = P y.
Proof. intros A P x y H E. rewrite <- (H x), <- (H y), E. reflexivity. Qed.

(* ---- loops and leading white space ---- *)
Lemma level_loop_skip : forall next ops, Forall (fun p => skip_invariant (snd p)) ops ->
  forall n l s, level_loop next ops (S n) l (skip s) = level_loop next ops (S n) l s.
Proof. intros next ops H n l s. cbn [level_loop]. rewrite (first_op_skip _ _ H), skip_idem. reflexivity. Qed.

Lemma member_loop_skip : forall n o s, member_loop pc (S n) o (skip s) = member_loop pc (S n) o s.
Proof. intros n o s. cbn [member_loop]. rewrite !tok_skip, skip_idem. reflexivity. Qed.

(* the loop of a binary level, entered with enough fuel on a tail that the level's table does not
   match, returns its left operand *)
Lemma level_loop_stop : forall next ops n l s, first_op ops s = None -> level_loop next ops (S n) l s = POk l (skip s).
Proof. intros. cbn [level_loop]. rewrite H. reflexivity. Qed.

Lemma member_loop_stop : forall n o s, stopsM s -> member_loop pc (S n) o s = POk o (skip s).
Proof. intros n o s [H1 [H2 H3]]. cbn [member_loop]. rewrite H1, H2, H3. reflexivity. Qed.

Lemma stopsB_mono : forall i j s, i <= j -> stopsB j s -> stopsB i s.
Proof. intros i j s Hij H k Hk. apply H. lia. Qed.

(* ---- the chain ---- *)
Section ChainFrom.
  Variable T : str.                 (* a printed text *)
  Variable e : expr.                (* what it must be read as *)
  Variable Q : str -> Prop.         (* the tails for which the base fact holds *)

  (* loop form at level b from the plain form at level b *)
  Lemma loop_of_level : forall b,
    (forall tail, Q tail -> stopsM tail -> stopsB b tail -> PL b (T ++ tail) = POk e (skip tail)) ->
    forall tail n, Q tail -> stopsM tail -> stopsB b tail -> length tail < n ->
    PL (S b) (T ++ tail) = level_loop (PL b) (ops_of b) n e tail.
  Proof.
    intros b H tail n HQ HM HB Hn. cbn [PL]. unfold level. rewrite (H tail HQ HM HB).
    pose proof (skip_le tail) as Hs.
    rewrite (level_loop_fuel pc parse_cond_le (PL b) (ops_of b) (PL_le b) (ops_of_ok b) (S (length (skip tail))) n e (skip tail)) by lia.
    destruct n as [|n]; [lia|]. apply level_loop_skip. apply ops_of_skip.
  Qed.

  (* plain form at level b+1 from the loop form at level b *)
  Lemma level_of_loop : forall b,
    (forall tail n, Q tail -> stopsM tail -> stopsB b tail -> length tail < n ->
       PL (S b) (T ++ tail) = level_loop (PL b) (ops_of b) n e tail) ->
    forall tail, Q tail -> stopsM tail -> stopsB (S b) tail -> PL (S b) (T ++ tail) = POk e (skip tail).
  Proof.
    intros b H tail HQ HM HB.
    rewrite (H tail (S (length tail)) HQ HM (stopsB_mono b (S b) tail ltac:(lia) HB) ltac:(lia)).
    apply level_loop_stop. apply HB. lia.
  Qed.

  Variable j0 : nat.
  Hypothesis base : forall tail, Q tail -> stopsM tail -> stopsB j0 tail -> PL j0 (T ++ tail) = POk e (skip tail).

  Lemma from_levels : forall j, j0 <= j -> forall tail, Q tail -> stopsM tail -> stopsB j tail -> PL j (T ++ tail) = POk e (skip tail).
  Proof.
    intros j Hj. induction Hj as [|j Hj IH]; [exact base|].
    apply level_of_loop. apply loop_of_level. exact IH.
  Qed.

  Lemma from_loop : forall b, j0 <= b -> forall tail n, Q tail -> stopsM tail -> stopsB b tail -> length tail < n ->
    PL (S b) (T ++ tail) = level_loop (PL b) (ops_of b) n e tail.
  Proof. intros b Hb. apply loop_of_level. apply from_levels. exact Hb. Qed.

  Lemma from_cond : j0 <= 10 -> forall tail, Q tail -> stopsM tail -> stopsB 10 tail -> tok_cond tail = None ->
    pc (T ++ tail) = POk e (skip tail).
  Proof.
    intros Hj tail HQ HM HB HC. rewrite parse_cond_unfold. unfold cond_body. rewrite p_lor_PL.
    rewrite (from_levels 10 Hj tail HQ HM HB), tok_cond_skip, HC, skip_idem. reflexivity.
  Qed.
End ChainFrom.

(* the base at the unary level, from the member loop *)
Lemma unary_of_member : forall T e (Q : str -> Prop),
  (forall tail n, Q tail -> length tail < n -> p_member pc (T ++ tail) = member_loop pc n e tail) ->
  (forall tail, Q tail -> first_op unops (T ++ tail) = None) ->
  forall tail, Q tail -> stopsM tail -> stopsB 0 tail -> PL 0 (T ++ tail) = POk e (skip tail).
Proof.
  intros T e Q base_ml base_un tail HQ HM _. cbn [PL]. unfold p_unary. cbn [unary_loop]. rewrite (base_un tail HQ).
  rewrite (base_ml tail (S (length tail)) HQ ltac:(lia)). apply member_loop_stop. exact HM.
Qed.
