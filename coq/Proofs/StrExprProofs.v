(* The stringifier's expression printer (Model/StrExpr.v): its operand levels are those of a
   stratified left-associative grammar; its text pieces never create a binding start. *)
From GE Require Import Model.StrExpr Proofs.HtmlEscapeProofs.
From Coq Require Import Lia ZifyBool ZifyN.
Import ListNotations.
Local Open Scope N_scope.

Lemma sx_tables_ok : forall op, sx_left op = sx_binop_level op /\ sx_right op + 1 = sx_binop_level op.
Proof. intros op. destruct op; split; reflexivity. Qed.

Lemma sx_level_le_cond : forall e, (L_Cond <? sx_level e) = false.
Proof. intros e. destruct e; try reflexivity. destruct op; reflexivity. Qed.

Lemma sx_paren_decision : forall names e a,
  sx_print names e a = paren_if (a <? sx_level e) (sx_print names e L_Cond).
Proof. intros. unfold sx_print. now rewrite sx_level_le_cond. Qed.

(* the legacy right level of + (the same as the left one) would not satisfy the table condition *)
Lemma sx_legacy_plus_refuted : L_Plus + 1 <> sx_binop_level BAdd.
Proof. discriminate. Qed.

(* ---- text pieces ---- *)
Fixpoint ends_lb (t : str) : bool :=
  match t with
  | [] => false
  | [c] => c =? 123
  | _ :: r => ends_lb r
  end.

Lemma hdl_snoc_lb : forall t, has_double_lbrace (t ++ [123]) = (has_double_lbrace t || ends_lb t)%bool.
Proof.
  induction t as [|a t IH]; [reflexivity|]. destruct t as [|b t].
  - change ([a] ++ [123]) with [a; 123]. destruct (N.eqb_spec a 123) as [->|Ha]; [reflexivity|].
    rewrite (hdl_cons_not a [123] Ha), (hdl_cons_not a [] Ha). cbn [ends_lb]. apply N.eqb_neq in Ha. now rewrite Ha.
  - change ((a :: b :: t) ++ [123]) with (a :: (b :: t) ++ [123]) in *.
    change (ends_lb (a :: b :: t)) with (ends_lb (b :: t)).
    destruct (N.eqb_spec a 123) as [->|Ha].
    + destruct (N.eqb_spec b 123) as [->|Hb]; [reflexivity|].
      change ((b :: t) ++ [123]) with (b :: t ++ [123]) in *.
      rewrite !hdl_lbrace_other by assumption. exact IH.
    + rewrite !hdl_cons_not by assumption. exact IH.
Qed.

Lemma hdl_app_break : forall p c q, c <> 123 ->
  has_double_lbrace (p ++ c :: q) = (has_double_lbrace p || has_double_lbrace (c :: q))%bool.
Proof.
  induction p as [|a p IH]; intros c q Hc; [reflexivity|]. destruct p as [|b p].
  - change ([a] ++ c :: q) with (a :: c :: q). destruct (N.eqb_spec a 123) as [->|Ha].
    + rewrite (hdl_lbrace_other c q Hc). reflexivity.
    + rewrite (hdl_cons_not a (c :: q) Ha), (hdl_cons_not a [] Ha). reflexivity.
  - change ((a :: b :: p) ++ c :: q) with (a :: (b :: p) ++ c :: q).
    destruct (N.eqb_spec a 123) as [->|Ha].
    + destruct (N.eqb_spec b 123) as [->|Hb]; [reflexivity|].
      change ((b :: p) ++ c :: q) with (b :: p ++ c :: q).
      rewrite (hdl_lbrace_other b (p ++ c :: q) Hb), (hdl_lbrace_other b p Hb).
      exact (IH c q Hc).
    + rewrite (hdl_cons_not a ((b :: p) ++ c :: q) Ha), (hdl_cons_not a (b :: p) Ha).
      exact (IH c q Hc).
Qed.

Lemma hdl_prefix : forall p q, has_double_lbrace (p ++ q) = false -> has_double_lbrace p = false.
Proof.
  induction p as [|a p IH]; intros q H; [reflexivity|]. destruct p as [|b p].
  - destruct (N.eqb_spec a 123) as [->|Ha]; [reflexivity | now rewrite (hdl_cons_not a [] Ha)].
  - change ((a :: b :: p) ++ q) with (a :: (b :: p) ++ q) in H.
    destruct (N.eqb_spec a 123) as [->|Ha].
    + destruct (N.eqb_spec b 123) as [->|Hb]; [discriminate H|].
      change ((b :: p) ++ q) with (b :: p ++ q) in H.
      rewrite (hdl_lbrace_other b (p ++ q) Hb) in H. rewrite (hdl_lbrace_other b p Hb).
      exact (IH q H).
    + rewrite (hdl_cons_not a ((b :: p) ++ q) Ha) in H. rewrite (hdl_cons_not a (b :: p) Ha).
      exact (IH q H).
Qed.

Lemma ends_lb_snoc : forall t c, ends_lb (t ++ [c]) = (c =? 123).
Proof.
  induction t as [|a t IH]; intros c; [reflexivity|]. cbn [app].
  destruct t as [|b t]; [reflexivity|]. cbn [app] in *. exact (IH c).
Qed.

(* a text piece followed by the `{{` of a binding: no binding start before that `{{` *)
Theorem text_piece_then_binding : forall s,
  has_double_lbrace (text_piece true s ++ [123]) = false.
Proof.
  intros s. unfold text_piece.
  pose proof (escape_html_body_no_binding_start s) as Ht.
  destruct (rev (escape_html_body s)) as [|c r] eqn:Er.
  - apply (f_equal (@rev N)) in Er. rewrite rev_involutive in Er. cbn in Er. rewrite Er. reflexivity.
  - assert (Et : escape_html_body s = rev r ++ [c]).
    { apply (f_equal (@rev N)) in Er. rewrite rev_involutive in Er. exact Er. }
    destruct (N.eqb_spec c 123) as [->|Hc].
    + (* the trailing brace is escaped *)
      replace (match (123 :: r) with 123 :: r0 => rev r0 ++ lit "&#123;" | _ => escape_html_body s end)
        with (rev r ++ lit "&#123;") by reflexivity.
      rewrite <- app_assoc. change (lit "&#123;" ++ [123]) with (38 :: [35; 49; 50; 51; 59; 123]).
      rewrite hdl_app_break by discriminate.
      rewrite Et in Ht. rewrite (hdl_prefix _ _ Ht). reflexivity.
    + replace (match (c :: r) with 123 :: r0 => rev r0 ++ lit "&#123;" | _ => escape_html_body s end)
        with (escape_html_body s).
      2:{ destruct c as [|p]; [reflexivity|]. repeat (destruct p as [p|p|]; try reflexivity); congruence. }
      rewrite hdl_snoc_lb, Ht, Et, ends_lb_snoc. cbn. now apply N.eqb_neq.
Qed.
