(* C10: what is proved about numbers.  The f32 / Grisu2 / restrict_prec functions of
   Model/CssNum.v are transliterations of dependency code and are tied to the binaries by
   differential testing only; the statements here are about how the stylesheet compiler USES
   them (which tokens are rewritten, with which formula) plus bounded exactness facts obtained
   by evaluating the model. *)
From GE Require Import Model.Str Model.CssNum Model.CssTok Model.CssOut Model.CssUrlEnc Model.Css.
From Coq Require Import Lia ZArith.
Open Scope N_scope.

(* any unit other than exactly "rpx": the dimension is written unchanged, without a name *)
Lemma rpx_only : forall o st n u p,
  str_eqb u s_rpx = false -> write_maybe_rpx_dimension o st n u p = tok_at st (TDim n u) p None.
Proof. intros o st n u p H. unfold write_maybe_rpx_dimension. rewrite H. reflexivity. Qed.

(* unit "rpx": value * 100 / ratio (two f32 operations), unit vw, sign flag kept, integer flag
   recomputed, original token recorded as the source-map name *)
Lemma rpx_formula : forall o st n p,
  write_maybe_rpx_dimension o st n s_rpx p =
  tok_at st (TDim (mknum (n_sign n)
                         (rpx_new_int (f_div (f_mul (n_bits n) f_100) (rpx_ratio o)))
                         (f_div (f_mul (n_bits n) f_100) (rpx_ratio o)) []) s_vw)
         p (Some (TDim n s_rpx)).
Proof. intros. unfold write_maybe_rpx_dimension. replace (str_eqb s_rpx s_rpx) with true by reflexivity. reflexivity. Qed.

(* an explicit sign is kept: has_sign of the output token = has_sign of the input token *)
Lemma rpx_sign : forall o n,
  n_sign (mknum (n_sign n) (rpx_new_int (rpx_new_value (n_bits n) (rpx_ratio o)))
                (rpx_new_value (n_bits n) (rpx_ratio o)) []) = n_sign n.
Proof. reflexivity. Qed.

(* ---- integers ---- *)

Fixpoint dec_digits (fuel : nat) (n : N) (acc : str) : str :=
  match fuel with
  | O => acc
  | S f => let acc' := (48 + n mod 10) :: acc in if n / 10 =? 0 then acc' else dec_digits f (n / 10) acc'
  end.
Definition dec_N (n : N) : str := dec_digits 12 n [].
Definition dec_Z (z : Z) : str :=
  match z with Z0 => [48] | Zpos p => dec_N (Npos p) | Zneg p => 45 :: dec_N (Npos p) end.

(* the number token cssparser produces for the integer literal i (value = nearest f32) *)
Definition int_token (i : Z) : cnum :=
  mknum false (Some i) (with_sign (i <? 0)%Z (round_mag (Z.to_N (Z.abs i)) 1)) [].

Definition int_prints_exactly (i : Z) : bool := str_eqb (num_text (int_token i)) (dec_Z i).

(* full statement of "integers exactly" over the i32 range *)
Definition C10_int_exact_full : Prop :=
  forall i : Z, (-2147483648 <= i <= 2147483647)%Z -> int_prints_exactly i = true.

(* D16: z-index: 2147483647 is printed as 2147480000; 9999999 as 10000000 *)
Theorem int_exact_refuted : ~ C10_int_exact_full.
Proof. intro H. specialize (H 2147483647%Z). vm_compute in H. assert (false = true) by (apply H; split; discriminate). discriminate. Qed.

Example int_exact_refuted_values :
  num_text (int_token 2147483647) = [50;49;52;55;52;56;48;48;48;48] /\
  num_text (int_token 9999999) = [49;48;48;48;48;48;48;48] /\
  num_text (int_token 16777217) = [49;54;55;55;55;50;48;48].
Proof. vm_compute. repeat split; reflexivity. Qed.

(* bounded exactness by evaluation of the model: every integer 0 <= i <= 100000 is printed as
   its decimal spelling.  (Integers with at most 6 significant digits beyond this bound are
   covered by the differential run only.) *)
Fixpoint all_from (fuel : nat) (i : N) : bool :=
  match fuel with O => true | S f => int_prints_exactly (Z.of_N i) && all_from f (i + 1) end.

Lemma all_from_spec : forall fuel i, all_from fuel i = true ->
  forall k, i <= k -> k < i + N.of_nat fuel -> int_prints_exactly (Z.of_N k) = true.
Proof.
  induction fuel as [|f IH]; intros i H k Hk1 Hk2; [lia|].
  cbn [all_from] in H. apply andb_prop in H. destruct H as [H1 H2].
  destruct (N.eq_dec k i) as [->|Hne]; [exact H1|].
  apply (IH (i + 1) H2); lia.
Qed.

Definition bound_nat : nat := N.to_nat 100001.

Lemma all_from_bound : all_from bound_nat 0 = true.
Proof. vm_compute. reflexivity. Qed.

Lemma bound_nat_N : N.of_nat bound_nat = 100001.
Proof. vm_compute. reflexivity. Qed.

Theorem int_exact_upto_100000 : forall i : Z, (0 <= i <= 100000)%Z -> int_prints_exactly i = true.
Proof.
  intros i Hi. rewrite <- (Z2N.id i) by lia.
  apply (all_from_spec bound_nat 0 all_from_bound); [lia|]. rewrite bound_nat_N. lia.
Qed.

(* six significant digits: exact decimals with few digits survive, e.g. 0.5, 7.5, 0.133333 *)
Example nonint_examples :
  write_numeric 1056964608 None false = [48;46;53] /\                       (* 0.5 *)
  write_numeric 1089470464 None false = [55;46;53] /\                       (* 7.5 *)
  write_numeric (rpx_new_value 1065353216 1144750080) None false = [48;46;49;51;51;51;51;51] /\ (* 1rpx / 750 *)
  write_numeric 1067320914 None false = [49;46;50;51;52;53;55].             (* 1.23456789 -> 1.23457 *)
Proof. vm_compute. repeat split; reflexivity. Qed.
