From GE Require Import Model.Str Model.SrcPos.
From Coq Require Import Lia ZifyBool ZifyN ZifyNat.

(* ---------- skip_bytes / write_str compute exactly the character-wise position ---------- *)
Lemma count_nl_acc s : forall n, fold_left (fun n c => if c =? 10 then n + 1 else n) s n = n + count_nl s.
Proof.
  unfold count_nl. induction s as [|c s IH]; intros n; cbn [fold_left]; [lia|].
  rewrite IH, (IH (if c =? 10 then 0 + 1 else 0)). destruct (c =? 10); lia.
Qed.

Lemma count_nl_snoc s c : count_nl (s ++ [c]) = count_nl s + (if c =? 10 then 1 else 0).
Proof. unfold count_nl. rewrite fold_left_app. cbn. destruct (c =? 10); lia. Qed.

Lemma utf16_length_acc s : forall n, fold_left (fun n c => n + utf16_len c) s n = n + utf16_length s.
Proof.
  unfold utf16_length. induction s as [|c s IH]; intros n; cbn [fold_left]; [lia|].
  rewrite IH, (IH (0 + utf16_len c)). lia.
Qed.

Lemma utf16_length_snoc s c : utf16_length (s ++ [c]) = utf16_length s + utf16_len c.
Proof. unfold utf16_length. rewrite fold_left_app. cbn. reflexivity. Qed.

Lemma after_last_nl_snoc s : forall cur c,
  after_last_nl (s ++ [c]) cur = if c =? 10 then [] else after_last_nl s cur ++ [c].
Proof.
  induction s as [|x s IH]; intros cur c; cbn [app after_last_nl].
  - destruct (c =? 10); cbn; reflexivity.
  - destruct (x =? 10); apply IH.
Qed.

Lemma skip_text_snoc p s c : skip_text p (s ++ [c]) = advance (skip_text p s) c.
Proof.
  unfold skip_text, advance. rewrite count_nl_snoc, after_last_nl_snoc.
  destruct (N.eqb_spec c 10) as [->|Hc].
  - replace (0 <? count_nl s + 1) with true by lia.
    destruct (N.ltb_spec 0 (count_nl s)); cbn [p_line p_col]; f_equal; lia.
  - rewrite N.add_0_r. destruct (N.ltb_spec 0 (count_nl s)); cbn [p_line p_col]; f_equal;
      rewrite utf16_length_snoc; lia.
Qed.

Theorem skip_text_advance p s : skip_text p s = advance_str p s.
Proof.
  induction s as [|c s IH] using rev_ind.
  - unfold skip_text, advance_str. cbn. destruct p. cbn. f_equal. lia.
  - rewrite skip_text_snoc, IH. unfold advance_str. rewrite fold_left_app. reflexivity.
Qed.

(* positions compose: skipping s1 then s2 is skipping s1 ++ s2 (any sequence of cursor moves) *)
Theorem skip_text_app p s1 s2 : skip_text (skip_text p s1) s2 = skip_text p (s1 ++ s2).
Proof. rewrite !skip_text_advance. unfold advance_str. now rewrite fold_left_app. Qed.

(* ---------- every position the cursor can have decodes to the offset it came from ---------- *)
Lemma find_col_line : forall seg post col0 k,
  ~ In 10 seg ->
  find_col (seg ++ post) (col0 + utf16_length seg) k col0 = Some (k + length seg)%nat.
Proof.
  induction seg as [|c seg IH]; intros post col0 k Hn.
  - cbn [app length]. unfold utf16_length. cbn [fold_left]. rewrite N.add_0_r, Nat.add_0_r.
    destruct post; cbn [find_col]; now rewrite N.eqb_refl.
  - cbn [app find_col length].
    assert (Hu : utf16_length (c :: seg) = utf16_len c + utf16_length seg).
    { unfold utf16_length. cbn [fold_left]. rewrite utf16_length_acc. unfold utf16_length. lia. }
    rewrite Hu. assert (0 < utf16_len c) by (unfold utf16_len; destruct (c <? 65536); lia).
    replace (col0 =? col0 + (utf16_len c + utf16_length seg)) with false by lia.
    replace (c =? 10) with false by (symmetry; apply N.eqb_neq; intros ->; apply Hn; now left).
    replace (col0 + (utf16_len c + utf16_length seg) <? col0 + utf16_len c) with false by lia.
    replace (col0 + (utf16_len c + utf16_length seg)) with ((col0 + utf16_len c) + utf16_length seg) by lia.
    rewrite IH by (intros H'; apply Hn; now right). f_equal. lia.
Qed.

Lemma find_line_prefix : forall pre post n k,
  find_line (pre ++ post) (n + count_nl pre) k =
  match find_line post n (k + length pre)%nat with
  | Some r => if n =? 0 then Some (after_last_nl pre [] ++ post, (k + length pre - length (after_last_nl pre []))%nat) else Some r
  | None => if n =? 0 then Some (after_last_nl pre [] ++ post, (k + length pre - length (after_last_nl pre []))%nat) else None
  end.
Proof.
  (* only the case n = 0 is needed below; proved directly *)
Abort.

Lemma count_nl_cons c s : count_nl (c :: s) = (if c =? 10 then 1 else 0) + count_nl s.
Proof. unfold count_nl. cbn [fold_left]. rewrite count_nl_acc. unfold count_nl. destruct (c =? 10); lia. Qed.

Lemma no_nl_count s : count_nl s = 0 -> ~ In 10 s.
Proof.
  induction s as [|c s IH]; intros H; [intros []|].
  rewrite count_nl_cons in H. destruct (N.eqb_spec c 10); [lia|].
  intros [E|E]; [congruence|]. apply IH; [lia | exact E].
Qed.

Lemma after_last_nl_no_nl : forall s cur, ~ In 10 s -> after_last_nl s cur = rev cur ++ s.
Proof.
  induction s as [|x s IHs]; intros cur Hn; cbn [after_last_nl]; [now rewrite app_nil_r|].
  destruct (N.eqb_spec x 10) as [->|Hx]; [exfalso; apply Hn; now left|].
  rewrite IHs by (intros H; apply Hn; now right). cbn [rev]. now rewrite <- app_assoc.
Qed.

Lemma find_line_zero s k : find_line s 0 k = Some (s, k).
Proof. destruct s; reflexivity. Qed.

Lemma find_line_pos c s line k : line <> 0 ->
  find_line (c :: s) line k = if c =? 10 then find_line s (line - 1) (S k) else find_line s line (S k).
Proof. intros H. cbn [find_line]. replace (line =? 0) with false by lia. reflexivity. Qed.

Lemma after_last_nl_cur : forall s cur, ~ In 10 cur ->
  ~ In 10 (after_last_nl s cur) /\ (length (after_last_nl s cur) <= length cur + length s)%nat.
Proof.
  induction s as [|c s IH]; intros cur Hc; cbn [after_last_nl].
  - split; [now rewrite <- in_rev | rewrite rev_length; cbn; lia].
  - destruct (N.eqb_spec c 10) as [->|Hne].
    + destruct (IH [] (fun H => H)) as [A B]. split; [exact A | cbn in *; lia].
    + destruct (IH (c :: cur)) as [A B]; [intros [H|H]; [congruence | contradiction]|].
      split; [exact A | cbn in *; lia].
Qed.

(* find_line reaches the start of the last line of `pre`; stated with an explicit accumulator *)
Lemma find_line_last : forall pre cur post k,
  ~ In 10 cur ->
  find_line (pre ++ post) (count_nl pre) (k + length cur)%nat =
  (if 0 <? count_nl pre
   then Some (after_last_nl pre cur ++ post, (k + length cur + length pre - length (after_last_nl pre cur))%nat)
   else Some (pre ++ post, (k + length cur)%nat)).
Proof.
  induction pre as [|c pre IH]; intros cur post k Hc.
  - cbn [app count_nl fold_left]. rewrite find_line_zero. reflexivity.
  - cbn [app]. destruct (N.eqb_spec c 10) as [->|Hne].
    + assert (E : count_nl (10 :: pre) = 1 + count_nl pre) by (rewrite count_nl_cons; reflexivity).
      rewrite E. replace (0 <? 1 + count_nl pre) with true by lia.
      rewrite find_line_pos by lia. cbn [N.eqb Pos.eqb].
      replace (1 + count_nl pre - 1) with (count_nl pre) by lia.
      cbn [after_last_nl]. cbn [N.eqb Pos.eqb].
      specialize (IH [] post (S (k + length cur)) (fun H => H)). cbn [length] in IH. rewrite Nat.add_0_r in IH.
      rewrite IH. destruct (N.ltb_spec 0 (count_nl pre)).
      * f_equal. f_equal. cbn [length]. lia.
      * (* no further newline: the last line is all of pre *)
        assert (Hpre : after_last_nl pre [] = pre).
        { apply (after_last_nl_no_nl pre []). apply no_nl_count. lia. }
        rewrite Hpre. f_equal. f_equal. cbn [length]. lia.
    + assert (E : count_nl (c :: pre) = count_nl pre).
      { rewrite count_nl_cons. replace (c =? 10) with false by (symmetry; now apply N.eqb_neq). lia. }
      rewrite E. cbn [after_last_nl]. replace (c =? 10) with false by (symmetry; now apply N.eqb_neq).
      destruct (N.ltb_spec 0 (count_nl pre)) as [Hlt|Hge].
      * rewrite find_line_pos by lia.
        replace (c =? 10) with false by (symmetry; now apply N.eqb_neq).
        specialize (IH (c :: cur) post k). cbn [length] in IH.
        replace (S (k + length cur)) with (k + S (length cur))%nat by lia.
        rewrite IH by (intros [H|H]; [congruence | contradiction]).
        replace (0 <? count_nl pre) with true by lia. f_equal. f_equal. cbn [length]. lia.
      * replace (count_nl pre) with 0 by lia. rewrite find_line_zero. reflexivity.
Qed.

Theorem position_decode s k :
  (k <= length s)%nat -> offset_of_position s (position_of_offset s k) = Some k.
Proof.
  intros Hk. unfold position_of_offset. rewrite <- skip_text_advance.
  set (pre := firstn k s). set (post := skipn k s).
  assert (Es : s = pre ++ post) by (symmetry; apply firstn_skipn).
  assert (Hl : length pre = k) by (unfold pre; rewrite firstn_length; lia).
  unfold offset_of_position, skip_text. cbn [pos0 p_line p_col].
  rewrite Es at 1.
  pose proof (find_line_last pre [] post 0 (fun H => H)) as F. cbn [length] in F.
  replace (0 + 0)%nat with 0%nat in F by reflexivity.
  destruct (N.ltb_spec 0 (count_nl pre)) as [Hlt|Hge]; cbn [p_line p_col].
  - rewrite N.add_0_l. rewrite F.
    destruct (after_last_nl_cur pre [] (fun H => H)) as [A B]. cbn [length] in B.
    pose proof (find_col_line (after_last_nl pre []) post 0 (0 + length pre - length (after_last_nl pre [])) A) as C.
    rewrite N.add_0_l in C. rewrite C. f_equal. lia.
  - assert (Z : count_nl pre = 0) by lia. rewrite Z in F. rewrite find_line_zero.
    pose proof (find_col_line pre post 0 0 (no_nl_count pre Z)) as C. rewrite !N.add_0_l in *. rewrite C. f_equal. lia.
Qed.

(* ---------- the stringifier: recorded output positions are the actual ones, and monotone ---------- *)
Lemma srun_pos_invariant ops : o_pos (srun ops) = advance_str pos0 (o_text (srun ops)).
Proof.
  unfold srun. induction ops as [|op ops IH] using rev_ind; [reflexivity|].
  rewrite fold_left_app. cbn [fold_left]. destruct op as [s|t name src]; cbn [sstep o_pos o_text];
    rewrite IH, skip_text_advance; unfold advance_str; now rewrite fold_left_app.
Qed.

(* each source-map entry's generated position is the position of the end of the output written
   before the token *)
Theorem srcmap_dst_exact ops1 t name src ops2 :
  let st := srun (ops1 ++ WToken t name src :: ops2) in
  exists e, nth_error (o_map st) (length (o_map (srun ops1))) = Some e /\
            e_dst e = advance_str pos0 (o_text (srun ops1)) /\ e_src e = src /\ e_name e = name.
Proof.
  cbn zeta. unfold srun. rewrite fold_left_app. cbn [fold_left sstep].
  fold (srun ops1). set (st1 := srun ops1).
  assert (Hk : forall ops st, exists rest, o_map (fold_left sstep ops st) = o_map st ++ rest).
  { induction ops as [|op ops IHo]; intros st; cbn [fold_left]; [exists []; now rewrite app_nil_r|].
    destruct (IHo (sstep st op)) as [rest Hr]. rewrite Hr.
    destruct op; cbn [sstep o_map]; [eauto|]. rewrite <- app_assoc. eauto. }
  destruct (Hk ops2 {| o_text := o_text st1 ++ t; o_pos := skip_text (o_pos st1) t;
                       o_map := o_map st1 ++ [{| e_dst := o_pos st1; e_src := src; e_name := name |}] |}) as [rest Hr].
  rewrite Hr. cbn [o_map]. eexists. split.
  - rewrite <- app_assoc. rewrite nth_error_app2 by lia. rewrite Nat.sub_diag. reflexivity.
  - cbn [e_dst e_src e_name]. repeat split. apply srun_pos_invariant.
Qed.

Lemma advance_ge p c : pos_leb p (advance p c) = true.
Proof.
  unfold advance, pos_leb. destruct (c =? 10); cbn [p_line p_col].
  - replace (p_line p <? p_line p + 1) with true by lia. reflexivity.
  - rewrite N.ltb_irrefl, N.eqb_refl. cbn. unfold utf16_len. destruct (c <? 65536); lia.
Qed.

Lemma pos_leb_trans a b c : pos_leb a b = true -> pos_leb b c = true -> pos_leb a c = true.
Proof. unfold pos_leb. intros H1 H2. lia. Qed.

Lemma pos_leb_refl a : pos_leb a a = true.
Proof. unfold pos_leb. lia. Qed.

Lemma advance_str_ge s : forall p, pos_leb p (advance_str p s) = true.
Proof.
  unfold advance_str. induction s as [|c s IH]; intros p; cbn [fold_left]; [apply pos_leb_refl|].
  eapply pos_leb_trans; [apply advance_ge | apply IH].
Qed.

Theorem srcmap_monotone ops :
  forall i j ei ej, (i <= j)%nat ->
  nth_error (o_map (srun ops)) i = Some ei -> nth_error (o_map (srun ops)) j = Some ej ->
  pos_leb (e_dst ei) (e_dst ej) = true.
Proof.
  (* invariant: all recorded positions are sorted and bounded by the current position *)
  assert (Inv : forall ops, (forall i j ei ej, (i <= j)%nat ->
             nth_error (o_map (srun ops)) i = Some ei -> nth_error (o_map (srun ops)) j = Some ej ->
             pos_leb (e_dst ei) (e_dst ej) = true) /\
           (forall e, In e (o_map (srun ops)) -> pos_leb (e_dst e) (o_pos (srun ops)) = true)).
  { induction ops0 as [|op ops0 [I1 I2]] using rev_ind.
    - split; [intros i j ei ej _ H; destruct i; discriminate | intros e []].
    - unfold srun in *. rewrite fold_left_app. cbn [fold_left]. set (st := fold_left sstep ops0 sst0) in *.
      destruct op as [s|t name src]; cbn [sstep o_map o_pos].
      + split; [exact I1|]. intros e He. eapply pos_leb_trans; [apply I2, He|].
        rewrite skip_text_advance. apply advance_str_ge.
      + split.
        * intros i j ei ej Hij Hi Hj.
          destruct (Nat.lt_ge_cases j (length (o_map st))) as [Hlt|Hge].
          { rewrite nth_error_app1 in Hi by lia. rewrite nth_error_app1 in Hj by lia. exact (I1 i j ei ej Hij Hi Hj). }
          rewrite nth_error_app2 in Hj by lia.
          destruct (j - length (o_map st))%nat as [|q] eqn:Eq; [|destruct q; discriminate].
          injection Hj as <-. cbn [e_dst].
          destruct (Nat.lt_ge_cases i (length (o_map st))) as [Hlt'|Hge'].
          { rewrite nth_error_app1 in Hi by lia. apply I2. eapply nth_error_In. exact Hi. }
          rewrite nth_error_app2 in Hi by lia.
          destruct (i - length (o_map st))%nat as [|q'] eqn:Eq'; [|destruct q'; discriminate].
          injection Hi as <-. apply pos_leb_refl.
        * intros e He. apply in_app_or in He. destruct He as [He|[<-|[]]].
          { eapply pos_leb_trans; [apply I2, He|]. rewrite skip_text_advance. apply advance_str_ge. }
          cbn [e_dst]. rewrite skip_text_advance. apply advance_str_ge. }
  intros. eapply (proj1 (Inv ops)); eassumption.
Qed.
