(* The parser's entity scanner (Model/TextDecode.v) reads a re-printed static text back as exactly
   that text: the round trip of C14 / C12 against the REAL decoding algorithm (any entity table that
   knows &lt; &quot; &amp;). *)
From GE Require Import Model.TextDecode Model.Escape Proofs.HtmlEscapeProofs.
From Coq Require Import Lia ZifyBool ZifyN.
Import ListNotations.
Local Open Scope N_scope.

Section RoundTrip.
  Variable named : str -> option str.
  Hypothesis named_lt : named e_lt = Some [60].
  Hypothesis named_quot : named e_quot = Some [34].
  Hypothesis named_amp : named e_amp = Some [38].

  Notation np := (next_piece named).

  (* one escaping step, read back by one scanner step, whatever follows *)
  Lemma piece_step : forall c r rest,
    np ((if c =? 60 then e_lt else if c =? 34 then e_quot else if c =? 38 then e_amp
         else if (c =? 123) && next_is_lbrace r then e_lbrace else [c]) ++ rest) = ([c], rest).
  Proof.
    intros c r rest.
    destruct (N.eqb_spec c 60) as [->|H60].
    { pose proof named_lt as H. unfold e_lt in H. cbn. rewrite H. reflexivity. }
    destruct (N.eqb_spec c 34) as [->|H34].
    { pose proof named_quot as H. unfold e_quot in H. cbn. rewrite H. reflexivity. }
    destruct (N.eqb_spec c 38) as [->|H38].
    { pose proof named_amp as H. unfold e_amp in H. cbn. rewrite H. reflexivity. }
    destruct ((c =? 123) && next_is_lbrace r)%bool eqn:E.
    - apply andb_prop in E. destruct E as [E _]. apply N.eqb_eq in E. subst c. reflexivity.
    - cbn [app]. unfold next_piece.
      destruct c as [|p]; [reflexivity|].
      destruct p as [p|p|]; try reflexivity;
      destruct p as [p|p|]; try reflexivity;
      destruct p as [p|p|]; try reflexivity;
      destruct p as [p|p|]; try reflexivity;
      destruct p as [p|p|]; try reflexivity;
      destruct p as [p|p|]; try reflexivity; congruence.
  Qed.

  Lemma escape_length_ge : forall s, (length s <= length (escape_html_body s))%nat.
  Proof.
    induction s as [|c r IH]; [apply le_n|]. cbn [escape_html_body]. rewrite app_length. cbn [length].
    destruct (c =? 60); [cbn; lia|]. destruct (c =? 34); [cbn; lia|]. destruct (c =? 38); [cbn; lia|].
    destruct ((c =? 123) && next_is_lbrace r)%bool; cbn; lia.
  Qed.

  Lemma decode_fuel_step : forall f s, s <> [] ->
    decode_fuel named (S f) s = fst (np s) ++ decode_fuel named f (snd (np s)).
  Proof.
    intros f s H. destruct s as [|c r]; [congruence|]. cbn [decode_fuel].
    destruct (np (c :: r)) as [p rest]. reflexivity.
  Qed.

  Lemma decode_escape_fuel : forall s fuel, (length s <= fuel)%nat ->
    decode_fuel named fuel (escape_html_body s) = s.
  Proof.
    induction s as [|c r IH]; intros fuel Hf.
    - destruct fuel; reflexivity.
    - destruct fuel as [|f]; [cbn in Hf; lia|].
      cbn [escape_html_body].
      match goal with |- decode_fuel named (S f) (?p ++ ?e) = _ =>
        assert (Hne : p ++ e <> []) by
          (destruct (c =? 60); [discriminate|]; destruct (c =? 34); [discriminate|];
           destruct (c =? 38); [discriminate|]; destruct ((c =? 123) && next_is_lbrace r)%bool; discriminate);
        rewrite (decode_fuel_step f _ Hne)
      end.
      rewrite piece_step. cbn [fst snd app].
      rewrite IH by (cbn in Hf; lia). reflexivity.
  Qed.

  Theorem decode_escape_html_body : forall s, decode_text named (escape_html_body s) = s.
  Proof. intros s. unfold decode_text. apply decode_escape_fuel. apply escape_length_ge. Qed.
End RoundTrip.
