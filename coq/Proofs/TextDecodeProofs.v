(* The parser's entity scanner (Model/TextDecode.v) reads a re-printed static text back as exactly
   that text: the round trip of C14 / C12 against the REAL decoding algorithm (any entity table that
   knows &lt; &quot; &amp;). *)
From GE Require Import Model.TextDecode Model.Escape Proofs.HtmlEscapeProofs.
From Coq Require Import Lia ZifyBool ZifyN.
Import ListNotations.
Local Open Scope N_scope.

Section RoundTrip.
  Variable named : str -> option str.
  Hypothesis named_lt : named e_lt = Some [60].
  Hypothesis named_quot : named e_quot = Some [34].
  Hypothesis named_amp : named e_amp = Some [38].

  Notation np := (next_piece named).

  (* one escaping step, read back by one scanner step, whatever follows *)
  Lemma piece_step : forall c r rest,
    np ((if c =? 60 then e_lt else if c =? 34 then e_quot else if c =? 38 then e_amp
         else if (c =? 123) && next_is_lbrace r then e_lbrace else [c]) ++ rest) = ([c], rest).
  Proof.
    intros c r rest.
    destruct (N.eqb_spec c 60) as [->|H60].
    { pose proof named_lt as H. unfold e_lt in H. cbn. rewrite H. reflexivity. }
    destruct (N.eqb_spec c 34) as [->|H34].
    { pose proof named_quot as H. unfold e_quot in H. cbn. rewrite H. reflexivity. }
    destruct (N.eqb_spec c 38) as [->|H38].
    { pose proof named_amp as H. unfold e_amp in H. cbn. rewrite H. reflexivity. }
    destruct ((c =? 123) && next_is_lbrace r)%bool eqn:E.
    - apply andb_prop in E. destruct E as [E _]. apply N.eqb_eq in E. subst c. reflexivity.
    - cbn [app]. unfold next_piece.
      destruct c as [|p]; [reflexivity|].
      destruct p as [p|p|]; try reflexivity;
      destruct p as [p|p|]; try reflexivity;
      destruct p as [p|p|]; try reflexivity;
      destruct p as [p|p|]; try reflexivity;
      destruct p as [p|p|]; try reflexivity;
      destruct p as [p|p|]; try reflexivity; congruence.
  Qed.

  Lemma escape_length_ge : forall s, (length s <= length (escape_html_body s))%nat.
  Proof.
    induction s as [|c r IH]; [apply le_n|]. cbn [escape_html_body]. rewrite app_length. cbn [length].
    destruct (c =? 60); [cbn; lia|]. destruct (c =? 34); [cbn; lia|]. destruct (c =? 38); [cbn; lia|].
    destruct ((c =? 123) && next_is_lbrace r)%bool; cbn; lia.
  Qed.

  Lemma decode_fuel_step : forall f s, s <> [] ->
    decode_fuel named (S f) s = fst (np s) ++ decode_fuel named f (snd (np s)).
  Proof.
    intros f s H. destruct s as [|c r]; [congruence|]. cbn [decode_fuel].
    destruct (np (c :: r)) as [p rest]. reflexivity.
  Qed.

  Lemma decode_escape_fuel : forall s fuel, (length s <= fuel)%nat ->
    decode_fuel named fuel (escape_html_body s) = s.
  Proof.
    induction s as [|c r IH]; intros fuel Hf.
    - destruct fuel; reflexivity.
    - destruct fuel as [|f]; [cbn in Hf; lia|].
      cbn [escape_html_body].
      match goal with |- decode_fuel named (S f) (?p ++ ?e) = _ =>
        assert (Hne : p ++ e <> []) by
          (destruct (c =? 60); [discriminate|]; destruct (c =? 34); [discriminate|];
           destruct (c =? 38); [discriminate|]; destruct ((c =? 123) && next_is_lbrace r)%bool; discriminate);
        rewrite (decode_fuel_step f _ Hne)
      end.
      rewrite piece_step. cbn [fst snd app].
      rewrite IH by (cbn in Hf; lia). reflexivity.
  Qed.

  Theorem decode_escape_html_body : forall s, decode_text named (escape_html_body s) = s.
  Proof. intros s. unfold decode_text. apply decode_escape_fuel. apply escape_length_ge. Qed.
End RoundTrip.

(* every step of the text decoder consumes at least one character: the decoding loop of static
   text terminates, and `length s` steps are enough (C01) *)
Lemma scan_until_semi_shorter : forall ok s body rest,
  scan_until_semi ok s = Some (body, rest) -> (length rest < length s)%nat.
Proof.
  intros ok. induction s as [|c r IH]; intros body rest H; [discriminate|].
  cbn [scan_until_semi] in H. destruct (c =? 59).
  - inversion H; subst. cbn. lia.
  - destruct (ok c); [|discriminate]. destruct (scan_until_semi ok r) as [[b rs]|] eqn:E; [|discriminate].
    inversion H; subst. specialize (IH b rest eq_refl). cbn. lia.
Qed.

Lemma scan_entity_shorter : forall s ent rest, scan_entity s = Some (ent, rest) -> (length rest < length s)%nat.
Proof.
  intros s ent rest H. unfold scan_entity in H.
  destruct s as [|c r]; [discriminate|].
  destruct (N.eqb_spec c 35) as [->|Hc].
  - destruct r as [|d r']; [cbn in H; discriminate|].
    destruct (N.eqb_spec d 120) as [->|Hd].
    + destruct (scan_until_semi is_hex_c r') as [[b rs]|] eqn:E; [|discriminate].
      inversion H; subst. apply scan_until_semi_shorter in E. cbn. lia.
    + assert (H' : (if is_digit d then match scan_until_semi is_digit (d :: r') with
                                        | Some (body, rest0) => Some (38 :: 35 :: body, rest0) | None => None end
                    else None) = Some (ent, rest)).
      { destruct d as [|p]; [exact H|]. repeat (destruct p as [p|p|]; try exact H); congruence. }
      destruct (is_digit d); [|discriminate].
      destruct (scan_until_semi is_digit (d :: r')) as [[b rs]|] eqn:E; [|discriminate].
      inversion H'; subst. apply scan_until_semi_shorter in E. cbn in *. lia.
  - assert (H' : (if is_alpha_c c then match scan_until_semi (fun x => is_alpha_c x || is_digit x) r with
                                       | Some (body, rest0) => Some (38 :: c :: body, rest0) | None => None end
                  else None) = Some (ent, rest)).
    { destruct c as [|p]; [exact H|]. repeat (destruct p as [p|p|]; try exact H); congruence. }
    destruct (is_alpha_c c); [|discriminate].
    destruct (scan_until_semi _ r) as [[b rs]|] eqn:E; [|discriminate].
    inversion H'; subst. apply scan_until_semi_shorter in E. cbn. lia.
Qed.

Theorem next_piece_progress : forall named s, s <> [] -> (length (snd (next_piece named s)) < length s)%nat.
Proof.
  intros named s Hs. destruct s as [|c r]; [congruence|]. unfold next_piece.
  destruct (N.eqb_spec c 38) as [->|Hc].
  - destruct (scan_entity r) as [[ent rest]|] eqn:E.
    + apply scan_entity_shorter in E. destruct (entity_decode named ent); cbn; lia.
    + cbn. lia.
  - assert (E : forall (X : str * str), (match c with 38 => X | _ => ([c], r) end) = ([c], r)).
    { intros X. destruct c as [|p]; [reflexivity|]. repeat (destruct p as [p|p|]; try reflexivity). congruence. }
    rewrite E. cbn. lia.
Qed.
