(* Soundness of the path analysis on the access / operator / conditional fragment:
   when the emitted guard is false, the binding has the same value under old and new data. *)
From GE Require Import Model.Upt.
Import ListNotations.

Lemma covers_refl : forall u a, covers u a a.
Proof. induction u as [| |f IH]; intros a; constructor. intros k. apply IH. Qed.

Lemma covers_none_eq : forall a b, covers UNone a b -> a = b.
Proof. intros a b H. inversion H; reflexivity. Qed.

Lemma covers_zchild : forall u a b k, covers u a b -> covers (zchild u k) (getp a k) (getp b k).
Proof.
  intros u a b k H. destruct H as [a b|a|f a b Hf]; cbn [zchild].
  - constructor.
  - apply covers_refl.
  - apply Hf.
Qed.

Lemma zkey_jskey : forall v s, zkey v = Some s -> jskey v = Some s.
Proof.
  intros v k H. destruct v as [x|]; [|discriminate]. destruct x; cbn in *; try discriminate; exact H.
Qed.

Section Sound.
  Variable scopes : list scope_var.
  Variable lit_str : str -> str.
  Variable sval : str -> upt.
  Variable root : str -> upt.
  Variable hv : str -> option val.
  Variable ev0 ev1 : env.
  Hypothesis Hcov : covers (UNode root) (Some (e_data ev0)) (Some (e_data ev1)).
  (* every scope variable: its update-path variable covers the difference of its values (a
     variable without one does not change) *)
  Hypothesis Hsc : forall i, covers (scope_tree scopes sval i)
                                    (Some (nth i (e_scopes ev0) VUndef)) (Some (nth i (e_scopes ev1) VUndef)).

  Notation upath := (upath scopes sval root hv).
  Notation upres := (upres scopes sval root hv).
  Notation any_marked := (any_marked scopes sval root hv).

  Lemma upres_eq : forall p subs,
    upres (PRes p subs) = if any_marked subs then UAll else match p with Some q => upath q | None => UNone end.
  Proof.
    intros p subs. cbn [Upt.upres]. unfold Upt.any_marked.
    assert (E : forall l, (fix any (l : list ppath) : bool :=
              match l with [] => false | x :: rest => utruthy (upath x) || any rest end) l
              = existsb (fun p => utruthy (upath p)) l).
    { induction l as [|x r IH]; [reflexivity|]. cbn [existsb]. now rewrite IH. }
    now rewrite E.
  Qed.

  Lemma upath_push : forall h tail t, upath (PPath h (tail ++ [t])) = zstep hv (upath (PPath h tail)) t.
  Proof. intros. cbn [Upt.upath]. now rewrite fold_left_app. Qed.

  Lemma any_marked_app : forall a b, any_marked (a ++ b) = (any_marked a || any_marked b)%bool.
  Proof. intros. unfold Upt.any_marked. apply existsb_app. Qed.

  (* the value relation carried through the induction *)
  Definition rel (o : gout) (e : expr) : Prop :=
    covers (upres (PRes (g_pas o) (g_calc o))) (eval ev0 e) (eval ev1 e).

  (* when nothing is marked, the relation gives equality (for results without a path) or the
     tree at the path *)
  Lemma rel_unmarked_eq : forall o e, rel o e -> any_marked (g_calc (end_path o)) = false -> eval ev0 e = eval ev1 e.
  Proof.
    intros o e H Hm. unfold rel in H. rewrite upres_eq in H.
    unfold end_path in Hm. cbn [g_calc] in Hm. rewrite any_marked_app in Hm.
    apply Bool.orb_false_iff in Hm. destruct Hm as [Hc Hp]. rewrite Hc in H.
    destruct (g_pas o) as [q|].
    - cbn [Upt.any_marked existsb] in Hp. unfold Upt.any_marked in Hp. cbn [existsb] in Hp.
      rewrite Bool.orb_false_r in Hp.
      destruct (upath q) eqn:Eq; try discriminate. now apply covers_none_eq.
    - now apply covers_none_eq.
  Qed.

  Lemma eval_index_key : forall ev o k,
    eval ev (EIndex o k) = match zkey (eval ev k) with Some s => getp (eval ev o) s | None => None end.
  Proof.
    intros ev o k. cbn [eval]. destruct (eval ev o) as [x|]; destruct (eval ev k) as [[]|]; reflexivity.
  Qed.

  Lemma eval_un_congr : forall op v, eval ev0 v = eval ev1 v -> eval ev0 (EUn op v) = eval ev1 (EUn op v).
  Proof. intros op v H. destruct op; cbn [eval]; rewrite ?H; reflexivity. Qed.

  Lemma eval_tostr_congr : forall v, eval ev0 v = eval ev1 v -> eval ev0 (EToStr v) = eval ev1 (EToStr v).
  Proof. intros v H. cbn [eval]. now rewrite H. Qed.

  Lemma eval_bin_congr : forall op l r, eval ev0 l = eval ev1 l -> eval ev0 r = eval ev1 r ->
    eval ev0 (EBin op l r) = eval ev1 (EBin op l r).
  Proof. intros op l r Hl Hr. destruct op; cbn [eval]; rewrite ?Hl, ?Hr; reflexivity. Qed.

  Lemma hv_ok_incl : forall a b, incl a b -> hv_ok b hv ev1 -> hv_ok a hv ev1.
  Proof. intros a b Hi H i e Hin. apply H. now apply Hi. Qed.

  Lemma rel_wrapg : forall a l r e, rel (snd (wrapg a l r)) e <-> rel (snd r) e.
  Proof. intros a l [st o] e. unfold rel. cbn. tauto. Qed.
  Lemma fst_wrapg : forall a l r, fst (wrapg a l r) = fst r.
  Proof. intros a l [st o]. reflexivity. Qed.

  Lemma covers_if_marked : forall (b : bool) u x y, (b = false -> covers u x y) -> covers (if b then UAll else u) x y.
  Proof. intros b u x y H. destruct b; [constructor | now apply H]. Qed.

  Notation core := (gen_core scopes lit_str).

  Definition good (e : expr) : Prop :=
    forall st, incl (hoists st) (hoists (fst (core e st))) /\
               (hv_ok (hoists (fst (core e st))) hv ev1 -> rel (snd (core e st)) e).

  Lemma rel_literal : forall v j e, eval ev0 e = eval ev1 e -> rel {| g_val := v; g_pas := None; g_calc := []; g_js := j |} e.
  Proof. intros v j e H. unfold rel. rewrite upres_eq. cbn. rewrite H. constructor. Qed.

  (* results without a path whose sub-results were all closed with end_path *)
  Lemma rel_closed : forall v calc j e,
    (any_marked calc = false -> eval ev0 e = eval ev1 e) ->
    rel {| g_val := v; g_pas := None; g_calc := calc; g_js := j |} e.
  Proof.
    intros v calc j e H. unfold rel. rewrite upres_eq. cbn [g_pas g_calc].
    apply covers_if_marked. intros Hm. rewrite (H Hm). constructor.
  Qed.

  Lemma good_field : forall x, good (EField x).
  Proof.
    intros x st. cbn [gen_core fst snd]. split; [apply incl_refl|]. intros _.
    unfold rel. rewrite upres_eq. cbn.
    inversion Hcov as [| |f a b Hf]; subst. apply (Hf x).
  Qed.

  Lemma good_scope : forall i, good (EScope i).
  Proof.
    intros i st. cbn [gen_core fst snd]. split; [apply incl_refl|]. intros _.
    unfold rel. rewrite upres_eq. cbn [g_pas g_calc Upt.any_marked existsb].
    change (eval ev0 (EScope i)) with (Some (nth i (e_scopes ev0) VUndef)).
    change (eval ev1 (EScope i)) with (Some (nth i (e_scopes ev1) VUndef)).
    pose proof (Hsc i) as H. unfold scope_tree in H.
    destruct (sv_lv (scope_nth scopes i)); destruct (sv_upt (scope_nth scopes i)) as [x|] eqn:Eu;
      cbn [Upt.upath Upt.uhead fold_left]; unfold scope_tree; rewrite ?Eu; exact H.
  Qed.

  Lemma good_member : forall o k, good o -> good (EMember o k).
  Proof.
    intros o k IH st. specialize (IH st). cbn [gen_core].
    pose proof (fst_wrapg L_Cond (pg_level o) (core o st)) as Ef.
    pose proof (rel_wrapg L_Cond (pg_level o) (core o st) o) as Er.
    destruct (wrapg L_Cond (pg_level o) (core o st)) as [st1 o1]. cbn [fst snd] in *.
    rewrite <- Ef in IH. destruct IH as [Hi Hr]. split; [exact Hi|]. intros Hh.
    apply Hr in Hh. apply Er in Hh. unfold rel in *. rewrite upres_eq in *. cbn [g_pas g_calc] in *.
    apply covers_if_marked. intros Hm. rewrite Hm in Hh.
    change (eval ev0 (EMember o k)) with (getp (eval ev0 o) k).
    change (eval ev1 (EMember o k)) with (getp (eval ev1 o) k).
    destruct (g_pas o1) as [[h tail]|]; cbn [push_tail].
    - rewrite upath_push. cbn [zstep]. now apply covers_zchild.
    - apply covers_none_eq in Hh. rewrite Hh. constructor.
  Qed.

  Lemma sub_call : forall e a st, good e ->
    incl (hoists st) (hoists (fst (wrapg a (pg_level e) (core e st)))) /\
    (hv_ok (hoists (fst (wrapg a (pg_level e) (core e st)))) hv ev1 -> rel (snd (wrapg a (pg_level e) (core e st))) e).
  Proof.
    intros e a st G. destruct (G st) as [Hi Hr]. rewrite fst_wrapg. split; [exact Hi|].
    intros Hh. apply rel_wrapg. now apply Hr.
  Qed.

  Lemma good_tostr : forall v, good v -> good (EToStr v).
  Proof.
    intros v IH st. cbn [gen_core]. destruct (sub_call v L_Cond st IH) as [Hi Hr].
    destruct (wrapg L_Cond (pg_level v) (core v st)) as [st1 o1]. cbn [fst snd] in *.
    split; [exact Hi|]. intros Hh. apply rel_closed. intros Hm.
    apply eval_tostr_congr. eapply rel_unmarked_eq; eauto.
  Qed.

  Lemma good_un : forall op v, good v -> good (EUn op v).
  Proof.
    intros op v IH st. cbn [gen_core]. destruct (sub_call v L_Unary st IH) as [Hi Hr].
    destruct (wrapg L_Unary (pg_level v) (core v st)) as [st1 o1]. cbn [fst snd] in *.
    split; [exact Hi|]. intros Hh. apply rel_closed. intros Hm.
    apply eval_un_congr. eapply rel_unmarked_eq; eauto.
  Qed.

  Lemma incl_emit_hoist : forall st i e t j, incl (hoists st) (hoists (emit_hoist st i e t j)).
  Proof. intros. cbn. apply incl_appl, incl_refl. Qed.
  Lemma in_emit_hoist : forall st i e t j, In (i, e) (hoists (emit_hoist st i e t j)).
  Proof. intros. cbn. apply in_or_app. right. now left. Qed.

  Lemma good_bin_plain : forall op l r, op <> BNullish -> good l -> good r -> good (EBin op l r).
  Proof.
    intros op l r Hop IHl IHr st.
    destruct op; try congruence; cbn [gen_core];
    match goal with |- context [wrapg ?a (pg_level l) (core l st)] =>
      destruct (sub_call l a st IHl) as [Hi1 Hr1];
      destruct (wrapg a (pg_level l) (core l st)) as [st1 ol]
    end; cbn [fst snd] in *;
    match goal with |- context [wrapg ?a (pg_level r) (core r ?s)] =>
      destruct (sub_call r a s IHr) as [Hi2 Hr2];
      destruct (wrapg a (pg_level r) (core r s)) as [st2 or]
    end; cbn [fst snd] in *;
    (split; [eapply incl_tran; eauto|]; intros Hh; apply rel_closed; intros Hm;
     rewrite any_marked_app in Hm; apply Bool.orb_false_iff in Hm; destruct Hm as [Hm1 Hm2];
     apply eval_bin_congr;
     [ eapply rel_unmarked_eq; [apply Hr1; eapply hv_ok_incl; eauto | exact Hm1]
     | eapply rel_unmarked_eq; [apply Hr2; exact Hh | exact Hm2] ]).
  Qed.

  Lemma good_bin : forall op l r, good l -> good r -> good (EBin op l r).
  Proof.
    intros op l r IHl IHr.
    destruct op; try (apply good_bin_plain; [discriminate | assumption | assumption]).
    intros st. cbn [gen_core].
    (* ?? : the left operand is hoisted *)
    destruct (gen_private st) as [ident st0] eqn:Ep.
    assert (Hp : hoists st0 = hoists st) by (unfold gen_private in Ep; inversion Ep; reflexivity).
    destruct (sub_call l L_Cond st0 IHl) as [Hi1 Hr1].
    destruct (wrapg L_Cond (pg_level l) (core l st0)) as [st1 ol]. cbn [fst snd] in *.
    set (st2 := emit_hoist st1 ident l (g_val (end_path ol)) (g_js (end_path ol))).
    destruct (sub_call r L_Cond st2 IHr) as [Hi2 Hr2].
    destruct (wrapg L_Cond (pg_level r) (core r st2)) as [st3 or]. cbn [fst snd] in *.
    assert (Hi12 : incl (hoists st1) (hoists st3)).
    { eapply incl_tran; [apply incl_emit_hoist | exact Hi2]. }
    split.
    - rewrite <- Hp. eapply incl_tran; [exact Hi1 | exact Hi12].
    - intros Hh. apply rel_closed. intros Hm.
      rewrite any_marked_app in Hm. apply Bool.orb_false_iff in Hm. destruct Hm as [Hm1 Hm2].
      apply eval_bin_congr.
      + eapply rel_unmarked_eq; [apply Hr1; eapply hv_ok_incl; eauto | exact Hm1].
      + eapply rel_unmarked_eq; [apply Hr2; exact Hh | exact Hm2].
  Qed.

  Lemma good_index : forall o k, good o -> good k -> good (EIndex o k).
  Proof.
    intros o k IHo IHk st. cbn [gen_core]. destruct (gen_private st) as [ident st0] eqn:Ep.
    assert (Hp : hoists st0 = hoists st) by (unfold gen_private in Ep; inversion Ep; reflexivity).
    destruct (sub_call k L_Cond st0 IHk) as [Hi1 Hr1].
    destruct (wrapg L_Cond (pg_level k) (core k st0)) as [st1 ok]. cbn [fst snd] in *.
    set (st2 := emit_hoist st1 ident k (g_val (end_path ok)) (g_js (end_path ok))).
    destruct (sub_call o L_Cond st2 IHo) as [Hi2 Hr2].
    destruct (wrapg L_Cond (pg_level o) (core o st2)) as [st3 oo]. cbn [fst snd] in *.
    assert (Hi12 : incl (hoists st1) (hoists st3)).
    { eapply incl_tran; [apply incl_emit_hoist | exact Hi2]. }
    split.
    - rewrite <- Hp. eapply incl_tran; [exact Hi1 | exact Hi12].
    - intros Hh.
      assert (Hid : hv ident = eval ev1 k).
      { apply Hh. apply Hi2. apply in_emit_hoist. }
      unfold rel. rewrite upres_eq. cbn [g_pas g_calc]. apply covers_if_marked. intros Hm.
      rewrite any_marked_app in Hm. apply Bool.orb_false_iff in Hm. destruct Hm as [Hm1 Hm2].
      assert (Ek : eval ev0 k = eval ev1 k).
      { eapply rel_unmarked_eq; [apply Hr1; eapply hv_ok_incl; eauto | exact Hm1]. }
      specialize (Hr2 Hh). unfold rel in Hr2. rewrite upres_eq, Hm2 in Hr2.
      rewrite !eval_index_key, Ek.
      destruct (g_pas oo) as [[h tail]|]; cbn [push_tail].
      + rewrite upath_push. cbn [zstep]. rewrite Hid.
        destruct (zkey (eval ev1 k)) as [s|] eqn:Ez; [|apply covers_refl].
        rewrite (zkey_jskey _ _ Ez). now apply covers_zchild.
      + apply covers_none_eq in Hr2. rewrite Hr2. constructor.
  Qed.

  Lemma good_cond : forall c t f, good c -> good t -> good f -> good (ECond c t f).
  Proof.
    intros c t f IHc IHt IHf st. cbn [gen_core]. destruct (gen_private st) as [ident st0] eqn:Ep.
    assert (Hp : hoists st0 = hoists st) by (unfold gen_private in Ep; inversion Ep; reflexivity).
    destruct (sub_call c L_Cond st0 IHc) as [Hi1 Hr1].
    destruct (wrapg L_Cond (pg_level c) (core c st0)) as [st1 oc]. cbn [fst snd] in *.
    set (st2 := emit_hoist st1 ident c (g_val (end_path oc)) (g_js (end_path oc))).
    destruct (sub_call t L_Cond st2 IHt) as [Hi2 Hr2].
    destruct (wrapg L_Cond (pg_level t) (core t st2)) as [st3 ot]. cbn [fst snd] in *.
    destruct (sub_call f L_Cond st3 IHf) as [Hi3 Hr3].
    destruct (wrapg L_Cond (pg_level f) (core f st3)) as [st4 of]. cbn [fst snd] in *.
    assert (Hi24 : incl (hoists st2) (hoists st4)) by (eapply incl_tran; eauto).
    assert (Hi14 : incl (hoists st1) (hoists st4)).
    { eapply incl_tran; [apply incl_emit_hoist | exact Hi24]. }
    split.
    - rewrite <- Hp. eapply incl_tran; [exact Hi1 | exact Hi14].
    - intros Hh.
      assert (Hid : hv ident = eval ev1 c).
      { apply Hh. apply Hi24. apply in_emit_hoist. }
      unfold rel. rewrite upres_eq. cbn [g_pas g_calc]. apply covers_if_marked. intros Hm.
      assert (Ec : eval ev0 c = eval ev1 c).
      { eapply rel_unmarked_eq; [apply Hr1; eapply hv_ok_incl; eauto | exact Hm]. }
      cbn [Upt.upath Upt.uhead fold_left]. unfold hv_truthy. rewrite Hid.
      cbn [eval]. rewrite Ec.
      destruct (eval ev1 c) as [x|]; [|apply covers_refl].
      destruct (truthy x).
      + apply Hr2. eapply hv_ok_incl; eauto.
      + apply Hr3. exact Hh.
  Qed.

  Theorem gen_sound : forall e, frag e -> good e.
  Proof.
    induction 1.
    - apply good_field.
    - apply good_scope.
    - intros st; cbn [gen_core fst snd]; split; [apply incl_refl|]; intros _; now apply rel_literal.
    - intros st; cbn [gen_core fst snd]; split; [apply incl_refl|]; intros _; now apply rel_literal.
    - intros st; cbn [gen_core fst snd]; split; [apply incl_refl|]; intros _; now apply rel_literal.
    - intros st; cbn [gen_core fst snd]; split; [apply incl_refl|]; intros _; now apply rel_literal.
    - intros st; cbn [gen_core fst snd]; split; [apply incl_refl|]; intros _; now apply rel_literal.
    - intros st; cbn [gen_core fst snd]; split; [apply incl_refl|]; intros _; now apply rel_literal.
    - now apply good_tostr.
    - now apply good_member.
    - now apply good_index.
    - now apply good_un.
    - now apply good_bin.
    - now apply good_cond.
  Qed.

  (* the statement on `prepare`, whose result is what the guard is printed from *)
  Theorem guard_sound : forall e n,
    frag e ->
    let '(st, v, r) := prepare scopes lit_str e (mk_gst n) in
    hv_ok (hoists st) hv ev1 ->
    guard_den scopes sval root hv r = false ->
    eval ev0 e = eval ev1 e.
  Proof.
    intros e n Hf. unfold prepare, gen.
    destruct (sub_call e L_Cond (mk_gst n) (gen_sound e Hf)) as [_ Hr].
    destruct (wrapg L_Cond (pg_level e) (core e (mk_gst n))) as [st o]. cbn [fst snd] in *.
    intros Hh Hg. specialize (Hr Hh). unfold rel in Hr. unfold guard_den in Hg.
    destruct (Upt.upres scopes sval root hv (PRes (g_pas o) (g_calc o))); try discriminate.
    now apply covers_none_eq.
  Qed.
End Sound.
