(* Every integer the number scanner returns is a non-negative i64. *)
From GE Require Import Model.NumLit.
From Coq Require Import Lia ZifyBool ZifyN.
Import ListNotations.
Local Open Scope N_scope.

Definition int_in_range (r : numres) : Prop :=
  match r with NInt z => (0 <= z <= i64_max)%Z | _ => True end.

Definition acc_ok (a : acc) : Prop := match a_int a with Some z => (0 <= z <= i64_max)%Z | None => True end.

Lemma acc_new_ok : forall b, acc_ok (acc_new b).
Proof. intro b. unfold acc_ok, acc_new, i64_max. cbn. lia. Qed.

Lemma acc_push_ok : forall a d, acc_ok a -> acc_ok (acc_push a d).
Proof.
  intros a d H. unfold acc_ok, acc_push in *. cbn [a_int].
  destruct (a_int a) as [x|]; [|exact I].
  destruct ((x * Z.of_N (2 ^ a_bits a) + Z.of_N d <=? i64_max)%Z) eqn:E; [|exact I].
  split; [|lia]. assert (0 <= Z.of_N (2 ^ a_bits a))%Z by lia. assert (0 <= Z.of_N d)%Z by lia. nia.
Qed.

Lemma acc_finish_ok : forall a, acc_ok a -> int_in_range (acc_finish a).
Proof. intros a H. unfold acc_finish, acc_ok in *. destruct (a_int a); [exact H|exact I]. Qed.

Lemma oct_loop_range : forall fuel s a n, acc_ok a -> int_in_range (fst (oct_loop fuel s a n)).
Proof.
  induction fuel as [|f IH]; intros s a n Ha; [exact I|]. cbn [oct_loop].
  destruct s as [|c r]; [exact I|].
  pose proof (acc_push_ok a (digit_val c) Ha) as Ha'.
  destruct r as [|p r']; [apply acc_finish_ok; exact Ha'|].
  destruct (negb (is_ident_char p)); [apply acc_finish_ok; exact Ha'|].
  destruct (negb (is_oct_digit p)); [exact I|]. apply IH. exact Ha'.
Qed.

Lemma hex_loop_range : forall pre fuel s a n, acc_ok a -> int_in_range (fst (hex_loop pre fuel s a n)).
Proof.
  intro pre. induction fuel as [|f IH]; intros s a n Ha; [exact I|]. cbn [hex_loop].
  destruct s as [|c r]; [exact I|]. destruct (hex_val c) as [d|]; [|exact I].
  pose proof (acc_push_ok a d Ha) as Ha'.
  destruct r as [|p r']; [apply acc_finish_ok; exact Ha'|].
  destruct (negb (is_ident_char p)); [apply acc_finish_ok; exact Ha'|].
  destruct (negb (pre p)); [exact I|]. apply IH. exact Ha'.
Qed.

Definition int_ok (i : option Z) : Prop := match i with Some z => (0 <= z <= i64_max)%Z | None => True end.

Lemma dec_loop_range : forall fuel s int ov n, int_ok int -> int_in_range (fst (fst (dec_loop fuel s int ov n))).
Proof.
  induction fuel as [|f IH]; intros s int ov n Hi; [exact I|]. cbn [dec_loop].
  destruct s as [|c r]; [exact I|].
  destruct (c =? 101).
  - destruct (match r with 45 :: r' => (r', n + 2) | _ => (r, n + 1) end) as [r1 n1].
    destruct r1 as [|p r1']; [exact I|]. destruct (negb (is_digit p)); [exact I|].
    destruct (exp_loop _ _ _); exact I.
  - set (pr := if c =? 46 then (None, ov)
               else match int with
                    | Some z => if ((z * 10 + Z.of_N (digit_val c)) <=? i64_max)%Z then (Some (z * 10 + Z.of_N (digit_val c))%Z, ov) else (Some z, true)
                    | None => (None, ov)
                    end).
    assert (Hpr : int_ok (fst pr)).
    { unfold pr. destruct (c =? 46); [exact I|]. destruct int as [z|]; [|exact I].
      destruct ((z * 10 + Z.of_N (digit_val c) <=? i64_max)%Z) eqn:E; cbn [fst int_ok]; [|exact Hi].
      cbn in Hi. split; [|lia]. assert (0 <= Z.of_N (digit_val c))%Z by lia. lia. }
    destruct pr as [int' ov']. cbn [fst] in Hpr.
    assert (Hres : int_in_range (match int' with Some z => if ov' then NFloatDec [] else NInt z | None => NFloatDec [] end)).
    { destruct int' as [z|]; [|exact I]. destruct ov'; [exact I|exact Hpr]. }
    destruct r as [|p r']; [exact Hres|].
    destruct (negb (is_ident_char p) && negb (p =? 46))%bool; [exact Hres|].
    destruct (is_digit p || (match int' with Some _ => true | None => false end) && (p =? 46) || (p =? 101))%bool; [|exact I].
    apply IH. exact Hpr.
Qed.

Lemma finish_dec_range : forall s res, int_in_range (fst (fst res)) -> int_in_range (fst (finish_dec s res)).
Proof.
  intros s [[r n] b] H. cbn [fst] in H. unfold finish_dec. destruct r; try exact H; try exact I.
  destruct (has_mantissa_digit _); exact I.
Qed.

Theorem parse_number_range : forall pre s, int_in_range (fst (parse_number pre s)).
Proof.
  intros pre s. unfold parse_number. destruct s as [|c r]; [exact I|].
  destruct (negb (is_digit c) && negb (c =? 46))%bool; [exact I|].
  destruct (c =? 48).
  - destruct r as [|d r']; [cbn; unfold i64_max; lia|].
    destruct (is_oct_digit d); [apply oct_loop_range; apply acc_new_ok|].
    destruct (d =? 120).
    + destruct (tl (d :: r')) as [|p t]; [exact I|]. destruct (negb (pre p)); [exact I|].
      apply hex_loop_range. apply acc_new_ok.
    + destruct ((d =? 101) || (d =? 46) || (d =? 56) || (d =? 57))%bool.
      * apply finish_dec_range. apply dec_loop_range. cbn. unfold i64_max. lia.
      * destruct (is_ident_char d); [exact I|]. cbn. unfold i64_max. lia.
  - apply finish_dec_range. apply dec_loop_range. cbn. unfold i64_max. lia.
Qed.
