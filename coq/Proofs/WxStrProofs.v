(* The stringifier's string literals are read back by the expression parser's scanner as exactly
   the original string (Model/WxStr.v), for every string. *)
From GE Require Import Model.WxStr Proofs.HexProofs.
From Coq Require Import Lia ZifyBool ZifyN.
Import ListNotations.
Local Open Scope N_scope.

(* hex2 decodes back for control characters *)
Lemma take_hex2 : forall c rest, c < 256 -> take_hex 2 (hex2 c ++ rest) 0 = Some c.
Proof.
  intros c rest Hc. unfold hex2. cbn [app take_hex].
  assert (H1 : c / 16 < 16) by (apply N.div_lt_upper_bound; lia).
  assert (H2 : c mod 16 < 16) by (apply N.mod_lt; lia).
  rewrite (hex_val_digit _ H1). rewrite (hex_val_digit _ H2).
  f_equal. rewrite (N.div_mod c 16) at 3 by lia. lia.
Qed.

(* a scan with enough fuel does not depend on the fuel *)
Lemma wx_scan_fuel_mono : forall f q s r, wx_scan f q s = Some r -> forall f', (f <= f')%nat -> wx_scan f' q s = Some r.
Proof.
  induction f as [|f IH]; intros q s r H f' Hf; [discriminate|].
  destruct f' as [|f']; [lia|]. assert (Hle : (f <= f')%nat) by lia.
  cbn [wx_scan] in *. destruct s as [|c s']; [discriminate|].
  destruct (c =? q); [exact H|].
  destruct (c =? 92).
  - destruct s' as [|e r2]; [discriminate|].
    repeat match type of H with
           | (if ?b then _ else _) = _ => destruct b
           end;
    repeat match goal with
           | H : wx_scan f q ?x = Some ?r0 |- wx_scan f' q ?x = Some ?r0 => exact (IH q x r0 H f' Hle)
           | H : match wx_scan f q ?x with _ => _ end = Some _ |- _ =>
               let E := fresh "E" in destruct (wx_scan f q x) as [[t rs]|] eqn:E; [|discriminate];
               rewrite (IH q x (t, rs) E f' Hle); exact H
           | H : match take_hex ?n ?x 0 with _ => _ end = Some _ |- _ => destruct (take_hex n x 0)
           | H : (if ?b then _ else _) = Some _ |- _ => destruct b
           end.
  - destruct (wx_scan f q s') as [[t rs]|] eqn:E; [|discriminate].
    rewrite (IH q s' (t, rs) E f' Hle). exact H.
Qed.

Lemma scan_body : forall s rest f, (S (length s) <= f)%nat ->
  wx_scan f 34 (flat_map wx_esc_char s ++ 34 :: rest) = Some (s, rest).
Proof.
  induction s as [|c s IH]; intros rest f Hf.
  - destruct f as [|f]; [lia|]. reflexivity.
  - destruct f as [|f]; [lia|]. cbn [length] in Hf. assert (Hle : (S (length s) <= f)%nat) by lia.
    pose proof (IH rest f Hle) as Hf0.
    cbn [flat_map]. rewrite <- app_assoc. set (T := flat_map wx_esc_char s ++ 34 :: rest) in *.
    unfold wx_esc_char.
    destruct (N.eqb_spec c 34) as [->|H34]. { cbn [app wx_scan]. cbn. now rewrite Hf0. }
    destruct (N.eqb_spec c 92) as [->|H92]. { cbn [app wx_scan]. cbn. now rewrite Hf0. }
    destruct (N.eqb_spec c 10) as [->|H10]. { cbn [app wx_scan]. cbn. now rewrite Hf0. }
    destruct (N.eqb_spec c 13) as [->|H13]. { cbn [app wx_scan]. cbn. now rewrite Hf0. }
    destruct (N.eqb_spec c 9) as [->|H9]. { cbn [app wx_scan]. cbn. now rewrite Hf0. }
    destruct (N.eqb_spec c 8) as [->|H8]. { cbn [app wx_scan]. cbn. now rewrite Hf0. }
    destruct (N.eqb_spec c 12) as [->|H12]. { cbn [app wx_scan]. cbn. now rewrite Hf0. }
    destruct (N.eqb_spec c 11) as [->|H11]. { cbn [app wx_scan]. cbn. now rewrite Hf0. }
    destruct (N.eqb_spec c 0) as [->|H0]. { cbn [app wx_scan]. cbn. now rewrite Hf0. }
    destruct ((c <? 32) || (c =? 127))%bool eqn:Ectl.
    + (* \xHH *)
      assert (Hc : c < 256).
      { apply Bool.orb_true_iff in Ectl. destruct Ectl as [E|E]; [apply N.ltb_lt in E; lia | apply N.eqb_eq in E; lia]. }
      change ((92 :: 120 :: hex2 c) ++ T) with (92 :: 120 :: (hex2 c ++ T)).
      cbn [wx_scan]. change (92 =? 34) with false. change (92 =? 92) with true. cbv iota.
      change (120 =? 10) with false. change (120 =? 8232) with false. change (120 =? 8233) with false. cbn [orb]. cbv iota.
      change (120 =? 13) with false. cbv iota.
      change (120 =? 114) with false. change (120 =? 110) with false. change (120 =? 116) with false.
      change (120 =? 98) with false. change (120 =? 102) with false. change (120 =? 118) with false.
      change (120 =? 48) with false. change (120 =? 120) with true. cbv iota. cbn [orb].
      rewrite (take_hex2 c T Hc).
      assert (Hs : is_scalar16 c = true) by (unfold is_scalar16; apply Bool.orb_true_iff; left; apply N.ltb_lt; lia).
      rewrite Hs. change (skipn 2 (hex2 c ++ T)) with T. now rewrite Hf0.
    + cbn [app wx_scan].
      apply N.eqb_neq in H34. apply N.eqb_neq in H92. rewrite H34, H92. now rewrite Hf0.
Qed.

Lemma esc_char_nonempty : forall c, (1 <= length (wx_esc_char c))%nat.
Proof.
  intros c. unfold wx_esc_char.
  repeat match goal with |- context [if ?b then _ else _] => destruct b end; cbn; lia.
Qed.

Lemma flat_map_esc_length : forall s, (length s <= length (flat_map wx_esc_char s))%nat.
Proof.
  induction s as [|c s IH]; [apply le_n|]. cbn [flat_map length]. rewrite app_length.
  pose proof (esc_char_nonempty c). lia.
Qed.

(* the literal written for s (after its opening quote) is scanned back as s, and the scan stops
   right after the closing quote *)
Theorem wx_lit_str_roundtrip : forall s rest,
  wx_str_decode 34 (tl (wx_lit_str s) ++ rest) = Some (s, rest).
Proof.
  intros s rest. unfold wx_lit_str, wx_str_decode. cbn [tl]. rewrite <- app_assoc. cbn [app].
  apply scan_body. rewrite app_length. pose proof (flat_map_esc_length s). cbn [length]. lia.
Qed.

