From GE Require Import Model.Str Model.CssNum Model.CssTok Model.CssOut Model.CssUrlEnc Model.Css Model.CssSpec.
From GE Require Import Proofs.CssSheetClass.
Open Scope N_scope.

(* the specification's partition of qualified rules (the unfolding `rules_spec_S` names this branch `q_this`): with its `{}`
   block a rule contributes to exactly one stream - the normal one (no / ineligible `:host`), the low-priority one (pure
   `:host`), or to neither, with the W_HOST warning (combined) *)
Theorem spec_rule_partition : forall o chain prelude t p body e c,
  let q := q_this o chain prelude (Some (Block t p body e c)) in
  match (if convert_host o then host_kind_of prelude else HostNone) with
  | HostNone => so_low q = [] /\ so_warn q = [] /\ so_normal q <> []
  | HostPure => so_normal q = [] /\ so_warn q = [] /\ so_low q <> []
  | HostCombined => so_normal q = [] /\ so_low q = [] /\ so_warn q = [W_HOST]
  end.
Proof.
  intros o chain prelude t p body e c. cbv zeta. unfold q_this.
  destruct (if convert_host o then host_kind_of prelude else HostNone); cbn [so_normal so_low so_warn].
  - split; [reflexivity|]. split; [reflexivity|]. intro H. apply app_eq_nil in H. destruct H as [_ H]. discriminate H.
  - split; [reflexivity|]. split; [reflexivity|]. intro H.
    apply app_eq_nil in H. destruct H as [_ H]. apply app_eq_nil in H. destruct H as [H _].
    unfold host_selector, attr_sel in H. discriminate H.
  - auto.
Qed.
