(* Fuel independence of the expression parser model: every loop and the recursion of parse_cond
   give the same result for every amount of fuel above the input length; hence the unfolding
   equation  parse_cond s = cond_body parse_cond s  and the loop equations used by the
   round-trip proof. Also the basic facts about `skip`. *)
From GE Require Import Model.ExprParse Proofs.ExprParseProofs.
From Coq Require Import Lia.
Import ListNotations.
Local Open Scope nat_scope.

(* ---- skip ---- *)
Definition stable (s : str) : Prop :=
  match s with
  | [] => True
  | c :: r => is_ws c = false /\ match r with d :: _ => ((c =? 47)%N && (d =? 42)%N)%bool = false | [] => True end
  end.

Lemma sk_S : forall f s, sk (S f) s =
  match drop_ws s with
  | c :: d :: r => if ((c =? 47)%N && (d =? 42)%N)%bool then sk f (after_close r) else c :: d :: r
  | s1 => s1
  end.
Proof. reflexivity. Qed.

Lemma drop_ws_stable_head : forall s, match drop_ws s with [] => True | c :: _ => is_ws c = false end.
Proof. induction s as [|c r IH]; cbn; [exact I|]. destruct (is_ws c) eqn:E; [exact IH|exact E]. Qed.

Lemma drop_ws_id : forall c r, is_ws c = false -> drop_ws (c :: r) = c :: r.
Proof. intros c r H. cbn. rewrite H. reflexivity. Qed.

Lemma sk_stable_id : forall s, stable s -> forall f, sk f s = s.
Proof.
  intros s Hs [|f]; [reflexivity|]. rewrite sk_S.
  destruct s as [|c r]; [reflexivity|]. destruct Hs as [Hc Hr]. rewrite (drop_ws_id c r Hc).
  destruct r as [|d r']; [reflexivity|]. rewrite Hr. reflexivity.
Qed.

Lemma sk_fuel : forall f g s, length s < f -> length s < g -> sk f s = sk g s.
Proof.
  induction f as [|f IH]; intros g s Hf Hg; [lia|]. destruct g as [|g]; [lia|].
  rewrite !sk_S. pose proof (drop_ws_le s) as Hd.
  destruct (drop_ws s) as [|c [|d r]]; try reflexivity.
  destruct ((c =? 47)%N && (d =? 42)%N)%bool; [|reflexivity].
  pose proof (after_close_le r). cbn in Hd. apply IH; lia.
Qed.

Lemma sk_result_stable : forall f s, length s < f -> stable (sk f s).
Proof.
  induction f as [|f IH]; intros s Hf; [lia|]. rewrite sk_S.
  pose proof (drop_ws_le s) as Hd. pose proof (drop_ws_stable_head s) as Hh.
  destruct (drop_ws s) as [|c [|d r]]; [exact I|cbn; auto|].
  destruct ((c =? 47)%N && (d =? 42)%N)%bool eqn:E.
  - pose proof (after_close_le r). cbn in Hd. apply IH. lia.
  - cbn. auto.
Qed.

Lemma skip_stable_result : forall s, stable (skip s).
Proof. intro s. apply sk_result_stable. lia. Qed.

Lemma skip_stable : forall s, stable s -> skip s = s.
Proof. intros s H. apply sk_stable_id. exact H. Qed.

Lemma skip_idem : forall s, skip (skip s) = skip s.
Proof. intro s. apply skip_stable. apply skip_stable_result. Qed.

Lemma skip_ws : forall c r, is_ws c = true -> skip (c :: r) = skip r.
Proof.
  intros c r H. unfold skip. cbn [length].
  transitivity (sk (S (S (length r))) r).
  - rewrite !sk_S. cbn [drop_ws]. rewrite H. reflexivity.
  - apply sk_fuel; lia.
Qed.

Lemma skip_head : forall c r, is_ws c = false -> c <> 47%N -> skip (c :: r) = c :: r.
Proof.
  intros c r Hw Hc. apply skip_stable. cbn. split; [exact Hw|].
  destruct r as [|d r']; [exact I|]. apply N.eqb_neq in Hc. rewrite Hc. reflexivity.
Qed.

Lemma skip_nil : skip [] = [].
Proof. reflexivity. Qed.

(* the token functions only look at the skipped input *)
Lemma tok_skip : forall t ex s, tok t ex (skip s) = tok t ex s.
Proof. intros. unfold tok. rewrite skip_idem. reflexivity. Qed.
Lemma kw_skip : forall t s, kw t (skip s) = kw t s.
Proof. intros. unfold kw. rewrite skip_idem. reflexivity. Qed.
Lemma tok_cond_skip : forall s, tok_cond (skip s) = tok_cond s.
Proof. intros. unfold tok_cond. rewrite tok_skip, skip_idem. reflexivity. Qed.
Lemma field_name_skip : forall s, field_name (skip s) = field_name s.
Proof. intros. unfold field_name. rewrite skip_idem. reflexivity. Qed.

Definition skip_invariant (t : str -> option str) : Prop := forall s, t (skip s) = t s.

Lemma first_op_skip : forall (A : Type) (ops : optab A), Forall (fun p => skip_invariant (snd p)) ops ->
  forall s, first_op ops (skip s) = first_op ops s.
Proof.
  intros A ops H s. induction H as [|[b t] l Ht _ IH]; cbn [first_op]; [reflexivity|].
  cbn [snd] in Ht. unfold skip_invariant in Ht. rewrite (Ht s). destruct (t s); [reflexivity|exact IH].
Qed.

Ltac table_skip := repeat constructor; cbn [snd]; intro; first [apply tok_skip|apply kw_skip].
Lemma unops_skip : Forall (fun p => skip_invariant (snd p)) unops.   Proof. unfold unops. table_skip. Qed.
Lemma ops_mul_skip : Forall (fun p => skip_invariant (snd p)) ops_mul.   Proof. unfold ops_mul. table_skip. Qed.
Lemma ops_add_skip : Forall (fun p => skip_invariant (snd p)) ops_add.   Proof. unfold ops_add. table_skip. Qed.
Lemma ops_shift_skip : Forall (fun p => skip_invariant (snd p)) ops_shift.   Proof. unfold ops_shift. table_skip. Qed.
Lemma ops_cmp_skip : Forall (fun p => skip_invariant (snd p)) ops_cmp.   Proof. unfold ops_cmp. table_skip. Qed.
Lemma ops_eq_skip : Forall (fun p => skip_invariant (snd p)) ops_eq.   Proof. unfold ops_eq. table_skip. Qed.
Lemma ops_band_skip : Forall (fun p => skip_invariant (snd p)) ops_band.   Proof. unfold ops_band. table_skip. Qed.
Lemma ops_bxor_skip : Forall (fun p => skip_invariant (snd p)) ops_bxor.   Proof. unfold ops_bxor. table_skip. Qed.
Lemma ops_bor_skip : Forall (fun p => skip_invariant (snd p)) ops_bor.   Proof. unfold ops_bor. table_skip. Qed.
Lemma ops_land_skip : Forall (fun p => skip_invariant (snd p)) ops_land.   Proof. unfold ops_land. table_skip. Qed.
Lemma ops_lor_skip : Forall (fun p => skip_invariant (snd p)) ops_lor.   Proof. unfold ops_lor. table_skip. Qed.

(* ---- the loops: any fuel above the input length gives the same result ---- *)
Section Loops.
  Variable pcond : str -> pres expr.
  Hypothesis Hpc : forall s, le_res (pcond s) s.

  Lemma args_loop_fuel : forall n m s, length s < n -> length s < m -> args_loop pcond n s = args_loop pcond m s.
  Proof.
    induction n as [|n IH]; intros m s Hn Hm; [lia|]. destruct m as [|m]; [lia|]. cbn [args_loop].
    destruct (skip s) as [|c q]; [reflexivity|]. destruct (N.eqb c 41); [reflexivity|].
    pose proof (Hpc s) as Hp. destruct (pcond s) as [e rest|p]; [|reflexivity].
    destruct (tok (lit ",") [] rest) as [rest2|] eqn:Et; [|reflexivity].
    apply tok_lt in Et; [|cbn; lia]. cbn in Hp. rewrite (IH m rest2); [reflexivity|lia|lia].
  Qed.

  Lemma obj_loop_fuel : forall n m s, length s < n -> length s < m -> obj_loop pcond n s = obj_loop pcond m s.
  Proof.
    induction n as [|n IH]; intros m s Hn Hm; [lia|]. destruct m as [|m]; [lia|]. cbn [obj_loop].
    pose proof (skip_le s) as Hs.
    destruct (skip s) as [|c q]; [reflexivity|]. destruct (N.eqb c 125); [reflexivity|].
    destruct (N.eqb c 46).
    - destruct (tok (lit "...") [] s) as [r|] eqn:Et; [|reflexivity].
      apply tok_lt in Et; [|cbn; lia].
      pose proof (Hpc r) as Hp. destruct (pcond r) as [v rest|p]; [|reflexivity].
      pose proof (skip_le rest) as Hr. destruct (skip rest) as [|d rest2]; [reflexivity|].
      destruct (N.eqb d 125); [reflexivity|]. destruct (N.eqb d 44); [|reflexivity].
      cbn in Hp, Hr. rewrite (IH m rest2); [reflexivity|lia|lia].
    - destruct (field_name s) as [[name r]|] eqn:Ef; [|reflexivity].
      apply field_name_lt in Ef. pose proof (skip_le r) as Hr.
      destruct (skip r) as [|d r2]; [reflexivity|].
      destruct (N.eqb d 58).
      + pose proof (Hpc r2) as Hp. destruct (pcond r2) as [v rest|p]; [|reflexivity].
        pose proof (skip_le rest) as Hr2. destruct (skip rest) as [|d2 rest2]; [reflexivity|].
        destruct (N.eqb d2 125); [reflexivity|]. destruct (N.eqb d2 44); [|reflexivity].
        cbn in Hp, Hr, Hr2. rewrite (IH m rest2); [reflexivity|lia|lia].
      + destruct (N.eqb d 125); [reflexivity|]. destruct (N.eqb d 44); [|reflexivity].
        cbn in Hr. rewrite (IH m r2); [reflexivity|lia|lia].
  Qed.

  Lemma arr_loop_fuel : forall n m s, length s < n -> length s < m -> arr_loop pcond n s = arr_loop pcond m s.
  Proof.
    induction n as [|n IH]; intros m s Hn Hm; [lia|]. destruct m as [|m]; [lia|]. cbn [arr_loop].
    pose proof (skip_le s) as Hs.
    destruct (skip s) as [|c r0]; [reflexivity|]. destruct (N.eqb c 93); [reflexivity|].
    destruct (N.eqb c 44).
    - cbn in Hs. rewrite (IH m r0); [reflexivity|lia|lia].
    - set (spread := starts_with (lit "...") (c :: r0)).
      set (item_start := if spread then skipn 3 (c :: r0) else s).
      assert (Hit : length item_start <= length s).
      { unfold item_start. destruct spread; [rewrite skipn_length; cbn in *; lia|lia]. }
      pose proof (Hpc item_start) as Hp. destruct (pcond item_start) as [v rest|p]; [|reflexivity].
      pose proof (skip_le rest) as Hr. destruct (skip rest) as [|d rest2]; [reflexivity|].
      destruct (N.eqb d 93); [reflexivity|]. destruct (N.eqb d 44); [|reflexivity].
      cbn in Hp, Hr. rewrite (IH m rest2); [reflexivity|lia|lia].
  Qed.

  Lemma member_loop_fuel : forall n m obj s, length s < n -> length s < m ->
    member_loop pcond n obj s = member_loop pcond m obj s.
  Proof.
    induction n as [|n IH]; intros m obj s Hn Hm; [lia|]. destruct m as [|m]; [lia|]. cbn [member_loop].
    destruct (tok (lit ".") [lit ".."] s) as [r|] eqn:Ed.
    { apply tok_lt in Ed; [|cbn; lia].
      destruct (field_name r) as [[name rest]|] eqn:Ef; [|reflexivity].
      apply field_name_lt in Ef. apply IH; lia. }
    destruct (tok (lit "[") [] s) as [r|] eqn:Eb.
    { apply tok_lt in Eb; [|cbn; lia].
      pose proof (Hpc r) as Hp. destruct (pcond r) as [e rest|p]; [|reflexivity].
      destruct (tok (lit "]") [] rest) as [rest2|] eqn:Et; [|reflexivity].
      apply tok_lt in Et; [|cbn; lia]. cbn in Hp. apply IH; lia. }
    destruct (tok (lit "(") [] s) as [r|] eqn:Ep; [|reflexivity].
    apply tok_lt in Ep; [|cbn; lia].
    pose proof (args_loop_le pcond Hpc (S (length r)) r) as Ha.
    destruct (args_loop pcond (S (length r)) r) as [args rest|p]; [|reflexivity].
    destruct (tok (lit ")") [] rest) as [rest2|] eqn:Et; [|reflexivity].
    apply tok_lt in Et; [|cbn; lia]. cbn in Ha. apply IH; lia.
  Qed.

  Lemma unary_loop_fuel : forall n m s, length s < n -> length s < m -> unary_loop pcond n s = unary_loop pcond m s.
  Proof.
    induction n as [|n IH]; intros m s Hn Hm; [lia|]. destruct m as [|m]; [lia|]. cbn [unary_loop].
    destruct (first_op unops s) as [[u rest]|] eqn:E; [|reflexivity].
    apply first_op_lt in E; [|exact unops_ok]. rewrite (IH m rest); [reflexivity|lia|lia].
  Qed.

  Lemma level_loop_fuel : forall next ops, (forall s, le_res (next s) s) -> Forall (fun p => consuming (snd p)) ops ->
    forall n m l s, length s < n -> length s < m -> level_loop next ops n l s = level_loop next ops m l s.
  Proof.
    intros next ops Hn Hops. induction n as [|n IH]; intros m l s H1 H2; [lia|]. destruct m as [|m]; [lia|].
    cbn [level_loop].
    destruct (first_op ops s) as [[b rest]|] eqn:E; [|reflexivity].
    apply first_op_lt in E; [|exact Hops]. pose proof (Hn rest) as Hr.
    destruct (next rest) as [r rest2|p]; [|reflexivity]. cbn in Hr. apply IH; lia.
  Qed.
End Loops.

(* ---- dependence on pcond only at shorter inputs ---- *)
Section Ext.
  Variables pc1 pc2 : str -> pres expr.
  Hypothesis H1 : forall s, le_res (pc1 s) s.

  Definition agree (n : nat) : Prop := forall r, length r < n -> pc1 r = pc2 r.

  Lemma agree_mono : forall n m, m <= n -> agree n -> agree m.
  Proof. intros n m Hm H r Hr. apply H. lia. Qed.

  Lemma args_loop_ext : forall n s, agree (S (length s)) -> args_loop pc1 n s = args_loop pc2 n s.
  Proof.
    induction n as [|n IH]; intros s Ha; [reflexivity|]. cbn [args_loop].
    destruct (skip s) as [|c q]; [reflexivity|]. destruct (N.eqb c 41); [reflexivity|].
    rewrite <- (Ha s ltac:(lia)). pose proof (H1 s) as Hp. destruct (pc1 s) as [e rest|p]; [|reflexivity].
    destruct (tok (lit ",") [] rest) as [rest2|] eqn:Et; [|reflexivity].
    apply tok_lt in Et; [|cbn; lia]. cbn in Hp. rewrite IH; [reflexivity|]. eapply agree_mono; [|exact Ha]. lia.
  Qed.

  Lemma obj_loop_ext : forall n s, agree (S (length s)) -> obj_loop pc1 n s = obj_loop pc2 n s.
  Proof.
    induction n as [|n IH]; intros s Ha; [reflexivity|]. cbn [obj_loop].
    pose proof (skip_le s) as Hs.
    destruct (skip s) as [|c q]; [reflexivity|]. destruct (N.eqb c 125); [reflexivity|].
    destruct (N.eqb c 46).
    - destruct (tok (lit "...") [] s) as [r|] eqn:Et; [|reflexivity].
      apply tok_lt in Et; [|cbn; lia].
      rewrite <- (Ha r ltac:(lia)). pose proof (H1 r) as Hp. destruct (pc1 r) as [v rest|p]; [|reflexivity].
      pose proof (skip_le rest) as Hr. destruct (skip rest) as [|d rest2]; [reflexivity|].
      destruct (N.eqb d 125); [reflexivity|]. destruct (N.eqb d 44); [|reflexivity].
      cbn in Hp, Hr. rewrite IH; [reflexivity|]. eapply agree_mono; [|exact Ha]. lia.
    - destruct (field_name s) as [[name r]|] eqn:Ef; [|reflexivity].
      apply field_name_lt in Ef. pose proof (skip_le r) as Hr.
      destruct (skip r) as [|d r2]; [reflexivity|].
      destruct (N.eqb d 58).
      + cbn in Hr. rewrite <- (Ha r2 ltac:(lia)). pose proof (H1 r2) as Hp. destruct (pc1 r2) as [v rest|p]; [|reflexivity].
        pose proof (skip_le rest) as Hr2. destruct (skip rest) as [|d2 rest2]; [reflexivity|].
        destruct (N.eqb d2 125); [reflexivity|]. destruct (N.eqb d2 44); [|reflexivity].
        cbn in Hp, Hr2. rewrite IH; [reflexivity|]. eapply agree_mono; [|exact Ha]. lia.
      + destruct (N.eqb d 125); [reflexivity|]. destruct (N.eqb d 44); [|reflexivity].
        cbn in Hr. rewrite IH; [reflexivity|]. eapply agree_mono; [|exact Ha]. lia.
  Qed.

  Lemma arr_loop_ext : forall n s, agree (S (length s)) -> arr_loop pc1 n s = arr_loop pc2 n s.
  Proof.
    induction n as [|n IH]; intros s Ha; [reflexivity|]. cbn [arr_loop].
    pose proof (skip_le s) as Hs.
    destruct (skip s) as [|c r0]; [reflexivity|]. destruct (N.eqb c 93); [reflexivity|].
    destruct (N.eqb c 44).
    - cbn in Hs. rewrite IH; [reflexivity|]. eapply agree_mono; [|exact Ha]. lia.
    - set (spread := starts_with (lit "...") (c :: r0)).
      set (item_start := if spread then skipn 3 (c :: r0) else s).
      assert (Hit : length item_start <= length s).
      { unfold item_start. destruct spread; [rewrite skipn_length; cbn in *; lia|lia]. }
      rewrite <- (Ha item_start ltac:(lia)). pose proof (H1 item_start) as Hp.
      destruct (pc1 item_start) as [v rest|p]; [|reflexivity].
      pose proof (skip_le rest) as Hr. destruct (skip rest) as [|d rest2]; [reflexivity|].
      destruct (N.eqb d 93); [reflexivity|]. destruct (N.eqb d 44); [|reflexivity].
      cbn in Hp, Hr. rewrite IH; [reflexivity|]. eapply agree_mono; [|exact Ha]. lia.
  Qed.

  (* the remaining functions call pcond only after consuming at least one character *)
  Lemma p_lit_ext : forall s, agree (length s) -> p_lit pc1 s = p_lit pc2 s.
  Proof.
    intros s Ha. unfold p_lit. pose proof (skip_le s) as Hs.
    destruct (skip s) as [|c r]; [reflexivity|]. cbn in Hs.
    destruct (is_ident_start c); [reflexivity|].
    destruct ((c =? 34)%N || (c =? 39)%N)%bool; [reflexivity|].
    destruct (is_digit c || (c =? 46)%N)%bool; [reflexivity|].
    destruct (N.eqb c 40).
    { rewrite <- (Ha r ltac:(lia)). reflexivity. }
    destruct (N.eqb c 123).
    { rewrite obj_loop_ext; [reflexivity|]. eapply agree_mono; [|exact Ha]. lia. }
    destruct (N.eqb c 91).
    { rewrite arr_loop_ext; [reflexivity|]. eapply agree_mono; [|exact Ha]. lia. }
    reflexivity.
  Qed.

  Lemma member_loop_ext : forall n obj s, agree (length s) -> member_loop pc1 n obj s = member_loop pc2 n obj s.
  Proof.
    induction n as [|n IH]; intros obj s Ha; [reflexivity|]. cbn [member_loop].
    destruct (tok (lit ".") [lit ".."] s) as [r|] eqn:Ed.
    { apply tok_lt in Ed; [|cbn; lia].
      destruct (field_name r) as [[name rest]|] eqn:Ef; [|reflexivity].
      apply field_name_lt in Ef. apply IH. eapply agree_mono; [|exact Ha]. lia. }
    destruct (tok (lit "[") [] s) as [r|] eqn:Eb.
    { apply tok_lt in Eb; [|cbn; lia].
      rewrite <- (Ha r ltac:(lia)). pose proof (H1 r) as Hp. destruct (pc1 r) as [e rest|p]; [|reflexivity].
      destruct (tok (lit "]") [] rest) as [rest2|] eqn:Et; [|reflexivity].
      apply tok_lt in Et; [|cbn; lia]. cbn in Hp. apply IH. eapply agree_mono; [|exact Ha]. lia. }
    destruct (tok (lit "(") [] s) as [r|] eqn:Ep; [|reflexivity].
    apply tok_lt in Ep; [|cbn; lia].
    rewrite <- (args_loop_ext (S (length r)) r) by (eapply agree_mono; [|exact Ha]; lia).
    pose proof (args_loop_le pc1 H1 (S (length r)) r) as Hal.
    destruct (args_loop pc1 (S (length r)) r) as [args rest|p]; [|reflexivity].
    destruct (tok (lit ")") [] rest) as [rest2|] eqn:Et; [|reflexivity].
    apply tok_lt in Et; [|cbn; lia]. cbn in Hal. apply IH. eapply agree_mono; [|exact Ha]. lia.
  Qed.

  Lemma p_member_ext : forall s, agree (length s) -> p_member pc1 s = p_member pc2 s.
  Proof.
    intros s Ha. unfold p_member. rewrite <- (p_lit_ext s Ha).
    pose proof (p_lit_le pc1 H1 s) as Hl. destruct (p_lit pc1 s) as [o rest|p]; [|reflexivity].
    cbn in Hl. apply member_loop_ext. eapply agree_mono; [|exact Ha]. lia.
  Qed.

  Lemma unary_loop_ext : forall n s, agree (length s) -> unary_loop pc1 n s = unary_loop pc2 n s.
  Proof.
    induction n as [|n IH]; intros s Ha; [reflexivity|]. cbn [unary_loop].
    destruct (first_op unops s) as [[u rest]|] eqn:E.
    - apply first_op_lt in E; [|exact unops_ok]. rewrite IH; [reflexivity|]. eapply agree_mono; [|exact Ha]. lia.
    - apply p_member_ext. exact Ha.
  Qed.

  Lemma level_loop_ext : forall next1 next2 ops,
    (forall s, le_res (next1 s) s) -> Forall (fun p => consuming (snd p)) ops ->
    (forall s, agree (length s) -> next1 s = next2 s) ->
    forall n l s, agree (length s) -> level_loop next1 ops n l s = level_loop next2 ops n l s.
  Proof.
    intros next1 next2 ops Hle Hops Hnext. induction n as [|n IH]; intros l s Ha; [reflexivity|]. cbn [level_loop].
    destruct (first_op ops s) as [[b rest]|] eqn:E; [|reflexivity].
    apply first_op_lt in E; [|exact Hops].
    rewrite <- (Hnext rest) by (eapply agree_mono; [|exact Ha]; lia).
    pose proof (Hle rest) as Hr. destruct (next1 rest) as [r rest2|p]; [|reflexivity].
    cbn in Hr. apply IH. eapply agree_mono; [|exact Ha]. lia.
  Qed.

  Lemma level_ext : forall next1 next2 ops,
    (forall s, le_res (next1 s) s) -> Forall (fun p => consuming (snd p)) ops ->
    (forall s, agree (length s) -> next1 s = next2 s) ->
    forall s, agree (length s) -> level next1 ops s = level next2 ops s.
  Proof.
    intros next1 next2 ops Hle Hops Hnext s Ha. unfold level. rewrite <- (Hnext s Ha).
    pose proof (Hle s) as Hl. destruct (next1 s) as [l rest|p]; [|reflexivity].
    cbn in Hl. apply level_loop_ext; try assumption. eapply agree_mono; [|exact Ha]. lia.
  Qed.

  Lemma p_unary_ext : forall s, agree (length s) -> p_unary pc1 s = p_unary pc2 s.
  Proof. intros s Ha. unfold p_unary. apply unary_loop_ext. exact Ha. Qed.

  Lemma p_lor_ext : forall s, agree (length s) -> p_lor pc1 s = p_lor pc2 s.
  Proof.
    unfold p_lor, p_land, p_bor, p_bxor, p_band, p_eq, p_cmp, p_shift, p_add, p_mul.
    pose proof (p_unary_le pc1 H1) as L0.
    pose proof (level_le pc1 H1 _ _ L0 ops_mul_ok) as L1.
    pose proof (level_le pc1 H1 _ _ L1 ops_add_ok) as L2.
    pose proof (level_le pc1 H1 _ _ L2 ops_shift_ok) as L3.
    pose proof (level_le pc1 H1 _ _ L3 ops_cmp_ok) as L4.
    pose proof (level_le pc1 H1 _ _ L4 ops_eq_ok) as L5.
    pose proof (level_le pc1 H1 _ _ L5 ops_band_ok) as L6.
    pose proof (level_le pc1 H1 _ _ L6 ops_bxor_ok) as L7.
    pose proof (level_le pc1 H1 _ _ L7 ops_bor_ok) as L8.
    pose proof (level_le pc1 H1 _ _ L8 ops_land_ok) as L9.
    apply level_ext; [exact L9|exact ops_lor_ok|].
    apply level_ext; [exact L8|exact ops_land_ok|].
    apply level_ext; [exact L7|exact ops_bor_ok|].
    apply level_ext; [exact L6|exact ops_bxor_ok|].
    apply level_ext; [exact L5|exact ops_band_ok|].
    apply level_ext; [exact L4|exact ops_eq_ok|].
    apply level_ext; [exact L3|exact ops_cmp_ok|].
    apply level_ext; [exact L2|exact ops_shift_ok|].
    apply level_ext; [exact L1|exact ops_add_ok|].
    apply level_ext; [exact L0|exact ops_mul_ok|].
    exact p_unary_ext.
  Qed.

  Lemma cond_body_ext : forall s, agree (length s) -> cond_body pc1 s = cond_body pc2 s.
  Proof.
    intros s Ha. unfold cond_body. rewrite <- (p_lor_ext s Ha).
    pose proof (p_lor_le pc1 H1 s) as Hl. destruct (p_lor pc1 s) as [c rest|p]; [|reflexivity].
    cbn in Hl. destruct (tok_cond rest) as [r|] eqn:Eq; [|reflexivity].
    apply tok_cond_lt in Eq. rewrite <- (Ha r ltac:(lia)).
    pose proof (H1 r) as Hp. destruct (pc1 r) as [t rest2|p]; [|reflexivity].
    destruct (tok (lit ":") [] rest2) as [r3|] eqn:Ec; [|reflexivity].
    apply tok_lt in Ec; [|cbn; lia]. cbn in Hp. rewrite <- (Ha r3 ltac:(lia)). reflexivity.
  Qed.
End Ext.

Lemma parse_cond_fuel_indep : forall n m s, length s < n -> length s < m -> parse_cond_fuel n s = parse_cond_fuel m s.
Proof.
  induction n as [|n IH]; intros m s Hn Hm; [lia|]. destruct m as [|m]; [lia|]. cbn [parse_cond_fuel].
  apply cond_body_ext; [apply parse_cond_fuel_le|].
  intros r Hr. apply IH; lia.
Qed.

Lemma parse_cond_le : forall s, le_res (parse_cond s) s.
Proof. intro s. apply parse_cond_fuel_le. Qed.

(* the unfolding equation *)
Theorem parse_cond_unfold : forall s, parse_cond s = cond_body parse_cond s.
Proof.
  intro s. unfold parse_cond at 1. cbn [parse_cond_fuel].
  apply cond_body_ext; [apply parse_cond_fuel_le|].
  intros r Hr. unfold parse_cond. apply parse_cond_fuel_indep; lia.
Qed.

(* fuel independence of the whole parser: any fuel above the input length gives parse_cond *)
Theorem parse_cond_any_fuel : forall n s, length s < n -> parse_cond_fuel n s = parse_cond s.
Proof. intros n s H. apply parse_cond_fuel_indep; [exact H|lia]. Qed.
