(* C08 / C09: the model against the specification (Model/CssSpec.v): refutation witnesses of the
   full statements (the known findings), the facts that hold for all inputs, and concrete
   conforming examples showing that the hypotheses of the conditional statements are inhabited. *)
From GE Require Import Model.Str Model.CssNum Model.CssTok Model.CssOut Model.CssUrlEnc Model.Css Model.CssSpec.
From GE Require Import Proofs.CssOutProofs Proofs.CssWalkProofs.
From Coq Require Import Lia.
Open Scope N_scope.

(* both outputs of the model conform to the expected streams *)
Definition model_conforms (o : opts) (tree : list node) (endp : pos) : bool :=
  conforms (o_tokens (w_normal (transform o tree endp))) (so_normal (expected o tree)) &&
  conforms (o_tokens (w_low (transform o tree endp))) (so_low (expected o tree)).

(* full statement of C08 (and of the token part of C09, C17, C18): every well-formed sheet *)
Definition C08_conforms_full : Prop :=
  forall o tree endp, wf_tree o tree = true -> model_conforms o tree endp = true.

Definition P (l c : N) : pos := mkpos l c.
Definition plain : opts := mkopts None None 1144750080 None false None.
Definition with_prefix : opts := mkopts (Some [112]) None 1144750080 None false None.

(* Former D13 witness  .a:not(:is(.b .c)){}  : before fix f5fc923 the inner function was processed
   as a declaration value (`:is(.b.c)`, no prefixes); the model mirrors the repaired code. *)
Definition d13_tree : list node :=
  [Leaf (TDelim 46) (P 0 0); Leaf (TIdent [97]) (P 0 1); Leaf TColon (P 0 2);
   Block (TFunc [110;111;116]) (P 0 3)
     [Leaf TColon (P 0 7);
      Block (TFunc [105;115]) (P 0 8)
        [Leaf (TDelim 46) (P 0 11); Leaf (TIdent [98]) (P 0 12); Leaf (TWs [32]) (P 0 13);
         Leaf (TDelim 46) (P 0 14); Leaf (TIdent [99]) (P 0 15)] (P 0 16) true] (P 0 17) true;
   Block TCurly (P 0 18) [] (P 0 19) true].

Example former_d13_now_conforms :
  wf_tree with_prefix d13_tree = true /\ known with_prefix d13_tree = [] /\
  model_conforms with_prefix d13_tree (P 0 20) = true /\
  map ser_tok (o_tokens (w_normal (transform with_prefix d13_tree (P 0 20)))) =
    [[46]; [112;45;45;97]; [58]; [110;111;116;40]; [58]; [105;115;40]; [46]; [112;45;45;98]; [32]; [46];
     [112;45;45;99]; [41]; [41]; [123]; [125]].
Proof. vm_compute. repeat split; reflexivity. Qed.

(* Former D14 witness  @layer x{.a .b{}}  (before fix 412b5df the block was a declaration value) *)
Definition d14_tree : list node :=
  [Leaf (TAt s_layer) (P 0 0); Leaf (TWs [32]) (P 0 6); Leaf (TIdent [120]) (P 0 7);
   Block TCurly (P 0 8)
     [Leaf (TDelim 46) (P 0 9); Leaf (TIdent [97]) (P 0 10); Leaf (TWs [32]) (P 0 11);
      Leaf (TDelim 46) (P 0 12); Leaf (TIdent [98]) (P 0 13);
      Block TCurly (P 0 14) [] (P 0 15) true] (P 0 16) true].

Example former_d14_now_conforms :
  wf_tree with_prefix d14_tree = true /\ known with_prefix d14_tree = [] /\
  model_conforms with_prefix d14_tree (P 0 17) = true /\
  map ser_tok (o_tokens (w_normal (transform with_prefix d14_tree (P 0 17)))) =
    [[64;108;97;121;101;114]; [32]; [120]; [123]; [46]; [112;45;45;97]; [32]; [46]; [112;45;45;98]; [123]; [125]; [125]].
Proof. vm_compute. repeat split; reflexivity. Qed.

(* D15  a{b:U+26}  -> `U +26` *)
Definition d15_tree : list node :=
  [Leaf (TIdent [97]) (P 0 0);
   Block TCurly (P 0 1)
     [Leaf (TIdent [98]) (P 0 2); Leaf TColon (P 0 3); Leaf (TIdent [85]) (P 0 4);
      Leaf (TNum (mknum true (Some 26%Z) 1104150528 [43;50;54])) (P 0 5)] (P 0 8) true].

Theorem conforms_refuted_d15 :
  wf_tree plain d15_tree = true /\ model_conforms plain d15_tree (P 0 9) = false /\
  known plain d15_tree = [K15].
Proof. vm_compute. repeat split; reflexivity. Qed.

Theorem conforms_refuted : ~ C08_conforms_full.
Proof.
  intro H. specialize (H plain d15_tree (P 0 9)).
  destruct conforms_refuted_d15 as [W [F _]]. rewrite F in H. specialize (H W). clear - H. discriminate H.
Qed.

(* D27  a||b{}  -> `a| |b{}` *)
Definition d27_tree : list node :=
  [Leaf (TIdent [97]) (P 0 0); Leaf (TDelim 124) (P 0 1); Leaf (TDelim 124) (P 0 2); Leaf (TIdent [98]) (P 0 3);
   Block TCurly (P 0 4) [] (P 0 5) true].

Theorem conforms_refuted_d27 :
  wf_tree plain d27_tree = true /\ model_conforms plain d27_tree (P 0 6) = false /\
  known plain d27_tree = [K27].
Proof. vm_compute. repeat split; reflexivity. Qed.

(* Former D23 witness  a{b:min(1px + 2px)}  (before fix 1dd75dd: `min(1px+ 2px)`) *)
Definition px (v : N) (i : Z) (src : str) : tok := TDim (mknum false (Some i) v src) [112;120].
Definition d23_tree : list node :=
  [Leaf (TIdent [97]) (P 0 0);
   Block TCurly (P 0 1)
     [Leaf (TIdent [98]) (P 0 2); Leaf TColon (P 0 3);
      Block (TFunc s_min) (P 0 4)
        [Leaf (px 1065353216 1 [49]) (P 0 8); Leaf (TWs [32]) (P 0 11); Leaf (TDelim 43) (P 0 12);
         Leaf (TWs [32]) (P 0 13); Leaf (px 1073741824 2 [50]) (P 0 14)] (P 0 17) true] (P 0 18) true].

Example former_d23_now_conforms :
  wf_tree plain d23_tree = true /\ known plain d23_tree = [] /\
  model_conforms plain d23_tree (P 0 19) = true /\
  map ser_tok (o_tokens (w_normal (transform plain d23_tree (P 0 19)))) =
    [[97]; [123]; [98]; [58]; [109;105;110;40]; [49;112;120]; [32]; [43]; [32]; [50;112;120]; [41]; [125]].
Proof. vm_compute. repeat split; reflexivity. Qed.

(* a clean sheet that exercises both contexts conforms:  #x .a > .b:not(.c .d){w:calc(1px + 2px) 10rpx} *)
Definition clean_tree : list node :=
  [Leaf (TIdHash [120]) (P 0 0); Leaf (TWs [32]) (P 0 2); Leaf (TDelim 46) (P 0 3); Leaf (TIdent [97]) (P 0 4);
   Leaf (TWs [32]) (P 0 5); Leaf (TDelim 62) (P 0 6); Leaf (TWs [32]) (P 0 7);
   Leaf (TDelim 46) (P 0 8); Leaf (TIdent [98]) (P 0 9); Leaf TColon (P 0 10);
   Block (TFunc [110;111;116]) (P 0 11)
     [Leaf (TDelim 46) (P 0 15); Leaf (TIdent [99]) (P 0 16); Leaf (TWs [32]) (P 0 17);
      Leaf (TDelim 46) (P 0 18); Leaf (TIdent [100]) (P 0 19)] (P 0 20) true;
   Block TCurly (P 0 21)
     [Leaf (TIdent [119]) (P 0 22); Leaf TColon (P 0 23);
      Block (TFunc s_calc) (P 0 24)
        [Leaf (px 1065353216 1 [49]) (P 0 29); Leaf (TWs [32]) (P 0 32); Leaf (TDelim 43) (P 0 33);
         Leaf (TWs [32]) (P 0 34); Leaf (px 1073741824 2 [50]) (P 0 35)] (P 0 38) true;
      Leaf (TWs [32]) (P 0 39);
      Leaf (TDim (mknum false (Some 10%Z) 1092616192 [49;48]) s_rpx) (P 0 40)] (P 0 45) true].

Example clean_sheet_conforms :
  wf_tree with_prefix clean_tree = true /\ known with_prefix clean_tree = [] /\
  model_conforms with_prefix clean_tree (P 0 46) = true /\
  map ser_tok (o_tokens (w_normal (transform with_prefix clean_tree (P 0 46)))) =
    [[35;120]; [32]; [46]; [112;45;45;97]; [32]; [62]; [32]; [46]; [112;45;45;98]; [58]; [110;111;116;40];
     [46]; [112;45;45;99]; [32]; [46]; [112;45;45;100]; [41]; [123]; [119]; [58]; [99;97;108;99;40];
     [49;112;120]; [32]; [43]; [32]; [50;112;120]; [41]; [49;46;51;51;51;51;51;118;119]; [125]].
Proof. vm_compute. repeat split; reflexivity. Qed.

(* ---- C09: statements about the class-name writer that hold for all inputs ---- *)

(* no prefix and no sign: identifiers are written unchanged, class or not *)
Lemma prefix_none_identity : forall o st s p in_class,
  class_prefix o = None -> class_prefix_sign o = None ->
  write_maybe_class_name o st s p in_class = tok_sp st (TIdent s) p None.
Proof.
  intros o st s p ic H1 H2. unfold write_maybe_class_name. rewrite H1, H2. destruct ic; reflexivity.
Qed.

(* an identifier that does not follow a `.` is never touched *)
Lemma prefix_only_after_dot : forall o st s p,
  write_maybe_class_name o st s p false = tok_sp st (TIdent s) p None.
Proof. intros. unfold write_maybe_class_name. reflexivity. Qed.

(* after a `.`: exactly `<prefix>--<name>`, named after the source identifier, preceded by the
   sign comment when one is configured *)
Lemma prefix_form : forall o st s p pre,
  class_prefix o = Some pre ->
  write_maybe_class_name o st s p true =
  tok_sp (match class_prefix_sign o with Some c => tok_at st (TComment c) p None | None => st end)
         (TIdent (pre ++ s_dashdash ++ s)) p (Some (TIdent s)).
Proof. intros o st s p pre H. unfold write_maybe_class_name. rewrite H. reflexivity. Qed.

(* identifier sequence of an output vs. the expected one *)
Definition idents (l : list tok) : list tok :=
  filter (fun t => match t with TIdent _ | TComment _ => true | _ => false end) l.

Definition C09_prefix_exact_full : Prop :=
  forall o tree endp, wf_tree o tree = true ->
    map ser_tok (idents (o_tokens (w_normal (transform o tree endp)))) =
    map ser_tok (idents (map e_tok (so_normal (expected o tree)))).

(* Status of C09_prefix_exact_full: it was refuted by `.a:not(:is(.b .c))` (D13) and then by
   `@import 'a' layer(b.t)` (D25); both are repaired in the code and both witnesses satisfy the
   statement now (anchors below).  None of the remaining known classes (15 24 27 28, limits of
   cssparser's serializer) touches identifiers or comments, and no counterexample is known: the
   statement is neither refuted nor proved as a whole.  What is proved instead, for every prelude
   of every depth and every declaration block: Proofs/CssClassProofs.v (class_exact_rule). *)

(* Former D25 witness  @import 'a' layer(b.t);  with an import sign and a prefix (before fix 661ebe6
   the layer name went through the class-name converter: `@layer b.p--t`) *)
Definition d25_opts : opts := mkopts (Some [112]) None 1144750080 (Some [73]) false None.
Definition d25_tree : list node :=
  [Leaf (TAt s_import) (P 0 0); Leaf (TWs [32]) (P 0 7); Leaf (TStr [97]) (P 0 8); Leaf (TWs [32]) (P 0 11);
   Block (TFunc s_layer) (P 0 12)
     [Leaf (TIdent [98]) (P 0 18); Leaf (TDelim 46) (P 0 19); Leaf (TIdent [116]) (P 0 20)] (P 0 21) true;
   Leaf TSemi (P 0 22)].

Example former_d25_now_conforms :
  wf_tree d25_opts d25_tree = true /\ known d25_opts d25_tree = [] /\
  model_conforms d25_opts d25_tree (P 0 23) = true /\
  map ser_tok (o_tokens (w_normal (transform d25_opts d25_tree (P 0 23)))) =
    [[64;108;97;121;101;114]; [32]; [98]; [46]; [116]; [123]; [47;42;73;32;97;42;47]; [125]] /\
  map ser_tok (idents (o_tokens (w_normal (transform d25_opts d25_tree (P 0 23))))) =
  map ser_tok (idents (map e_tok (so_normal (expected d25_opts d25_tree)))).
Proof. vm_compute. repeat split; reflexivity. Qed.

(* Former D26 witness  : host{a:b}  with host conversion (before fix bdd7adf the invalid rule was
   converted into `[wx-host=""]{a:b}`); it is now written unchanged to the normal output *)
Definition d26_opts : opts := mkopts None None 1144750080 None true None.
Definition d26_tree : list node :=
  [Leaf TColon (P 0 0); Leaf (TWs [32]) (P 0 1); Leaf (TIdent s_host) (P 0 2);
   Block TCurly (P 0 6) [Leaf (TIdent [97]) (P 0 7); Leaf TColon (P 0 8); Leaf (TIdent [98]) (P 0 9)] (P 0 10) true].

Example former_d26_now_conforms :
  wf_tree d26_opts d26_tree = true /\ known d26_opts d26_tree = [] /\
  model_conforms d26_opts d26_tree (P 0 11) = true /\
  o_text (w_low (transform d26_opts d26_tree (P 0 11))) = [] /\
  map ser_tok (o_tokens (w_normal (transform d26_opts d26_tree (P 0 11)))) =
    [[58]; [32]; [104;111;115;116]; [123]; [97]; [58]; [98]; [125]].
Proof. vm_compute. repeat split; reflexivity. Qed.

(* the former refutation witness `.a:not(:is(.b .c))` (D13) now satisfies the statement *)
Example prefix_exact_former_d13 :
  map ser_tok (idents (o_tokens (w_normal (transform with_prefix d13_tree (P 0 20))))) =
  map ser_tok (idents (map e_tok (so_normal (expected with_prefix d13_tree)))).
Proof. vm_compute. reflexivity. Qed.

Example prefix_exact_clean :
  map ser_tok (idents (o_tokens (w_normal (transform with_prefix clean_tree (P 0 46))))) =
  map ser_tok (idents (map e_tok (so_normal (expected with_prefix clean_tree)))).
Proof. vm_compute. reflexivity. Qed.

(* D29  @a 75rpx;  : an rpx dimension directly in an at-rule prelude stays `75rpx` (the unit test
   transform_rpx_in_simple_at_rules pins it); the specification (C10: at-rule preludes) wants `10vw` *)
Definition d29_tree : list node :=
  [Leaf (TAt [97]) (P 0 0); Leaf (TWs [32]) (P 0 2);
   Leaf (TDim (mknum false (Some 75%Z) 1117126656 [55;53]) s_rpx) (P 0 3); Leaf TSemi (P 0 8)].

Theorem prelude_rpx_refuted_d29 :
  wf_tree plain d29_tree = true /\ model_conforms plain d29_tree (P 0 9) = false /\
  known plain d29_tree = [K29] /\
  map ser_tok (o_tokens (w_normal (transform plain d29_tree (P 0 9)))) = [[64;97]; [32]; [55;53;114;112;120]; [59]] /\
  map (fun e => ser_tok (e_tok e)) (so_normal (expected plain d29_tree)) = [[64;97]; [49;48;118;119]; [59]].
Proof. vm_compute. repeat split; reflexivity. Qed.
