(* C17, the low-priority side of a converted `:host` rule: the identifiers and comments it adds to the low-priority output are
   those of the replayed wrappers (the prelude segments on the stack, one per enclosing at-rule), of the `[wx-host=..]`
   (`,[is=..]`) selector and of the declaration block walked as a value - for every body, every option set and every stack. *)
From GE Require Import Model.Str Model.CssNum Model.CssTok Model.CssOut Model.CssUrlEnc Model.Css Model.CssSpec.
From GE Require Import Proofs.CssOutProofs Proofs.CssWalkProofs Proofs.CssTokProofs Proofs.CssClassProofs.
From Coq Require Import Lia Bool.
Open Scope N_scope.

Definition lout (st : wstate) : list tok := idc (o_tokens (w_low st)).
Definition stack_idc (st : wstate) : list tok := concat (map (fun it : str * list tok => idc (snd it)) (w_stack st)).

Lemma o_tokens_append_raw : forall s txt ghost, o_tokens (append_raw s txt ghost) = o_tokens s ++ ghost.
Proof.
  intros [ch u pv en tk] txt ghost. unfold append_raw, push_text, set_prev, o_tokens. cbn [o_chunks o_utf16 o_prev o_entries o_toks].
  rewrite rev_append_rev, rev_app_distr, rev_involutive. reflexivity.
Qed.

Lemma lout_emit_low_raw : forall st txt ghost, lout (emit_low st (OpRaw txt ghost)) = lout st ++ idc ghost.
Proof. intros st txt ghost. unfold lout, emit_low. cbn [w_low apply_op]. rewrite o_tokens_append_raw, idc_app. reflexivity. Qed.

Lemma emit_low_frame : forall st op_, w_normal (emit_low st op_) = w_normal st /\ w_using_low (emit_low st op_) = w_using_low st /\
  w_stack (emit_low st op_) = w_stack st.
Proof. intros. unfold emit_low. cbn. auto. Qed.

(* opening the wrappers: the ghost tokens of every stack item, in order *)
Lemma open_wrappers_fold : forall (items : list (str * list tok)) s,
  let s' := fold_left (fun s item => emit_low (emit_low s (OpRaw (fst item) (snd item))) (OpRaw s_open [TCurly])) items s in
  lout s' = lout s ++ concat (map (fun it : str * list tok => idc (snd it)) items) /\
  w_using_low s' = w_using_low s /\ w_stack s' = w_stack s.
Proof.
  induction items as [|it items IH]; intro s; cbn [fold_left map concat].
  - rewrite app_nil_r. auto.
  - destruct (IH (emit_low (emit_low s (OpRaw (fst it) (snd it))) (OpRaw s_open [TCurly]))) as [A [B C]].
    cbv zeta in *. rewrite A, B, C. rewrite !lout_emit_low_raw.
    change (idc [TCurly]) with (@nil tok). rewrite app_nil_r, <- app_assoc.
    destruct (emit_low_frame (emit_low s (OpRaw (fst it) (snd it))) (OpRaw s_open [TCurly])) as [_ [U1 S1]].
    destruct (emit_low_frame s (OpRaw (fst it) (snd it))) as [_ [U2 S2]].
    rewrite U1, U2, S1, S2. auto.
Qed.

Lemma close_wrappers_fold : forall (T : Type) (items : list T) s,
  let s' := fold_left (fun s _ => emit_low s (OpRaw s_close [TCloseCurly])) items s in
  lout s' = lout s /\ w_using_low s' = w_using_low s.
Proof.
  induction items as [|it items IH]; intro s; cbn [fold_left]; [auto|].
  destruct (IH (emit_low s (OpRaw s_close [TCloseCurly]))) as [A B]. cbv zeta in *.
  rewrite A, B, lout_emit_low_raw. change (idc [TCloseCurly]) with (@nil tok). rewrite app_nil_r.
  destruct (emit_low_frame s (OpRaw s_close [TCloseCurly])) as [_ [U _]]. rewrite U. auto.
Qed.

Lemma IExt_attr_selector : forall st n v p, IExt [TIdent n] st (write_attr_selector st n v p).
Proof.
  intros st n v p. unfold write_attr_selector.
  change [TIdent n] with (idc [TSquare] ++ idc [TIdent n] ++ idc [TDelim 61] ++ idc [TStr v] ++ idc [TCloseSquare]).
  eapply IExt_trans; [apply IExt_tok_at|]. eapply IExt_trans; [apply IExt_tok_at|].
  eapply IExt_trans; [apply IExt_tok_at|]. eapply IExt_trans; [apply IExt_tok_at|]. apply IExt_tok_at.
Qed.

Lemma eidc_attr_sel : forall n v, eidc (attr_sel n v) = [TIdent n].
Proof. reflexivity. Qed.

(* in low mode the current output is the low-priority one *)
Lemma iout_low : forall st, w_using_low st = true -> iout st = lout st.
Proof. intros st H. unfold iout, cur_out, lout. rewrite H. reflexivity. Qed.

Theorem host_emit_low_idc : forall o st p body,
  shaped body = true -> w_using_low st = false ->
  lout (host_emit o st p body) =
  lout st ++ stack_idc st ++
  eidc (host_selector o ++ [mke GFree TCurly] ++ val_spec o false body None false ++ [mke GFree TCloseCurly]).
Proof.
  intros o st p body Hsb Hu. unfold host_emit.
  set (s0 := set_using_low st true).
  destruct (open_wrappers_fold (w_stack s0) s0) as [A [B C]]. cbv zeta in A, B, C.
  fold (low_open_wrappers s0) in A, B, C.
  set (s1 := low_open_wrappers s0) in *.
  assert (U1 : w_using_low s1 = true) by (rewrite B; reflexivity).
  (* the selector, the block: tracked on the current (= low-priority) output *)
  set (X := eidc (host_selector o ++ [mke GFree TCurly] ++ val_spec o false body None false ++ [mke GFree TCloseCurly])).
  set (s2 := match host_is o with
             | Some h => write_attr_selector (tok_at (write_attr_selector s1 s_wx_host
                           (match class_prefix o with Some x => x | None => [] end) p) TComma p None) s_is h p
             | None => write_attr_selector s1 s_wx_host (match class_prefix o with Some x => x | None => [] end) p
             end).
  assert (H2 : IExt (eidc (host_selector o)) s1 s2).
  { unfold s2, host_selector. destruct (host_is o) as [h|].
    - rewrite eidc_app. change (eidc (mke GFree TComma :: attr_sel s_is h)) with (idc [TComma] ++ eidc (attr_sel s_is h)).
      rewrite !eidc_attr_sel.
      eapply IExt_trans; [apply IExt_attr_selector|]. eapply IExt_trans; [apply IExt_tok_at | apply IExt_attr_selector].
    - rewrite app_nil_r, eidc_attr_sel. apply IExt_attr_selector. }
  set (s3 := tok_at (rpx_body o false body None (tok_at s2 TCurly p None)) TCloseCurly p None).
  assert (H3 : IExt X s1 s3).
  { unfold X, s3. rewrite !eidc_app.
    eapply IExt_trans; [exact H2|]. eapply IExt_trans; [apply (IExt_tok_at s2 TCurly)|].
    eapply IExt_trans; [|apply IExt_tok_at]. unfold val_spec. apply IExt_rpx_body. exact Hsb. }
  destruct H3 as [U3 I3].
  assert (U3' : w_using_low s3 = true) by (rewrite U3; exact U1).
  rewrite (iout_low s3 U3'), (iout_low s1 U1) in I3.
  destruct (close_wrappers_fold _ (w_stack s3) s3) as [D _]. cbv zeta in D.
  change (lout (set_using_low (low_close_wrappers s3) false)) with (lout (low_close_wrappers s3)).
  unfold low_close_wrappers. rewrite D, I3, A.
  unfold stack_idc. change (w_stack s0) with (w_stack st). change (lout s0) with (lout st).
  rewrite <- !app_assoc. reflexivity.
Qed.

(* the wrapper that is replayed: `segment_since` cuts out of the normal output exactly the tokens written since the mark
   (the at-keyword and the prelude of the enclosing at-rule; CssTokProofs.Ext_grow gives the premise for every walker) *)
Lemma segment_since_grow : forall s0 s T,
  o_tokens s = o_tokens s0 ++ T -> snd (segment_since s (o_mark s0)) = T.
Proof.
  intros s0 s T H. unfold segment_since, o_mark, o_tokens in *. cbn [snd].
  assert (E : o_toks s = rev T ++ o_toks s0).
  { rewrite <- (rev_involutive (o_toks s)), H, rev_app_distr, rev_involutive. reflexivity. }
  rewrite E, app_length, Nat.add_sub.
  replace (length (rev T)) with (length (rev T) + 0)%nat by lia.
  rewrite firstn_app_2. cbn [firstn]. rewrite app_nil_r, rev_involutive. reflexivity.
Qed.

(* ... so a `:host` rule directly inside an at-rule whose head wrote the tokens T replays the identifiers of T *)
Corollary host_emit_low_idc_one_wrapper : forall o st0 st txt p body T,
  shaped body = true -> w_using_low st = false ->
  o_tokens (w_normal st) = o_tokens (w_normal st0) ++ T ->
  w_stack st = [(txt, snd (segment_since (w_normal st) (o_mark (w_normal st0))))] ->
  lout (host_emit o st p body) =
  lout st ++ idc T ++
  eidc (host_selector o ++ [mke GFree TCurly] ++ val_spec o false body None false ++ [mke GFree TCloseCurly]).
Proof.
  intros o st0 st txt p body T Hsb Hu Hg Hst.
  rewrite (host_emit_low_idc o st p body Hsb Hu). unfold stack_idc. rewrite Hst.
  cbn [map concat snd]. rewrite (segment_since_grow _ _ _ Hg), app_nil_r. reflexivity.
Qed.
