(* Frame facts: outside the conversion of a `:host` rule every walker of the model writes to the normal output only - the
   low-priority output, the wrapper stack and the output mode are what they were. *)
From GE Require Import Model.Str Model.CssNum Model.CssTok Model.CssOut Model.CssUrlEnc Model.Css.
From GE Require Import Proofs.CssOutProofs Proofs.CssWalkProofs.
From Coq Require Import Lia.
Open Scope N_scope.

Section Frame.
Variable st0 : wstate.

Definition Fr (st : wstate) : Prop :=
  w_using_low st = false /\ w_low st = w_low st0 /\ w_stack st = w_stack st0.

Lemma Fr_emit : forall st op_, Fr st -> Fr (emit st op_).
Proof. intros st op_ [A [B C]]. unfold Fr, emit. rewrite A. cbn. auto. Qed.
Lemma Fr_tok_at : forall st t p s, Fr st -> Fr (tok_at st t p s).
Proof. intros. apply Fr_emit; assumption. Qed.
Lemma Fr_tok_sp : forall st t p s, Fr st -> Fr (tok_sp st t p s).
Proof. intros. apply Fr_emit; assumption. Qed.
Lemma Fr_warn : forall st k p, Fr st -> Fr (warn st k p).
Proof. intros st k p H. exact H. Qed.
Lemma Fr_set_oof : forall st, Fr st -> Fr (set_oof st).
Proof. intros st H. exact H. Qed.
Hint Resolve Fr_emit Fr_tok_at Fr_tok_sp Fr_warn Fr_set_oof : fr.

Lemma Fr_class : forall o st s p ic, Fr st -> Fr (write_maybe_class_name o st s p ic).
Proof.
  intros o st s p ic H. unfold write_maybe_class_name.
  destruct ic; destruct (class_prefix_sign o); destruct (class_prefix o); auto with fr.
Qed.
Lemma Fr_dim : forall o st n u p, Fr st -> Fr (write_maybe_rpx_dimension o st n u p).
Proof. intros. unfold write_maybe_rpx_dimension. destruct (str_eqb u s_rpx); auto with fr. Qed.
Hint Resolve Fr_class Fr_dim : fr.

Lemma Fr_rpx_body : forall o l in_calc prev st, Fr st -> Fr (rpx_body o in_calc l prev st).
Proof.
  intros o l.
  remember (nodes_size l) as n eqn:Hn. revert l Hn.
  induction n as [n IHn] using (well_founded_induction Wf_nat.lt_wf).
  intros l Hn. destruct l as [|x r]; intros in_calc prev st H; [exact H|].
  cbn [rpx_body].
  assert (Hr : forall ic pv s, Fr s -> Fr (rpx_body o ic r pv s)).
  { intros. eapply (IHn (nodes_size r)); [|reflexivity|assumption]. subst n. apply size_tail. }
  destruct (is_comment (node_tok x)); [apply Hr; exact H|].
  destruct (is_ws (node_tok x) && negb in_calc); [apply Hr; exact H|].
  apply Hr.
  destruct x as [t p | open p body endp closed].
  - destruct t; auto with fr.
    destruct (is_plus_minus (first_noncomment r) || is_plus_minus prev); auto with fr.
  - apply Fr_tok_at.
    eapply (IHn (nodes_size body)); [|reflexivity|auto with fr].
    subst n. apply size_body.
Qed.

Lemma Fr_cn_body : forall o l lead ic hw st, Fr st -> Fr (cn_body o l lead ic hw st).
Proof.
  intros o l.
  remember (nodes_size l) as n eqn:Hn. revert l Hn.
  induction n as [n IHn] using (well_founded_induction Wf_nat.lt_wf).
  intros l Hn. destruct l as [|x r]; intros lead ic hw st H; [exact H|].
  cbn [cn_body].
  assert (Hr : forall a b c s, Fr s -> Fr (cn_body o r a b c s)).
  { intros. eapply (IHn (nodes_size r)); [|reflexivity|assumption]. subst n. apply size_tail. }
  destruct (is_comment (node_tok x)); [apply Hr; exact H|].
  destruct (is_ws (node_tok x) && lead); [apply Hr; exact H|].
  apply Hr.
  set (st1 := if is_curly (node_tok x) || is_ws (node_tok x) then st
              else if hw then tok_sp st (TWs sp) (node_pos x) None else st).
  assert (H0 : Fr st1).
  { unfold st1. destruct (is_curly (node_tok x) || is_ws (node_tok x)); [exact H|]. destruct hw; auto with fr. }
  destruct x as [t p | open p body endp closed].
  - destruct t; cbn [fst snd]; auto with fr.
  - cbn [fst snd]. apply Fr_tok_at.
    destruct (is_math_fn open); [apply Fr_rpx_body; auto with fr|].
    eapply (IHn (nodes_size body)); [|reflexivity|auto with fr].
    subst n. apply size_body.
Qed.

Lemma Fr_qr_loop : forall o l ic hw st, Fr st -> Fr (snd (qr_loop o l ic hw st)).
Proof.
  intros o l. induction l as [|x r IH]; intros ic hw st H; [exact H|].
  cbn [qr_loop].
  destruct (is_comment (node_tok x)); [apply IH; exact H|].
  set (st1 := if is_curly (node_tok x) || is_ws (node_tok x) then st
              else if hw then tok_sp st (TWs sp) (node_pos x) None else st).
  assert (H0 : Fr st1).
  { unfold st1. destruct (is_curly (node_tok x) || is_ws (node_tok x)); [exact H|]. destruct hw; auto with fr. }
  destruct x as [t p | open p body endp closed].
  - destruct t; try (apply IH; auto with fr).
    destruct (c =? 46); apply IH; auto with fr.
  - destruct open; try (apply IH; apply Fr_tok_at; apply Fr_cn_body; auto with fr).
    cbn [snd]. apply Fr_tok_at. apply Fr_rpx_body. auto with fr.
Qed.

Lemma Fr_import_conds : forall o l closes st, Fr st ->
  match import_conds o l closes st with
  | ImpErr s => Fr s
  | ImpGo _ _ _ s => Fr s
  end.
Proof.
  intros o l. induction l as [|x r IH]; intros closes st H; [exact H|].
  cbn [import_conds].
  destruct (is_ws_or_comment (node_tok x)); [apply IH; assumption|].
  destruct x as [t p|open p body e c].
  - destruct t; try exact H.
    destruct (match closes with [] => str_eqb_ci s s_layer | _ :: _ => false end); [|exact H].
    apply IH. auto with fr.
  - destruct open; try exact H.
    destruct (str_eqb_ci s s_layer).
    { apply IH. apply Fr_tok_at. apply Fr_rpx_body. auto with fr. }
    destruct (str_eqb_ci s s_supports).
    { apply IH. apply Fr_tok_at. apply Fr_tok_at. apply Fr_cn_body. auto with fr. }
    exact H.
Qed.

Lemma Fr_import_media : forall o l wpos st, Fr st -> Fr (snd (import_media o l wpos st)).
Proof.
  intros o l. induction l as [|x r IH]; intros wpos st H; [exact H|].
  cbn [import_media].
  destruct (is_ws_or_comment (node_tok x)); [apply IH; assumption|].
  destruct x as [t p|open p body e c].
  - destruct t; try (apply IH; auto with fr). exact H.
  - destruct open; try (apply IH; apply Fr_tok_at; apply Fr_cn_body; auto with fr).
    cbn [snd]. exact H.
Qed.

Lemma Fr_close_all : forall closes st, Fr st -> Fr (close_all closes st).
Proof.
  unfold close_all. induction closes as [|c cl IH]; intros st H; [exact H|].
  cbn [fold_left]. apply IH. auto with fr.
Qed.

Lemma Fr_import_try : forall o sign spos r endp st, Fr st -> Fr (snd (import_try o sign spos r endp st)).
Proof.
  intros o sign spos r endp st H. unfold import_try.
  destruct (import_target r) as [[path r1]|]; [|exact H].
  pose proof (Fr_import_conds o r1 [] st H) as Hc.
  destruct (import_conds o r1 [] st) as [s1 | cursor hm closes s1]; [exact Hc|].
  destruct hm.
  - pose proof (Fr_import_media o cursor (cur_pos cursor endp) (tok_at s1 (TAt s_media) spos None)
                  (Fr_tok_at _ _ _ _ Hc)) as Hm.
    destruct (import_media o cursor (cur_pos cursor endp) (tok_at s1 (TAt s_media) spos None)) as [[rest|] s3];
      cbn [fst snd] in *; [|exact Hm].
    apply Fr_close_all. auto with fr.
  - cbn [snd]. apply Fr_close_all. auto with fr.
Qed.
End Frame.

Lemma Fr_refl : forall st, w_using_low st = false -> Fr st st.
Proof. intros st H. unfold Fr. auto. Qed.
