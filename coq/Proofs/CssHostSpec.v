(* C17: the `:host` classification of the code (two scans of parse_qualified_rule: the rule starts
   with `:host`; `:host` occurs later among the top-level tokens of the prelude) coincides with the
   classification of the specification (CssSpec.host_kind_of) for EVERY prelude, and each class
   is handled as the property says: pure -> host_emit, combined -> dropped with one warning,
   none -> the ordinary selector walker. *)
From GE Require Import Model.Str Model.CssNum Model.CssTok Model.CssOut Model.CssUrlEnc Model.Css Model.CssSpec.
From Coq Require Import Lia Bool.
Open Scope N_scope.

Definition is_curly_block (n : node) : bool :=
  match n with Block TCurly _ _ _ _ => true | _ => false end.
Definition no_curly (l : list node) : bool := forallb (fun n => negb (is_curly_block n)) l.

Lemma no_curly_cons : forall x r, no_curly (x :: r) = true -> is_curly_block x = false /\ no_curly r = true.
Proof.
  intros x r H. unfold no_curly in H. cbn [forallb] in H. apply andb_true_iff in H. destruct H as [A B].
  split; [destruct (is_curly_block x); [discriminate | reflexivity] | exact B].
Qed.

Section Rule.
Variables (pb be : pos) (body : list node) (cl : bool) (rest : list node).
Let B := Block TCurly pb body be cl.

(* ---------------------------------------------------------------- cursor helpers on prelude ++ block *)

Lemma skip_ws_app : forall pre, skip_ws (pre ++ B :: rest) = skip_ws pre ++ B :: rest.
Proof.
  induction pre as [|x r IH]; [reflexivity|]. cbn [app skip_ws].
  destruct (is_ws_or_comment (node_tok x)); [exact IH | reflexivity].
Qed.

Lemma skip_comments_app : forall pre, skip_comments (pre ++ B :: rest) = skip_comments pre ++ B :: rest.
Proof.
  induction pre as [|x r IH]; [reflexivity|]. cbn [app skip_comments].
  destruct (is_comment (node_tok x)); [exact IH | reflexivity].
Qed.

Lemma no_curly_skip_ws : forall pre, no_curly pre = true -> no_curly (skip_ws pre) = true.
Proof.
  induction pre as [|x r IH]; intro H; [reflexivity|]. cbn [skip_ws].
  destruct (no_curly_cons _ _ H) as [_ Hr]. destruct (is_ws_or_comment (node_tok x)); [apply IH; exact Hr | exact H].
Qed.

Lemma no_curly_skip_comments : forall pre, no_curly pre = true -> no_curly (skip_comments pre) = true.
Proof.
  induction pre as [|x r IH]; intro H; [reflexivity|]. cbn [skip_comments].
  destruct (no_curly_cons _ _ H) as [_ Hr]. destruct (is_comment (node_tok x)); [apply IH; exact Hr | exact H].
Qed.

Lemma has_host_skip_ws : forall pre, has_host (skip_ws pre) O = has_host pre O.
Proof.
  induction pre as [|x r IH]; [reflexivity|]. cbn [skip_ws].
  destruct (is_ws_or_comment (node_tok x)) eqn:E; [|reflexivity].
  rewrite IH. cbn [has_host].
  destruct x as [t p|t p b e c]; cbn [node_tok] in *; destruct t; try discriminate; reflexivity.
Qed.

Lemma has_host_skip_comments : forall pre (ac : nat), has_host (skip_comments pre) ac = has_host pre ac.
Proof.
  induction pre as [|x r IH]; intro ac; [reflexivity|]. cbn [skip_comments].
  destruct (is_comment (node_tok x)) eqn:E; [|reflexivity].
  rewrite IH. cbn [has_host]. rewrite E. reflexivity.
Qed.

(* ---------------------------------------------------------------- the late scan = has_host *)

Lemma late_scan_found : forall pre endp (ac : nat) p0,
  no_curly pre = true ->
  exists wp, host_late_scan (pre ++ B :: rest) endp ac (Some p0) = Some (rest, wp).
Proof.
  induction pre as [|x r IH]; intros endp ac p0 H.
  { exists p0. reflexivity. }
  destruct (no_curly_cons _ _ H) as [Hx Hr]. cbn [app host_late_scan].
  destruct (is_comment (node_tok x)); [apply IH; exact Hr|].
  destruct x as [t p|open p b e c].
  - destruct t; try (apply IH; exact Hr).
    destruct (one_colon ac && str_eqb_ci s s_host); cbn [keep_first]; apply IH; exact Hr.
  - destruct open; try (apply IH; exact Hr); try discriminate.
    destruct (one_colon ac && str_eqb_ci s s_host); cbn [keep_first]; apply IH; exact Hr.
Qed.

Lemma late_scan_spec : forall pre endp (ac : nat),
  no_curly pre = true ->
  if has_host pre ac
  then exists wp, host_late_scan (pre ++ B :: rest) endp ac None = Some (rest, wp)
  else host_late_scan (pre ++ B :: rest) endp ac None = None.
Proof.
  induction pre as [|x r IH]; intros endp ac H; [reflexivity|].
  destruct (no_curly_cons _ _ H) as [Hx Hr]. cbn [app host_late_scan has_host].
  destruct (is_comment (node_tok x)); [apply IH; exact Hr|].
  destruct x as [t p|open p b e c].
  - destruct t; try (apply IH; exact Hr).
    destruct (one_colon ac && str_eqb_ci s s_host); cbn [orb keep_first]; [apply late_scan_found; exact Hr | apply IH; exact Hr].
  - destruct open; try (apply IH; exact Hr); try discriminate.
    destruct (one_colon ac && str_eqb_ci s s_host); cbn [orb keep_first]; [apply late_scan_found; exact Hr | apply IH; exact Hr].
Qed.

(* ---------------------------------------------------------------- the scan after a leading `:host` *)

Lemma host_scan_spec : forall l endp inv,
  no_curly l = true ->
  exists inv', host_scan (l ++ B :: rest) endp inv = Some (B, rest, inv') /\
               (inv' = None <-> (inv = None /\ all_ws l = true)).
Proof.
  induction l as [|x r IH]; intros endp inv H.
  { exists inv. split; [reflexivity|]. split; [intro E; split; [exact E | reflexivity] | intros [E _]; exact E]. }
  destruct (no_curly_cons _ _ H) as [Hx Hr]. cbn [app host_scan all_ws forallb].
  destruct (is_ws_or_comment (node_tok x)) eqn:Ew.
  { destruct (IH endp inv Hr) as [inv' [E I]]. exists inv'. split; [exact E|]. cbn [andb]. exact I. }
  assert (Hgo : exists inv', host_scan (r ++ B :: rest) endp (keep_first inv (pos_after x (r ++ B :: rest) endp))
                             = Some (B, rest, inv') /\ inv' <> None).
  { destruct (IH endp (keep_first inv (pos_after x (r ++ B :: rest) endp)) Hr) as [inv' [E I]].
    exists inv'. split; [exact E|]. intro N. apply I in N. destruct N as [N _].
    destruct inv; discriminate. }
  destruct Hgo as [inv' [E N]].
  exists inv'. split.
  - destruct x as [t p|open p b e c]; [exact E|]. destruct open; try exact E. discriminate.
  - cbn [andb]. split; [intro A; contradiction | intros [_ A]; discriminate].
Qed.

(* ---------------------------------------------------------------- classification *)

(* every way the first scan can fail leaves the decision to the late scan, and such a prelude is
   not pure *)
Lemma main_spec : forall o pre0 endp st,
  convert_host o = true -> no_curly pre0 = true -> host_pure pre0 = false ->
  match host_kind_of pre0 with
  | HostPure => False
  | HostCombined => exists wp, qr_main o (skip_ws pre0 ++ B :: rest) endp st = (rest, warn st W_HOST wp)
  | HostNone => qr_main o (skip_ws pre0 ++ B :: rest) endp st = qr_loop o (skip_ws pre0 ++ B :: rest) false false st
  end.
Proof.
  intros o pre0 endp st Hc Hn Hp. unfold host_kind_of. rewrite Hp.
  pose proof (late_scan_spec (skip_ws pre0) endp O (no_curly_skip_ws _ Hn)) as L.
  rewrite has_host_skip_ws in L. unfold qr_main. rewrite Hc.
  destruct (has_host pre0 O).
  - destruct L as [wp L]. exists wp. rewrite L. reflexivity.
  - rewrite L. reflexivity.
Qed.

Lemma try_spec : forall o pre endp st,
  no_curly pre = true ->
  (host_pure pre = true /\
   host_try_parse o (skip_ws pre ++ B :: rest) endp st = HostDone rest (host_emit o st pb body)) \/
  (host_pure pre = false /\ host_try_parse o (skip_ws pre ++ B :: rest) endp st = HostErr) \/
  (host_pure pre = false /\ has_host pre O = true /\
   exists wp, host_try_parse o (skip_ws pre ++ B :: rest) endp st = HostDone rest (warn st W_HOST wp)).
Proof.
  intros o pre endp st Hn.
  pose proof (no_curly_skip_ws _ Hn) as Hn1.
  assert (Hh0 : has_host pre O = has_host (skip_ws pre) O) by (symmetry; apply has_host_skip_ws).
  unfold host_pure. rewrite Hh0. clear Hh0.
  destruct (skip_ws pre) as [|x r]; [right; left; split; reflexivity|].
  destruct x as [t p|open p b e c]; [|right; left; split; reflexivity].
  destruct t; try (right; left; split; reflexivity).
  (* the prelude starts with a colon *)
  cbn [app]. unfold host_try_parse. rewrite skip_comments_app.
  pose proof (no_curly_cons _ _ Hn1) as [_ Hr].
  pose proof (no_curly_skip_comments _ Hr) as Hr1.
  assert (Hh : has_host (Leaf TColon p :: r) O = has_host (skip_comments r) 1%nat).
  { cbn [has_host is_comment node_tok colons_next]. symmetry. apply has_host_skip_comments. }
  rewrite Hh. clear Hh.
  destruct (skip_comments r) as [|y r2]; [right; left; split; reflexivity|].
  cbn [app].
  destruct (no_curly_cons _ _ Hr1) as [Hy Hr2].
  destruct y as [t2 p2|open2 p2 b2 e2 c2].
  - destruct t2; try (right; left; split; reflexivity).
    destruct (str_eqb_ci s s_host) eqn:Eh; [|right; left; split; reflexivity].
    destruct (host_scan_spec r2 endp None Hr2) as [inv' [E I]]. rewrite E.
    cbn [andb]. destruct (all_ws r2) eqn:Ea.
    + assert (inv' = None) by (apply I; split; reflexivity). subst inv'. left. split; reflexivity.
    + destruct inv' as [wp|]; [|destruct (proj1 I eq_refl) as [_ A]; discriminate].
      right; right. split; [reflexivity|]. split; [|exists wp; reflexivity].
      cbn [has_host is_comment node_tok one_colon andb orb]. rewrite Eh. reflexivity.
  - destruct open2; try (right; left; split; reflexivity); try discriminate.
    destruct (str_eqb_ci s s_host) eqn:Eh; [|right; left; split; reflexivity].
    destruct (host_scan_spec r2 endp (Some (cur_pos b2 e2)) Hr2) as [inv' [E I]]. rewrite E.
    destruct inv' as [wp|]; [|destruct (proj1 I eq_refl) as [A _]; discriminate].
    right; right. split; [reflexivity|]. split; [|exists wp; reflexivity].
    cbn [has_host is_comment node_tok one_colon andb orb]. rewrite Eh. reflexivity.
Qed.

Theorem qrule_matches_spec : forall o pre endp st,
  convert_host o = true -> no_curly pre = true ->
  match host_kind_of pre with
  | HostPure => qrule o (pre ++ B :: rest) endp st = (rest, host_emit o st pb body)
  | HostCombined => exists wp, qrule o (pre ++ B :: rest) endp st = (rest, warn st W_HOST wp)
  | HostNone => qrule o (pre ++ B :: rest) endp st = qr_loop o (skip_ws pre ++ B :: rest) false false st
  end.
Proof.
  intros o pre endp st Hc Hn. unfold qrule. rewrite Hc, skip_ws_app.
  destruct (try_spec o pre endp st Hn) as [[Hp E] | [[Hp E] | [Hp [Hh [wp E]]]]]; rewrite E.
  - unfold host_kind_of. rewrite Hp. reflexivity.
  - pose proof (main_spec o pre endp st Hc Hn Hp) as M.
    destruct (host_kind_of pre); [exact M | contradiction | exact M].
  - unfold host_kind_of. rewrite Hp, Hh. exists wp. reflexivity.
Qed.

End Rule.

(* non-vacuity: one prelude of each class *)
Example host_classes_inhabited :
  let p := mkpos 0 0 in
  host_kind_of [Leaf TColon p; Leaf (TIdent [72;79;83;84]) p; Leaf (TWs [32]) p] = HostPure /\
  host_kind_of [Leaf (TDelim 46) p; Leaf (TIdent [97]) p; Leaf TComma p; Leaf (TWs [32]) p;
                Leaf TColon p; Leaf (TIdent s_host) p] = HostCombined /\
  host_kind_of [Leaf (TIdent [97]) p; Leaf TColon p; Block (TFunc s_host) p [] p true] = HostCombined /\
  host_kind_of [Leaf TColon p; Leaf (TWs [32]) p; Leaf (TIdent s_host) p] = HostNone /\
  host_kind_of [Leaf TColon p; Leaf TColon p; Leaf (TIdent s_host) p] = HostNone /\
  host_kind_of [Leaf (TDelim 46) p; Leaf (TIdent s_host) p] = HostNone.
Proof. vm_compute. repeat split; reflexivity. Qed.
