From GE Require Import Model.Str Model.Path Proofs.StrProofs.

(* ---------- the specification: the obvious stack machine (top of stack first) ---------- *)
Definition stk_step (stk : list str) (seg : str) : list str :=
  if str_eqb seg s_dot then stk
  else if str_eqb seg s_dotdot then tl stk
  else seg :: stk.
Definition walk (stk : list str) (segs : list str) : list str := fold_left stk_step segs stk.

Lemma walk_cons stk s segs : walk stk (s :: segs) = walk (stk_step stk s) segs.
Proof. reflexivity. Qed.
Lemma walk_nil stk : walk stk [] = stk.
Proof. reflexivity. Qed.

Definition is_abs (rel : str) : bool := match rel with 47 :: _ => true | _ => false end.
Definition main_part (rel : str) : str := match rel with 47 :: r => r | _ => rel end.
(* directory stack of the referring file: walk its segments, drop the file name *)
Definition dir_stack (base : str) : list str := tl (walk [] (split c_slash base)).
Definition resolve_spec_fn (base rel : str) : str :=
  join [c_slash]
    (rev (walk (if is_abs rel then [] else dir_stack base) (split c_slash (main_part rel)))).

Lemma removelast_rev {A} (l : list A) : removelast l = rev (tl (rev l)).
Proof.
  destruct l as [|x l] using rev_ind; [reflexivity|].
  rewrite removelast_last, rev_app_distr. cbn. now rewrite rev_involutive.
Qed.

Lemma vec_step_rev v seg : vec_step v seg = rev (stk_step (rev v) seg).
Proof.
  unfold vec_step, stk_step.
  destruct (str_eqb seg s_dot); [now rewrite rev_involutive|].
  destruct (str_eqb seg s_dotdot); [apply removelast_rev|].
  cbn. now rewrite rev_involutive.
Qed.

Lemma vec_walk_rev v segs : vec_walk v segs = rev (walk (rev v) segs).
Proof.
  revert v; induction segs as [|s segs IH]; intros v.
  - cbn. now rewrite rev_involutive.
  - rewrite walk_cons. unfold vec_walk in *. cbn [fold_left]. rewrite IH, vec_step_rev, rev_involutive. reflexivity.
Qed.

Lemma resolve_spec base rel : resolve base rel = resolve_spec_fn base rel.
Proof.
  unfold resolve, resolve_spec_fn, dir_stack.
  destruct rel as [|c rest]; cbn [is_abs main_part].
  - rewrite !vec_walk_rev, removelast_rev, !rev_involutive. reflexivity.
  - destruct (N.eqb_spec c 47) as [->|Hne].
    + cbn. now rewrite vec_walk_rev.
    + assert (E: forall A (x y : A), match c with 47 => x | _ => y end = y).
      { intros. destruct c as [|p]; [reflexivity|].
        do 6 (destruct p as [p|p|]; try reflexivity). congruence. }
      rewrite !E. rewrite !vec_walk_rev, removelast_rev, !rev_involutive. reflexivity.
Qed.

(* ---------- no "." / ".." segment survives ---------- *)
Definition nodot (s : str) : Prop := s <> s_dot /\ s <> s_dotdot.

Lemma stk_step_nodot stk seg : Forall nodot stk -> Forall nodot (stk_step stk seg).
Proof.
  intros H. unfold stk_step.
  destruct (str_eqb_spec seg s_dot); [assumption|].
  destruct (str_eqb_spec seg s_dotdot).
  - destruct stk; [constructor | now inversion H].
  - constructor; [split; assumption | assumption].
Qed.

Lemma walk_nodot stk segs : Forall nodot stk -> Forall nodot (walk stk segs).
Proof.
  revert stk; induction segs as [|s segs IH]; intros stk H; [assumption|].
  rewrite walk_cons. apply IH, stk_step_nodot, H.
Qed.

Lemma stk_step_nosep stk seg :
  ~ In c_slash seg -> Forall (fun p => ~ In c_slash p) stk -> Forall (fun p => ~ In c_slash p) (stk_step stk seg).
Proof.
  intros Hs H. unfold stk_step.
  destruct (str_eqb seg s_dot); [assumption|].
  destruct (str_eqb seg s_dotdot).
  - destruct stk; [constructor | now inversion H].
  - now constructor.
Qed.

Lemma walk_nosep stk segs :
  Forall (fun p => ~ In c_slash p) segs -> Forall (fun p => ~ In c_slash p) stk ->
  Forall (fun p => ~ In c_slash p) (walk stk segs).
Proof.
  revert stk; induction segs as [|s segs IH]; intros stk Hs H; [assumption|].
  rewrite walk_cons. inversion Hs; subst. apply IH; [assumption|]. now apply stk_step_nosep.
Qed.

Lemma walk_id_nodot stk segs : Forall nodot segs -> walk stk segs = rev segs ++ stk.
Proof.
  revert stk; induction segs as [|s segs IH]; intros stk H; [reflexivity|].
  inversion H as [|? ? [H1 H2] Hr]; subst.
  rewrite walk_cons, IH by assumption. cbn [rev]. unfold stk_step.
  destruct (str_eqb_spec s s_dot); [contradiction|].
  destruct (str_eqb_spec s s_dotdot); [contradiction|].
  now rewrite <- app_assoc.
Qed.

(* the segments of a path value: what `split('/')` sees *)
Definition segments (p : str) : list str := split c_slash p.

Lemma segments_join l :
  Forall (fun p => ~ In c_slash p) l -> Forall nodot l -> Forall nodot (segments (join [c_slash] l)).
Proof.
  intros Hs Hd. destruct l as [|a l].
  - cbn. constructor; [split; discriminate | constructor].
  - unfold segments. rewrite split_join; [assumption | congruence | assumption].
Qed.

Lemma Forall_rev {A} (P : A -> Prop) l : Forall P l -> Forall P (rev l).
Proof. rewrite !Forall_forall. intros H x Hx. apply H. now apply in_rev. Qed.

Lemma Forall_tl {A} (P : A -> Prop) l : Forall P l -> Forall P (tl l).
Proof. destruct l; [trivial | now inversion 1]. Qed.

Lemma resolve_stack_props base rel :
  let stk := walk (if is_abs rel then [] else dir_stack base) (split c_slash (main_part rel)) in
  Forall nodot stk /\ Forall (fun p => ~ In c_slash p) stk.
Proof.
  cbn zeta. split.
  - apply walk_nodot. destruct (is_abs rel); [constructor|].
    apply Forall_tl, walk_nodot. constructor.
  - apply walk_nosep; [apply split_pieces_nosep|].
    destruct (is_abs rel); [constructor|].
    apply Forall_tl, walk_nosep; [apply split_pieces_nosep | constructor].
Qed.

Theorem resolve_normal base rel : Forall nodot (segments (resolve base rel)).
Proof.
  rewrite resolve_spec. unfold resolve_spec_fn.
  destruct (resolve_stack_props base rel) as [H1 H2].
  apply segments_join; now apply Forall_rev.
Qed.

Theorem resolve_abs b1 b2 rest : resolve b1 (47 :: rest) = resolve b2 (47 :: rest).
Proof. reflexivity. Qed.

Lemma normalize_spec p : normalize p = join [c_slash] (rev (walk [] (split c_slash p))).
Proof. unfold normalize. now rewrite vec_walk_rev. Qed.

Lemma normalize_of_join l :
  Forall (fun p => ~ In c_slash p) l -> Forall nodot l -> normalize (join [c_slash] l) = join [c_slash] l.
Proof.
  intros Hs Hd. rewrite normalize_spec. destruct l as [|a l]; [reflexivity|].
  rewrite split_join by (congruence || assumption).
  rewrite walk_id_nodot by assumption. now rewrite app_nil_r, rev_involutive.
Qed.

Theorem normalize_idem p : normalize (normalize p) = normalize p.
Proof.
  rewrite (normalize_spec p). apply normalize_of_join.
  - apply Forall_rev, walk_nosep; [apply split_pieces_nosep | constructor].
  - apply Forall_rev, walk_nodot. constructor.
Qed.

Theorem resolve_is_normal base rel : normalize (resolve base rel) = resolve base rel.
Proof.
  rewrite resolve_spec. unfold resolve_spec_fn.
  destruct (resolve_stack_props base rel) as [H1 H2].
  apply normalize_of_join; now apply Forall_rev.
Qed.

(* the result depends on the directory of the referring file only *)
Lemma walk_app stk a b : walk stk (a ++ b) = walk (walk stk a) b.
Proof. apply fold_left_app. Qed.

Lemma dir_stack_file dir f :
  ~ In c_slash f -> nodot f ->
  dir_stack (dir ++ c_slash :: f) = walk [] (split c_slash dir).
Proof.
  intros Hs [H1 H2]. unfold dir_stack.
  rewrite split_app, walk_app, (split_nosep _ f Hs). rewrite walk_cons, walk_nil. unfold stk_step.
  destruct (str_eqb_spec f s_dot); [contradiction|].
  destruct (str_eqb_spec f s_dotdot); [contradiction|]. reflexivity.
Qed.

Theorem resolve_dir_only dir f1 f2 rel :
  ~ In c_slash f1 -> nodot f1 -> ~ In c_slash f2 -> nodot f2 ->
  resolve (dir ++ c_slash :: f1) rel = resolve (dir ++ c_slash :: f2) rel.
Proof.
  intros. rewrite !resolve_spec. unfold resolve_spec_fn.
  rewrite !dir_stack_file by assumption. reflexivity.
Qed.

Lemma dir_stack_single f : ~ In c_slash f -> nodot f -> dir_stack f = [].
Proof.
  intros Hs [H1 H2]. unfold dir_stack. rewrite (split_nosep _ f Hs).
  rewrite walk_cons, walk_nil. unfold stk_step.
  destruct (str_eqb_spec f s_dot); [contradiction|].
  destruct (str_eqb_spec f s_dotdot); [contradiction|]. reflexivity.
Qed.

Theorem resolve_toplevel_file f1 f2 rel :
  ~ In c_slash f1 -> nodot f1 -> ~ In c_slash f2 -> nodot f2 ->
  resolve f1 rel = resolve f2 rel.
Proof.
  intros. rewrite !resolve_spec. unfold resolve_spec_fn.
  rewrite !dir_stack_single by assumption. reflexivity.
Qed.

(* registered (normal) base: resolution is plain directory + relative walk *)
Theorem resolve_normal_base base rel :
  Forall nodot (segments base) ->
  resolve base rel =
    join [c_slash] (rev (walk (if is_abs rel then [] else tl (rev (segments base)))
                              (split c_slash (main_part rel)))).
Proof.
  intros H. rewrite resolve_spec. unfold resolve_spec_fn, dir_stack.
  unfold segments in H. rewrite (walk_id_nodot [] _ H), app_nil_r. reflexivity.
Qed.

(* non-vacuity / sanity: concrete instances *)
Example resolve_ex1 :
  resolve [97;47;98] [46;46;47;99] = [99]            (* "a/b" , "../c" -> "c" *)
  /\ resolve [97;47;98] [47;120;47;46;47;121] = [120;47;121]   (* "/x/./y" -> "x/y" *)
  /\ resolve [97] [46;46;47;46;46;47;122] = [122].   (* popping above the root is a no-op *)
Proof. repeat split; reflexivity. Qed.
