From GE Require Import Model.Str Model.Hex Model.NumLit Model.Lit.
From Coq Require Import Lia ZifyBool ZifyN ZifyNat.
Local Open Scope nat_scope.

Definition not_panic (r : numres) : Prop := forall k, r <> NPanic k.

Lemma acc_finish_not_panic a : not_panic (acc_finish a).
Proof. intros k. unfold acc_finish. destruct (a_int a); discriminate. Qed.

Lemma oct_no_panic : forall fuel s a n,
  s <> [] -> length s < fuel -> not_panic (fst (oct_loop fuel s a n)).
Proof.
  induction fuel as [|f IH]; intros s a n Hs Hf; [lia|].
  destruct s as [|c r]; [congruence|]. cbn [oct_loop].
  destruct r as [|p r']; [apply acc_finish_not_panic|].
  destruct (negb (is_ident_char p)); [apply acc_finish_not_panic|].
  destruct (negb (is_oct_digit p)); [intros k; discriminate|].
  apply IH; [discriminate | cbn [length] in *; lia].
Qed.

Lemma is_hex_digit_val c : is_hex_digit c = true -> exists d, hex_val c = Some d.
Proof.
  unfold is_hex_digit, hex_val. intros H.
  destruct (is_digit c); [eauto|]. cbn [orb] in H.
  destruct ((97 <=? c)%N && (c <=? 102)%N)%bool; [eauto|]. cbn [orb] in H. rewrite H. eauto.
Qed.

Lemma hex_no_panic : forall fuel s a n,
  (exists c r, s = c :: r /\ is_hex_digit c = true) -> length s < fuel ->
  not_panic (fst (hex_loop is_hex_digit fuel s a n)).
Proof.
  induction fuel as [|f IH]; intros s a n [c [r [-> Hc]]] Hf; [lia|].
  cbn [hex_loop]. destruct (is_hex_digit_val c Hc) as [d ->].
  destruct r as [|p r']; [apply acc_finish_not_panic|].
  destruct (negb (is_ident_char p)); [apply acc_finish_not_panic|].
  destruct (is_hex_digit p) eqn:Hp; cbn [negb]; [|intros k; discriminate].
  apply IH; [eauto | cbn [length] in *; lia].
Qed.

Lemma dec_no_panic : forall fuel s int ov n,
  s <> [] -> length s < fuel -> not_panic (fst (fst (dec_loop fuel s int ov n))).
Proof.
  induction fuel as [|f IH]; intros s int ov n Hs Hf; [lia|].
  destruct s as [|c r]; [congruence|]. cbn [dec_loop].
  destruct (c =? 101)%N.
  - destruct r as [|x r'].
    + cbn. intros k; discriminate.
    + destruct (N.eqb_spec x 45) as [->|Hx].
      * destruct r' as [|p r'']; [cbn; intros k; discriminate|].
        destruct (negb (is_digit p)); [cbn; intros k; discriminate|].
        destruct (exp_loop _ _ _); cbn; intros k; discriminate.
      * assert (E : forall A (a b : A), match x with 45%N => a | _ => b end = b).
        { intros. destruct x as [|q]; [reflexivity|]. do 6 (destruct q as [q|q|]; try reflexivity). congruence. }
        rewrite E. destruct (negb (is_digit x)); [cbn; intros k; discriminate|].
        destruct (exp_loop _ _ _); cbn; intros k; discriminate.
  - set (p1 := if (c =? 46)%N then (None, ov) else _). destruct p1 as [int' ov'].
    destruct r as [|p r'].
    + cbn. destruct int' as [z|]; [destruct ov'|]; intros k; discriminate.
    + destruct (negb (is_ident_char p) && negb (p =? 46)%N)%bool.
      * cbn. destruct int' as [z|]; [destruct ov'|]; intros k; discriminate.
      * destruct (_ || _ || _)%bool; [|cbn; intros k; discriminate].
        apply IH; [discriminate | cbn [length] in *; lia].
Qed.

Lemma finish_dec_not_panic s res : not_panic (fst (fst res)) -> not_panic (fst (finish_dec s res)).
Proof.
  destruct res as [[r n] b]. cbn. intros H. destruct r; cbn; try (intros k; discriminate); try exact H.
  destruct (has_mantissa_digit _); cbn; intros k; discriminate.
Qed.

(* C01: no unwrap() / unreachable!() of the number scanner is reachable, for any input *)
Theorem parse_number_total s : not_panic (fst (parse_number_fixed s)).
Proof.
  unfold parse_number_fixed, parse_number. destruct s as [|c r]; [intros k; discriminate|].
  destruct (negb (is_digit c) && negb (c =? 46)%N)%bool; [intros k; discriminate|].
  destruct (c =? 48)%N.
  - destruct r as [|d r']; [intros k; discriminate|].
    destruct (is_oct_digit d); [apply oct_no_panic; [discriminate | lia]|].
    destruct (d =? 120)%N.
    + cbn [tl]. destruct r' as [|p r'']; [intros k; discriminate|].
      destruct (is_hex_digit p) eqn:Hp; cbn [negb]; [|intros k; discriminate].
      apply hex_no_panic; [eauto | cbn [length]; lia].
    + destruct (_ || _ || _ || _)%bool.
      * apply finish_dec_not_panic, dec_no_panic; [discriminate | lia].
      * destruct (is_ident_char d); intros k; discriminate.
  - apply finish_dec_not_panic, dec_no_panic; [discriminate | lia].
Qed.

(* the scanner before the repair reaches unreachable!() on "0xg" *)
Example legacy_hex_panics : fst (parse_number_legacy (lit "0xg")) = NPanic 3.
Proof. reflexivity. Qed.

(* integers: the accumulated value is exact while it fits in i64 *)
Example int_exact_examples :
  fst (parse_number_fixed (lit "9223372036854775807")) = NInt 9223372036854775807
  /\ fst (parse_number_fixed (lit "0x7fffffffffffffff")) = NInt 9223372036854775807
  /\ fst (parse_number_fixed (lit "0777")) = NInt 511
  /\ (exists t, fst (parse_number_fixed (lit "9223372036854775808")) = NFloatDec t).
Proof. repeat split; try reflexivity. eexists. reflexivity. Qed.
