From GE Require Import Model.Str Model.Hex.
From Coq Require Import Lia ZifyBool ZifyN.
Local Ltac Zify.zify_post_hook ::= Z.div_mod_to_equations.

Lemma hex_val_digit d : d < 16 -> hex_val (hex_digit d) = Some d.
Proof.
  intros H. unfold hex_val, hex_digit, is_digit.
  destruct (N.ltb_spec d 10).
  - replace ((48 <=? 48 + d) && (48 + d <=? 57)) with true by lia. f_equal. lia.
  - replace ((48 <=? 87 + d) && (87 + d <=? 57)) with false by lia.
    replace ((97 <=? 87 + d) && (87 + d <=? 102)) with true by lia. f_equal. lia.
Qed.

(* value of a digit string, most significant first *)
Definition hexs_ok (l : str) (v : N) : Prop :=
  forall tail a k, parse_hex_run (l ++ tail) a k =
                   parse_hex_run tail (a * 16 ^ N.of_nat (length l) + v) (k + N.of_nat (length l)).

Lemma hexs_ok_nil : hexs_ok [] 0.
Proof. intros tail a k. cbn [app length]. f_equal; lia. Qed.

Lemma hexs_ok_snoc l v d : hexs_ok l v -> d < 16 -> hexs_ok (l ++ [hex_digit d]) (v * 16 + d).
Proof.
  intros H Hd tail a k. rewrite <- app_assoc. rewrite H. cbn [app parse_hex_run].
  rewrite hex_val_digit by assumption. rewrite app_length. cbn [length].
  f_equal; [|lia].
  replace (N.of_nat (length l + 1)) with (N.succ (N.of_nat (length l))) by lia.
  rewrite N.pow_succ_r'. lia.
Qed.

Lemma hex_aux_spec f : forall n acc, n < 16 ^ N.of_nat f -> (0 < f)%nat ->
  exists l, hex_aux f n acc = l ++ acc /\ hexs_ok l n /\ l <> [].
Proof.
  induction f as [|f IH]; intros n acc Hn Hf; [lia|].
  cbn [hex_aux]. destruct (N.eqb_spec (n / 16) 0) as [E|E].
  - exists [hex_digit (n mod 16)]. split; [reflexivity|]. split; [|discriminate].
    replace n with (0 * 16 + n mod 16) at 2 by lia.
    apply (hexs_ok_snoc [] 0); [apply hexs_ok_nil | lia].
  - assert (Hf' : (0 < f)%nat).
    { destruct f; [|lia]. cbn in Hn. lia. }
    assert (Hn' : n / 16 < 16 ^ N.of_nat f).
    { replace (N.of_nat (S f)) with (N.succ (N.of_nat f)) in Hn by lia.
      rewrite N.pow_succ_r' in Hn. lia. }
    destruct (IH (n / 16) (hex_digit (n mod 16) :: acc) Hn' Hf') as [l [E1 [E2 E3]]].
    exists (l ++ [hex_digit (n mod 16)]). split; [rewrite E1, <- app_assoc; reflexivity|].
    split; [|destruct l; discriminate].
    replace n with ((n / 16) * 16 + n mod 16) at 2 by lia.
    apply hexs_ok_snoc; [assumption | lia].
Qed.

Lemma to_hex_parse c tail :
  c < 1114112 -> (match tail with t :: _ => hex_val t = None | [] => True end) ->
  exists cnt, parse_hex_run (to_hex c ++ tail) 0 0 = (c, cnt, tail) /\ 0 < cnt.
Proof.
  intros Hc Ht. unfold to_hex.
  destruct (hex_aux_spec 8 c []) as [l [E1 [E2 E3]]]; [cbn; lia | lia |].
  rewrite E1, app_nil_r. rewrite E2.
  exists (0 + N.of_nat (length l)). split.
  - replace (0 * 16 ^ N.of_nat (length l) + c) with c by lia.
    destruct tail as [|t tail]; cbn [parse_hex_run]; [reflexivity|].
    rewrite Ht. reflexivity.
  - destruct l as [|x l]; [congruence|]. cbn [length]. lia.
Qed.
