(* Token-level facts for the round trip print -> parse: how `skip`, `tok`, `kw`, `take_ident` and
   the operator tables behave on the texts the stringifier writes. *)
From GE Require Import Model.ExprParse Model.StrExpr Proofs.ExprParseProofs Proofs.ExprParseFuel.
From Coq Require Import Lia ZifyBool ZifyN.
Import ListNotations.
Local Open Scope N_scope.

(* ---- character classes ---- *)
(* first character of a printed operand *)
Definition opstart (c : N) : bool :=
  is_ident_start c || is_digit c || (c =? 34) || (c =? 40) || (c =? 91) || (c =? 123) || (c =? 33) || (c =? 126) || (c =? 32).

Definition head_is (P : N -> bool) (s : str) : Prop := match s with c :: _ => P c = true | [] => False end.
(* what may follow an identifier / a number *)
Definition follow_id (s : str) : Prop := match s with c :: _ => is_ident_char c = false | [] => True end.
Definition follow_num (s : str) : Prop := match s with c :: _ => is_ident_char c = false /\ c <> 46 | [] => True end.

Lemma is_ident_char_unfold : forall c, is_ident_char c = ((c =? 95) || (c =? 36) || is_alpha c || is_digit c)%bool.
Proof. reflexivity. Qed.

Ltac chars := unfold opstart, is_ident_start, is_ident_char, is_alpha, is_lower, is_upper, is_digit, is_ws in *; lia.

Lemma opstart_not_ws_or_space : forall c, opstart c = true -> c <> 47 /\ (is_ws c = false \/ c = 32).
Proof. intros c H. chars. Qed.

Lemma ident_start_stable : forall c r, is_ident_start c = true -> skip (c :: r) = c :: r.
Proof. intros c r H. apply skip_head; chars. Qed.

(* ---- starts_with / skipn on concatenations ---- *)
Lemma starts_with_app : forall p s, starts_with p (p ++ s) = true.
Proof. induction p as [|x p IH]; intro s; cbn; [reflexivity|]. rewrite N.eqb_refl. exact (IH s). Qed.

Lemma skipn_app_exact : forall (p s : str), skipn (length p) (p ++ s) = s.
Proof. induction p as [|x p IH]; intro s; cbn; [reflexivity|exact (IH s)]. Qed.

(* ---- tok / kw: hits and misses ---- *)
Lemma tok_hit : forall t ex rest, stable (t ++ rest) -> existsb (fun e => starts_with e rest) ex = false ->
  tok t ex (t ++ rest) = Some rest.
Proof.
  intros t ex rest Hs He. unfold tok. rewrite (skip_stable _ Hs), starts_with_app, skipn_app_exact, He. reflexivity.
Qed.

Lemma tok_miss_head : forall t0 t' ex s c r, skip s = c :: r -> c <> t0 -> tok (t0 :: t') ex s = None.
Proof.
  intros t0 t' ex s c r Hs Hc. unfold tok. rewrite Hs. cbn [starts_with].
  apply N.eqb_neq in Hc. rewrite N.eqb_sym in Hc. rewrite Hc. reflexivity.
Qed.

Lemma kw_miss_head : forall t0 t' s c r, skip s = c :: r -> c <> t0 -> kw (t0 :: t') s = None.
Proof.
  intros t0 t' s c r Hs Hc. unfold kw. rewrite Hs. cbn [starts_with].
  apply N.eqb_neq in Hc. rewrite N.eqb_sym in Hc. rewrite Hc. reflexivity.
Qed.

Lemma tok_miss_nil : forall t0 t' ex s, skip s = [] -> tok (t0 :: t') ex s = None.
Proof. intros. unfold tok. rewrite H. reflexivity. Qed.
Lemma kw_miss_nil : forall t0 t' s, skip s = [] -> kw (t0 :: t') s = None.
Proof. intros. unfold kw. rewrite H. reflexivity. Qed.

Lemma first_op_none : forall (A : Type) (ops : optab A) s, Forall (fun p => snd p s = None) ops -> first_op ops s = None.
Proof.
  intros A ops s H. induction H as [|[b t] l Ht _ IH]; cbn [first_op]; [reflexivity|].
  cbn [snd] in Ht. rewrite Ht. exact IH.
Qed.

(* ---- identifiers ---- *)
Definition is_ident (x : str) : bool :=
  match x with c :: r => is_ident_start c && forallb is_ident_char r | [] => false end.

Lemma take_ident_app : forall x tail, forallb is_ident_char x = true -> follow_id tail -> take_ident (x ++ tail) = (x, tail).
Proof.
  induction x as [|c x IH]; intros tail Hx Ht.
  - cbn [app]. destruct tail as [|d tl]; [reflexivity|]. cbn in Ht |- *. rewrite Ht. reflexivity.
  - cbn in Hx. apply andb_prop in Hx. destruct Hx as [Hc Hx]. cbn [app take_ident]. rewrite Hc, (IH tail Hx Ht). reflexivity.
Qed.

Lemma is_ident_chars : forall x, is_ident x = true -> forallb is_ident_char x = true /\ head_is is_ident_start x.
Proof.
  intros [|c r] H; [discriminate|]. cbn in H. apply andb_prop in H. destruct H as [Hc Hr].
  split; [|exact Hc]. cbn. rewrite Hr, (is_ident_start_char c Hc). reflexivity.
Qed.

Lemma field_name_ident : forall x tail, is_ident x = true -> follow_id tail -> field_name (x ++ tail) = Some (x, tail).
Proof.
  intros x tail Hx Ht. destruct (is_ident_chars x Hx) as [Hall Hh].
  destruct x as [|c r]; [contradiction|]. cbn in Hh. unfold field_name. cbn [app].
  rewrite (ident_start_stable c (r ++ tail) Hh), Hh.
  change (c :: r ++ tail) with ((c :: r) ++ tail). rewrite (take_ident_app _ _ Hall Ht). reflexivity.
Qed.

(* a keyword test on an identifier that is not that keyword *)
Lemma starts_with_ident_kw : forall k x tail, forallb is_ident_char k = true -> forallb is_ident_char x = true ->
  follow_id tail -> starts_with k (x ++ tail) = true ->
  x = k \/ (exists c y, x = k ++ c :: y /\ is_ident_char c = true).
Proof.
  induction k as [|a k IH]; intros x tail Hk Hx Ht Hs.
  - destruct x as [|c y]; [left; reflexivity|right]. exists c, y. cbn in Hx. apply andb_prop in Hx. split; [reflexivity|tauto].
  - cbn in Hk. apply andb_prop in Hk. destruct Hk as [Ha Hk].
    destruct x as [|c y].
    + cbn [app] in Hs. destruct tail as [|d tl]; [discriminate|]. cbn in Hs, Ht.
      apply andb_prop in Hs. destruct Hs as [Hs _]. apply N.eqb_eq in Hs. subst d. congruence.
    + cbn in Hx. apply andb_prop in Hx. destruct Hx as [Hc Hy]. cbn in Hs. apply andb_prop in Hs. destruct Hs as [Hac Hs].
      apply N.eqb_eq in Hac. subst c. destruct (IH y tail Hk Hy Ht Hs) as [->|[c [z [-> Hcz]]]].
      * left; reflexivity.
      * right. exists c, z. split; [reflexivity|exact Hcz].
Qed.

Lemma kw_on_ident : forall k x tail, forallb is_ident_char k = true -> is_ident x = true -> follow_id tail ->
  x <> k -> kw k (x ++ tail) = None.
Proof.
  intros k x tail Hk Hx Ht Hne. destruct (is_ident_chars x Hx) as [Hall Hh].
  unfold kw. destruct x as [|c r]; [contradiction|]. cbn in Hh. cbn [app].
  rewrite (ident_start_stable c (r ++ tail) Hh). change (c :: r ++ tail) with ((c :: r) ++ tail).
  destruct (starts_with k ((c :: r) ++ tail)) eqn:Es; [|reflexivity].
  destruct (starts_with_ident_kw k (c :: r) tail Hk Hall Ht Es) as [E|[d [y [E Hd]]]]; [congruence|].
  rewrite E, <- app_assoc, skipn_app_exact. cbn [app]. rewrite Hd. reflexivity.
Qed.

(* ---- evaluating tokens on explicit prefixes ---- *)
Arguments N.eqb : simpl nomatch.
Arguments skip : simpl never.
Arguments tok : simpl never.
Arguments kw : simpl never.
Lemma tok_eval : forall t ex s, stable s ->
  tok t ex s = if starts_with t s
               then (if existsb (fun e => starts_with e (skipn (length t) s)) ex then None else Some (skipn (length t) s))
               else None.
Proof. intros t ex s H. unfold tok. rewrite (skip_stable s H). reflexivity. Qed.

Lemma kw_eval : forall t s, stable s ->
  kw t s = if starts_with t s
           then match skipn (length t) s with
                | c :: _ => if is_ident_char c then None else Some (skipn (length t) s)
                | [] => Some (skipn (length t) s)
                end
           else None.
Proof. intros t s H. unfold kw. rewrite (skip_stable s H). reflexivity. Qed.

Lemma tok_ws : forall t ex c r, is_ws c = true -> tok t ex (c :: r) = tok t ex r.
Proof. intros t ex c r H. unfold tok. rewrite (skip_ws c r H). reflexivity. Qed.
Lemma kw_ws : forall t c r, is_ws c = true -> kw t (c :: r) = kw t r.
Proof. intros t c r H. unfold kw. rewrite (skip_ws c r H). reflexivity. Qed.

Lemma stable_cons : forall c r, is_ws c = false -> c <> 47 -> stable (c :: r).
Proof.
  intros c r Hw Hc. cbn. split; [exact Hw|]. destruct r; [exact I|].
  apply N.eqb_neq in Hc. rewrite Hc. reflexivity.
Qed.
Lemma stable_slash : forall d r, d <> 42 -> stable (47 :: d :: r).
Proof. intros d r H. cbn. split; [reflexivity|]. apply N.eqb_neq in H. rewrite H. reflexivity. Qed.

Ltac stab := first [ apply stable_cons; [reflexivity|discriminate]
                   | apply stable_slash; chars
                   | apply stable_cons; chars ].
Ltac tk := repeat first [ rewrite tok_ws by reflexivity | rewrite kw_ws by reflexivity
                        | rewrite tok_eval by stab | rewrite kw_eval by stab ]; cbn.
Ltac kill d := repeat (match goal with
                       | |- context [N.eqb ?c d] =>
                           let H := fresh in assert (H : N.eqb c d = false) by chars; rewrite !H; clear H
                       end; cbn).

(* ---- the binary operator tables ---- *)
Definition bidx (op : binop) : nat :=
  match op with
  | BMul | BDiv | BRem => 0 | BAdd | BSub => 1 | BShl | BShr | BUshr => 2
  | BLt | BGt | BLe | BGe | BInstanceof => 3 | BEq | BNe | BEqq | BNeq => 4
  | BAnd => 5 | BXor => 6 | BOr => 7 | BLAnd => 8 | BLOr | BNullish => 9
  end%nat.
Definition ops_of (i : nat) : optab binop :=
  match i with
  | 0 => ops_mul | 1 => ops_add | 2 => ops_shift | 3 => ops_cmp | 4 => ops_eq
  | 5 => ops_band | 6 => ops_bxor | 7 => ops_bor | 8 => ops_land | 9 => ops_lor | _ => []
  end%nat.

Lemma bidx_level : forall op, sx_binop_level op = N.of_nat (bidx op + 3).
Proof. destruct op; reflexivity. Qed.
Lemma bidx_right : forall op, sx_right op = N.of_nat (bidx op + 2).
Proof. destruct op; reflexivity. Qed.
Lemma bidx_lt10 : forall op, (bidx op < 10)%nat.
Proof. destruct op; cbn; lia. Qed.

(* the operator written by the printer is found by its own table ... *)
Lemma op_hit : forall op x, head_is opstart x ->
  exists x', first_op (ops_of (bidx op)) (sx_binop_text op ++ x) = Some (op, x') /\ skip x' = skip x.
Proof.
  intros op [|d x0] Hd; [contradiction|]. cbn [head_is] in Hd.
  destruct op; cbn [bidx ops_of sx_binop_text binop_text];
    unfold ops_mul, ops_add, ops_shift, ops_cmp, ops_eq, ops_band, ops_bxor, ops_bor, ops_land, ops_lor;
    cbn [first_op]; cbn; tk; kill d;
    first [ eexists; split; [reflexivity|reflexivity]
          | eexists; split; [reflexivity|apply skip_ws; reflexivity] ].
Qed.

(* ... and by no table of a tighter level, nor by the member / call tokens *)
Definition stopsM (s : str) : Prop :=
  tok (lit ".") [lit ".."] s = None /\ tok (lit "[") [] s = None /\ tok (lit "(") [] s = None.
Definition stopsB (j : nat) (s : str) : Prop := forall i, (i < j)%nat -> first_op (ops_of i) s = None.

Ltac unfold_tables :=
  unfold ops_mul, ops_add, ops_shift, ops_cmp, ops_eq, ops_band, ops_bxor, ops_bor, ops_land, ops_lor, unops; cbn [first_op].

Lemma op_below : forall op x i, head_is opstart x -> (i < bidx op)%nat ->
  first_op (ops_of i) (sx_binop_text op ++ x) = None.
Proof.
  intros op [|d x0] i Hd Hi; [contradiction|]. cbn [head_is] in Hd.
  destruct op; cbn [bidx] in Hi;
    do 10 (try (destruct i as [|i];
                [cbn [ops_of sx_binop_text binop_text]; unfold_tables; cbn; tk; kill d; reflexivity|])); lia.
Qed.

Lemma op_stopsM : forall op x, head_is opstart x -> stopsM (sx_binop_text op ++ x).
Proof.
  intros op [|d x0] Hd; [contradiction|]. cbn [head_is] in Hd.
  destruct op; cbn [sx_binop_text binop_text]; unfold stopsM; cbn; tk; auto.
Qed.

Lemma op_follow : forall op x, follow_num (sx_binop_text op ++ x).
Proof. destruct op; cbn; split; (reflexivity || discriminate). Qed.

Lemma tok_cond_miss_head : forall c x, is_ws c = false -> c <> 47 -> c <> 63 -> tok_cond (c :: x) = None.
Proof.
  intros c x Hw H47 H63. unfold tok_cond.
  rewrite (tok_miss_head 63 [] _ (c :: x) c x (skip_head c x Hw H47) H63), (skip_head c x Hw H47).
  destruct x as [|b [|d r]]; try reflexivity.
  apply N.eqb_neq in H63. rewrite H63. reflexivity.
Qed.

(* closing brackets and separators stop every level *)
Definition closer (c : N) : Prop := c = 41 \/ c = 93 \/ c = 125 \/ c = 44 \/ c = 58.

Lemma closer_stops : forall c x, closer c ->
  stopsM (c :: x) /\ (forall i, first_op (ops_of i) (c :: x) = None) /\ tok_cond (c :: x) = None /\ follow_num (c :: x).
Proof.
  intros c x Hc. unfold closer in Hc.
  assert (Hall : forall P : N -> Prop, P 41 -> P 93 -> P 125 -> P 44 -> P 58 -> P c).
  { intros P. destruct Hc as [->|[->|[->|[->| ->]]]]; auto. }
  apply Hall; clear Hall Hc c; (split; [|split; [|split]]).
  all: try (unfold stopsM; cbn; tk; auto).
  all: try (intro i; do 10 (try (destruct i as [|i]; [cbn [ops_of]; unfold_tables; cbn; tk; reflexivity|])); reflexivity).
  all: try (apply tok_cond_miss_head; [reflexivity|discriminate|discriminate]).
  all: try (cbn; split; [reflexivity|discriminate]).
Qed.

Lemma nil_stops : stopsM [] /\ (forall i, first_op (ops_of i) [] = None) /\ tok_cond [] = None.
Proof.
  split; [|split].
  - unfold stopsM. repeat split; reflexivity.
  - intro i. do 10 (try (destruct i as [|i]; [reflexivity|])). reflexivity.
  - reflexivity.
Qed.

(* the conditional operator *)
Lemma question_stops : forall x, head_is opstart x ->
  stopsM (63 :: x) /\ (forall i, first_op (ops_of i) (63 :: x) = None) /\ tok_cond (63 :: x) = Some x /\ follow_num (63 :: x).
Proof.
  intros [|d x0] Hd; [contradiction|]. cbn [head_is] in Hd. split; [|split; [|split]].
  - unfold stopsM; cbn; tk; auto.
  - intro i. do 10 (try (destruct i as [|i]; [cbn [ops_of]; unfold_tables; cbn; tk; kill d; reflexivity|])). reflexivity.
  - unfold tok_cond; cbn; tk; kill d. reflexivity.
  - cbn. split; [reflexivity|discriminate].
Qed.

(* unary operators *)
Lemma unop_hit : forall op x, head_is opstart x ->
  exists x', first_op unops (unop_text op ++ x) = Some (op, x') /\ skip x' = skip x.
Proof.
  intros op [|d x0] Hd; [contradiction|]. cbn [head_is] in Hd.
  destruct op; cbn [unop_text]; unfold_tables; cbn; tk; kill d;
    first [ eexists; split; [reflexivity|reflexivity]
          | eexists; split; [reflexivity|apply skip_ws; reflexivity] ].
Qed.

(* an operand that does not start with a unary operator *)
Definition primstart (c : N) : bool := is_digit c || (c =? 34) || (c =? 40) || (c =? 91) || (c =? 123).

Lemma unops_miss_prim : forall c x, primstart c = true -> first_op unops (c :: x) = None.
Proof.
  intros c x Hc. apply first_op_none. unfold unops.
  assert (Hs : skip (c :: x) = c :: x) by (apply skip_head; unfold primstart, is_digit, is_ws in *; lia).
  cbn.
  repeat (apply Forall_cons;
          [cbn [snd]; first [ eapply tok_miss_head; [exact Hs|unfold primstart, is_digit in *; lia]
                            | eapply kw_miss_head; [exact Hs|unfold primstart, is_digit in *; lia] ]|]).
  apply Forall_nil.
Qed.

Definition reserved : list str := [lit "undefined"; lit "null"; lit "true"; lit "false"; lit "typeof"; lit "void"].
Definition ok_name (x : str) : bool := is_ident x && negb (mem_str x reserved).

Lemma str_eqb_eq : forall a b, str_eqb a b = true <-> a = b.
Proof.
  induction a as [|x a IH]; intros [|y b]; cbn; split; intro H; try reflexivity; try discriminate.
  - apply andb_prop in H. destruct H as [H1 H2]. apply N.eqb_eq in H1. apply IH in H2. congruence.
  - injection H as -> ->. rewrite N.eqb_refl. apply IH. reflexivity.
Qed.

Lemma ok_name_spec : forall x, ok_name x = true -> is_ident x = true /\ ~ In x reserved.
Proof.
  intros x H. unfold ok_name in H. apply andb_prop in H. destruct H as [H1 H2]. split; [exact H1|].
  intro Hin. apply Bool.negb_true_iff in H2. unfold mem_str in H2.
  assert (existsb (str_eqb x) reserved = true).
  { apply existsb_exists. exists x. split; [exact Hin|]. apply str_eqb_eq. reflexivity. }
  congruence.
Qed.

Lemma unops_miss_ident : forall x tail, ok_name x = true -> follow_id tail -> first_op unops (x ++ tail) = None.
Proof.
  intros x tail Hx Ht. destruct (ok_name_spec x Hx) as [Hid Hres].
  destruct (is_ident_chars x Hid) as [Hall Hh].
  apply first_op_none. unfold unops.
  destruct x as [|c r] eqn:Ex; [contradiction|]. cbn in Hh.
  assert (Hs : skip ((c :: r) ++ tail) = c :: r ++ tail) by (cbn [app]; apply ident_start_stable; exact Hh).
  rewrite <- Ex in *.
  cbn -[app].
  repeat (apply Forall_cons;
          [cbn [snd];
           first [ eapply tok_miss_head; [exact Hs|unfold is_ident_start, is_alpha, is_lower, is_upper in Hh; lia]
                 | apply kw_on_ident; [reflexivity|exact Hid|exact Ht|]; intro E; apply Hres; rewrite E; cbn; tauto ]|]).
  apply Forall_nil.
Qed.
