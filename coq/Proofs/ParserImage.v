(* Everything the expression parser returns is well-formed in the sense of the round-trip theorem,
   except that it may contain float literals: identifiers are identifiers and not reserved words
   (object shorthand apart), integers are non-negative i64, member names are identifiers, there is no
   scope reference and no string-conversion node.  Hence: for EVERY source text, parsing, printing
   and parsing again gives the same expression (when it has no float literal). *)
From GE Require Import Model.StrExpr Model.ExprParse Proofs.ExprParseProofs Proofs.ExprParseFuel Proofs.ExprRtTokens
  Proofs.ExprRoundTrip Proofs.NumRoundTrip Proofs.NumRange.
From Coq Require Import Lia ZifyBool ZifyN.
Import ListNotations.
Local Open Scope nat_scope.

Arguments N.eqb : simpl nomatch.
Arguments skip : simpl never.
Arguments tok : simpl never.
Arguments kw : simpl never.

(* wf, with float literals allowed *)
Fixpoint wff (e : expr) : Prop :=
  match e with
  | EScope _ | EToStr _ => False
  | EField x => ok_name x = true
  | EUndef | ENull | EBool _ | EStr _ | EFloat _ => True
  | EInt z => (0 <= z <= i64_max)%Z
  | EObj fs => wff_o fs
  | EArr fs => wff_a fs
  | EMember o k => wff o /\ is_ident k = true
  | EIndex o k => wff o /\ wff k
  | ECall f args => wff f /\ wff_x args
  | EUn _ v => wff v
  | EBin _ l r => wff l /\ wff r
  | ECond c t f => wff c /\ wff t /\ wff f
  end
with wff_x (l : exprs) : Prop :=
  match l with XNil => True | XCons e r => wff e /\ wff_x r end
with wff_o (l : ofields) : Prop :=
  match l with
  | ONil => True
  | ONamed k v r => is_ident k = true /\ (v = EField k \/ wff v) /\ wff_o r
  | OSpread v r => wff v /\ wff_o r
  end
with wff_a (l : afields) : Prop :=
  match l with
  | ANil => True
  | ANormal v r => wff v /\ wff_a r
  | ASpread v r => wff v /\ wff_a r
  | AHole r => wff_a r
  end.

Fixpoint nofloat (e : expr) : Prop :=
  match e with
  | EFloat _ => False
  | EScope _ | EField _ | EUndef | ENull | EStr _ | EInt _ | EBool _ => True
  | EToStr v => nofloat v
  | EObj fs => nofloat_o fs
  | EArr fs => nofloat_a fs
  | EMember o _ => nofloat o
  | EIndex o k => nofloat o /\ nofloat k
  | ECall f args => nofloat f /\ nofloat_x args
  | EUn _ v => nofloat v
  | EBin _ l r => nofloat l /\ nofloat r
  | ECond c t f => nofloat c /\ nofloat t /\ nofloat f
  end
with nofloat_x (l : exprs) : Prop := match l with XNil => True | XCons e r => nofloat e /\ nofloat_x r end
with nofloat_o (l : ofields) : Prop :=
  match l with ONil => True | ONamed _ v r => nofloat v /\ nofloat_o r | OSpread v r => nofloat v /\ nofloat_o r end
with nofloat_a (l : afields) : Prop :=
  match l with ANil => True | ANormal v r => nofloat v /\ nofloat_a r | ASpread v r => nofloat v /\ nofloat_a r | AHole r => nofloat_a r end.

Lemma wff_nofloat_wf :
  (forall e, wff e -> nofloat e -> wf e) /\ (forall l, wff_x l -> nofloat_x l -> wf_x l) /\
  (forall l, wff_o l -> nofloat_o l -> wf_o l) /\ (forall l, wff_a l -> nofloat_a l -> wf_a l).
Proof.
  apply expr_mutind; cbn [wff wff_x wff_o wff_a nofloat nofloat_x nofloat_o nofloat_a wf wf_x wf_o wf_a]; try tauto.
Qed.

(* ---- identifiers taken by the scanner ---- *)
Lemma take_ident_spec : forall s name rest, take_ident s = (name, rest) ->
  s = name ++ rest /\ forallb is_ident_char name = true /\ follow_id rest.
Proof.
  induction s as [|c r IH]; intros name rest H; cbn [take_ident] in H.
  - injection H as <- <-. repeat split.
  - destruct (is_ident_char c) eqn:Ec.
    + destruct (take_ident r) as [a b] eqn:E. injection H as <- <-.
      destruct (IH a b eq_refl) as [-> [Ha Hb]]. repeat split; [cbn; rewrite Ec, Ha; reflexivity|exact Hb].
    + injection H as <- <-. repeat split. cbn. exact Ec.
Qed.

Lemma take_ident_is_ident : forall c q name rest, is_ident_start c = true -> take_ident (c :: q) = (name, rest) ->
  is_ident name = true /\ c :: q = name ++ rest /\ follow_id rest.
Proof.
  intros c q name rest Hc H. destruct (take_ident_spec _ _ _ H) as [E [Hall Hf]].
  cbn [take_ident] in H. rewrite (is_ident_start_char c Hc) in H. destruct (take_ident q) as [a b]. injection H as <- <-.
  repeat split; [|exact E|exact Hf]. cbn [is_ident]. rewrite Hc. cbn in Hall. apply andb_prop in Hall. tauto.
Qed.

Lemma field_name_is_ident : forall s name r, field_name s = Some (name, r) -> is_ident name = true.
Proof.
  intros s name r H. unfold field_name in H. destruct (skip s) as [|c q]; [discriminate|].
  destruct (is_ident_start c) eqn:Ec; [|discriminate]. injection H as H.
  destruct (take_ident_is_ident c q name r Ec H) as [Hi _]. exact Hi.
Qed.

Lemma first_op_none_inv : forall (A : Type) (ops : optab A) s, first_op ops s = None -> Forall (fun p => snd p s = None) ops.
Proof.
  intros A ops s. induction ops as [|[b t] l IH]; intro H; [constructor|]. cbn [first_op] in H.
  destruct (t s) eqn:E; [discriminate|]. constructor; [exact E|exact (IH H)].
Qed.

(* an identifier read where no unary operator starts is neither `typeof` nor `void` *)
Lemma not_unary_keyword : forall s name rest, first_op unops s = None -> skip s = name ++ rest -> follow_id rest ->
  name <> lit "typeof" /\ name <> lit "void".
Proof.
  intros s name rest Hn Hs Hf. apply first_op_none_inv in Hn. unfold unops in Hn.
  inversion Hn as [|? ? _ H1]; subst. inversion H1 as [|? ? _ H2]; subst. inversion H2 as [|? ? _ H3]; subst.
  inversion H3 as [|? ? _ H4]; subst. inversion H4 as [|? ? Ht H5]; subst. inversion H5 as [|? ? Hv _]; subst.
  cbn [snd] in Ht, Hv. split; intro E; subst name.
  - unfold kw in Ht. rewrite Hs, starts_with_app, skipn_app_exact in Ht.
    destruct rest as [|c r]; [discriminate|]. cbn in Hf. rewrite Hf in Ht. discriminate.
  - unfold kw in Hv. rewrite Hs, starts_with_app, skipn_app_exact in Hv.
    destruct rest as [|c r]; [discriminate|]. cbn in Hf. rewrite Hf in Hv. discriminate.
Qed.

Lemma kof_cases : forall name, keyword_or_field name = EUndef \/ keyword_or_field name = ENull \/
  (exists b, keyword_or_field name = EBool b) \/
  (keyword_or_field name = EField name /\ name <> lit "undefined" /\ name <> lit "null" /\ name <> lit "true" /\ name <> lit "false").
Proof.
  intro name. unfold keyword_or_field.
  destruct (str_eqb name (lit "undefined")) eqn:E1; [tauto|].
  destruct (str_eqb name (lit "null")) eqn:E2; [tauto|].
  destruct (str_eqb name (lit "true")) eqn:E3; [right; right; left; eexists; reflexivity|].
  destruct (str_eqb name (lit "false")) eqn:E4; [right; right; left; eexists; reflexivity|].
  right; right; right. repeat split; intro E; subst name; discriminate.
Qed.

Definition ok_res (r : pres expr) : Prop := match r with POk e _ => wff e | PFail _ _ => True end.
Definition ok_res_x (r : pres exprs) : Prop := match r with POk e _ => wff_x e | PFail _ _ => True end.
Definition ok_res_o (r : pres ofields) : Prop := match r with POk e _ => wff_o e | PFail _ _ => True end.
Definition ok_res_a (r : pres afields) : Prop := match r with POk e _ => wff_a e | PFail _ _ => True end.

Lemma num_result_ok : forall s, ok_res (num_result s).
Proof.
  intro s. unfold num_result. pose proof (parse_number_range is_hex_digit s) as H. unfold parse_number_fixed.
  destruct (parse_number is_hex_digit s) as [r n]. cbn [fst] in H. destruct r; cbn; try exact I. exact H.
Qed.

Section Image.
  Variable pcond : str -> pres expr.
  Hypothesis Hpc : forall s, ok_res (pcond s).

  Ltac pc_at x := let H := fresh "Hp" in pose proof (Hpc x) as H.

  Lemma args_loop_ok : forall n s, ok_res_x (args_loop pcond n s).
  Proof.
    induction n as [|n IH]; intro s; cbn [args_loop]; [exact I|].
    destruct (skip s) as [|c q]; [exact I|]. destruct (N.eqb c 41); [exact I|].
    pc_at s. destruct (pcond s) as [e rest|p]; [|exact I].
    destruct (tok (lit ",") [] rest) as [rest2|]; [|cbn; tauto].
    pose proof (IH rest2) as Hi. destruct (args_loop pcond n rest2); cbn in *; tauto.
  Qed.

  Lemma obj_loop_ok : forall n s, ok_res_o (obj_loop pcond n s).
  Proof.
    induction n as [|n IH]; intro s; cbn [obj_loop]; [exact I|].
    destruct (skip s) as [|c q]; [exact I|]. destruct (N.eqb c 125); [exact I|].
    destruct (N.eqb c 46).
    - destruct (tok (lit "...") [] s) as [r|]; [|exact I].
      pc_at r. destruct (pcond r) as [v rest|p]; [|exact I].
      destruct (skip rest) as [|d rest2]; [exact I|].
      destruct (N.eqb d 125); [cbn; tauto|]. destruct (N.eqb d 44); [|exact I].
      pose proof (IH rest2) as Hi. destruct (obj_loop pcond n rest2); cbn in *; tauto.
    - destruct (field_name s) as [[name r]|] eqn:Ef; [|exact I].
      pose proof (field_name_is_ident s name r Ef) as Hid.
      destruct (skip r) as [|d r2]; [cbn; tauto|].
      destruct (N.eqb d 58).
      + pc_at r2. destruct (pcond r2) as [v rest|p]; [|exact I].
        destruct (skip rest) as [|d2 rest2]; [exact I|].
        destruct (N.eqb d2 125); [cbn; tauto|]. destruct (N.eqb d2 44); [|exact I].
        pose proof (IH rest2) as Hi. destruct (obj_loop pcond n rest2); cbn in *; tauto.
      + destruct (N.eqb d 125); [cbn; tauto|]. destruct (N.eqb d 44); [|exact I].
        pose proof (IH r2) as Hi. destruct (obj_loop pcond n r2); cbn in *; tauto.
  Qed.

  Lemma arr_loop_ok : forall n s, ok_res_a (arr_loop pcond n s).
  Proof.
    induction n as [|n IH]; intro s; cbn [arr_loop]; [exact I|].
    destruct (skip s) as [|c r0]; [exact I|]. destruct (N.eqb c 93); [exact I|].
    destruct (N.eqb c 44).
    - pose proof (IH r0) as Hi. destruct (arr_loop pcond n r0); cbn in *; tauto.
    - set (spread := starts_with (lit "...") (c :: r0)).
      set (item_start := if spread then skipn 3 (c :: r0) else s).
      pc_at item_start. destruct (pcond item_start) as [v rest|p]; [|exact I].
      destruct (skip rest) as [|d rest2]; [exact I|].
      destruct (N.eqb d 93); [destruct spread; cbn; tauto|]. destruct (N.eqb d 44); [|exact I].
      pose proof (IH rest2) as Hi. destruct (arr_loop pcond n rest2); [|exact I].
      destruct spread; cbn in *; tauto.
  Qed.

  Lemma p_lit_ok : forall s, first_op unops s = None -> ok_res (p_lit pcond s).
  Proof.
    intros s Hun. unfold p_lit. destruct (skip s) as [|c r] eqn:Es; [exact I|].
    destruct (is_ident_start c) eqn:Ei.
    { destruct (take_ident (c :: r)) as [name rest] eqn:Et.
      destruct (take_ident_is_ident c r name rest Ei Et) as [Hid [Eq Hf]].
      destruct (kof_cases name) as [E|[E|[[b E]|[E [N1 [N2 [N3 N4]]]]]]]; rewrite E; cbn; try exact I.
      rewrite Eq in Es. destruct (not_unary_keyword s name rest Hun Es Hf) as [N5 N6].
      unfold ok_name. rewrite Hid. cbn [andb]. apply Bool.negb_true_iff. unfold mem_str, reserved. cbn [existsb].
      repeat match goal with
             | |- context [str_eqb name ?k] =>
                 let E := fresh "E" in destruct (str_eqb name k) eqn:E; [apply str_eqb_eq in E; congruence|]
             end.
      reflexivity. }
    destruct ((c =? 34)%N || (c =? 39)%N)%bool.
    { destruct (wx_str_decode c r) as [[v rest]|]; exact I. }
    destruct (is_digit c || (c =? 46)%N)%bool; [apply num_result_ok|].
    destruct (N.eqb c 40).
    { pc_at r. destruct (pcond r) as [e rest|p]; [|exact I]. destruct (tok (lit ")") [] rest); [exact Hp|exact I]. }
    destruct (N.eqb c 123).
    { pose proof (obj_loop_ok (S (length r)) r) as Ho. destruct (obj_loop pcond (S (length r)) r) as [fs rest|p]; [|exact I].
      destruct (tok (lit "}") [] rest); [exact Ho|exact I]. }
    destruct (N.eqb c 91).
    { pose proof (arr_loop_ok (S (length r)) r) as Ho. destruct (arr_loop pcond (S (length r)) r) as [fs rest|p]; [|exact I].
      destruct (tok (lit "]") [] rest); [exact Ho|exact I]. }
    exact I.
  Qed.

  Lemma member_loop_ok : forall n obj s, wff obj -> ok_res (member_loop pcond n obj s).
  Proof.
    induction n as [|n IH]; intros obj s Ho; cbn [member_loop]; [exact I|].
    destruct (tok (lit ".") [lit ".."] s) as [r|].
    { destruct (field_name r) as [[name rest]|] eqn:Ef; [|exact I].
      apply IH. cbn. split; [exact Ho|exact (field_name_is_ident r name rest Ef)]. }
    destruct (tok (lit "[") [] s) as [r|].
    { pc_at r. destruct (pcond r) as [e rest|p]; [|exact I].
      destruct (tok (lit "]") [] rest) as [rest2|]; [|exact I]. apply IH. cbn. tauto. }
    destruct (tok (lit "(") [] s) as [r|]; [|exact Ho].
    pose proof (args_loop_ok (S (length r)) r) as Ha. destruct (args_loop pcond (S (length r)) r) as [args rest|p]; [|exact I].
    destruct (tok (lit ")") [] rest) as [rest2|]; [|exact I]. apply IH. cbn. tauto.
  Qed.

  Lemma p_member_ok : forall s, first_op unops s = None -> ok_res (p_member pcond s).
  Proof.
    intros s Hun. unfold p_member. pose proof (p_lit_ok s Hun) as Hl.
    destruct (p_lit pcond s) as [o rest|p]; [|exact I]. apply member_loop_ok. exact Hl.
  Qed.

  Lemma unary_loop_ok : forall n s, ok_res (unary_loop pcond n s).
  Proof.
    induction n as [|n IH]; intro s; cbn [unary_loop]; [exact I|].
    destruct (first_op unops s) as [[u rest]|] eqn:E.
    - pose proof (IH rest) as Hi. destruct (unary_loop pcond n rest); [exact Hi|exact I].
    - apply p_member_ok. exact E.
  Qed.

  Lemma level_loop_ok : forall next ops, (forall s, ok_res (next s)) -> forall n l s, wff l -> ok_res (level_loop next ops n l s).
  Proof.
    intros next ops Hn. induction n as [|n IH]; intros l s Hl; cbn [level_loop]; [exact I|].
    destruct (first_op ops s) as [[b rest]|]; [|exact Hl].
    pose proof (Hn rest) as Hr. destruct (next rest) as [r rest2|p]; [|exact I]. apply IH. cbn. tauto.
  Qed.

  Lemma level_ok : forall next ops, (forall s, ok_res (next s)) -> forall s, ok_res (level next ops s).
  Proof.
    intros next ops Hn s. unfold level. pose proof (Hn s) as H1. destruct (next s) as [l rest|p]; [|exact I].
    apply level_loop_ok; assumption.
  Qed.

  Lemma p_lor_ok : forall s, ok_res (p_lor pcond s).
  Proof.
    unfold p_lor, p_land, p_bor, p_bxor, p_band, p_eq, p_cmp, p_shift, p_add, p_mul.
    repeat apply level_ok. intro s. apply unary_loop_ok.
  Qed.

  Lemma cond_body_ok : forall s, ok_res (cond_body pcond s).
  Proof.
    intro s. unfold cond_body. pose proof (p_lor_ok s) as H1. destruct (p_lor pcond s) as [c rest|p]; [|exact I].
    destruct (tok_cond rest) as [r|]; [|exact H1].
    pc_at r. destruct (pcond r) as [t rest2|p]; [|exact I].
    destruct (tok (lit ":") [] rest2) as [r3|]; [|exact I].
    pc_at r3. destruct (pcond r3) as [f rest3|p]; [|exact I]. cbn in *. tauto.
  Qed.
End Image.

Lemma parse_cond_fuel_ok : forall f s, ok_res (parse_cond_fuel f s).
Proof. induction f as [|f IH]; intro s; cbn [parse_cond_fuel]; [exact I|]. apply cond_body_ok. exact IH. Qed.

(* the image of the parser *)
Theorem parser_image_wff : forall s e r, parse_cond s = POk e r -> wff e.
Proof. intros s e r H. pose proof (parse_cond_fuel_ok (S (length s)) s) as Hk. unfold parse_cond in H. rewrite H in Hk. exact Hk. Qed.

(* parse, print, parse: for every source text whose expression has no float literal *)
Theorem parse_print_parse : forall names s e r, parse_cond s = POk e r -> nofloat e ->
  forall rest, parse_cond (sx_core names e ++ 125%N :: 125%N :: rest) = POk e (125%N :: 125%N :: rest).
Proof.
  intros names s e r H Hnf rest. apply (print_parse_cond names num_roundtrip z_to_str_head).
  destruct wff_nofloat_wf as [Hw _]. apply Hw; [exact (parser_image_wff s e r H)|exact Hnf].
Qed.
