From GE Require Import Model.Str.

Lemma str_eqb_spec a b : reflect (a = b) (str_eqb a b).
Proof.
  revert b; induction a as [|x a IH]; intros [|y b]; cbn; try (constructor; congruence).
  destruct (N.eqb_spec x y) as [->|Hne]; cbn.
  - destruct (IH b) as [->|Hne]; constructor; congruence.
  - constructor; congruence.
Qed.

Lemma str_eqb_refl a : str_eqb a a = true.
Proof. destruct (str_eqb_spec a a); congruence. Qed.

Lemma str_eqb_eq a b : str_eqb a b = true <-> a = b.
Proof. destruct (str_eqb_spec a b); split; congruence. Qed.

Lemma str_eqb_neq a b : str_eqb a b = false <-> a <> b.
Proof. destruct (str_eqb_spec a b); split; congruence. Qed.

(* split *)
Lemma split_aux_app c a b cur :
  split_aux c (a ++ c :: b) cur = split_aux c a cur ++ split c b.
Proof.
  revert cur; induction a as [|x a IH]; intros cur; cbn.
  - rewrite N.eqb_refl. reflexivity.
  - destruct (N.eqb x c); cbn; rewrite IH; reflexivity.
Qed.

Lemma split_app c a b : split c (a ++ c :: b) = split c a ++ split c b.
Proof. apply split_aux_app. Qed.

Lemma split_aux_nosep c s cur :
  ~ In c s -> split_aux c s cur = [rev cur ++ s].
Proof.
  revert cur; induction s as [|x s IH]; intros cur Hn; cbn.
  - now rewrite app_nil_r.
  - destruct (N.eqb_spec x c) as [->|Hne].
    + exfalso; apply Hn; now left.
    + rewrite IH by (intro; apply Hn; now right). cbn. now rewrite <- app_assoc.
Qed.

Lemma split_nosep c s : ~ In c s -> split c s = [s].
Proof. intros H. unfold split. now rewrite split_aux_nosep. Qed.

Lemma split_aux_pieces_nosep c s cur :
  ~ In c cur -> Forall (fun p => ~ In c p) (split_aux c s cur).
Proof.
  revert cur; induction s as [|x s IH]; intros cur Hc; cbn.
  - constructor; [|constructor]. now rewrite <- in_rev.
  - destruct (N.eqb_spec x c) as [->|Hne].
    + constructor; [now rewrite <- in_rev | apply IH; intros []].
    + apply IH. intros [->|H]; [congruence | contradiction].
Qed.

Lemma split_pieces_nosep c s : Forall (fun p => ~ In c p) (split c s).
Proof. apply split_aux_pieces_nosep. intros []. Qed.

Lemma split_nonempty c s : split c s <> [].
Proof.
  unfold split. generalize (@nil N). induction s as [|x s IH]; intros cur; cbn; [congruence|].
  destruct (N.eqb x c); [congruence | apply IH].
Qed.

(* join then split gives the pieces back (for a non-empty list of sep-free pieces) *)
Lemma split_join c l :
  l <> [] -> Forall (fun p => ~ In c p) l -> split c (join [c] l) = l.
Proof.
  induction l as [|a l IH]; [congruence|]. intros _ Hf.
  inversion Hf as [|? ? Ha Hl]; subst.
  destruct l as [|b l].
  - cbn. now apply split_nosep.
  - change (join [c] (a :: b :: l)) with (a ++ c :: join [c] (b :: l)).
    rewrite split_app, split_nosep by assumption.
    rewrite IH by (congruence || assumption). reflexivity.
Qed.
