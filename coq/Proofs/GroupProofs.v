From GE Require Import Model.Str Model.BindingMap Model.Group Proofs.StrProofs.
From Coq Require Import Lia ZifyBool ZifyN Sorting.Sorted.

(* ---------- str_ltb is a strict total order ---------- *)
Lemma str_ltb_irrefl a : str_ltb a a = false.
Proof. induction a as [|x a IH]; cbn; [reflexivity|]. rewrite N.ltb_irrefl. exact IH. Qed.

Lemma str_ltb_trans a : forall b c, str_ltb a b = true -> str_ltb b c = true -> str_ltb a c = true.
Proof.
  induction a as [|x a IH]; intros [|y b] [|z c] H1 H2; cbn in *; try congruence.
  destruct (N.ltb_spec x y) as [Hxy|Hxy]; destruct (N.ltb_spec y x) as [Hyx|Hyx];
  destruct (N.ltb_spec y z) as [Hyz|Hyz]; destruct (N.ltb_spec z y) as [Hzy|Hzy];
  destruct (N.ltb_spec x z) as [Hxz|Hxz]; destruct (N.ltb_spec z x) as [Hzx|Hzx];
  try congruence; try lia; try reflexivity.
  eapply IH; eassumption.
Qed.

Lemma str_ltb_total a : forall b, a <> b -> str_ltb a b = true \/ str_ltb b a = true.
Proof.
  induction a as [|x a IH]; intros [|y b] H; cbn; try congruence; try (now left); try (now right).
  destruct (N.ltb_spec x y); [now left|]. destruct (N.ltb_spec y x); [now right|].
  assert (x = y) by lia. subst. apply IH. congruence.
Qed.

Lemma str_ltb_asym a b : str_ltb a b = true -> str_ltb b a = false.
Proof.
  intros H. destruct (str_ltb b a) eqn:E; [|reflexivity].
  pose proof (str_ltb_trans _ _ _ H E) as T. rewrite str_ltb_irrefl in T. discriminate.
Qed.

Section G.
  Variable V : Type.
  Notation entry := (str * V)%type.
  Definition klt (a b : entry) : Prop := str_ltb (fst a) (fst b) = true.

  Lemma insert_perm (x : entry) l : Permutation (x :: l) (insert_by_key V x l).
  Proof.
    induction l as [|y l IH]; cbn; [reflexivity|].
    destruct (str_ltb (fst x) (fst y)); [reflexivity|].
    rewrite perm_swap. now constructor.
  Qed.

  Lemma sort_perm l : Permutation l (sort_by_key V l).
  Proof.
    induction l as [|x l IH]; cbn; [constructor|].
    rewrite <- insert_perm. now constructor.
  Qed.

  Lemma insert_sorted (x : entry) l :
    ~ In (fst x) (map fst l) -> StronglySorted klt l -> StronglySorted klt (insert_by_key V x l).
  Proof.
    induction l as [|y l IH]; intros Hn Hs; cbn; [repeat constructor|].
    inversion Hs as [|? ? Hs' Hall]; subst.
    destruct (str_ltb (fst x) (fst y)) eqn:E.
    - constructor; [assumption|]. constructor; [exact E|].
      rewrite Forall_forall in *. intros z Hz. unfold klt in *. eapply str_ltb_trans; [exact E | now apply Hall].
    - constructor.
      + apply IH; [intros H; apply Hn; now right | assumption].
      + assert (Hyx : klt y x).
        { unfold klt. destruct (str_ltb_total (fst y) (fst x)) as [T|T]; [|exact T|congruence].
          intros Heq. apply Hn. left. now symmetry. }
        rewrite Forall_forall in *. intros z Hz.
        apply (Permutation_in _ (Permutation_sym (insert_perm x l))) in Hz.
        destruct Hz as [<-|Hz]; [exact Hyx | now apply Hall].
  Qed.

  Lemma sort_sorted l : NoDup (map fst l) -> StronglySorted klt (sort_by_key V l).
  Proof.
    induction l as [|x l IH]; intros Hd; cbn; [constructor|].
    inversion Hd as [|? ? Hn Hd']; subst.
    apply insert_sorted; [|now apply IH].
    intros H. apply Hn. apply in_map_iff in H. destruct H as [z [Ez Hz]].
    apply (Permutation_in _ (Permutation_sym (sort_perm l))) in Hz.
    apply in_map_iff. now exists z.
  Qed.

  (* two strictly sorted lists with the same elements are equal *)
  Lemma sorted_perm_eq (l1 : list entry) : forall l2,
    StronglySorted klt l1 -> StronglySorted klt l2 -> Permutation l1 l2 -> l1 = l2.
  Proof.
    induction l1 as [|x l1 IH]; intros l2 S1 S2 P.
    - apply Permutation_nil in P. now subst.
    - destruct l2 as [|y l2]; [apply Permutation_sym, Permutation_nil in P; discriminate|].
      inversion S1 as [|? ? S1' A1]; inversion S2 as [|? ? S2' A2]; subst.
      assert (x = y).
      { assert (Hx : In x (y :: l2)) by (eapply Permutation_in; [exact P | now left]).
        assert (Hy : In y (x :: l1)) by (eapply Permutation_in; [exact (Permutation_sym P) | now left]).
        destruct Hx as [->|Hx]; [reflexivity|]. destruct Hy as [->|Hy]; [reflexivity|].
        rewrite Forall_forall in A1, A2. pose proof (A1 _ Hy) as K1. pose proof (A2 _ Hx) as K2.
        unfold klt in *. rewrite (str_ltb_asym _ _ K1) in K2. discriminate. }
      subst y. f_equal. apply IH; try assumption. now apply Permutation_cons_inv in P.
  Qed.

  Theorem sort_order_independent l1 l2 :
    NoDup (map fst l1) -> Permutation l1 l2 -> sort_by_key V l1 = sort_by_key V l2.
  Proof.
    intros Hd P. apply sorted_perm_eq.
    - now apply sort_sorted.
    - apply sort_sorted. eapply Permutation_NoDup; [|exact Hd]. now apply Permutation_map.
    - rewrite <- (sort_perm l1), <- (sort_perm l2). exact P.
  Qed.

  (* whatever the HashMap iteration order is, emission is the same *)
  Theorem emit_iteration_order_independent (render : entry -> str) (o1 o2 : list entry -> list entry) m :
    (forall l, Permutation (o1 l) l) -> (forall l, Permutation (o2 l) l) ->
    NoDup (map fst m) -> emit V render o1 m = emit V render o2 m.
  Proof.
    intros H1 H2 Hd. unfold emit. f_equal. apply sort_order_independent.
    - eapply Permutation_NoDup; [|exact Hd]. apply Permutation_map, Permutation_sym, H1.
    - rewrite H1, H2. reflexivity.
  Qed.

  (* ---------- insertion order ---------- *)
  Lemma hm_insert_keys k v m :
    NoDup (map fst m) -> ~ In k (map fst m) -> hm_insert V k v m = m ++ [(k, v)].
  Proof.
    induction m as [|[k' v'] m IH]; intros Hd Hn; cbn; [reflexivity|].
    destruct (str_eqb_spec k k') as [->|Hne]; [exfalso; apply Hn; now left|].
    f_equal. apply IH; [now inversion Hd | intros H; apply Hn; now right].
  Qed.

  Lemma NoDup_app_l {A} (l1 l2 : list A) : NoDup (l1 ++ l2) -> NoDup l1.
  Proof.
    induction l1 as [|a l1 IH]; cbn; intros H; [constructor|].
    inversion H as [|? ? Hn Hd]; subst. constructor; [|now apply IH].
    intros Hin. apply Hn. apply in_or_app. now left.
  Qed.

  Lemma hm_build_distinct_aux ins : forall m,
    NoDup (map fst (m ++ ins)) ->
    fold_left (fun m kv => hm_insert V (fst kv) (snd kv) m) ins m = m ++ ins.
  Proof.
    induction ins as [|[k v] ins IH]; intros m Hd; cbn; [now rewrite app_nil_r|].
    rewrite map_app in Hd. cbn in Hd.
    assert (Hm : NoDup (map fst m)) by (now apply NoDup_app_l in Hd).
    assert (Hk : ~ In k (map fst m)).
    { intros H. apply NoDup_remove_2 in Hd. apply Hd. apply in_or_app. now left. }
    rewrite hm_insert_keys by assumption.
    rewrite IH; [now rewrite <- app_assoc|].
    rewrite <- app_assoc. cbn. rewrite map_app. cbn. exact Hd.
  Qed.

  Lemma hm_build_distinct ins : NoDup (map fst ins) -> hm_build V ins = ins.
  Proof. intros H. unfold hm_build. now rewrite hm_build_distinct_aux. Qed.

  (* adding the same (distinctly named) files in any order gives the same emission *)
  Theorem emit_insertion_order_independent (render : entry -> str) (o1 o2 : list entry -> list entry) ins1 ins2 :
    (forall l, Permutation (o1 l) l) -> (forall l, Permutation (o2 l) l) ->
    NoDup (map fst ins1) -> Permutation ins1 ins2 ->
    emit V render o1 (hm_build V ins1) = emit V render o2 (hm_build V ins2).
  Proof.
    intros H1 H2 Hd P.
    assert (Hd2 : NoDup (map fst ins2)) by (eapply Permutation_NoDup; [|exact Hd]; now apply Permutation_map).
    rewrite !hm_build_distinct by assumption.
    unfold emit. f_equal. apply sort_order_independent.
    - eapply Permutation_NoDup; [|exact Hd]. apply Permutation_map, Permutation_sym, H1.
    - rewrite H1, H2. exact P.
  Qed.

  (* ---------- importing a group ---------- *)
  Lemma hm_get_insert k k' v m :
    hm_get V k (hm_insert V k' v m) = if str_eqb k k' then Some v else hm_get V k m.
  Proof.
    induction m as [|[k2 v2] m IH]; cbn.
    - destruct (str_eqb k k'); reflexivity.
    - destruct (str_eqb_spec k' k2) as [->|Hne]; cbn.
      + destruct (str_eqb k k2); reflexivity.
      + destruct (str_eqb_spec k k2) as [->|Hne2].
        * destruct (str_eqb_spec k2 k') as [E|_]; [exfalso; apply Hne; now symmetry|]. reflexivity.
        * exact IH.
  Qed.

  Lemma hm_insert_key_set k v m x :
    In x (map fst (hm_insert V k v m)) <-> x = k \/ In x (map fst m).
  Proof.
    induction m as [|[k2 v2] m IH]; cbn.
    - split; [intros [H|[]]; left; now symmetry | intros [H|[]]; left; now symmetry].
    - destruct (str_eqb_spec k k2) as [->|Hne]; cbn.
      + split; [intros [H|H]; [left; now symmetry | right; now right] | intros [H|[H|H]]; [left; now symmetry | now left | now right]].
      + rewrite IH. split; [intros [H|[H|H]]; [right; now left | now left | right; now right]
                           | intros [H|[H|H]]; [right; now left | now left | right; now right]].
  Qed.

  Lemma hm_insert_nodup k v m : NoDup (map fst m) -> NoDup (map fst (hm_insert V k v m)).
  Proof.
    induction m as [|[k2 v2] m IH]; cbn; intro Hd.
    - constructor; [intros []|constructor].
    - destruct (str_eqb_spec k k2) as [->|Hne]; cbn; [exact Hd|].
      inversion Hd as [|? ? Hn Hd']; subst. constructor; [|now apply IH].
      rewrite hm_insert_key_set. intros [H|H]; [apply Hne; now symmetry | now apply Hn].
  Qed.

  Lemma hm_extend_nodup g : forall m, NoDup (map fst m) -> NoDup (map fst (hm_extend V m g)).
  Proof.
    induction g as [|[k v] g IH]; intros m Hd; [exact Hd|]. cbn. apply IH. now apply hm_insert_nodup.
  Qed.

  Lemma hm_get_none k m : ~ In k (map fst m) -> hm_get V k m = None.
  Proof.
    induction m as [|[k2 v2] m IH]; cbn; intro Hn; [reflexivity|].
    destruct (str_eqb_spec k k2) as [->|Hne]; [exfalso; apply Hn; now left|]. apply IH. intro H. apply Hn. now right.
  Qed.

  (* the imported entries win, the others stay *)
  Lemma hm_get_extend k g : forall m, NoDup (map fst g) ->
    hm_get V k (hm_extend V m g) = match hm_get V k g with Some v => Some v | None => hm_get V k m end.
  Proof.
    induction g as [|[k1 v1] g IH]; intros m Hd; [reflexivity|].
    change (hm_extend V m ((k1, v1) :: g)) with (hm_extend V (hm_insert V k1 v1 m) g).
    inversion Hd as [|? ? Hn Hd']; subst. rewrite (IH _ Hd'). cbn [hm_get].
    destruct (str_eqb_spec k k1) as [->|Hne].
    - rewrite (hm_get_none k1 g Hn), hm_get_insert.
      destruct (str_eqb_spec k1 k1) as [_|C]; [reflexivity | exfalso; now apply C].
    - destruct (hm_get V k g); [reflexivity|]. rewrite hm_get_insert.
      destruct (str_eqb_spec k k1) as [E|_]; [exfalso; now apply Hne | reflexivity].
  Qed.

  Lemma hm_get_in k v m : NoDup (map fst m) -> (hm_get V k m = Some v <-> In (k, v) m).
  Proof.
    induction m as [|[k2 v2] m IH]; cbn; intro Hd; [split; [discriminate | intros []]|].
    inversion Hd as [|? ? Hn Hd']; subst.
    destruct (str_eqb_spec k k2) as [->|Hne].
    - split; [intro H; inversion H; now left|].
      intros [H|H]; [inversion H; reflexivity|]. exfalso. apply Hn. apply (in_map fst) in H. exact H.
    - rewrite (IH Hd'). split; [intro H; now right|]. intros [H|H]; [inversion H; subst; exfalso; now apply Hne | exact H].
  Qed.

  Lemma nodup_keys_entries (m : list entry) : NoDup (map fst m) -> NoDup m.
  Proof. intro H. eapply NoDup_map_inv. exact H. Qed.

  (* two maps with the same lookups hold the same entries *)
  Lemma hm_ext_perm m1 m2 :
    NoDup (map fst m1) -> NoDup (map fst m2) -> (forall k, hm_get V k m1 = hm_get V k m2) -> Permutation m1 m2.
  Proof.
    intros H1 H2 E. apply NoDup_Permutation; [now apply nodup_keys_entries | now apply nodup_keys_entries|].
    intros [k v]. rewrite <- (hm_get_in k v m1 H1), <- (hm_get_in k v m2 H2), E. reflexivity.
  Qed.

  Lemma hm_build_nodup ins : NoDup (map fst (hm_build V ins)).
  Proof. unfold hm_build. apply (hm_extend_nodup ins []). constructor. Qed.

  (* import_group = adding the files of the other group directly, whatever the iteration order of the other group's map
     (`pg`: any permutation of its entries) and whatever the receiving group already holds (same paths are replaced) *)
  Theorem import_group_as_direct_add (render : entry -> str) (o1 o2 : list entry -> list entry) a g pg :
    (forall l, Permutation (o1 l) l) -> (forall l, Permutation (o2 l) l) ->
    NoDup (map fst g) -> Permutation pg g ->
    emit V render o1 (hm_extend V (hm_build V a) pg) = emit V render o2 (hm_build V (a ++ g)).
  Proof.
    intros H1 H2 Hg P.
    assert (Hpg : NoDup (map fst pg)) by (eapply Permutation_NoDup; [|exact Hg]; apply Permutation_map, Permutation_sym, P).
    assert (Eb : hm_build V (a ++ g) = hm_extend V (hm_build V a) g) by (unfold hm_build, hm_extend; apply fold_left_app).
    rewrite Eb.
    assert (D1 : NoDup (map fst (hm_extend V (hm_build V a) pg))) by (apply hm_extend_nodup, hm_build_nodup).
    assert (D2 : NoDup (map fst (hm_extend V (hm_build V a) g))) by (apply hm_extend_nodup, hm_build_nodup).
    unfold emit. f_equal. apply sort_order_independent.
    - eapply Permutation_NoDup; [|exact D1]. apply Permutation_map, Permutation_sym, H1.
    - rewrite H1, H2. apply hm_ext_perm; [exact D1 | exact D2|].
      intro k. rewrite (hm_get_extend k pg _ Hpg), (hm_get_extend k g _ Hg).
      assert (Eg : hm_get V k pg = hm_get V k g).
      { destruct (hm_get V k g) as [v|] eqn:E1.
        - apply (hm_get_in k v g Hg) in E1. apply (hm_get_in k v pg Hpg). eapply Permutation_in; [apply Permutation_sym, P | exact E1].
        - destruct (hm_get V k pg) as [v|] eqn:E2; [|reflexivity].
          apply (hm_get_in k v pg Hpg) in E2. assert (In (k, v) g) by (eapply Permutation_in; [exact P | exact E2]).
          apply (hm_get_in k v g Hg) in H. rewrite H in E1. discriminate. }
      rewrite Eg. reflexivity.
  Qed.
End G.

(* with emission in raw iteration order (the code before the repair) two iteration orders of a
   two-entry map give different outputs *)
Example unsorted_emission_refuted :
  let m := [([97], 1%N); ([98], 2%N)] in
  map (fun kv : str * N => fst kv) (id m) <> map (fun kv => fst kv) (rev m).
Proof. cbn. discriminate. Qed.
