(* C09 for WHOLE SHEETS: with no import sign and host conversion off, for every well-shaped token
   tree of every size and depth on which the specification finds every rule complete, the
   sequence of identifiers and sign comments of the normal output is exactly the specification's
   (CssSpec.expected): every identifier after a `.` in selector context - in qualified rules, in the
   blocks of at-rule preludes, at every depth of selector functions, inside every rule-bearing
   at-rule at every depth - is prefixed and signed, and no other identifier or comment is
   written.  Composition of the per-rule theorem (CssClassProofs.class_exact_rule) over rule
   splitting, at-rule preludes and nested rule lists, by induction on the fuel that the walker
   `rules` and the specification `rules_spec` consume in lockstep. *)
From GE Require Import Model.Str Model.CssNum Model.CssTok Model.CssOut Model.CssUrlEnc Model.Css Model.CssSpec.
From GE Require Import Proofs.CssOutProofs Proofs.CssWalkProofs Proofs.CssTokProofs Proofs.CssClassProofs.
From Coq Require Import Lia Bool.
Open Scope N_scope.

Lemma shaped_app_l : forall a b, shaped (a ++ b) = true -> shaped a = true.
Proof.
  induction a as [|x a IH]; intros b H; [reflexivity|]. cbn [app] in H.
  destruct (shaped_cons _ _ H) as [Hx Hr]. cbn [shaped]. rewrite Hx, (IH _ Hr). reflexivity.
Qed.

Lemma IExt_set_stack : forall X a b s, IExt X a b -> IExt X a (set_stack b s).
Proof. intros X a b s [A B]. split; [exact A | exact B]. Qed.

Lemma IExt_from_set_stack : forall X a b s, IExt X (set_stack a s) b -> IExt X a b.
Proof. intros X a b s [A B]. split; [exact A | exact B]. Qed.

(* ---------------------------------------------------------------- rules_spec, one step, with named branches *)

Definition q_this (o : opts) (chain : list (list etok)) (prelude : list node) (term : option node) : spec_out :=
  match term with
  | Some (Block _ _ body _ _) =>
      let decls := [mke GFree TCurly] ++ val_spec o false body None false ++ [mke GFree TCloseCurly] in
      match (if convert_host o then host_kind_of prelude else HostNone) with
      | HostPure => mkso [] (concat chain ++ host_selector o ++ decls
                             ++ repeat (mke GFree TCloseCurly) (length chain)) [] [] true
      | HostCombined => mkso [] [] [W_HOST] [] true
      | HostNone => mkso (sel_spec o false prelude true false false false ++ decls) [] [] [] true
      end
  | _ => mkso (sel_spec o false prelude true false false false) [] [] [] false
  end.

Definition q_branch (f : nat) (o : opts) (chain : list (list etok)) (l0 : list node) : spec_out :=
  let '(prelude, term, rest) := take_prelude false l0 in
  so_app (q_this o chain prelude term) (rules_spec f o chain rest false).

Definition at_this (f : nat) (o : opts) (chain : list (list etok)) (x : str) (prelude : list node)
                   (term : option node) (at_start : bool) : spec_out :=
  match (if str_eqb_ci x s_import then import_sign o else None) with
  | Some sign =>
      let w := if at_start then [] else [W_IMPORT_POS] in
      match import_spec o sign prelude, term with
      | Some toks, Some (Leaf TSemi _) =>
          mkso toks [] w [match spec_import_target prelude with Some (p, _) => p | None => [] end] true
      | Some toks, None =>
          mkso toks [] w [match spec_import_target prelude with Some (p, _) => p | None => [] end] true
      | _, _ => mkso [] [] w [] false
      end
  | None =>
      let head := [mke GFree (TAt x)] ++ at_prelude_spec o prelude in
      match term with
      | Some (Block _ _ body _ _) =>
          if ideal_contain x then
            let inner := rules_spec f o (chain ++ [head ++ [mke GFree TCurly]]) body false in
            mkso (head ++ [mke GFree TCurly] ++ so_normal inner ++ [mke GFree TCloseCurly])
                 (so_low inner) (so_warn inner) (so_paths inner) (so_complete inner)
          else
            mkso (head ++ [mke GFree TCurly] ++ val_spec o false body None false
                  ++ [mke GFree TCloseCurly]) [] [] [] true
      | Some (Leaf t _) => mkso (head ++ [mke GFree t]) [] [] [] true
      | None => mkso head [] [] [] false
      end
  end.

Definition at_branch (f : nat) (o : opts) (chain : list (list etok)) (x : str) (r : list node)
                     (at_start : bool) : spec_out :=
  let '(prelude, term, rest) := take_prelude true r in
  so_app (at_this f o chain x prelude term at_start)
         (rules_spec f o chain rest (at_start && (str_eqb_ci x s_import || str_eqb_ci x s_charset))).

Definition at_name (n : node) : option str := match n with Leaf (TAt x) _ => Some x | _ => None end.

Lemma rules_spec_S : forall f o chain l at_start,
  rules_spec (S f) o chain l at_start =
  match skip_ws l with
  | [] => so_empty
  | x :: r => match at_name x with
              | Some name => at_branch f o chain name r at_start
              | None => q_branch f o chain (x :: r)
              end
  end.
Proof.
  intros. cbn [rules_spec]. destruct (skip_ws l) as [|x r]; [reflexivity|].
  destruct x as [t p|? ? ? ? ?]; [destruct t|]; reflexivity.
Qed.

(* ---------------------------------------------------------------- the specification does not depend on
   the wrapper chain / start flag as far as the normal output and completeness go *)

Lemma spec_normal_irrel : forall f o c1 c2 l a1 a2,
  so_normal (rules_spec f o c1 l a1) = so_normal (rules_spec f o c2 l a2) /\
  so_complete (rules_spec f o c1 l a1) = so_complete (rules_spec f o c2 l a2).
Proof.
  induction f as [|f IH]; intros o c1 c2 l a1 a2; [split; reflexivity|].
  rewrite !rules_spec_S. destruct (skip_ws l) as [|x r]; [split; reflexivity|].
  destruct (at_name x) as [s|].
  - unfold at_branch. destruct (take_prelude true r) as [[prelude term] rest].
    destruct (IH o c1 c2 rest (a1 && (str_eqb_ci s s_import || str_eqb_ci s s_charset))
                 (a2 && (str_eqb_ci s s_import || str_eqb_ci s s_charset))) as [A B].
    cbn [so_app so_normal so_complete]. rewrite A, B.
    unfold at_this.
    destruct (if str_eqb_ci s s_import then import_sign o else None) as [sign|].
    + destruct (import_spec o sign prelude) as [toks|]; destruct term as [[tt tp|? ? ? ? ?]|];
        try (destruct tt); destruct a1; destruct a2; split; reflexivity.
    + destruct term as [[tt tp|bo bp bb be bc]|]; try (split; reflexivity).
      destruct (ideal_contain s); [|split; reflexivity].
      destruct (IH o (c1 ++ [([mke GFree (TAt s)] ++ at_prelude_spec o prelude) ++ [mke GFree TCurly]])
                   (c2 ++ [([mke GFree (TAt s)] ++ at_prelude_spec o prelude) ++ [mke GFree TCurly]]) bb false false) as [C D].
      cbn [so_normal so_complete]. rewrite C, D. split; reflexivity.
  - unfold q_branch. destruct (take_prelude false (x :: r)) as [[prelude term] rest].
    destruct (IH o c1 c2 rest false false) as [A B].
    cbn [so_app so_normal so_complete]. rewrite A, B. unfold q_this.
    destruct term as [[?|? ? ? ? ?]|]; try (split; reflexivity).
    destruct (if convert_host o then host_kind_of prelude else HostNone); split; reflexivity.
Qed.

Definition N (f : nat) (o : opts) (l : list node) : list etok := so_normal (rules_spec f o [] l false).
Definition Cpl (f : nat) (o : opts) (l : list node) : bool := so_complete (rules_spec f o [] l false).

(* ---------------------------------------------------------------- rule splitting *)

Lemma take_prelude_false_spec : forall l prelude term rest,
  take_prelude false l = (prelude, term, rest) ->
  match term with
  | Some (Block TCurly pb body e c) => l = prelude ++ Block TCurly pb body e c :: rest /\ no_curly prelude = true
  | Some _ => False
  | None => True
  end.
Proof.
  induction l as [|x r IH]; intros prelude term rest E; [inversion E; exact I|].
  cbn [take_prelude] in E.
  destruct (take_prelude false r) as [[p' t'] rest'] eqn:Er.
  specialize (IH p' t' rest' eq_refl).
  assert (Go : forall y, y = x -> no_curly [y] = true -> (y :: p', t', rest') = (prelude, term, rest) ->
               match term with
               | Some (Block TCurly pb body e c) => x :: r = prelude ++ Block TCurly pb body e c :: rest /\ no_curly prelude = true
               | Some _ => False
               | None => True
               end).
  { intros y -> Hx E'. inversion E'; subst. destruct term as [[?|bo ? ? ? ?]|]; try exact IH.
    destruct bo; try exact IH. destruct IH as [A B]. split; [cbn [app]; rewrite A; reflexivity|].
    destruct x as [?|xo ? ? ? ?]; [exact B|]. destruct xo; try exact B. discriminate Hx. }
  destruct x as [t p|open p body e c].
  - destruct t; apply (Go _ eq_refl); solve [exact E | reflexivity].
  - destruct open; try (apply (Go _ eq_refl); solve [exact E | reflexivity]).
    inversion E; subst. split; reflexivity.
Qed.

Lemma take_prelude_suffix : forall b l prelude term rest,
  take_prelude b l = (prelude, term, rest) -> exists pre, l = pre ++ rest.
Proof.
  induction l as [|x r IH]; intros prelude term rest E; [inversion E; exists []; reflexivity|].
  cbn [take_prelude] in E.
  destruct (take_prelude b r) as [[p' t'] rest'] eqn:Er.
  destruct (IH p' t' rest' eq_refl) as [pre Hp].
  assert (Go : (x :: p', t', rest') = (prelude, term, rest) -> exists pre0, x :: r = pre0 ++ rest).
  { intro E'. inversion E'; subst. exists (x :: pre). reflexivity. }
  destruct x as [t p|open p body e c].
  - destruct t; try (apply Go; exact E).
    destruct b; [inversion E; subst; exists [Leaf TSemi p]; reflexivity | apply Go; exact E].
  - destruct open; try (apply Go; exact E). inversion E; subst. exists [Block TCurly p body e c]. reflexivity.
Qed.

Lemma take_prelude_rest_shaped : forall b l prelude term rest,
  shaped l = true -> take_prelude b l = (prelude, term, rest) -> shaped rest = true.
Proof.
  intros b l prelude term rest Hs E. destruct (take_prelude_suffix _ _ _ _ _ E) as [pre ->].
  apply (shaped_app _ _ Hs).
Qed.

(* what the terminator of an at-rule contributes *)
Definition term_spec (o : opts) (contain : bool) (inner : list node -> list etok) (tm : node) : list etok :=
  match tm with
  | Block _ _ body _ _ =>
      [mke GFree TCurly] ++ (if contain then inner body else val_spec o false body None false) ++ [mke GFree TCloseCurly]
  | Leaf t _ => [mke GFree t]
  end.

Lemma at_prelude_spec_cons : forall o x r, at_prelude_spec o (x :: r) = at_prelude_spec o [x] ++ at_prelude_spec o r.
Proof.
  intros. cbn [at_prelude_spec]. destruct (is_ws_or_comment (node_tok x)); [reflexivity|].
  rewrite app_nil_r. reflexivity.
Qed.

Section AtPrelude.
Variables (o : opts) (rec : list node -> pos -> wstate -> wstate) (contain : bool) (mark : nat * nat).
Variable inner : list node -> list etok.
Variable good : list node -> Prop.
Hypothesis Hrec : forall body be s, shaped body = true -> good body -> IExt (eidc (inner body)) s (rec body be s).

Lemma at_prelude_vs_spec : forall l st prelude tm rest,
  shaped l = true ->
  take_prelude true l = (prelude, Some tm, rest) ->
  (forall t p body e c, tm = Block t p body e c -> contain = true -> good body) ->
  fst (at_prelude o rec contain mark l st) = rest /\
  IExt (eidc (at_prelude_spec o prelude ++ term_spec o contain inner tm)) st
       (snd (at_prelude o rec contain mark l st)).
Proof.
  induction l as [|x r IH]; intros st prelude tm rest Hs E Hg; [discriminate E|].
  destruct (shaped_cons _ _ Hs) as [Hsx Hsr].
  cbn [take_prelude] in E. cbn [at_prelude].
  destruct (take_prelude true r) as [[p' t'] rest'] eqn:Er.
  (* the token is passed on to the rest of the prelude *)
  assert (Go : forall st1 X,
             (prelude, Some tm, rest) = (x :: p', t', rest') ->
             IExt X st st1 -> eidc (at_prelude_spec o [x]) = X ->
             fst (at_prelude o rec contain mark r st1) = rest /\
             IExt (eidc (at_prelude_spec o prelude ++ term_spec o contain inner tm)) st
                  (snd (at_prelude o rec contain mark r st1))).
  { intros st1 X E' HX EX. inversion E'; subst.
    destruct (IH st1 p' tm rest' Hsr eq_refl Hg) as [A B]. split; [exact A|].
    eapply IExt_eq; [eapply IExt_trans; [exact HX | exact B]|].
    rewrite (at_prelude_spec_cons o x p'), !eidc_app, app_assoc. reflexivity. }
  destruct (is_ws_or_comment (node_tok x)) eqn:Ew.
  { (* whitespace and comments: skipped by both *)
    destruct x as [t p|open p body e c].
    - destruct t; try discriminate Ew; (eapply Go; [symmetry; exact E | apply IExt_refl | cbn [at_prelude_spec node_tok is_ws_or_comment]; reflexivity]).
    - destruct (shaped_blk _ _ _ _ _ _ Hs) as [Ho _]. destruct (open_ok_not_wsc _ Ho) as [Hc _].
      cbn [node_tok] in Ew. rewrite Hc in Ew. discriminate. }
  destruct x as [t p|open p body e c].
  - destruct t; try discriminate Ew;
      try (eapply Go; [symmetry; exact E | apply IExt_tok_at
                      | cbn [at_prelude_spec node_tok is_ws_or_comment]; rewrite app_nil_r; reflexivity]).
    + (* a dimension: converted or not, no identifier *)
      eapply Go; [symmetry; exact E | apply IExt_tok_at|].
      cbn [at_prelude_spec node_tok is_ws_or_comment]. rewrite app_nil_r, eidc_rpx_tok. reflexivity.
    + (* `;` ends the rule *)
      inversion E; subst. cbn [fst snd app at_prelude_spec term_spec]. split; [reflexivity|]. apply IExt_tok_at.
  - destruct (shaped_blk _ _ _ _ _ _ Hs) as [Ho [Hsb _]].
    assert (Blk : forall T, T = open -> is_curly T = false ->
              (prelude, Some tm, rest) = (Block T p body e c :: p', t', rest') ->
              fst (at_prelude o rec contain mark r
                     (tok_at (cn_body o body true false false (tok_at st T p None)) (close_of T) p None)) = rest /\
              IExt (eidc (at_prelude_spec o prelude ++ term_spec o contain inner tm)) st
                   (snd (at_prelude o rec contain mark r
                     (tok_at (cn_body o body true false false (tok_at st T p None)) (close_of T) p None)))).
    { intros T ET HT E'. subst T.
      eapply Go; [exact E' | | cbn [at_prelude_spec]; rewrite Ew, app_nil_r; reflexivity].
      rewrite !eidc_app.
      eapply IExt_trans; [apply IExt_tok_at|]. eapply IExt_trans; [|apply IExt_tok_at].
      unfold sel_spec. apply IExt_cn_body; [exact Hsb | reflexivity]. }
    destruct open; try discriminate Ho;
      try (apply Blk; [reflexivity | reflexivity | symmetry; exact E]).
    (* the `{}` block ends the rule *)
    inversion E; subst. cbn [fst snd at_prelude_spec term_spec]. split; [reflexivity|].
    apply IExt_set_stack. apply (IExt_from_set_stack _ st _ (w_stack st ++ [segment_since (cur_out st) mark])).
    rewrite !eidc_app. change (eidc []) with (@nil tok). cbn [app].
    eapply IExt_trans; [apply IExt_tok_at|]. eapply IExt_trans; [|apply IExt_tok_at].
    destruct contain.
    + apply Hrec; [exact Hsb | eapply Hg; reflexivity].
    + unfold val_spec. apply IExt_rpx_body. exact Hsb.
Qed.
End AtPrelude.

(* ---------------------------------------------------------------- whole sheets *)

Lemma contain_same : forall x, contain_rule_list x = ideal_contain x.
Proof. reflexivity. Qed.

Lemma skip_ws_idem : forall l, skip_ws (skip_ws l) = skip_ws l.
Proof.
  induction l as [|y l IH]; [reflexivity|]. cbn [skip_ws].
  destruct (is_ws_or_comment (node_tok y)) eqn:E; [exact IH | cbn [skip_ws]; rewrite E; reflexivity].
Qed.

Theorem class_exact_rules : forall f o l endp at_start st,
  shaped l = true -> import_sign o = None -> convert_host o = false ->
  Cpl f o l = true ->
  IExt (eidc (N f o l)) st (rules f o l endp at_start st).
Proof.
  induction f as [|f IH]; intros o l endp at_start st Hs Hi Hh Hc; [discriminate Hc|].
  unfold N, Cpl in *. rewrite rules_spec_S in *. cbn [rules].
  pose proof (skip_ws_shaped l Hs) as Hsl.
  pose proof (skip_ws_idem l) as Hid.
  destruct (skip_ws l) as [|x r]; [apply IExt_refl|].
  destruct (at_name x) as [s|] eqn:En.
  - (* an at-rule *)
    destruct x as [t p|? ? ? ? ?]; [|discriminate En]. destruct t; try discriminate En.
    inversion En; subst s0. clear En.
    unfold at_branch in *.
    destruct (take_prelude true r) as [[prelude term] rest] eqn:Et.
    unfold at_rule. rewrite Hi in *. unfold at_this in *. rewrite Hi in *.
    replace (if str_eqb_ci s s_import then @None str else None) with (@None str) in * by (destruct (str_eqb_ci s s_import); reflexivity).
    destruct (shaped_cons _ _ Hsl) as [_ Hsr].
    cbn [so_app so_normal so_complete] in *. apply andb_prop in Hc. destruct Hc as [Hc1 Hc2].
    destruct term as [tm|]; [|discriminate Hc1].
    set (inner := fun body => so_normal (rules_spec f o [] body false)).
    set (good := fun body => so_complete (rules_spec f o [] body false) = true).
    assert (Hrec : forall body be s0, shaped body = true -> good body ->
                   IExt (eidc (inner body)) s0 ((fun body be s => rules f o body be false s) body be s0)).
    { intros body be s0 Hb Hg. apply IH; [exact Hb | exact Hi | exact Hh | exact Hg]. }
    assert (Hg : forall t0 p0 body e c, tm = Block t0 p0 body e c -> contain_rule_list s = true -> good body).
    { intros t0 p0 body e c -> Hcon. unfold good. rewrite contain_same in Hcon. rewrite Hcon in Hc1.
      cbn [so_complete] in Hc1.
      rewrite <- Hc1. apply (proj2 (spec_normal_irrel _ _ _ _ _ _ _)). }
    destruct (at_prelude_vs_spec o _ (contain_rule_list s) (o_mark (cur_out st)) inner good Hrec
                r (tok_at st (TAt s) p None) prelude tm rest Hsr Et Hg) as [A B].
    destruct (at_prelude o (fun body be s0 => rules f o body be false s0) (contain_rule_list s)
                (o_mark (cur_out st)) r (tok_at st (TAt s) p None)) as [rest0 st'].
    cbn [fst snd] in A, B. subst rest0.
    rewrite eidc_app.
    eapply IExt_trans; [|apply IH; [| exact Hi | exact Hh |]].
    + eapply IExt_eq; [eapply IExt_trans; [apply (IExt_tok_at st (TAt s))|exact B]|].
      rewrite contain_same. unfold term_spec, inner.
      destruct tm as [tt tp|bo bp bb be bc]; cbn [so_normal].
      * rewrite !eidc_app, <- !app_assoc. reflexivity.
      * destruct (ideal_contain s); cbn [so_normal].
        -- match goal with |- context [so_normal (rules_spec f o (?A ++ ?B) bb false)] =>
             rewrite (proj1 (spec_normal_irrel f o (A ++ B) [] bb false false)) end.
           rewrite !eidc_app, <- !app_assoc. reflexivity.
        -- rewrite !eidc_app, <- !app_assoc. reflexivity.
    + exact (take_prelude_rest_shaped true r prelude (Some tm) rest Hsr Et).
    + rewrite <- Hc2. apply (proj2 (spec_normal_irrel _ _ _ _ _ _ _)).
  - (* a qualified rule *)
    assert (Ea : at_rule o (fun body be s => rules f o body be false s) (x :: r) endp at_start st = None).
    { unfold at_rule. destruct x as [t p|? ? ? ? ?]; [|reflexivity]. destruct t; try reflexivity. discriminate En. }
    rewrite Ea. unfold q_branch in *.
    destruct (take_prelude false (x :: r)) as [[prelude term] rest] eqn:Et.
    pose proof (take_prelude_false_spec _ _ _ _ Et) as T.
    unfold q_this in *. rewrite Hh in *.
    destruct term as [[tt tp|bo bp bb be bc]|];
      [contradiction | | cbn [so_app so_complete andb] in Hc; discriminate Hc].
    destruct bo; try contradiction. destruct T as [El Hn].
    cbn [so_app so_normal so_complete andb] in *.
    unfold qrule, qr_main. rewrite Hh, Hid, El.
    pose proof Hsl as Hsl'. rewrite El in Hsl'.
    pose proof (shaped_app_l _ _ Hsl') as Hsp.
    destruct (shaped_blk _ _ _ _ _ _ (shaped_app _ _ Hsl')) as [_ [Hsb Hsr]].
    destruct (class_exact_rule o prelude bp bb be bc rest false false st true false false Hsp Hsb Hn) as [A B].
    destruct (qr_loop o (prelude ++ Block TCurly bp bb be bc :: rest) false false st) as [rest0 st'].
    cbn [fst snd] in A, B. subst rest0.
    rewrite eidc_app. eapply IExt_trans; [exact B|].
    apply IH; [exact Hsr | exact Hi | exact Hh | exact Hc].
Qed.

(* the pinned form *)
Theorem class_exact_sheet : forall o tree endp,
  shaped tree = true -> import_sign o = None -> convert_host o = false ->
  so_complete (expected o tree) = true ->
  idc (o_tokens (w_normal (transform o tree endp))) = idc (map e_tok (so_normal (expected o tree))).
Proof.
  intros o tree endp Hs Hi Hh Hc. unfold transform, expected in *.
  rewrite (proj2 (spec_normal_irrel _ o [] [] tree true false)) in Hc.
  destruct (class_exact_rules (S (nodes_size tree)) o tree endp true w_init Hs Hi Hh Hc) as [U E].
  unfold iout, cur_out in E. rewrite U in E. cbn [w_init w_using_low w_normal] in E.
  change (idc (o_tokens o_init)) with (@nil tok) in E. cbn [app] in E.
  rewrite E. unfold N, eidc. rewrite (proj1 (spec_normal_irrel _ o [] [] tree false true)). reflexivity.
Qed.
