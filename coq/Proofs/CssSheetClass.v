(* C09 for WHOLE SHEETS and EVERY option set (import sign and host conversion included), for every
   well-shaped token tree of every size and depth on which the specification finds every rule complete, the
   sequence of identifiers and sign comments of the normal output is exactly the specification's
   (CssSpec.expected): every identifier after a `.` in selector context - in qualified rules, in the
   blocks of at-rule preludes, at every depth of selector functions, inside every rule-bearing
   at-rule at every depth - is prefixed and signed, and no other identifier or comment is
   written.  Composition of the per-rule theorem (CssClassProofs.class_exact_rule) over rule
   splitting, at-rule preludes and nested rule lists, by induction on the fuel that the walker
   `rules` and the specification `rules_spec` consume in lockstep. *)
From GE Require Import Model.Str Model.CssNum Model.CssTok Model.CssOut Model.CssUrlEnc Model.Css Model.CssSpec.
From GE Require Import Proofs.CssOutProofs Proofs.CssWalkProofs Proofs.CssTokProofs Proofs.CssClassProofs.
From GE Require Proofs.CssRuleProofs Proofs.CssHostSpec.
From Coq Require Import Lia Bool.
Open Scope N_scope.

Lemma shaped_app_l : forall a b, shaped (a ++ b) = true -> shaped a = true.
Proof.
  induction a as [|x a IH]; intros b H; [reflexivity|]. cbn [app] in H.
  destruct (shaped_cons _ _ H) as [Hx Hr]. cbn [shaped]. rewrite Hx, (IH _ Hr). reflexivity.
Qed.

Lemma IExt_set_stack : forall X a b s, IExt X a b -> IExt X a (set_stack b s).
Proof. intros X a b s [A B]. split; [exact A | exact B]. Qed.

Lemma IExt_from_set_stack : forall X a b s, IExt X (set_stack a s) b -> IExt X a b.
Proof. intros X a b s [A B]. split; [exact A | exact B]. Qed.

(* ---------------------------------------------------------------- rules_spec, one step, with named branches *)

Definition q_this (o : opts) (chain : list (list etok)) (prelude : list node) (term : option node) : spec_out :=
  match term with
  | Some (Block _ _ body _ _) =>
      let decls := [mke GFree TCurly] ++ val_spec o false body None false ++ [mke GFree TCloseCurly] in
      match (if convert_host o then host_kind_of prelude else HostNone) with
      | HostPure => mkso [] (concat chain ++ host_selector o ++ decls
                             ++ repeat (mke GFree TCloseCurly) (length chain)) [] [] true
      | HostCombined => mkso [] [] [W_HOST] [] true
      | HostNone => mkso (sel_spec o false prelude true false false false ++ decls) [] [] [] true
      end
  | _ => mkso (sel_spec o false prelude true false false false) [] [] [] false
  end.

Definition q_branch (f : nat) (o : opts) (chain : list (list etok)) (l0 : list node) : spec_out :=
  let '(prelude, term, rest) := take_prelude false l0 in
  so_app (q_this o chain prelude term) (rules_spec f o chain rest false).

Definition at_this (f : nat) (o : opts) (chain : list (list etok)) (x : str) (prelude : list node)
                   (term : option node) (at_start : bool) : spec_out :=
  match (if str_eqb_ci x s_import then import_sign o else None) with
  | Some sign =>
      let w := if at_start then [] else [W_IMPORT_POS] in
      match import_spec o sign prelude, term with
      | Some toks, Some (Leaf TSemi _) =>
          mkso toks [] w [match spec_import_target prelude with Some (p, _) => p | None => [] end] true
      | Some toks, None =>
          mkso toks [] w [match spec_import_target prelude with Some (p, _) => p | None => [] end] true
      | _, _ => mkso [] [] w [] false
      end
  | None =>
      let head := [mke GFree (TAt x)] ++ at_prelude_spec o true prelude in
      match term with
      | Some (Block _ _ body _ _) =>
          if ideal_contain x then
            let inner := rules_spec f o (chain ++ [head ++ [mke GFree TCurly]]) body false in
            mkso (head ++ [mke GFree TCurly] ++ so_normal inner ++ [mke GFree TCloseCurly])
                 (so_low inner) (so_warn inner) (so_paths inner) (so_complete inner)
          else
            mkso (head ++ [mke GFree TCurly] ++ val_spec o false body None false
                  ++ [mke GFree TCloseCurly]) [] [] [] true
      | Some (Leaf t _) => mkso (head ++ [mke GFree t]) [] [] [] true
      | None => mkso head [] [] [] false
      end
  end.

Definition at_branch (f : nat) (o : opts) (chain : list (list etok)) (x : str) (r : list node)
                     (at_start : bool) : spec_out :=
  let '(prelude, term, rest) := take_prelude true r in
  so_app (at_this f o chain x prelude term at_start)
         (rules_spec f o chain rest (at_start && (str_eqb_ci x s_import || str_eqb_ci x s_charset))).

Definition at_name (n : node) : option str := match n with Leaf (TAt x) _ => Some x | _ => None end.

Lemma rules_spec_S : forall f o chain l at_start,
  rules_spec (S f) o chain l at_start =
  match skip_ws l with
  | [] => so_empty
  | x :: r => match at_name x with
              | Some name => at_branch f o chain name r at_start
              | None => q_branch f o chain (x :: r)
              end
  end.
Proof.
  intros. cbn [rules_spec]. destruct (skip_ws l) as [|x r]; [reflexivity|].
  destruct x as [t p|? ? ? ? ?]; [destruct t|]; reflexivity.
Qed.

(* ---------------------------------------------------------------- the specification does not depend on
   the wrapper chain / start flag as far as the normal output and completeness go *)

Lemma spec_normal_irrel : forall f o c1 c2 l a1 a2,
  so_normal (rules_spec f o c1 l a1) = so_normal (rules_spec f o c2 l a2) /\
  so_complete (rules_spec f o c1 l a1) = so_complete (rules_spec f o c2 l a2).
Proof.
  induction f as [|f IH]; intros o c1 c2 l a1 a2; [split; reflexivity|].
  rewrite !rules_spec_S. destruct (skip_ws l) as [|x r]; [split; reflexivity|].
  destruct (at_name x) as [s|].
  - unfold at_branch. destruct (take_prelude true r) as [[prelude term] rest].
    destruct (IH o c1 c2 rest (a1 && (str_eqb_ci s s_import || str_eqb_ci s s_charset))
                 (a2 && (str_eqb_ci s s_import || str_eqb_ci s s_charset))) as [A B].
    cbn [so_app so_normal so_complete]. rewrite A, B.
    unfold at_this.
    destruct (if str_eqb_ci s s_import then import_sign o else None) as [sign|].
    + destruct (import_spec o sign prelude) as [toks|]; destruct term as [[tt tp|? ? ? ? ?]|];
        try (destruct tt); destruct a1; destruct a2; split; reflexivity.
    + destruct term as [[tt tp|bo bp bb be bc]|]; try (split; reflexivity).
      destruct (ideal_contain s); [|split; reflexivity].
      destruct (IH o (c1 ++ [([mke GFree (TAt s)] ++ at_prelude_spec o true prelude) ++ [mke GFree TCurly]])
                   (c2 ++ [([mke GFree (TAt s)] ++ at_prelude_spec o true prelude) ++ [mke GFree TCurly]]) bb false false) as [C D].
      cbn [so_normal so_complete]. rewrite C, D. split; reflexivity.
  - unfold q_branch. destruct (take_prelude false (x :: r)) as [[prelude term] rest].
    destruct (IH o c1 c2 rest false false) as [A B].
    cbn [so_app so_normal so_complete]. rewrite A, B. unfold q_this.
    destruct term as [[?|? ? ? ? ?]|]; try (split; reflexivity).
    destruct (if convert_host o then host_kind_of prelude else HostNone); split; reflexivity.
Qed.

Definition N (f : nat) (o : opts) (l : list node) : list etok := so_normal (rules_spec f o [] l false).
Definition Cpl (f : nat) (o : opts) (l : list node) : bool := so_complete (rules_spec f o [] l false).

(* ---------------------------------------------------------------- rule splitting *)

Lemma take_prelude_false_spec : forall l prelude term rest,
  take_prelude false l = (prelude, term, rest) ->
  match term with
  | Some (Block TCurly pb body e c) => l = prelude ++ Block TCurly pb body e c :: rest /\ no_curly prelude = true
  | Some _ => False
  | None => True
  end.
Proof.
  induction l as [|x r IH]; intros prelude term rest E; [inversion E; exact I|].
  cbn [take_prelude] in E.
  destruct (take_prelude false r) as [[p' t'] rest'] eqn:Er.
  specialize (IH p' t' rest' eq_refl).
  assert (Go : forall y, y = x -> no_curly [y] = true -> (y :: p', t', rest') = (prelude, term, rest) ->
               match term with
               | Some (Block TCurly pb body e c) => x :: r = prelude ++ Block TCurly pb body e c :: rest /\ no_curly prelude = true
               | Some _ => False
               | None => True
               end).
  { intros y -> Hx E'. inversion E'; subst. destruct term as [[?|bo ? ? ? ?]|]; try exact IH.
    destruct bo; try exact IH. destruct IH as [A B]. split; [cbn [app]; rewrite A; reflexivity|].
    destruct x as [?|xo ? ? ? ?]; [exact B|]. destruct xo; try exact B. discriminate Hx. }
  destruct x as [t p|open p body e c].
  - destruct t; apply (Go _ eq_refl); solve [exact E | reflexivity].
  - destruct open; try (apply (Go _ eq_refl); solve [exact E | reflexivity]).
    inversion E; subst. split; reflexivity.
Qed.

Lemma take_prelude_suffix : forall b l prelude term rest,
  take_prelude b l = (prelude, term, rest) -> exists pre, l = pre ++ rest.
Proof.
  induction l as [|x r IH]; intros prelude term rest E; [inversion E; exists []; reflexivity|].
  cbn [take_prelude] in E.
  destruct (take_prelude b r) as [[p' t'] rest'] eqn:Er.
  destruct (IH p' t' rest' eq_refl) as [pre Hp].
  assert (Go : (x :: p', t', rest') = (prelude, term, rest) -> exists pre0, x :: r = pre0 ++ rest).
  { intro E'. inversion E'; subst. exists (x :: pre). reflexivity. }
  destruct x as [t p|open p body e c].
  - destruct t; try (apply Go; exact E).
    destruct b; [inversion E; subst; exists [Leaf TSemi p]; reflexivity | apply Go; exact E].
  - destruct open; try (apply Go; exact E). inversion E; subst. exists [Block TCurly p body e c]. reflexivity.
Qed.

Lemma take_prelude_rest_shaped : forall b l prelude term rest,
  shaped l = true -> take_prelude b l = (prelude, term, rest) -> shaped rest = true.
Proof.
  intros b l prelude term rest Hs E. destruct (take_prelude_suffix _ _ _ _ _ E) as [pre ->].
  apply (shaped_app _ _ Hs).
Qed.

(* what the terminator of an at-rule contributes *)
Definition term_spec (o : opts) (contain : bool) (inner : list node -> list etok) (tm : node) : list etok :=
  match tm with
  | Block _ _ body _ _ =>
      [mke GFree TCurly] ++ (if contain then inner body else val_spec o false body None false) ++ [mke GFree TCloseCurly]
  | Leaf t _ => [mke GFree t]
  end.

Lemma at_prelude_spec_cons : forall o lay x r, at_prelude_spec o lay (x :: r) = at_prelude_spec o lay [x] ++ at_prelude_spec o lay r.
Proof.
  intros. cbn [at_prelude_spec]. destruct (is_ws_or_comment (node_tok x)); [reflexivity|].
  rewrite app_nil_r. reflexivity.
Qed.

Section AtPrelude.
Variables (o : opts) (rec : list node -> pos -> wstate -> wstate) (contain : bool) (mark : nat * nat).
Variable inner : list node -> list etok.
Variable good : list node -> Prop.
Hypothesis Hrec : forall body be s, shaped body = true -> good body -> w_using_low s = false ->
  IExt (eidc (inner body)) s (rec body be s).

Lemma at_prelude_vs_spec : forall l st prelude tm rest,
  shaped l = true -> w_using_low st = false ->
  take_prelude true l = (prelude, Some tm, rest) ->
  (forall t p body e c, tm = Block t p body e c -> contain = true -> good body) ->
  fst (at_prelude o rec contain mark l st) = rest /\
  IExt (eidc (at_prelude_spec o true prelude ++ term_spec o contain inner tm)) st
       (snd (at_prelude o rec contain mark l st)).
Proof.
  induction l as [|x r IH]; intros st prelude tm rest Hs Hu E Hg; [discriminate E|].
  destruct (shaped_cons _ _ Hs) as [Hsx Hsr].
  cbn [take_prelude] in E. cbn [at_prelude].
  destruct (take_prelude true r) as [[p' t'] rest'] eqn:Er.
  (* the token is passed on to the rest of the prelude *)
  assert (Go : forall st1 X,
             (prelude, Some tm, rest) = (x :: p', t', rest') ->
             IExt X st st1 -> eidc (at_prelude_spec o true [x]) = X ->
             fst (at_prelude o rec contain mark r st1) = rest /\
             IExt (eidc (at_prelude_spec o true prelude ++ term_spec o contain inner tm)) st
                  (snd (at_prelude o rec contain mark r st1))).
  { intros st1 X E' HX EX. inversion E'; subst.
    assert (Hu1 : w_using_low st1 = false) by (rewrite (proj1 HX); exact Hu).
    destruct (IH st1 p' tm rest' Hsr Hu1 eq_refl Hg) as [A B]. split; [exact A|].
    eapply IExt_eq; [eapply IExt_trans; [exact HX | exact B]|].
    rewrite (at_prelude_spec_cons o true x p'), !eidc_app, app_assoc. reflexivity. }
  destruct (is_ws_or_comment (node_tok x)) eqn:Ew.
  { (* whitespace and comments: skipped by both *)
    destruct x as [t p|open p body e c].
    - destruct t; try discriminate Ew; (eapply Go; [symmetry; exact E | apply IExt_refl | cbn [at_prelude_spec node_tok is_ws_or_comment]; reflexivity]).
    - destruct (shaped_blk _ _ _ _ _ _ Hs) as [Ho _]. destruct (open_ok_not_wsc _ Ho) as [Hc _].
      cbn [node_tok] in Ew. rewrite Hc in Ew. discriminate. }
  destruct x as [t p|open p body e c].
  - destruct t; try discriminate Ew;
      try (eapply Go; [symmetry; exact E | apply IExt_tok_at
                      | cbn [at_prelude_spec node_tok is_ws_or_comment]; rewrite app_nil_r; reflexivity]).
    + (* a dimension: converted or not, no identifier *)
      eapply Go; [symmetry; exact E | apply IExt_tok_at|].
      cbn [at_prelude_spec node_tok is_ws_or_comment]. rewrite app_nil_r, eidc_rpx_tok. reflexivity.
    + (* `;` ends the rule *)
      inversion E; subst. cbn [fst snd app at_prelude_spec term_spec]. split; [reflexivity|]. apply IExt_tok_at.
  - destruct (shaped_blk _ _ _ _ _ _ Hs) as [Ho [Hsb _]].
    assert (Blk : forall T, T = open -> is_curly T = false ->
              (prelude, Some tm, rest) = (Block T p body e c :: p', t', rest') ->
              fst (at_prelude o rec contain mark r
                     (tok_at (if is_layer_fn T then rpx_body o false body None (tok_at st T p None)
                              else cn_body o body true false false (tok_at st T p None)) (close_of T) p None)) = rest /\
              IExt (eidc (at_prelude_spec o true prelude ++ term_spec o contain inner tm)) st
                   (snd (at_prelude o rec contain mark r
                     (tok_at (if is_layer_fn T then rpx_body o false body None (tok_at st T p None)
                              else cn_body o body true false false (tok_at st T p None)) (close_of T) p None)))).
    { intros T ET HT E'. subst T.
      eapply Go; [exact E' | | cbn [at_prelude_spec]; rewrite Ew, app_nil_r; reflexivity].
      rewrite !eidc_app. cbn [andb].
      eapply IExt_trans; [apply IExt_tok_at|]. eapply IExt_trans; [|apply IExt_tok_at].
      destruct (is_layer_fn open).
      - unfold val_spec. apply IExt_rpx_body. exact Hsb.
      - unfold sel_spec. apply IExt_cn_body; [exact Hsb | reflexivity]. }
    destruct open; try discriminate Ho;
      try (apply Blk; [reflexivity | reflexivity | symmetry; exact E]).
    (* the `{}` block ends the rule *)
    inversion E; subst. cbn [fst snd at_prelude_spec term_spec]. split; [reflexivity|].
    apply IExt_set_stack. apply (IExt_from_set_stack _ st _ (w_stack st ++ [segment_since (cur_out st) mark])).
    rewrite !eidc_app. change (eidc []) with (@nil tok). cbn [app].
    eapply IExt_trans; [apply IExt_tok_at|]. eapply IExt_trans; [|apply IExt_tok_at].
    destruct contain.
    + apply Hrec; [exact Hsb | eapply Hg; reflexivity|].
      rewrite (proj1 (IExt_tok_at _ TCurly p None)). exact Hu.
    + unfold val_spec. apply IExt_rpx_body. exact Hsb.
Qed.
End AtPrelude.

(* ---------------------------------------------------------------- @import with a sign *)

(* a prelude of an at-rule: no `{}` block and no `;` at its top level *)
Fixpoint no_term (l : list node) : bool :=
  match l with
  | [] => true
  | Block TCurly _ _ _ _ :: _ => false
  | Leaf TSemi _ :: _ => false
  | _ :: r => no_term r
  end.

Lemma no_term_cons : forall x r, no_term (x :: r) = true -> no_term r = true.
Proof.
  intros x r H. destruct x as [t p|open p b e c]; cbn [no_term] in H.
  - destruct t; try exact H; discriminate.
  - destruct open; try exact H; discriminate.
Qed.

Lemma take_prelude_true_spec : forall l prelude term rest,
  take_prelude true l = (prelude, term, rest) ->
  no_term prelude = true /\
  match term with
  | Some (Block TCurly pb body e c) => l = prelude ++ Block TCurly pb body e c :: rest
  | Some (Leaf TSemi ps) => l = prelude ++ Leaf TSemi ps :: rest
  | Some _ => False
  | None => l = prelude /\ rest = []
  end.
Proof.
  induction l as [|x r IH]; intros prelude term rest E; [inversion E; split; [reflexivity | split; reflexivity]|].
  cbn [take_prelude] in E.
  destruct (take_prelude true r) as [[p' t'] rest'] eqn:Er.
  destruct (IH p' t' rest' eq_refl) as [Hn Hm].
  assert (Go : no_term [x] = true -> (x :: p', t', rest') = (prelude, term, rest) ->
               no_term prelude = true /\
               match term with
               | Some (Block TCurly pb body e c) => x :: r = prelude ++ Block TCurly pb body e c :: rest
               | Some (Leaf TSemi ps) => x :: r = prelude ++ Leaf TSemi ps :: rest
               | Some _ => False
               | None => x :: r = prelude /\ rest = []
               end).
  { intros Hx E'. inversion E'; subst. split.
    - destruct x as [t p|xo p b e c]; cbn [no_term] in *; [destruct t; try exact Hn; discriminate Hx | destruct xo; try exact Hn; discriminate Hx].
    - destruct term as [[tt tp|bo bp bb be bc]|].
      + destruct tt; try exact Hm. cbn [app]. rewrite Hm. reflexivity.
      + destruct bo; try exact Hm. cbn [app]. rewrite Hm. reflexivity.
      + destruct Hm as [A B]. split; [rewrite A; reflexivity | exact B]. }
  destruct x as [t p|open p body e c].
  - destruct t; try (apply Go; [reflexivity | exact E]).
    inversion E; subst. split; reflexivity.
  - destruct open; try (apply Go; [reflexivity | exact E]).
    inversion E; subst. split; reflexivity.
Qed.

Section Import.
Variables (o : opts) (tail : list node).
(* what follows the prelude: nothing, or the `;` and the rest of the sheet *)
Hypothesis tail_form : tail = [] \/ exists ps r, tail = Leaf TSemi ps :: r.
Let after_tail : list node := match tail with Leaf TSemi _ :: r => r | _ => [] end.

Lemma import_media_vs_spec : forall m wpos st,
  shaped m = true -> no_term m = true ->
  fst (import_media o (m ++ tail) wpos st) = Some after_tail /\
  IExt (eidc (at_prelude_spec o false m)) st (snd (import_media o (m ++ tail) wpos st)).
Proof.
  induction m as [|x r IH]; intros wpos st Hs Hn.
  { cbn [app at_prelude_spec]. unfold after_tail.
    destruct tail_form as [-> | [ps [r ->]]]; cbn [import_media node_tok is_ws_or_comment fst snd]; split; try reflexivity; apply IExt_refl. }
  destruct (shaped_cons _ _ Hs) as [_ Hsr]. pose proof (no_term_cons _ _ Hn) as Hnr.
  cbn [app import_media]. rewrite (at_prelude_spec_cons o false x r), eidc_app.
  assert (Go : forall st1, IExt (eidc (at_prelude_spec o false [x])) st st1 ->
             fst (import_media o (r ++ tail) wpos st1) = Some after_tail /\
             IExt (eidc (at_prelude_spec o false [x]) ++ eidc (at_prelude_spec o false r)) st (snd (import_media o (r ++ tail) wpos st1))).
  { intros st1 H1. destruct (IH wpos st1 Hsr Hnr) as [A B]. split; [exact A | eapply IExt_trans; [exact H1 | exact B]]. }
  destruct (is_ws_or_comment (node_tok x)) eqn:Ew.
  { apply Go. cbn [at_prelude_spec]. rewrite Ew. apply IExt_refl. }
  destruct x as [t p|open p body e c].
  - cbn [node_tok] in Ew. destruct t; try discriminate Ew; try discriminate Hn;
      try (apply Go; cbn [at_prelude_spec node_tok]; rewrite ?Ew; cbn [is_ws_or_comment]; rewrite app_nil_r; apply IExt_tok_at).
    apply Go. cbn [at_prelude_spec node_tok is_ws_or_comment]. rewrite app_nil_r, eidc_rpx_tok. apply (IExt_tok_at st (TDim n u)).
  - destruct (shaped_blk _ _ _ _ _ _ Hs) as [Ho [Hsb _]].
    destruct open; try discriminate Ho; try discriminate Hn;
      (apply Go; cbn [at_prelude_spec node_tok]; cbn [node_tok] in Ew; rewrite Ew, app_nil_r, !eidc_app;
       eapply IExt_trans; [apply IExt_tok_at|]; eapply IExt_trans; [|apply IExt_tok_at];
       unfold sel_spec; apply IExt_cn_body; [exact Hsb | reflexivity]).
Qed.

(* the conditions: the model on prelude ++ tail against the specification on the prelude.  `X` = the identifiers and
   comments the specification's condition tokens contain; `rest_s` = what the specification leaves for the media query *)
Definition closers (closes : list (tok * pos)) : Prop := Forall (fun c => fst c = TCloseCurly) closes.

Definition conds_post (rest_s : list node) (X : list tok) (res : imp_conds) (st : wstate) : Prop :=
  match rest_s with
  | [] => exists closes' st', res = ImpGo after_tail false closes' st' /\ IExt X st st' /\ closers closes'
  | Leaf (TIdent _) _ :: _ | Block TParen _ _ _ _ :: _ =>
      exists closes' st', res = ImpGo (rest_s ++ tail) true closes' st' /\ IExt X st st' /\ closers closes' /\
                          shaped rest_s = true /\ no_term rest_s = true
  | _ => True
  end.

Lemma conds_post_step : forall rest_s X Y res st st1,
  IExt X st st1 -> conds_post rest_s Y res st1 -> conds_post rest_s (X ++ Y) res st.
Proof.
  intros rest_s X Y res st st1 HX R. unfold conds_post in *.
  destruct rest_s as [|y ys]; [destruct R as [c' [s' [A [B C]]]]; eexists _, _; split; [exact A | split; [eapply IExt_trans; [exact HX | exact B] | exact C]]|].
  destruct y as [ty py|oy py by_ ey cy].
  - destruct ty; try exact I. destruct R as [c' [s' [A [B C]]]]. eexists _, _. split; [exact A|]. split; [eapply IExt_trans; [exact HX | exact B] | exact C].
  - destruct oy; try exact I. destruct R as [c' [s' [A [B C]]]]. eexists _, _. split; [exact A|]. split; [eapply IExt_trans; [exact HX | exact B] | exact C].
Qed.

Lemma import_conds_vs_spec : forall l closes st first,
  shaped l = true -> no_term l = true ->
  (first = true <-> closes = []) -> closers closes ->
  conds_post (snd (import_conds_spec o l first)) (eidc (fst (fst (import_conds_spec o l first))))
             (import_conds o (l ++ tail) closes st) st.
Proof.
  induction l as [|x r IH]; intros closes st first Hs Hn Hf Hcl.
  { cbn [import_conds_spec app fst snd conds_post]. unfold after_tail.
    destruct tail_form as [-> | [ps [r ->]]]; cbn [import_conds node_tok is_ws_or_comment];
      eexists _, _; (split; [reflexivity | split; [apply IExt_refl | exact Hcl]]). }
  destruct (shaped_cons _ _ Hs) as [_ Hsr]. pose proof (no_term_cons _ _ Hn) as Hnr.
  cbn [app import_conds import_conds_spec].
  destruct (is_ws_or_comment (node_tok x)) eqn:Ew; [apply IH; assumption|].
  (* a condition: continue with first = false and one more closer *)
  assert (Step : forall p1 st1, conds_post (snd (import_conds_spec o r false)) (eidc (fst (fst (import_conds_spec o r false))))
                                           (import_conds o (r ++ tail) ((TCloseCurly, p1) :: closes) st1) st1).
  { intros p1 st1.
    assert (Hff : false = true <-> (TCloseCurly, p1) :: closes = []) by (split; intro Hx; discriminate Hx).
    apply (IH ((TCloseCurly, p1) :: closes) st1 false Hsr Hnr Hff). constructor; [reflexivity | exact Hcl]. }
  destruct x as [t p|open p body e c].
  - cbn [node_tok] in Ew.
    destruct t; try exact I; try discriminate Ew.
    (* an identifier: the bare `layer` keyword, or the start of the media query *)
    assert (Ef : (match closes with [] => str_eqb_ci s s_layer | _ :: _ => false end) = (first && str_eqb_ci s s_layer)).
    { destruct first.
      - rewrite (proj1 Hf eq_refl). reflexivity.
      - destruct closes; [discriminate (proj2 Hf eq_refl) | reflexivity]. }
    rewrite Ef. destruct (first && str_eqb_ci s s_layer).
    + pose proof (Step p (tok_at (tok_at st (TAt s) p (Some (TIdent s))) TCurly p None)) as R.
      destruct (import_conds_spec o r false) as [[t k] rest_s]. cbv beta iota zeta. cbn [fst snd] in *.
      change (eidc (mke GFree (TAt s) :: mke GFree TCurly :: t)) with (eidc ([mke GFree (TAt s); mke GFree TCurly] ++ t)).
      rewrite eidc_app. eapply conds_post_step; [|exact R].
      change (eidc [mke GFree (TAt s); mke GFree TCurly]) with (idc [TAt s] ++ idc [TCurly]).
      eapply IExt_trans; apply IExt_tok_at.
    + cbn [fst snd conds_post]. eexists _, _. split; [reflexivity|]. split; [apply IExt_refl|]. split; [exact Hcl|]. split; [exact Hs | exact Hn].
  - destruct (shaped_blk _ _ _ _ _ _ Hs) as [Ho [Hsb _]]. cbn [node_tok] in Ew.
    destruct open; try exact I; try discriminate Ho.
    + (* a function: layer(..) / supports(..) *)
      destruct (str_eqb_ci s s_layer).
      * pose proof (Step p
                      (tok_at (rpx_body o false body None (tok_at st (TAt s) p (Some (TFunc s)))) TCurly p None)) as R.
        destruct (import_conds_spec o r false) as [[t k] rest_s]. cbv beta iota zeta. cbn [fst snd] in *.
        replace (eidc (mke GFree (TAt s) :: val_spec o false body None false ++ mke GFree TCurly :: t))
          with (eidc ([mke GFree (TAt s)] ++ val_spec o false body None false ++ [mke GFree TCurly]) ++ eidc t)
          by (rewrite <- eidc_app, <- !app_assoc; reflexivity).
        eapply conds_post_step; [|exact R].
        rewrite !eidc_app. eapply IExt_trans; [apply (IExt_tok_at st (TAt s))|]. eapply IExt_trans; [|apply IExt_tok_at].
        unfold val_spec. apply IExt_rpx_body. exact Hsb.
      * destruct (str_eqb_ci s s_supports); [|exact I].
        pose proof (Step p
                      (tok_at (tok_at (cn_body o body true false false (tok_at (tok_at st (TAt s) p (Some (TFunc s))) TParen p None)) TCloseParen p None) TCurly p None)) as R.
        destruct (import_conds_spec o r false) as [[t k] rest_s]. cbv beta iota zeta. cbn [fst snd] in *.
        replace (eidc (mke GFree (TAt s) :: mke GFree TParen :: sel_spec o true body true false false false ++ mke GFree TCloseParen :: mke GFree TCurly :: t))
          with (eidc ([mke GFree (TAt s); mke GFree TParen] ++ sel_spec o true body true false false false ++ [mke GFree TCloseParen; mke GFree TCurly]) ++ eidc t)
          by (rewrite <- eidc_app, <- !app_assoc; reflexivity).
        eapply conds_post_step; [|exact R].
        rewrite !eidc_app.
        change (eidc [mke GFree (TAt s); mke GFree TParen]) with (idc [TAt s] ++ idc [TParen]).
        change (eidc [mke GFree TCloseParen; mke GFree TCurly]) with (idc [TCloseParen] ++ idc [TCurly]).
        eapply IExt_trans; [eapply IExt_trans; apply IExt_tok_at|]. eapply IExt_trans; [|eapply IExt_trans; apply IExt_tok_at].
        unfold sel_spec. apply IExt_cn_body; [exact Hsb | reflexivity].
    + (* a parenthesised media feature starts the media query *)
      cbn [fst snd conds_post]. eexists _, _. split; [reflexivity|]. split; [apply IExt_refl|]. split; [exact Hcl|]. split; [exact Hs | exact Hn].
Qed.
End Import.

(* ---------------------------------------------------------------- whole sheets *)

Lemma contain_same : forall x, contain_rule_list x = ideal_contain x.
Proof. reflexivity. Qed.

Lemma skip_ws_idem : forall l, skip_ws (skip_ws l) = skip_ws l.
Proof.
  induction l as [|y l IH]; [reflexivity|]. cbn [skip_ws].
  destruct (is_ws_or_comment (node_tok y)) eqn:E; [exact IH | cbn [skip_ws]; rewrite E; reflexivity].
Qed.

(* ---- helpers for the @import and :host branches ---- *)

Lemma eidc_repeat_close : forall k, eidc (repeat (mke GFree TCloseCurly) k) = [].
Proof. induction k as [|k IH]; [reflexivity | cbn [repeat]; exact IH]. Qed.

Lemma IExt_close_all : forall closes st, closers closes -> IExt [] st (close_all closes st).
Proof.
  unfold close_all. induction closes as [|c cl IH]; intros st H; [apply IExt_refl|].
  cbn [fold_left]. inversion H as [|? ? Hc Hr]; subst.
  eapply IExt_eq; [eapply IExt_trans; [apply (IExt_tok_at st (fst c)) | apply IH; exact Hr]|].
  rewrite Hc. reflexivity.
Qed.

Lemma IExt_warn : forall st k p, IExt [] st (warn st k p).
Proof. intros. split; [reflexivity | unfold iout, cur_out; cbn; rewrite app_nil_r; reflexivity]. Qed.

Lemma conds_rest_skip : forall o l first, skip_ws (snd (import_conds_spec o l first)) = snd (import_conds_spec o l first).
Proof.
  intros o l. induction l as [|x r IH]; intro first; [reflexivity|]. cbn [import_conds_spec].
  destruct (is_ws_or_comment (node_tok x)) eqn:Ew; [apply IH|].
  assert (Stop : skip_ws (x :: r) = x :: r) by (cbn [skip_ws]; rewrite Ew; reflexivity).
  destruct x as [t p|open p body e c].
  - destruct t; try exact Stop. destruct (first && str_eqb_ci s s_layer); [|exact Stop].
    specialize (IH false). destruct (import_conds_spec o r false) as [[t k] rest]. exact IH.
  - destruct open; try exact Stop.
    destruct (str_eqb_ci s s_layer); [specialize (IH false); destruct (import_conds_spec o r false) as [[t k] rest]; exact IH|].
    destruct (str_eqb_ci s s_supports); [specialize (IH false); destruct (import_conds_spec o r false) as [[t k] rest]; exact IH | exact Stop].
Qed.

(* the target of the import: the specification on the prelude, the model on prelude ++ tail *)
Lemma import_target_app : forall prelude tail path r1,
  shaped prelude = true -> no_term prelude = true ->
  spec_import_target prelude = Some (path, r1) ->
  import_target (prelude ++ tail) = Some (path, r1 ++ tail) /\ shaped r1 = true /\ no_term r1 = true.
Proof.
  induction prelude as [|x r IH]; intros tail path r1 Hs Hn E; [discriminate E|].
  destruct (shaped_cons _ _ Hs) as [_ Hsr]. pose proof (no_term_cons _ _ Hn) as Hnr.
  unfold spec_import_target, import_target in *. cbn [app skip_ws] in *.
  destruct (is_ws_or_comment (node_tok x)) eqn:Ew; [apply IH; assumption|].
  destruct x as [t p|open p body e c].
  - destruct t; try discriminate E; inversion E; subst; (split; [reflexivity | split; assumption]).
  - destruct open; try discriminate E.
    destruct (str_eqb_ci s s_url); [|discriminate E].
    destruct (skip_ws body) as [|y b2]; [discriminate E|].
    destruct y as [t2 p2|? ? ? ? ?]; [|discriminate E]. destruct t2; try discriminate E.
    destruct (all_ws b2) eqn:Ea; [|discriminate E]. inversion E; subst.
    assert (Hk : skip_ws b2 = []).
    { clear - Ea. induction b2 as [|z b IHb]; [reflexivity|]. cbn [all_ws forallb] in Ea. apply andb_prop in Ea. destruct Ea as [A B].
      cbn [skip_ws]. rewrite A. apply IHb. exact B. }
    rewrite Hk. split; [reflexivity | split; assumption].
Qed.

Lemma no_curly_equiv : forall l, no_curly l = true -> CssHostSpec.no_curly l = true.
Proof.
  induction l as [|x r IH]; intro H; [reflexivity|]. unfold CssHostSpec.no_curly. cbn [forallb].
  destruct x as [t p|open p b e c]; cbn [no_curly] in H.
  - cbn [CssHostSpec.is_curly_block negb andb]. apply IH. exact H.
  - destruct open; try discriminate H; cbn [CssHostSpec.is_curly_block negb andb]; apply IH; exact H.
Qed.

Lemma host_emit_IExt : forall o st p body, w_using_low st = false -> IExt [] st (host_emit o st p body).
Proof.
  intros o st p body Hu. split.
  - rewrite Hu. reflexivity.
  - unfold iout, cur_out. rewrite Hu.
    replace (w_using_low (host_emit o st p body)) with false by reflexivity.
    rewrite CssRuleProofs.host_emit_normal_unchanged, app_nil_r. reflexivity.
Qed.

(* `@import` with a sign: whenever the specification accepts the prelude, the model consumes the rule up to its `;` (or the
   end of the list) and writes exactly the identifiers / comments of the specification's wrappers and placeholder *)
Lemma import_try_vs_spec : forall o sign spos prelude tail endp st toks,
  (tail = [] \/ exists ps r0, tail = Leaf TSemi ps :: r0) ->
  shaped prelude = true -> no_term prelude = true ->
  import_spec o sign prelude = Some toks ->
  exists st', import_try o sign spos (prelude ++ tail) endp st =
                (Some (match tail with Leaf TSemi _ :: r0 => r0 | _ => [] end), st') /\
              IExt (eidc toks) st st'.
Proof.
  intros o sign spos prelude tail endp st0 toks Htf Hsp Hnt Es.
  unfold import_spec in Es.
  destruct (spec_import_target prelude) as [[path r1]|] eqn:Etg; [|discriminate Es].
  destruct (import_target_app prelude tail path r1 Hsp Hnt Etg) as [Etm [Hs1 Hn1]].
  pose proof (conds_rest_skip o r1 true) as Hsk.
  assert (Hf0 : true = true <-> @nil (tok * pos) = []) by (split; reflexivity).
  pose proof (import_conds_vs_spec o tail Htf r1 [] st0 true Hs1 Hn1 Hf0 (Forall_nil _)) as Hcd.
  destruct (import_conds_spec o r1 true) as [[conds k] rest_s]. cbn [fst snd] in Hcd, Hsk.
  rewrite Hsk in Es.
  unfold import_try. rewrite Etm. unfold conds_post in Hcd.
  set (cm := TComment (sign ++ [32] ++ url_encode path)) in *.
  destruct rest_s as [|y ys].
  - (* no media query *)
    destruct Hcd as [closes' [st1 [Ec [Hi Hcl]]]]. rewrite Ec.
    eexists. split; [reflexivity|].
    cbn [skip_ws at_prelude_spec] in Es. inversion Es; subst toks.
    change (eidc (conds ++ mke GFree cm :: repeat (mke GFree TCloseCurly) k))
      with (eidc (conds ++ [mke GFree cm] ++ repeat (mke GFree TCloseCurly) k)).
    rewrite !eidc_app, eidc_repeat_close, app_nil_r.
    eapply IExt_eq; [eapply IExt_trans; [exact Hi | eapply IExt_trans; [apply (IExt_tok_at st1 cm) | apply IExt_close_all; exact Hcl]]|].
    rewrite app_nil_r. reflexivity.
  - (* a media query follows *)
    assert (Hmedia : match y with Leaf (TIdent _) _ => True | Block TParen _ _ _ _ => True | _ => False end).
    { destruct y as [ty py|oy py by_ ey cy]; [destruct ty; try discriminate Es; exact I | destruct oy; try discriminate Es; exact I]. }
    assert (Hcd' : exists closes' st1, import_conds o (r1 ++ tail) [] st0 = ImpGo ((y :: ys) ++ tail) true closes' st1 /\
                     IExt (eidc conds) st0 st1 /\ closers closes' /\ shaped (y :: ys) = true /\ no_term (y :: ys) = true).
    { destruct y as [ty py|oy py by_ ey cy]; [destruct ty; try contradiction; exact Hcd | destruct oy; try contradiction; exact Hcd]. }
    destruct Hcd' as [closes' [st1 [Ec [Hi [Hcl [Hsm Hnm]]]]]]. rewrite Ec.
    destruct (import_media_vs_spec o tail Htf (y :: ys) (cur_pos ((y :: ys) ++ tail) endp)
                (tok_at st1 (TAt s_media) spos None) Hsm Hnm) as [Em Hm].
    destruct (import_media o ((y :: ys) ++ tail) (cur_pos ((y :: ys) ++ tail) endp)
                (tok_at st1 (TAt s_media) spos None)) as [mr st3].
    cbn [fst snd] in Em, Hm. subst mr.
    eexists. split; [reflexivity|].
    assert (Et' : toks = conds ++ (match at_prelude_spec o false (y :: ys) with
                                   | [] => []
                                   | _ => [mke GFree (TAt s_media)] ++ at_prelude_spec o false (y :: ys) ++ [mke GFree TCurly]
                                   end) ++ [mke GFree cm] ++
                          repeat (mke GFree TCloseCurly) (match at_prelude_spec o false (y :: ys) with [] => k | _ => S k end)).
    { destruct y as [ty py|oy py by_ ey cy]; [destruct ty; try contradiction | destruct oy; try contradiction];
        cbn [skip_ws node_tok is_ws_or_comment] in Es;
        destruct (at_prelude_spec o false _) as [|m0 ms]; inversion Es; reflexivity. }
    assert (Ee : eidc toks = eidc conds ++ eidc (at_prelude_spec o false (y :: ys)) ++ idc [cm]).
    { rewrite Et'. destruct (at_prelude_spec o false (y :: ys)) as [|m0 ms].
      - rewrite !eidc_app, eidc_repeat_close. change (eidc []) with (@nil tok). change (eidc [mke GFree cm]) with (idc [cm]).
        cbn [app]. rewrite !app_nil_r. reflexivity.
      - rewrite !eidc_app, eidc_repeat_close.
        change (eidc [mke GFree (TAt s_media)]) with (@nil tok). change (eidc [mke GFree TCurly]) with (@nil tok).
        change (eidc [mke GFree cm]) with (idc [cm]).
        cbn [app]. rewrite !app_nil_r. reflexivity. }
    rewrite Ee.
    eapply IExt_eq; [eapply IExt_trans; [exact Hi|];
                     eapply IExt_trans; [apply (IExt_tok_at st1 (TAt s_media))|]; eapply IExt_trans; [exact Hm|];
                     eapply IExt_trans; [apply (IExt_tok_at st3 TCurly)|]; eapply IExt_trans; [apply (IExt_tok_at _ cm)|];
                     apply IExt_close_all; constructor; [reflexivity | exact Hcl]|].
    cbn [idc filter is_idc app]. rewrite !app_nil_r. reflexivity.
Qed.

Theorem class_exact_rules : forall f o l endp at_start st,
  shaped l = true -> w_using_low st = false ->
  Cpl f o l = true ->
  IExt (eidc (N f o l)) st (rules f o l endp at_start st).
Proof.
  induction f as [|f IH]; intros o l endp at_start st Hs Hu Hc; [discriminate Hc|].
  unfold N, Cpl in *. rewrite rules_spec_S in *. cbn [rules].
  pose proof (skip_ws_shaped l Hs) as Hsl.
  pose proof (skip_ws_idem l) as Hid.
  destruct (skip_ws l) as [|x r]; [apply IExt_refl|].
  destruct (at_name x) as [s|] eqn:En.
  - (* an at-rule *)
    destruct x as [t p|? ? ? ? ?]; [|discriminate En]. destruct t; try discriminate En.
    inversion En; subst s0. clear En.
    unfold at_branch in *.
    destruct (take_prelude true r) as [[prelude term] rest] eqn:Et.
    unfold at_rule. unfold at_this in *.
    destruct (shaped_cons _ _ Hsl) as [_ Hsr].
    cbn [so_app so_normal so_complete] in *. apply andb_prop in Hc. destruct Hc as [Hc1 Hc2].
    destruct (if str_eqb_ci s s_import then import_sign o else None) as [sign|].
    + (* @import with a sign: placeholder and wrappers *)
      destruct (take_prelude_true_spec _ _ _ _ Et) as [Hnt Hl].
      set (st0 := if at_start then st else warn st W_IMPORT_POS (cur_pos r endp)).
      assert (H0 : IExt [] st st0) by (unfold st0; destruct at_start; [apply IExt_refl | apply IExt_warn]).
      (* completeness: the specification accepts the prelude and the rule ends with `;` or with the list *)
      match goal with |- IExt (eidc (so_normal ?T ++ _)) _ _ => set (this := T) in * end.
      assert (Main : exists toks st', import_try o sign (cur_pos r endp) r endp st0 = (Some rest, st') /\ IExt (eidc toks) st0 st' /\
                       so_normal this = toks).
      { unfold this in *.
        destruct (import_spec o sign prelude) as [toks|] eqn:Es; [|destruct term as [[[] ?|? ? ? ? ?]|]; discriminate Hc1].
        destruct term as [[tt tp|bo bp bb be bc]|].
        - destruct tt; try (cbn [so_complete] in Hc1; discriminate Hc1).
          assert (Hsp : shaped prelude = true) by (rewrite Hl in Hsr; apply (shaped_app_l _ _ Hsr)).
          destruct (import_try_vs_spec o sign (cur_pos r endp) prelude (Leaf TSemi tp :: rest) endp st0 toks
                      (or_intror (ex_intro _ tp (ex_intro _ rest eq_refl))) Hsp Hnt Es) as [st' [A B]].
          rewrite <- Hl in A. exists toks, st'. split; [exact A | split; [exact B | reflexivity]].
        - cbn [so_complete] in Hc1. discriminate Hc1.
        - destruct Hl as [Hl Hrest]. subst rest.
          assert (Hsp : shaped prelude = true) by (rewrite <- Hl; exact Hsr).
          destruct (import_try_vs_spec o sign (cur_pos r endp) prelude [] endp st0 toks (or_introl eq_refl) Hsp Hnt Es) as [st' [A B]].
          rewrite app_nil_r, <- Hl in A. exists toks, st'. split; [exact A | split; [exact B | reflexivity]]. }
      destruct Main as [toks [st' [Em [Hi Hnorm]]]].
      fold st0. rewrite Em. rewrite Hnorm, eidc_app.
      eapply IExt_trans; [eapply IExt_eq; [eapply IExt_trans; [exact H0 | exact Hi] | reflexivity]|].
      rewrite (proj1 (spec_normal_irrel f o [] [] rest _ false)).
      apply IH.
      * exact (take_prelude_rest_shaped true r prelude term rest Hsr Et).
      * rewrite (proj1 Hi), (proj1 H0). exact Hu.
      * rewrite <- Hc2. apply (proj2 (spec_normal_irrel _ _ _ _ _ _ _)).
    + (* every other at-rule *)
      destruct term as [tm|]; [|discriminate Hc1].
      set (inner := fun body => so_normal (rules_spec f o [] body false)).
      set (good := fun body => so_complete (rules_spec f o [] body false) = true).
      assert (Hrec : forall body be s0, shaped body = true -> good body -> w_using_low s0 = false ->
                     IExt (eidc (inner body)) s0 ((fun body be s => rules f o body be false s) body be s0)).
      { intros body be s0 Hb Hg Hu0. apply IH; [exact Hb | exact Hu0 | exact Hg]. }
      assert (Hg : forall t0 p0 body e c, tm = Block t0 p0 body e c -> contain_rule_list s = true -> good body).
      { intros t0 p0 body e c -> Hcon. unfold good. rewrite contain_same in Hcon. rewrite Hcon in Hc1.
        cbn [so_complete] in Hc1.
        rewrite <- Hc1. apply (proj2 (spec_normal_irrel _ _ _ _ _ _ _)). }
      assert (Hu1 : w_using_low (tok_at st (TAt s) p None) = false) by (rewrite (proj1 (IExt_tok_at st (TAt s) p None)); exact Hu).
      destruct (at_prelude_vs_spec o _ (contain_rule_list s) (o_mark (cur_out st)) inner good Hrec
                  r (tok_at st (TAt s) p None) prelude tm rest Hsr Hu1 Et Hg) as [A B].
      destruct (at_prelude o (fun body be s0 => rules f o body be false s0) (contain_rule_list s)
                  (o_mark (cur_out st)) r (tok_at st (TAt s) p None)) as [rest0 st'].
      cbn [fst snd] in A, B. subst rest0.
      rewrite eidc_app.
      eapply IExt_trans; [|apply IH].
      * eapply IExt_eq; [eapply IExt_trans; [apply (IExt_tok_at st (TAt s))|exact B]|].
        rewrite contain_same. unfold term_spec, inner.
        destruct tm as [tt tp|bo bp bb be bc]; cbn [so_normal].
        -- rewrite !eidc_app, <- !app_assoc. reflexivity.
        -- destruct (ideal_contain s); cbn [so_normal].
           ++ match goal with |- context [so_normal (rules_spec f o (?A ++ ?B) bb false)] =>
                rewrite (proj1 (spec_normal_irrel f o (A ++ B) [] bb false false)) end.
              rewrite !eidc_app, <- !app_assoc. reflexivity.
           ++ rewrite !eidc_app, <- !app_assoc. reflexivity.
      * exact (take_prelude_rest_shaped true r prelude (Some tm) rest Hsr Et).
      * rewrite (proj1 B), Hu1. reflexivity.
      * rewrite <- Hc2. apply (proj2 (spec_normal_irrel _ _ _ _ _ _ _)).
  - (* a qualified rule *)
    assert (Ea : at_rule o (fun body be s => rules f o body be false s) (x :: r) endp at_start st = None).
    { unfold at_rule. destruct x as [t p|? ? ? ? ?]; [|reflexivity]. destruct t; try reflexivity. discriminate En. }
    rewrite Ea. unfold q_branch in *.
    destruct (take_prelude false (x :: r)) as [[prelude term] rest] eqn:Et.
    pose proof (take_prelude_false_spec _ _ _ _ Et) as T.
    unfold q_this in *.
    destruct term as [[tt tp|bo bp bb be bc]|];
      [contradiction | | cbn [so_app so_complete andb] in Hc; discriminate Hc].
    destruct bo; try contradiction. destruct T as [El Hn].
    pose proof Hsl as Hsl'. rewrite El in Hsl'.
    pose proof (shaped_app_l _ _ Hsl') as Hsp.
    destruct (shaped_blk _ _ _ _ _ _ (shaped_app _ _ Hsl')) as [_ [Hsb Hsr]].
    assert (Hq : exists X st', qrule o (x :: r) endp st = (rest, st') /\ IExt X st st' /\
                   X = eidc (so_normal (match (if convert_host o then host_kind_of prelude else HostNone) with
                                        | HostPure => mkso [] (concat [] ++ host_selector o ++ ([mke GFree TCurly] ++ val_spec o false bb None false ++ [mke GFree TCloseCurly])
                                                               ++ repeat (mke GFree TCloseCurly) (length (@nil (list etok)))) [] [] true
                                        | HostCombined => mkso [] [] [W_HOST] [] true
                                        | HostNone => mkso (sel_spec o false prelude true false false false ++
                                                            ([mke GFree TCurly] ++ val_spec o false bb None false ++ [mke GFree TCloseCurly])) [] [] [] true
                                        end))).
    { destruct (class_exact_rule o prelude bp bb be bc rest false false st true false false Hsp Hsb Hn) as [A B].
      destruct (convert_host o) eqn:Eh.
      - pose proof (CssHostSpec.qrule_matches_spec bp be bb bc rest o prelude endp st Eh (no_curly_equiv _ Hn)) as M.
        rewrite <- El in M.
        destruct (host_kind_of prelude).
        + (* none: the selector walker *)
          rewrite M. rewrite <- CssHostSpec.skip_ws_app, <- El, Hid, El.
          destruct (qr_loop o (prelude ++ Block TCurly bp bb be bc :: rest) false false st) as [rest0 st'].
          cbn [fst snd] in A, B. subst rest0. eexists _, st'. split; [reflexivity|]. split; [exact B | reflexivity].
        + (* pure: moved to the low-priority output *)
          rewrite M. eexists [], _. split; [reflexivity|]. split; [apply host_emit_IExt; exact Hu | reflexivity].
        + (* combined: dropped with a warning *)
          destruct M as [wp M]. rewrite M. eexists [], _. split; [reflexivity|]. split; [apply IExt_warn | reflexivity].
      - unfold qrule, qr_main. rewrite Eh, Hid, El.
        destruct (qr_loop o (prelude ++ Block TCurly bp bb be bc :: rest) false false st) as [rest0 st'].
        cbn [fst snd] in A, B. subst rest0. eexists _, st'. split; [reflexivity|]. split; [exact B | reflexivity]. }
    destruct Hq as [X [st' [Eq [HX EX]]]]. rewrite Eq.
    assert (Hc' : so_complete (rules_spec f o [] rest false) = true).
    { destruct (if convert_host o then host_kind_of prelude else HostNone); cbn [so_app so_complete andb] in Hc; exact Hc. }
    assert (Hnorm : so_normal (so_app (match (if convert_host o then host_kind_of prelude else HostNone) with
                                        | HostPure => mkso [] (concat [] ++ host_selector o ++ ([mke GFree TCurly] ++ val_spec o false bb None false ++ [mke GFree TCloseCurly])
                                                               ++ repeat (mke GFree TCloseCurly) (length (@nil (list etok)))) [] [] true
                                        | HostCombined => mkso [] [] [W_HOST] [] true
                                        | HostNone => mkso (sel_spec o false prelude true false false false ++
                                                            ([mke GFree TCurly] ++ val_spec o false bb None false ++ [mke GFree TCloseCurly])) [] [] [] true
                                        end) (rules_spec f o [] rest false)) =
                    so_normal (match (if convert_host o then host_kind_of prelude else HostNone) with
                                        | HostPure => mkso [] (concat [] ++ host_selector o ++ ([mke GFree TCurly] ++ val_spec o false bb None false ++ [mke GFree TCloseCurly])
                                                               ++ repeat (mke GFree TCloseCurly) (length (@nil (list etok)))) [] [] true
                                        | HostCombined => mkso [] [] [W_HOST] [] true
                                        | HostNone => mkso (sel_spec o false prelude true false false false ++
                                                            ([mke GFree TCurly] ++ val_spec o false bb None false ++ [mke GFree TCloseCurly])) [] [] [] true
                                        end) ++ so_normal (rules_spec f o [] rest false)) by reflexivity.
    rewrite Hnorm, eidc_app, <- EX.
    eapply IExt_trans; [exact HX|].
    apply IH; [exact Hsr | rewrite (proj1 HX); exact Hu | exact Hc'].
Qed.

(* the pinned form: every option set *)
Theorem class_exact_sheet : forall o tree endp,
  shaped tree = true ->
  so_complete (expected o tree) = true ->
  idc (o_tokens (w_normal (transform o tree endp))) = idc (map e_tok (so_normal (expected o tree))).
Proof.
  intros o tree endp Hs Hc. unfold transform, expected in *.
  rewrite (proj2 (spec_normal_irrel _ o [] [] tree true false)) in Hc.
  destruct (class_exact_rules (S (nodes_size tree)) o tree endp true w_init Hs eq_refl Hc) as [U E].
  unfold iout, cur_out in E. rewrite U in E. cbn [w_init w_using_low w_normal] in E.
  change (idc (o_tokens o_init)) with (@nil tok) in E. cbn [app] in E.
  rewrite E. unfold N, eidc. rewrite (proj1 (spec_normal_irrel _ o [] [] tree false true)). reflexivity.
Qed.
