(* The binding-map updaters the attribute-level generators emit end by reporting the element (`E(N)`):
   ProcGenWrapper.bindingMapUpdate applies the queued property changes of the elements reported to it, and of no others. *)
From GE Require Import Model.Str Model.Lit Model.Expr Model.ExprGen Model.BindingMap Model.TagGen.
Require Import List. Import ListNotations.

Lemma join_snoc2 : forall sep l a b, join sep (l ++ [a; b]) = join sep (l ++ [a]) ++ sep ++ b.
Proof.
  intros sep l. induction l as [|x r IH]; intros a b.
  - reflexivity.
  - destruct r as [|y r'].
    + cbn [app join]. rewrite <- !app_assoc. reflexivity.
    + change ((x :: y :: r') ++ [a; b]) with (x :: (y :: r') ++ [a; b]).
      change ((x :: y :: r') ++ [a]) with (x :: (y :: r') ++ [a]).
      assert (E2 : forall t, join sep (x :: (y :: r') ++ t) = x ++ sep ++ join sep ((y :: r') ++ t)) by reflexivity.
      rewrite !E2, IH, <- !app_assoc. reflexivity.
Qed.

Definition reports_element (u : str) : Prop := exists pre, u = pre ++ lit ";E(N)}".

Lemma updater_reports : forall prefix body c,
  reports_element (prefix ++ lit "(D,E,T)=>{" ++ join_stmts (body ++ [c; lit "E(N)"]) ++ lit "}").
Proof.
  intros prefix body c. unfold reports_element, join_stmts. rewrite join_snoc2.
  exists (prefix ++ lit "(D,E,T)=>{" ++ join (lit ";") (body ++ [c])).
  rewrite <- !app_assoc. reflexivity.
Qed.

Lemma last_app_single : forall (A : Type) (l : list A) (x d : A), last (l ++ [x]) d = x.
Proof. intros A l x d. induction l as [|a r IH]; [reflexivity|]. cbn [app]. destruct (r ++ [x]) eqn:E; [destruct r; discriminate|]. exact IH. Qed.

(* class / style / id / data-* / mark *)
Lemma setter_updater_reports : forall scopes lit_str call e b ks st,
  keys_is_empty b ks = false ->
  reports_element (last (snd (setter_dynamic scopes lit_str call e b (Some ks) st)) []).
Proof.
  intros scopes lit_str call e b ks st H. unfold setter_dynamic.
  destruct (prepare scopes lit_str e (mk_gst (next_priv st))) as [[st1 v] r].
  rewrite H. destruct (prepare scopes lit_str e (mk_gst (next_priv st1))) as [[st2 v2] r2].
  cbn [snd]. rewrite app_assoc, last_app_single. apply updater_reports.
Qed.

(* properties (`O(N,name,value[,l-value path])`) *)
Lemma normal_attr_updater_reports : forall scopes lit_str kind name e b ks st,
  keys_is_empty b ks = false ->
  reports_element (last (snd (normal_attr_dynamic scopes lit_str kind name e b (Some ks) st)) []).
Proof.
  intros scopes lit_str kind name e b ks st H. unfold normal_attr_dynamic.
  destruct (prepare scopes lit_str e (mk_gst (next_priv st))) as [[st1 v] r].
  rewrite H. destruct (prepare scopes lit_str e (mk_gst (next_priv st1))) as [[st2 v2] r2].
  cbn [snd]. rewrite app_assoc, last_app_single. apply updater_reports.
Qed.

(* ... and without advertised keys no updater is written at all *)
Lemma setter_no_updater : forall scopes lit_str call e b ks st,
  keys_is_empty b ks = true ->
  length (snd (setter_dynamic scopes lit_str call e b (Some ks) st)) =
  S (length (stmts (fst (fst (prepare scopes lit_str e (mk_gst (next_priv st))))))).
Proof.
  intros scopes lit_str call e b ks st H. unfold setter_dynamic.
  destruct (prepare scopes lit_str e (mk_gst (next_priv st))) as [[st1 v] r].
  rewrite H. cbn [snd fst]. rewrite !app_length. cbn [length]. rewrite Nat.add_0_r, Nat.add_1_r. reflexivity.
Qed.
