(* Round trip at the value level: the text the stringifier prints for a parsed value (static text,
   one binding, or a mix of text pieces and bindings) is read back by the value parser
   (Model/ExprParse.v: parse_value) as the same value. *)
From GE Require Import Model.StrExpr Model.ExprParse Proofs.TextDecodeProofs Proofs.ExprParseProofs Proofs.ExprParseFuel
  Proofs.ExprRtTokens Proofs.ExprRoundTrip Proofs.NumRoundTrip.
From Coq Require Import Lia ZifyBool ZifyN.
Import ListNotations.
Local Open Scope nat_scope.

Arguments N.eqb : simpl nomatch.

(* ---- text pieces: the escaping with an explicit "a brace follows" flag ---- *)
Definition esc1 (c : N) (la : bool) : str :=
  if (c =? 60)%N then e_lt else if (c =? 34)%N then e_quot else if (c =? 38)%N then e_amp
  else if ((c =? 123)%N && la)%bool then e_lbrace else [c].

Fixpoint esc_follow (f : bool) (s : str) : str :=
  match s with
  | [] => []
  | c :: r => esc1 c (match r with d :: _ => (d =? 123)%N | [] => f end) ++ esc_follow f r
  end.

Lemma next_is_lbrace_eqb : forall r, next_is_lbrace r = match r with d :: _ => (d =? 123)%N | [] => false end.
Proof.
  intros [|d r]; [reflexivity|]. unfold next_is_lbrace.
  destruct (N.eqb_spec d 123) as [->|H]; [reflexivity|].
  destruct d as [|p]; [reflexivity|]. do 7 (destruct p as [p|p|]; try reflexivity). congruence.
Qed.

Lemma escape_is_esc_follow : forall s, escape_html_body s = esc_follow false s.
Proof.
  induction s as [|c r IH]; [reflexivity|]. cbn [escape_html_body esc_follow]. rewrite IH, next_is_lbrace_eqb. reflexivity.
Qed.

Lemma esc1_nonempty : forall c la, esc1 c la <> [].
Proof. intros c la. unfold esc1. repeat match goal with |- context [if ?b then _ else _] => destruct b end; discriminate. Qed.

Lemma esc_follow_nonempty : forall f s, s <> [] -> esc_follow f s <> [].
Proof.
  intros f [|c r] H; [congruence|]. cbn [esc_follow]. intro E. apply app_eq_nil in E. destruct E as [E _].
  exact (esc1_nonempty _ _ E).
Qed.

Definition replace_last (t : str) : str :=
  match rev t with
  | c :: r => if (c =? 123)%N then rev r ++ e_lbrace else t
  | [] => t
  end.

Lemma text_piece_true : forall s, text_piece true s = replace_last (escape_html_body s).
Proof.
  intro s. unfold text_piece, replace_last. destruct (rev (escape_html_body s)) as [|c r]; [reflexivity|].
  destruct (N.eqb_spec c 123) as [->|H]; [reflexivity|].
  destruct c as [|p]; [reflexivity|]. do 7 (destruct p as [p|p|]; try reflexivity). congruence.
Qed.

Lemma replace_last_app : forall a b, b <> [] -> replace_last (a ++ b) = a ++ replace_last b.
Proof.
  intros a b Hb. unfold replace_last. rewrite rev_app_distr.
  destruct (rev b) as [|c r] eqn:E.
  - exfalso. apply Hb. rewrite <- (rev_involutive b), E. reflexivity.
  - cbn [app]. destruct (c =? 123)%N; [|reflexivity].
    rewrite rev_app_distr, rev_involutive, <- app_assoc. reflexivity.
Qed.

Lemma text_piece_esc : forall f s, text_piece f s = esc_follow f s.
Proof.
  intros [|] s.
  - rewrite text_piece_true. induction s as [|c r IH]; [reflexivity|].
    cbn [escape_html_body esc_follow]. rewrite next_is_lbrace_eqb. destruct r as [|d r'].
    + cbn [escape_html_body esc_follow]. rewrite !app_nil_r. unfold esc1.
      destruct (N.eqb_spec c 60) as [->|H60]; [reflexivity|].
      destruct (N.eqb_spec c 34) as [->|H34]; [reflexivity|].
      destruct (N.eqb_spec c 38) as [->|H38]; [reflexivity|].
      destruct (N.eqb_spec c 123) as [->|H123]; [reflexivity|].
      cbn [andb]. unfold replace_last. cbn [rev app]. apply N.eqb_neq in H123. rewrite H123. reflexivity.
    + rewrite replace_last_app.
      * rewrite IH. reflexivity.
      * rewrite escape_is_esc_follow. apply esc_follow_nonempty. discriminate.
  - unfold text_piece. apply escape_is_esc_follow.
Qed.

(* the first character written for a character *)
Lemma esc1_head : forall c la, exists x t, esc1 c la = x :: t /\
  (x = 38%N \/ (x = c /\ c <> 60%N /\ c <> 34%N /\ c <> 38%N /\ t = [] /\ ((c =? 123)%N && la)%bool = false)).
Proof.
  intros c la. unfold esc1.
  destruct (N.eqb_spec c 60); [eexists _, _; split; [reflexivity|left; reflexivity]|].
  destruct (N.eqb_spec c 34); [eexists _, _; split; [reflexivity|left; reflexivity]|].
  destruct (N.eqb_spec c 38); [eexists _, _; split; [reflexivity|left; reflexivity]|].
  destruct ((c =? 123)%N && la)%bool eqn:E; [eexists _, _; split; [reflexivity|left; reflexivity]|].
  exists c, []. split; [reflexivity|right]. repeat split; assumption.
Qed.

Section TextRun.
  Variable named : str -> option str.
  Hypothesis named_lt : named e_lt = Some [60%N].
  Hypothesis named_quot : named e_quot = Some [34%N].
  Hypothesis named_amp : named e_amp = Some [38%N].
  Variable stop : str -> bool.
  (* the callers stop at `<` (text) or at the closing double quote (attribute values) *)
  Hypothesis stop_ok : forall c x, stop (c :: x) = true -> c = 60%N \/ c = 34%N.

  Lemma np_esc1 : forall c la rest, next_piece named (esc1 c la ++ rest) = ([c], rest).
  Proof.
    intros c la rest. pose proof (piece_step named named_lt named_quot named_amp c (if la then [123%N] else []) rest) as H.
    unfold esc1. destruct la; cbn [next_is_lbrace] in H; rewrite ?Bool.andb_true_r, ?Bool.andb_false_r in *; exact H.
  Qed.

  Definition end_ok (rest : str) : Prop := (stop rest || is_nil rest || starts_with (lit "{{") rest)%bool = true.
  Definition brace_ok (f : bool) (rest : str) : Prop := match rest with c :: _ => c = 123%N -> f = true | [] => True end.

  (* inside an escaped piece the loop of text_run goes on *)
  Lemma inside_continues : forall f d r rest, brace_ok f rest ->
    (stop (esc_follow f (d :: r) ++ rest) || is_nil (esc_follow f (d :: r) ++ rest)
     || starts_with (lit "{{") (esc_follow f (d :: r) ++ rest))%bool = false.
  Proof.
    intros f d r rest Hb. cbn [esc_follow].
    set (la := match r with d0 :: _ => (d0 =? 123)%N | [] => f end).
    destruct (esc1_head d la) as [x [t [E Hx]]]. rewrite E. cbn [app].
    assert (Hstop : stop (x :: t ++ esc_follow f r ++ rest) = false).
    { destruct (stop (x :: t ++ esc_follow f r ++ rest)) eqn:Es; [|reflexivity].
      apply stop_ok in Es. destruct Hx as [->|[-> [H60 [H34 _]]]]; destruct Es; congruence. }
    rewrite <- app_assoc. cbn [app]. rewrite Hstop. cbn [is_nil orb].
    change (lit "{{") with [123%N; 123%N]. cbn [starts_with].
    destruct Hx as [->|[-> [_ [_ [_ [-> Hla]]]]]]; [reflexivity|].
    destruct (N.eqb_spec 123 d) as [<-|]; [|reflexivity]. cbn [andb app].
    cbn [andb] in Hla. change ((123 =? 123)%N) with true in Hla. cbn [andb] in Hla. unfold la in Hla.
    destruct r as [|d2 r2].
    - subst f. cbn [esc_follow app]. destruct rest as [|c0 rest']; [reflexivity|]. cbn in Hb.
      destruct (N.eqb_spec 123 c0) as [<-|]; [|reflexivity]. specialize (Hb eq_refl). discriminate.
    - cbn [esc_follow]. destruct (esc1_head d2 (match r2 with d0 :: _ => (d0 =? 123)%N | [] => f end)) as [x2 [t2 [E2 Hx2]]].
      rewrite E2. cbn [app]. destruct Hx2 as [->|[-> _]]; [reflexivity|].
      rewrite N.eqb_sym, Hla. reflexivity.
  Qed.

  Lemma text_run_esc : forall s f rest n, s <> [] -> length s <= n -> end_ok rest -> brace_ok f rest ->
    text_run named stop n (esc_follow f s ++ rest) = (s, rest).
  Proof.
    induction s as [|c r IH]; intros f rest n Hne Hn He Hb; [congruence|].
    destruct n as [|n]; [cbn in Hn; lia|]. cbn [esc_follow text_run]. rewrite <- app_assoc, np_esc1.
    destruct r as [|d r'].
    - cbn [esc_follow app]. unfold end_ok in He. rewrite He. reflexivity.
    - rewrite (inside_continues f d r' rest Hb).
      rewrite (IH f rest n ltac:(discriminate) ltac:(cbn [length] in *; lia) He Hb). reflexivity.
  Qed.
End TextRun.

(* ---- pieces of a mixed value ---- *)
Inductive piece := PText (t : str) | PBind (e : expr).

Definition piece_expr (p : piece) : expr := match p with PText t => EStr t | PBind e => EToStr e end.

(* what the value loop does with one piece *)
Definition feed (ret : vst) (p : piece) : vst :=
  match p with
  | PText t => append_text (convert_for_text ret) t
  | PBind e => combine_binding ret e
  end.

(* does the printed piece start with a brace *)
Definition piece_brace (p : piece) : bool :=
  match p with PBind _ => true | PText (c :: _) => (c =? 123)%N | PText [] => false end.

Section Pieces.
  Variable names : nat -> str.
  Notation pr := (sx_core names).

  Definition print_piece (p : piece) (follows : bool) : str :=
    match p with
    | PText t => esc_follow follows t
    | PBind e => 123%N :: 123%N :: pr e ++ [125%N; 125%N]
    end.

  (* the pieces in source order; the flag of a piece says whether a brace follows it *)
  Fixpoint print_pieces (ps : list piece) (last_follows : bool) : str :=
    match ps with
    | [] => []
    | p :: r => print_piece p (match r with q :: _ => piece_brace q | [] => last_follows end) ++ print_pieces r last_follows
    end.

  (* well-formed piece lists: texts are non-empty and never adjacent, bindings are well-formed expressions *)
  Fixpoint valid (ps : list piece) : Prop :=
    match ps with
    | [] => True
    | PText t :: r => t <> [] /\ (match r with PText _ :: _ => False | _ => True end) /\ valid r
    | PBind e :: r => wf e /\ valid r
    end.
End Pieces.

Lemma value_loop_fuel : forall named stop n m ret s, length s < n -> length s < m ->
  value_loop named stop n ret s = value_loop named stop m ret s.
Proof.
  intros named stop. induction n as [|n IH]; intros m ret s Hn Hm; [lia|]. destruct m as [|m]; [lia|].
  cbn [value_loop]. destruct (stop s || is_nil s)%bool eqn:E0; [reflexivity|].
  destruct (starts_with (lit "{{") s) eqn:Eb.
  - pose proof (binding_le false (skipn 2 s)) as Hb. rewrite skipn_length in Hb.
    apply starts_with_length in Eb. cbn in Eb.
    destruct (binding false (skipn 2 s)) as [[e|] rest]; cbn [snd] in Hb; apply IH; lia.
  - destruct s as [|c r]; [cbn in E0; rewrite Bool.orb_true_r in E0; discriminate|].
    pose proof (text_run_lt named stop (S (length (c :: r))) (c :: r) ltac:(discriminate) ltac:(lia)) as Ht.
    destruct (text_run named stop (S (length (c :: r))) (c :: r)) as [txt rest]. cbn [snd] in Ht.
    apply IH; lia.
Qed.

Section ParseSide.
  Variable names : nat -> str.
  Variable named : str -> option str.
  Hypothesis named_lt : named e_lt = Some [60%N].
  Hypothesis named_quot : named e_quot = Some [34%N].
  Hypothesis named_amp : named e_amp = Some [38%N].
  Variable stop : str -> bool.
  Hypothesis stop_ok : forall c x, stop (c :: x) = true -> c = 60%N \/ c = 34%N.
  Notation pr := (sx_core names).

  Lemma value_loop_S : forall n ret s, value_loop named stop (S n) ret s =
    if (stop s || is_nil s)%bool then (ret, s)
    else if starts_with (lit "{{") s then
      match ExprParse.binding false (skipn 2 s) with
      | (Some e, rest) => value_loop named stop n (combine_binding ret e) rest
      | (None, rest) => value_loop named stop n ret rest
      end
    else let '(txt, rest) := text_run named stop (S (length s)) s in
         value_loop named stop n (append_text (convert_for_text ret) txt) rest.
  Proof. reflexivity. Qed.

  (* the tail after the value: where the caller's `until` holds, or the end of the input *)
  Definition tail_ok (tail : str) : Prop := tail = [] \/ stop tail = true.

  Lemma tail_end_ok : forall tail, tail_ok tail -> end_ok stop tail.
  Proof.
    intros tail [->|H]; unfold end_ok; [cbn; rewrite Bool.orb_true_r; reflexivity|rewrite H; reflexivity].
  Qed.
  Lemma tail_brace_ok : forall tail f, tail_ok tail -> brace_ok f tail.
  Proof.
    intros tail f [->|H]; [exact I|]. destruct tail as [|c x]; [exact I|]. cbn. intro Hc. subst c.
    apply stop_ok in H. destruct H; discriminate.
  Qed.

  Lemma esc_follow_length_ge : forall f t, length t <= length (esc_follow f t).
  Proof.
    intros f. induction t as [|c r IH]; [apply le_n|]. cbn [esc_follow]. rewrite app_length.
    pose proof (esc1_nonempty c (match r with d :: _ => (d =? 123)%N | [] => f end)) as Hne.
    destruct (esc1 c _) as [|x y]; [congruence|]. cbn [length]. lia.
  Qed.

  (* one text piece *)
  Lemma step_text : forall n ret t f X, t <> [] -> end_ok stop X -> brace_ok f X ->
    value_loop named stop (S n) ret (esc_follow f t ++ X) = value_loop named stop n (feed ret (PText t)) X.
  Proof.
    intros n ret t f X Ht He Hb. rewrite value_loop_S.
    destruct t as [|d r]; [congruence|].
    pose proof (inside_continues stop stop_ok f d r X Hb) as Hc.
    apply Bool.orb_false_iff in Hc. destruct Hc as [Hc1 Hc2]. rewrite Hc1, Hc2.
    rewrite (text_run_esc named named_lt named_quot named_amp stop stop_ok (d :: r) f X); try assumption.
    - reflexivity.
    - rewrite app_length. pose proof (esc_follow_length_ge f (d :: r)). lia.
  Qed.

  (* one binding *)
  Lemma step_bind : forall n ret e X, wf e ->
    value_loop named stop (S n) ret (123%N :: 123%N :: pr e ++ 125%N :: 125%N :: X)
    = value_loop named stop n (feed ret (PBind e)) X.
  Proof.
    intros n ret e X Hwf. rewrite value_loop_S.
    assert (Hs : stop (123%N :: 123%N :: pr e ++ 125%N :: 125%N :: X) = false).
    { destruct (stop _) eqn:E; [|reflexivity]. apply stop_ok in E. destruct E; discriminate. }
    rewrite Hs. cbn [is_nil orb]. change (lit "{{") with [123%N; 123%N]. cbn [starts_with skipn].
    rewrite !N.eqb_refl. cbn [andb].
    rewrite (print_parse_binding names num_roundtrip z_to_str_head e Hwf X). reflexivity.
  Qed.

  Lemma print_piece_nonempty : forall p f, (match p with PText t => t <> [] | PBind _ => True end) -> print_piece names p f <> [].
  Proof. intros [t|e] f H; cbn [print_piece]; [apply esc_follow_nonempty; exact H|discriminate]. Qed.

  (* the parse side: the value loop reads the printed pieces one by one *)
  Theorem parse_pieces : forall ps ret tail n, valid ps -> tail_ok tail ->
    length (print_pieces names ps false ++ tail) < n ->
    value_loop named stop n ret (print_pieces names ps false ++ tail) = (fold_left feed ps ret, tail).
  Proof.
    induction ps as [|p r IH]; intros ret tail n Hv Ht Hn.
    - cbn [print_pieces app fold_left]. destruct n as [|n]; [lia|]. rewrite value_loop_S.
      replace (stop tail || is_nil tail)%bool with true; [reflexivity|].
      destruct Ht as [->|Hs]; [cbn; rewrite Bool.orb_true_r; reflexivity|rewrite Hs; reflexivity].
    - cbn [print_pieces fold_left] in *. rewrite <- app_assoc in *.
      set (X := print_pieces names r false ++ tail) in *.
      destruct n as [|n]; [lia|].
      assert (Hlen : length X < n).
      { assert (Hne : print_piece names p (match r with q :: _ => piece_brace q | [] => false end) <> []).
        { apply print_piece_nonempty. destruct p; [destruct Hv; assumption|exact I]. }
        rewrite app_length in Hn. destruct (print_piece names p _) as [|x y]; [congruence|]. cbn [length] in Hn. lia. }
      destruct p as [t|e].
      + destruct Hv as [Hne [Hadj Hv]]. cbn [print_piece].
        rewrite step_text; [apply IH; assumption|exact Hne| |].
        * unfold X. destruct r as [|q r']; [cbn [print_pieces app]; apply tail_end_ok; exact Ht|].
          destruct q as [t2|e2]; [contradiction|]. cbn [print_pieces print_piece app]. unfold end_ok.
          change (lit "{{") with [123%N; 123%N]. cbn [starts_with]. rewrite !N.eqb_refl. cbn. rewrite !Bool.orb_true_r. reflexivity.
        * unfold X. destruct r as [|q r']; [cbn [print_pieces app]; apply tail_brace_ok; exact Ht|].
          destruct q as [t2|e2]; [contradiction|]. cbn [print_pieces print_piece app piece_brace brace_ok]. reflexivity.
      + destruct Hv as [Hwf Hv]. cbn [print_piece]. cbn [app]. rewrite <- app_assoc. cbn [app].
        rewrite step_bind; [apply IH; assumption|exact Hwf].
  Qed.
End ParseSide.

(* ---- the print side: the value printer splits a chain back into its pieces ---- *)
Section PrintSide.
  Variable names : nat -> str.
  Notation pr := (sx_core names).

  (* the chain of pieces as the value parser builds it (left-nested); the list is in reverse order *)
  Fixpoint chain_rev (ps : list piece) : expr :=
    match ps with
    | [] => EStr []
    | [p] => piece_expr p
    | p :: older => EBin BAdd (chain_rev older) (piece_expr p)
    end.

  Fixpoint print_rev (ps : list piece) (follows : bool) : str :=
    match ps with
    | [] => []
    | p :: older => print_rev older (piece_brace p) ++ print_piece names p follows
    end.

  Definition texts_nonempty (ps : list piece) : Prop := Forall (fun p => match p with PText t => t <> [] | PBind _ => True end) ps.

  Lemma chain_rev_cons : forall p q older, chain_rev (p :: q :: older) = EBin BAdd (chain_rev (q :: older)) (piece_expr p).
  Proof. reflexivity. Qed.

  Lemma is_text_piece_piece : forall p, is_text_piece (piece_expr p) = true.
  Proof. destruct p; reflexivity. Qed.

  Lemma is_text_piece_chain : forall ps, is_text_piece (chain_rev ps) = true.
  Proof.
    induction ps as [|p [|q older] IH]; [reflexivity|apply is_text_piece_piece|].
    rewrite chain_rev_cons. cbn [is_text_piece]. rewrite IH, is_text_piece_piece. reflexivity.
  Qed.

  Lemma sx_print_cond : forall e, sx_print names e L_Cond = pr e.
  Proof. intro e. exact (sub_cond names e). Qed.

  Lemma split_piece : forall p f, (match p with PText t => t <> [] | PBind _ => True end) ->
    sx_split names (piece_expr p) false f = print_piece names p f.
  Proof.
    intros [t|e] f H; cbn [piece_expr sx_split print_piece andb].
    - apply text_piece_esc.
    - unfold StrExpr.binding. rewrite sx_print_cond. reflexivity.
  Qed.

  Lemma brace_of_piece : forall p, (match p with PText t => t <> [] | PBind _ => True end) ->
    starts_with_brace (piece_expr p) = Some (piece_brace p).
  Proof. intros [[|c t]|e] H; [congruence|reflexivity|reflexivity]. Qed.

  Lemma sx_split_plus : forall l r whole follows, is_text_piece l = true -> is_text_piece r = true ->
    (whole && is_blank_literals (EBin BAdd l r))%bool = false ->
    sx_split names (EBin BAdd l r) whole follows =
    sx_split names l false (match starts_with_brace r with Some b => b | None => follows end) ++ sx_split names r false follows.
  Proof. intros l r whole follows Hl Hr Hb. cbn [sx_split]. rewrite Hl, Hr, Hb. reflexivity. Qed.

  (* inner positions (not the whole value) *)
  Lemma split_chain_inner : forall ps f, ps <> [] -> texts_nonempty ps ->
    sx_split names (chain_rev ps) false f = print_rev ps f.
  Proof.
    induction ps as [|p [|q older] IH]; intros f Hne Hall; [congruence| |].
    - cbn [chain_rev print_rev app]. apply split_piece. inversion Hall; assumption.
    - rewrite chain_rev_cons. inversion Hall as [|? ? Hp Hrest]; subst.
      rewrite sx_split_plus; [|apply is_text_piece_chain|apply is_text_piece_piece|reflexivity].
      rewrite (brace_of_piece p Hp), (split_piece p f Hp), (IH (piece_brace p) ltac:(discriminate) Hrest). reflexivity.
  Qed.

  Definition has_bind (ps : list piece) : Prop := Exists (fun p => match p with PBind _ => True | PText _ => False end) ps.

  Lemma blank_chain : forall ps, has_bind ps -> is_blank_literals (chain_rev ps) = false.
  Proof.
    induction ps as [|p [|q older] IH]; intro H.
    - inversion H.
    - inversion H as [? ? Hp|? ? Hr]; [destruct p; [contradiction|reflexivity]|inversion Hr].
    - rewrite chain_rev_cons. cbn [is_blank_literals]. inversion H as [? ? Hp|? ? Hr]; subst.
      + destruct p; [contradiction|]. cbn [piece_expr is_blank_literals]. apply Bool.andb_false_r.
      + rewrite (IH Hr). reflexivity.
  Qed.

  (* the whole value: at least two pieces, one of them a binding *)
  Lemma split_chain_whole : forall p q older, texts_nonempty (p :: q :: older) -> has_bind (p :: q :: older) ->
    sx_value names (chain_rev (p :: q :: older)) = print_rev (p :: q :: older) false.
  Proof.
    intros p q older Hall Hb. unfold sx_value. rewrite chain_rev_cons. inversion Hall as [|? ? Hp Hrest]; subst.
    rewrite sx_split_plus; [|apply is_text_piece_chain|apply is_text_piece_piece|].
    - rewrite (brace_of_piece p Hp), (split_piece p false Hp), (split_chain_inner (q :: older) (piece_brace p) ltac:(discriminate) Hrest).
      reflexivity.
    - rewrite <- chain_rev_cons, (blank_chain _ Hb). reflexivity.
  Qed.

  Lemma print_pieces_snoc : forall l p f, print_pieces names (l ++ [p]) f = print_pieces names l (piece_brace p) ++ print_piece names p f.
  Proof.
    induction l as [|q l IH]; intros p f.
    - cbn [app print_pieces]. rewrite app_nil_r. reflexivity.
    - cbn [app print_pieces]. rewrite IH, app_assoc. f_equal. f_equal.
      destruct l as [|x l']; reflexivity.
  Qed.

  Lemma print_rev_pieces : forall ps f, print_rev (rev ps) f = print_pieces names ps f.
  Proof.
    intros ps. induction ps as [|p l IH] using rev_ind; intro f; [reflexivity|].
    rewrite rev_app_distr. cbn [rev app print_rev]. rewrite IH, print_pieces_snoc. reflexivity.
  Qed.
End PrintSide.

(* ---- the state the value loop reaches on a list of pieces ---- *)
Definition ends_in_text (ps_rev : list piece) : Prop := match ps_rev with PText _ :: _ => True | _ => False end.

Lemma ends_in_literal_chain : forall p q older, ends_in_literal (chain_rev (p :: q :: older)) = match p with PText _ => true | PBind _ => false end.
Proof. intros [t|e] q older; reflexivity. Qed.

Lemma feed_chain : forall rest acc, 2 <= length acc ->
  (ends_in_text acc -> match rest with PText _ :: _ => False | _ => True end) -> valid rest ->
  fold_left feed rest (RD (chain_rev acc) true) = RD (chain_rev (rev rest ++ acc)) true.
Proof.
  induction rest as [|p rest IH]; intros acc Hlen Hadj Hv; [reflexivity|].
  cbn [fold_left rev]. rewrite <- app_assoc. cbn [app].
  destruct acc as [|a [|b acc']]; try (cbn in Hlen; lia).
  destruct p as [t|e].
  - destruct Hv as [Hne [Hadj2 Hv]].
    assert (Ha : match a with PText _ => False | PBind _ => True end) by (destruct a; [apply Hadj; exact I|exact I]).
    assert (Hfeed : feed (RD (chain_rev (a :: b :: acc')) true) (PText t) = RD (chain_rev (PText t :: a :: b :: acc')) true).
    { cbn [feed convert_for_text]. rewrite ends_in_literal_chain. destruct a; [contradiction|]. reflexivity. }
    rewrite Hfeed. apply IH; [cbn [length]; lia|intros _; exact Hadj2|exact Hv].
  - destruct Hv as [Hwf Hv].
    change (feed (RD (chain_rev (a :: b :: acc')) true) (PBind e)) with (RD (chain_rev (PBind e :: a :: b :: acc')) true).
    apply IH; [cbn [length]; lia|intros H; destruct H|exact Hv].
Qed.

(* a first binding directly followed by text must not end in a string literal (the parser then
   appends the text to that literal; such a value is a single binding, not a chain) *)
Definition first_ok (ps : list piece) : Prop :=
  match ps with
  | PBind e :: PText _ :: _ => ends_in_literal e = false
  | _ => True
  end.

Lemma feed_pieces : forall p q rest, valid (p :: q :: rest) -> first_ok (p :: q :: rest) ->
  fold_left feed (p :: q :: rest) (RS []) = RD (chain_rev (rev (p :: q :: rest))) true.
Proof.
  intros p q rest Hv Hf.
  assert (H2 : fold_left feed [p; q] (RS []) = RD (chain_rev [q; p]) true /\
               (ends_in_text [q; p] -> match rest with PText _ :: _ => False | _ => True end) /\ valid rest).
  { destruct p as [t|e1]; destruct q as [t2|e2]; cbn [valid] in Hv.
    - destruct Hv as [_ [F _]]. contradiction.
    - destruct Hv as [Hne [_ [_ Hv]]]. split; [|split; [intros []|exact Hv]].
      cbn. destruct t; [congruence|reflexivity].
    - destruct Hv as [_ [_ [Hadj Hv]]]. cbn in Hf. split; [|split; [intros _; exact Hadj|exact Hv]].
      cbn. rewrite Hf. reflexivity.
    - destruct Hv as [_ [_ Hv]]. split; [reflexivity|split; [intros []|exact Hv]]. }
  destruct H2 as [E [Hadj Hv2]].
  change (p :: q :: rest) with ([p; q] ++ rest). rewrite fold_left_app, E.
  rewrite (feed_chain rest [q; p] ltac:(cbn; lia) Hadj Hv2).
  rewrite rev_app_distr. reflexivity.
Qed.

Lemma valid_texts_nonempty : forall ps, valid ps -> texts_nonempty ps.
Proof.
  induction ps as [|[t|e] r IH]; intro H; [constructor| |]; cbn [valid] in H.
  - destruct H as [Hne [_ Hv]]. constructor; [exact Hne|apply IH; exact Hv].
  - destruct H as [_ Hv]. constructor; [exact I|apply IH; exact Hv].
Qed.

Lemma valid_has_bind : forall p q rest, valid (p :: q :: rest) -> has_bind (p :: q :: rest).
Proof.
  intros [t|e] q rest H; [|constructor; exact I]. cbn [valid] in H. destruct H as [_ [Hadj _]].
  destruct q; [contradiction|]. apply Exists_cons_tl. constructor. exact I.
Qed.

(* ---- the theorems ---- *)
Section ValueRoundTrip.
  Variable names : nat -> str.
  Variable named : str -> option str.
  Hypothesis named_lt : named e_lt = Some [60%N].
  Hypothesis named_quot : named e_quot = Some [34%N].
  Hypothesis named_amp : named e_amp = Some [38%N].
  Variable stop : str -> bool.
  Hypothesis stop_ok : forall c x, stop (c :: x) = true -> c = 60%N \/ c = 34%N.

  (* a mixed value of at least two pieces *)
  Theorem mixed_value_roundtrip : forall p q rest tail, valid (p :: q :: rest) -> first_ok (p :: q :: rest) ->
    tail_ok stop tail ->
    let v := chain_rev (rev (p :: q :: rest)) in
    parse_value named stop (sx_value names v ++ tail) = (RD v true, tail).
  Proof.
    intros p q rest tail Hv Hf Ht v. unfold v, parse_value.
    assert (Hpr : sx_value names (chain_rev (rev (p :: q :: rest))) = print_pieces names (p :: q :: rest) false).
    { rewrite <- print_rev_pieces.
      destruct (rev (p :: q :: rest)) as [|a [|b older]] eqn:E.
      - apply (f_equal (@length piece)) in E. rewrite rev_length in E. cbn in E. lia.
      - apply (f_equal (@length piece)) in E. rewrite rev_length in E. cbn in E. lia.
      - apply split_chain_whole.
        + rewrite <- E. apply Forall_rev. apply valid_texts_nonempty. exact Hv.
        + rewrite <- E. apply Exists_rev. apply valid_has_bind. exact Hv. }
    rewrite Hpr.
    rewrite (parse_pieces names named named_lt named_quot named_amp stop stop_ok (p :: q :: rest) (RS []) tail _ Hv Ht (Nat.lt_succ_diag_r _)).
    rewrite (feed_pieces p q rest Hv Hf). reflexivity.
  Qed.

  (* static text *)
  Theorem static_value_roundtrip : forall v tail, tail_ok stop tail ->
    parse_value named stop (escape_html_body v ++ tail) = (RS v, tail).
  Proof.
    intros v tail Ht. unfold parse_value. rewrite escape_is_esc_follow. destruct v as [|c r].
    - exact (parse_pieces names named named_lt named_quot named_amp stop stop_ok [] (RS []) tail _ I Ht (Nat.lt_succ_diag_r _)).
    - assert (E : esc_follow false (c :: r) = print_pieces names [PText (c :: r)] false)
        by (cbn [print_pieces print_piece]; rewrite app_nil_r; reflexivity).
      rewrite E.
      rewrite (parse_pieces names named named_lt named_quot named_amp stop stop_ok [PText (c :: r)] (RS []) tail);
        [reflexivity|cbn; repeat split; discriminate|exact Ht|lia].
  Qed.

  (* a single binding *)
  Theorem single_binding_roundtrip : forall e tail, wf e -> is_text_piece e = false -> tail_ok stop tail ->
    parse_value named stop (sx_value names e ++ tail) = (RD e false, tail).
  Proof.
    intros e tail Hwf Hnt Ht. unfold parse_value.
    assert (Hpr : sx_value names e = print_pieces names [PBind e] false).
    { unfold sx_value. cbn [print_pieces print_piece]. rewrite app_nil_r.
      destruct e; cbn [is_text_piece] in Hnt; try discriminate; cbn [sx_split];
        try (unfold StrExpr.binding; rewrite sx_print_cond; reflexivity).
      destruct op; try (unfold StrExpr.binding; rewrite sx_print_cond; reflexivity).
      rewrite Hnt. cbn [andb]. unfold StrExpr.binding. rewrite sx_print_cond. reflexivity. }
    rewrite Hpr.
    rewrite (parse_pieces names named named_lt named_quot named_amp stop stop_ok [PBind e] (RS []) tail);
      [reflexivity|cbn; tauto|exact Ht|lia].
  Qed.
End ValueRoundTrip.
