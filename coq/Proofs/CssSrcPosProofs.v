(* C19, source positions: every source-map entry written by the walkers carries the start
   position of a node of the input tree (or the end position of a block / of the input, which is
   what `@import` handling records when nothing follows the keyword).
   History: before fix c88801e `next_including_whitespace` read the position before skipping
   comments, so a token preceded by a comment was mapped to the comment (D22, witness
   `.c/*k*/.d{}`: the second `.` was mapped to column 2 instead of 7); the model now mirrors the
   repaired code and the witness is an Example of the correct mapping below. *)
From GE Require Import Model.Str Model.CssNum Model.CssTok Model.CssOut Model.CssUrlEnc Model.Css.
From GE Require Import Proofs.CssOutProofs Proofs.CssWalkProofs.
From Coq Require Import Lia.
Open Scope N_scope.

Definition pos_eqb (a b : pos) : bool := (p_line a =? p_line b) && (p_col a =? p_col b).
Definition mem_pos (p : pos) (l : list pos) : bool := existsb (pos_eqb p) l.

Lemma pos_eqb_refl : forall p, pos_eqb p p = true.
Proof. intros [l c]. unfold pos_eqb. cbn. rewrite !N.eqb_refl. reflexivity. Qed.

Lemma mem_pos_in : forall p l, In p l -> mem_pos p l = true.
Proof.
  intros p l H. unfold mem_pos. apply existsb_exists. exists p. split; [exact H | apply pos_eqb_refl].
Qed.

(* positions of the nodes that are not comments (plus block ends) *)
Fixpoint nc_node_poss (n : node) : list pos :=
  match n with
  | Leaf t p => if is_comment t then [] else [p]
  | Block _ p body e _ =>
      p :: e :: (fix go (l : list node) : list pos :=
                   match l with [] => [] | x :: r => nc_node_poss x ++ go r end) body
  end.
Fixpoint nc_poss (l : list node) : list pos :=
  match l with [] => [] | x :: r => nc_node_poss x ++ nc_poss r end.

Fixpoint node_has_comment (n : node) : bool :=
  match n with
  | Leaf t _ => is_comment t
  | Block _ _ body _ _ =>
      (fix go (l : list node) : bool :=
         match l with [] => false | x :: r => node_has_comment x || go r end) body
  end.
Fixpoint has_comment (l : list node) : bool :=
  match l with [] => false | x :: r => node_has_comment x || has_comment r end.

Lemma nc_poss_no_comment : forall l, has_comment l = false -> nc_poss l = poss l.
Proof.
  intro l. remember (nodes_size l) as n eqn:Hn. revert l Hn.
  induction n as [n IHn] using (well_founded_induction Wf_nat.lt_wf).
  intros l Hn H. destruct l as [|x r]; [reflexivity|].
  cbn [has_comment] in H. apply Bool.orb_false_iff in H. destruct H as [Hx Hr].
  cbn [nc_poss poss]. rewrite (IHn (nodes_size r)); [|subst n; apply size_tail|reflexivity|exact Hr].
  f_equal. destruct x as [t p|t p body e c].
  - cbn [node_has_comment] in Hx. cbn [nc_node_poss node_poss]. rewrite Hx. reflexivity.
  - rewrite node_poss_block.
    assert (E1 : nc_node_poss (Block t p body e c) = p :: e :: nc_poss body).
    { cbn [nc_node_poss].
      assert (E : (fix go (l : list node) : list pos :=
                     match l with [] => [] | x :: r => nc_node_poss x ++ go r end) body = nc_poss body).
      { clear. induction body as [|y b IH]; [reflexivity|]. cbn [nc_poss]. rewrite IH. reflexivity. }
      rewrite E. reflexivity. }
    assert (E2 : has_comment body = false).
    { cbn [node_has_comment] in Hx. rewrite <- Hx. clear. induction body as [|y b IH]; [reflexivity|]. cbn [has_comment]. rewrite IH. reflexivity. }
    rewrite E1. f_equal. f_equal. apply (IHn (nodes_size body)); [subst n; apply size_body | reflexivity | exact E2].
Qed.

(* ---- the general theorem: entries point at node starts / list ends ---- *)

Definition entries_in (S : list pos) (st : ostate) : Prop :=
  Forall (fun e => In (e_src e) S) (o_entries st).

Lemma entries_in_step : forall S st o,
  op_pos_ok (fun p => In p S) o -> entries_in S st -> entries_in S (apply_op st o).
Proof.
  intros S st o Ho H. unfold entries_in in *. destruct o as [s g|t p src|t p src]; cbn [apply_op op_pos_ok] in *.
  - destruct st; exact H.
  - rewrite append_token_entries. constructor; [exact Ho | exact H].
  - destruct (is_ws t) eqn:W.
    + destruct (is_ws_inv _ W) as [s ->]. destruct st; exact H.
    + rewrite append_token_sp_not_ws by exact W. rewrite append_token_entries. constructor; [exact Ho | exact H].
Qed.

Theorem entries_point_into_tree : forall o tree endp,
  entries_in (endp :: poss tree) (w_normal (transform o tree endp)) /\
  entries_in (endp :: poss tree) (w_low (transform o tree endp)).
Proof.
  intros o tree endp.
  apply (Pw_transform (entries_in (endp :: poss tree)) (fun p => In p (endp :: poss tree))
           (entries_in_step (endp :: poss tree))).
  - intros p Hp. right. exact Hp.
  - left. reflexivity.
  - constructor.
Qed.

(* ---- statements pinned in Properties/C19.v ---- *)

Definition src_positions_ok (o : opts) (tree : list node) (endp : pos) : Prop :=
  forallb (fun e => mem_pos (e_src e) (endp :: nc_poss tree)) (o_map (w_normal (transform o tree endp))) &&
  forallb (fun e => mem_pos (e_src e) (endp :: nc_poss tree)) (o_map (w_low (transform o tree endp))) = true.

Definition d22_opts : opts := mkopts None None 1144750080 None false None.
(* .c/*k*/.d{} : the former D22 witness *)
Definition d22_tree : list node :=
  [Leaf (TDelim 46) (mkpos 0 0); Leaf (TIdent [99]) (mkpos 0 1); Leaf (TComment [107]) (mkpos 0 2);
   Leaf (TDelim 46) (mkpos 0 7); Leaf (TIdent [100]) (mkpos 0 8);
   Block TCurly (mkpos 0 9) [] (mkpos 0 10) true].

Example d22_witness_now_correct :
  src_positions_ok d22_opts d22_tree (mkpos 0 11) /\
  map (fun e => (e_dst_col e, p_col (e_src e))) (o_map (w_normal (transform d22_opts d22_tree (mkpos 0 11))))
    = [(0, 0); (1, 1); (2, 7); (3, 8); (4, 9); (5, 9)].
Proof. split; vm_compute; reflexivity. Qed.

Lemma forallb_of_Forall_in : forall S (l : list entry),
  Forall (fun e => In (e_src e) S) l -> forallb (fun e => mem_pos (e_src e) S) l = true.
Proof.
  intros S l H. apply forallb_forall. intros e He. rewrite Forall_forall in H. apply mem_pos_in, H, He.
Qed.

Theorem src_is_token_start_no_comments : forall o tree endp,
  has_comment tree = false -> src_positions_ok o tree endp.
Proof.
  intros o tree endp Hc. unfold src_positions_ok. rewrite (nc_poss_no_comment tree Hc).
  destruct (entries_point_into_tree o tree endp) as [Hn Hl]. unfold entries_in in *.
  apply andb_true_intro. split; apply forallb_of_Forall_in; unfold o_map; apply Forall_rev; assumption.
Qed.

Example src_is_token_start_no_comments_inhabited :
  has_comment [Leaf (TDelim 46) (mkpos 0 0); Leaf (TIdent [99]) (mkpos 0 1); Leaf (TWs [32]) (mkpos 0 2);
               Leaf (TDelim 46) (mkpos 0 3); Leaf (TIdent [100]) (mkpos 0 4);
               Block TCurly (mkpos 0 5) [Leaf (TIdent [97]) (mkpos 0 6); Leaf TColon (mkpos 0 7);
                                         Leaf (TDim (mknum false (Some 1%Z) 1065353216 [49]) [114;112;120]) (mkpos 0 8)]
                     (mkpos 0 12) true] = false.
Proof. reflexivity. Qed.
