(* C07: the value of a binding depends on the data only through the top-level fields the
   binding-map analysis collects (fields_of), and collect_keys registers each of them that is
   not disabled. *)
From GE Require Import Model.Val Model.BindingMap Proofs.StrProofs Proofs.ScopeProofs.
Import ListNotations.

Lemma eo_named : forall ev k v r,
  eval_o ev (ONamed k v r) =
  match eval ev v, eval_o ev r with
  | Some x, Some rest => if existsb (fun kv => str_eqb (fst kv) k) rest then None else Some ((k, x) :: rest)
  | _, _ => None
  end.
Proof. reflexivity. Qed.
Lemma ea_normal : forall ev v r,
  eval_a ev (ANormal v r) = match eval ev v, eval_a ev r with Some x, Some rest => Some (x :: rest) | _, _ => None end.
Proof. reflexivity. Qed.

Section Dep.
  Variable ev0 ev1 : env.
  Hypothesis same_scopes : e_scopes ev0 = e_scopes ev1.

  Definition agree_on (fs : list str) : Prop := forall x, In x fs -> get_prop (e_data ev0) x = get_prop (e_data ev1) x.

  Lemma agree_app : forall a b, agree_on (a ++ b) -> agree_on a /\ agree_on b.
  Proof. intros a b H. split; intros x Hx; apply H; apply in_or_app; [now left | now right]. Qed.

  Theorem eval_depends_on_fields :
    (forall e, agree_on (fields_of e) -> eval ev0 e = eval ev1 e) /\
    (forall l : exprs, True) /\
    (forall l, agree_on (fields_of_o l) -> eval_o ev0 l = eval_o ev1 l) /\
    (forall l, agree_on (fields_of_a l) -> eval_a ev0 l = eval_a ev1 l).
  Proof.
    apply expr_mutind; try (intros; exact I).
    - intros i _. cbn [eval]. now rewrite same_scopes.
    - intros x H. cbn [eval]. unfold data_field. apply H. now left.
    - intros e IH H. cbn [fields_of] in H; cbn [eval]. now rewrite (IH H).
    - reflexivity. - reflexivity. - reflexivity. - reflexivity. - reflexivity. - reflexivity.
    - intros fs IH H. cbn [fields_of] in H. change (eval ev0 (EObj fs)) with (option_map VObj (eval_o ev0 fs)).
      change (eval ev1 (EObj fs)) with (option_map VObj (eval_o ev1 fs)). now rewrite (IH H).
    - intros fs IH H. cbn [fields_of] in H. change (eval ev0 (EArr fs)) with (option_map VArr (eval_a ev0 fs)).
      change (eval ev1 (EArr fs)) with (option_map VArr (eval_a ev1 fs)). now rewrite (IH H).
    - intros o IH k H. cbn [fields_of] in H; cbn [eval]. now rewrite (IH H).
    - intros o IHo k IHk H. cbn [fields_of] in H; cbn [eval]. apply agree_app in H. destruct H as [Ho Hk].
      now rewrite (IHo Ho), (IHk Hk).
    - intros f IHf args _ H. reflexivity.
    - intros op e IH H. cbn [fields_of] in H; cbn [eval]. now rewrite (IH H).
    - intros op l IHl r IHr H. cbn [fields_of] in H. apply agree_app in H. destruct H as [Hl Hr].
      destruct op; cbn [eval]; rewrite (IHl Hl), (IHr Hr); reflexivity.
    - intros c IHc t IHt f IHf H. cbn [fields_of] in H.
      apply agree_app in H. destruct H as [Hc H]. apply agree_app in H. destruct H as [Ht Hf].
      cbn [eval]. now rewrite (IHc Hc), (IHt Ht), (IHf Hf).
    - intros _. reflexivity.
    - intros k v IHv r IHr H. cbn [fields_of_o] in H. apply agree_app in H. destruct H as [Hv Hr].
      rewrite !eo_named. now rewrite (IHv Hv), (IHr Hr).
    - intros v IHv r IHr H. reflexivity.
    - intros _. reflexivity.
    - intros v IHv r IHr H. cbn [fields_of_a] in H. apply agree_app in H. destruct H as [Hv Hr].
      rewrite !ea_normal. now rewrite (IHv Hv), (IHr Hr).
    - intros v IHv r IHr H. reflexivity.
    - intros r IHr H. reflexivity.
  Qed.
End Dep.

(* every field of the expression that is not disabled gets a key (an index under which the
   binding's updater is registered in B[field]) *)
Definition not_disabled (b : bmc) (f : str) : Prop := assoc_get f (bm_fields b) <> Some Disabled.

Lemma assoc_get_set_same : forall k v l, assoc_get k (assoc_set k v l) = Some v.
Proof.
  intros k v. induction l as [|[k' v'] r IH]; cbn.
  - now rewrite str_eqb_refl.
  - destruct (str_eqb k k') eqn:E; cbn; [now rewrite str_eqb_refl | now rewrite E].
Qed.

Lemma assoc_get_set_other : forall k k' v l, str_eqb k' k = false -> assoc_get k' (assoc_set k v l) = assoc_get k' l.
Proof.
  intros k k' v. induction l as [|[k2 v2] r IH]; intros E; cbn.
  - now rewrite E.
  - destruct (str_eqb k k2) eqn:E2; cbn.
    + apply str_eqb_eq in E2. subst k2. now rewrite E.
    + destruct (str_eqb k' k2); [reflexivity | now apply IH].
Qed.

Lemma add_field_not_disabled : forall b g f, not_disabled b f -> not_disabled (fst (add_field b g)) f.
Proof.
  intros b g f H. unfold add_field, not_disabled in *.
  destruct (assoc_get g (bm_fields b)) as [[x|]|] eqn:Eg; cbn [fst bm_fields]; try exact H.
  - destruct (str_eqb f g) eqn:E.
    + apply str_eqb_eq in E. subst g. rewrite assoc_get_set_same. discriminate.
    + now rewrite assoc_get_set_other.
  - destruct (str_eqb f g) eqn:E.
    + apply str_eqb_eq in E. subst g. rewrite assoc_get_set_same. discriminate.
    + now rewrite assoc_get_set_other.
Qed.

Lemma add_field_some : forall b f, not_disabled b f -> exists i, snd (add_field b f) = Some i.
Proof.
  intros b f H. unfold add_field, not_disabled in *.
  destruct (assoc_get f (bm_fields b)) as [[x|]|]; cbn; eauto. congruence.
Qed.

Definition ck_step (acc : bmc * list (str * N)) (f : str) : bmc * list (str * N) :=
  let '(b', keys) := acc in
  match add_field b' f with
  | (b'', Some i) => (b'', keys ++ [(f, i)])
  | (b'', None) => (b'', keys)
  end.

Lemma ck_fold_keeps : forall l acc x, In x (snd acc) -> In x (snd (fold_left ck_step l acc)).
Proof.
  induction l as [|g l IH]; intros acc x H; [exact H|]. cbn [fold_left]. apply IH.
  destruct acc as [b keys]. unfold ck_step. destruct (add_field b g) as [b2 [i|]]; cbn [snd] in *; [apply in_or_app; now left | exact H].
Qed.

Lemma ck_fold_complete : forall l acc f, In f l -> not_disabled (fst acc) f ->
  exists i, In (f, i) (snd (fold_left ck_step l acc)).
Proof.
  induction l as [|g l IH]; intros acc f Hin Hn; [destruct Hin|]. cbn [fold_left].
  destruct Hin as [->|Hin].
  - destruct acc as [b keys]. cbn [fst] in Hn. destruct (add_field_some b f Hn) as [i Hi].
    exists i. apply ck_fold_keeps. unfold ck_step. destruct (add_field b f) as [b2 o]. cbn [snd] in Hi. subst o.
    cbn [snd]. apply in_or_app. right. now left.
  - apply IH; [exact Hin|]. destruct acc as [b keys]. cbn [fst] in Hn. unfold ck_step.
    pose proof (add_field_not_disabled b g f Hn) as H2. destruct (add_field b g) as [b2 [i|]]; exact H2.
Qed.

Theorem collect_keys_complete : forall b e f, In f (fields_of e) -> not_disabled b f ->
  exists i, In (f, i) (snd (collect_keys b e)).
Proof.
  intros b e f Hin Hn. unfold collect_keys.
  change (fun acc f0 => let '(b', keys) := acc in match add_field b' f0 with
                                                    | (b'', Some i) => (b'', keys ++ [(f0, i)])
                                                    | (b'', None) => (b'', keys) end) with ck_step.
  now apply ck_fold_complete.
Qed.
