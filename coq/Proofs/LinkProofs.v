From GE Require Import Model.Link.
Import ListNotations.

Definition import_defines (reg : registry) (base rel name : str) : option str :=
  match import_target base rel with
  | Some p => match reg_defs reg p with
              | Some defs => if mem_str name defs then Some p else None
              | None => None
              end
  | None => None
  end.

Lemma owner_in_imports_cons : forall reg base rel rest name,
  owner_in_imports reg base (rel :: rest) name =
  match owner_in_imports reg base rest name with
  | Some p => Some p
  | None => import_defines reg base rel name
  end.
Proof. reflexivity. Qed.

Lemma owner_in_imports_app : forall reg base a b name,
  owner_in_imports reg base (a ++ b) name =
  match owner_in_imports reg base b name with
  | Some p => Some p
  | None => owner_in_imports reg base a name
  end.
Proof.
  intros reg base a b name. induction a as [|x a IH]; cbn [app].
  - cbn [owner_in_imports]. destruct (owner_in_imports reg base b name); reflexivity.
  - rewrite !owner_in_imports_cons, IH.
    destruct (owner_in_imports reg base b name); [reflexivity|].
    destruct (owner_in_imports reg base a name); reflexivity.
Qed.

Lemma owner_none : forall reg base imports name,
  (forall rel, In rel imports -> import_defines reg base rel name = None) ->
  owner_in_imports reg base imports name = None.
Proof.
  intros reg base imports name H. induction imports as [|x r IH]; [reflexivity|].
  rewrite owner_in_imports_cons, IH.
  - apply H. now left.
  - intros rel Hin. apply H. now right.
Qed.

(* local definitions win *)
Theorem owner_local : forall reg base local imports name,
  mem_str name local = true -> template_owner reg base local imports name = Some base.
Proof. intros. unfold template_owner. now rewrite H. Qed.

(* otherwise the LAST import that defines the name wins, whatever earlier imports define *)
Theorem owner_last_import : forall reg base local pre rel post name p,
  mem_str name local = false ->
  import_defines reg base rel name = Some p ->
  (forall r, In r post -> import_defines reg base r name = None) ->
  template_owner reg base local (pre ++ rel :: post) name = Some p.
Proof.
  intros reg base local pre rel post name p Hl Hd Hpost. unfold template_owner. rewrite Hl.
  rewrite owner_in_imports_app, owner_in_imports_cons, (owner_none _ _ _ _ Hpost), Hd. reflexivity.
Qed.

Theorem owner_undefined : forall reg base local imports name,
  mem_str name local = false ->
  (forall r, In r imports -> import_defines reg base r name = None) ->
  template_owner reg base local imports name = None.
Proof. intros. unfold template_owner. rewrite H. now apply owner_none. Qed.
