(* C11: the l-value path analysed for a binding names the location the binding reads (get). *)
From GE Require Import Model.LvPath Proofs.UptProofs.
Import ListNotations.

Lemma get_path_app : forall d ks k, get_path d (ks ++ [k]) = getp (get_path d ks) k.
Proof. intros. unfold get_path. now rewrite fold_left_app. Qed.

Section Get.
  Variable scopes : list scope_var.
  Variable lit_str : str -> str.
  Variable hv : str -> option val.
  Variable ev : env.

  Notation core := (gen_core scopes lit_str).

  Lemma hoists_mono : forall e, frag e -> forall st, incl (hoists st) (hoists (fst (core e st))).
  Proof.
    intros e Hf st.
    exact (proj1 (gen_sound scopes lit_str (fun _ => UNone) (fun _ => UNone) hv ev ev (covers_refl _ _)
                            (fun i => covers_refl _ _) e Hf st)).
  Qed.

  Lemma tail_keys_app : forall a t,
    tail_keys hv (a ++ [t]) = match tail_keys hv a, tail_key hv t with
                              | Some ks, Some k => Some (ks ++ [k])
                              | _, _ => None
                              end.
  Proof.
    induction a as [|x a IH]; intros t; cbn [app tail_keys].
    - destruct (tail_key hv t); reflexivity.
    - rewrite IH. destruct (tail_key hv x), (tail_keys hv a), (tail_key hv t); reflexivity.
  Qed.

  Lemma path_den_eq : forall h tail,
    path_den hv (PPath h tail) = match head_den hv h, tail_keys hv tail with
                                 | Some a, Some b => Some (a ++ b)
                                 | _, _ => None
                                 end.
  Proof. reflexivity. Qed.

  Lemma head_den_cond : forall i pt ct pf cf,
    head_den hv (HCond i (PRes pt ct) (PRes pf cf)) =
    match pt, pf with
    | Some a, Some b => if hv_truthy hv i then path_den hv a else path_den hv b
    | Some a, None => if hv_truthy hv i then path_den hv a else None
    | None, Some b => if hv_truthy hv i then None else path_den hv b
    | None, None => None
    end.
  Proof. intros. destruct pt, pf; reflexivity. Qed.

  Lemma path_den_push : forall h tail t,
    path_den hv (PPath h (tail ++ [t])) =
    match path_den hv (PPath h tail), tail_key hv t with
    | Some ks, Some k => Some (ks ++ [k])
    | _, _ => None
    end.
  Proof.
    intros. rewrite !path_den_eq, tail_keys_app.
    destruct (head_den hv h), (tail_keys hv tail), (tail_key hv t); try reflexivity.
    now rewrite app_assoc.
  Qed.

  Definition reads (o : gout) (e : expr) : Prop :=
    forall p ks v, g_pas o = Some p -> path_den hv p = Some ks -> eval ev e = Some v ->
                   get_path (e_data ev) ks = Some v.

  Definition good (e : expr) : Prop :=
    forall st, hv_ok (hoists (fst (core e st))) hv ev -> reads (snd (core e st)) e.

  Lemma reads_wrapg : forall a l r e, reads (snd (wrapg a l r)) e <-> reads (snd r) e.
  Proof. intros a l [st o] e. unfold reads. cbn. tauto. Qed.

  Lemma reads_nopath : forall v calc j e, reads {| g_val := v; g_pas := None; g_calc := calc; g_js := j |} e.
  Proof. intros v calc j e p ks x H. discriminate. Qed.

  Lemma sub_reads : forall e a st, good e ->
    hv_ok (hoists (fst (wrapg a (pg_level e) (core e st)))) hv ev -> reads (snd (wrapg a (pg_level e) (core e st))) e.
  Proof. intros e a st G Hh. rewrite fst_wrapg in Hh. apply reads_wrapg. now apply G. Qed.

  Lemma mono_wrapg : forall e a st, frag e -> incl (hoists st) (hoists (fst (wrapg a (pg_level e) (core e st)))).
  Proof. intros. rewrite fst_wrapg. now apply hoists_mono. Qed.

  Lemma good_field : forall x, good (EField x).
  Proof.
    intros x st _ p ks v Hp Hd Hv. cbn [gen_core snd g_pas] in Hp. inversion Hp; subst. cbn in Hd. inversion Hd; subst.
    cbn [get_path fold_left]. exact Hv.
  Qed.

  Lemma good_member : forall o k, frag o -> good o -> good (EMember o k).
  Proof.
    intros o k Hf IH st. cbn [gen_core].
    pose proof (sub_reads o L_Cond st IH) as Hr.
    destruct (wrapg L_Cond (pg_level o) (core o st)) as [st1 o1]. cbn [fst snd] in *.
    intros Hh p ks v Hp Hd Hv. specialize (Hr Hh). cbn [g_pas] in Hp.
    destruct (g_pas o1) as [[h tail]|] eqn:Ep; cbn [push_tail] in Hp; [|discriminate].
    inversion Hp; subst. rewrite path_den_push in Hd.
    destruct (path_den hv (PPath h tail)) as [ks0|] eqn:Ed; [|discriminate].
    cbn [tail_key] in Hd. inversion Hd; subst.
    change (eval ev (EMember o k)) with (getp (eval ev o) k) in Hv.
    destruct (eval ev o) as [x|] eqn:Eo; [|discriminate].
    rewrite get_path_app. rewrite (Hr _ _ _ Ep Ed Eo). exact Hv.
  Qed.

  Lemma good_index : forall o k, frag o -> frag k -> good o -> good (EIndex o k).
  Proof.
    intros o k Hfo Hfk IHo st. cbn [gen_core]. destruct (gen_private st) as [ident st0] eqn:Ep.
    pose proof (mono_wrapg k L_Cond st0 Hfk) as Hi1.
    destruct (wrapg L_Cond (pg_level k) (core k st0)) as [st1 ok]. cbn [fst snd] in *.
    set (st2 := emit_hoist st1 ident k (g_val (end_path ok)) (g_js (end_path ok))).
    pose proof (mono_wrapg o L_Cond st2 Hfo) as Hi2.
    pose proof (sub_reads o L_Cond st2 IHo) as Hr.
    destruct (wrapg L_Cond (pg_level o) (core o st2)) as [st3 oo]. cbn [fst snd] in *.
    intros Hh p ks v Hp Hd Hv. specialize (Hr Hh).
    assert (Hid : hv ident = eval ev k).
    { apply Hh. apply Hi2. apply in_emit_hoist. }
    cbn [g_pas] in Hp.
    destruct (g_pas oo) as [[h tail]|] eqn:Epo; cbn [push_tail] in Hp; [|discriminate].
    inversion Hp; subst. rewrite path_den_push in Hd.
    destruct (path_den hv (PPath h tail)) as [ks0|] eqn:Ed; [|discriminate].
    cbn [tail_key] in Hd. rewrite Hid in Hd.
    rewrite (eval_index_key ev o k) in Hv.
    destruct (zkey (eval ev k)) as [s|]; [|discriminate]. inversion Hd; subst.
    destruct (eval ev o) as [x|] eqn:Eo; [|discriminate].
    rewrite get_path_app. rewrite (Hr _ _ _ Epo Ed Eo). exact Hv.
  Qed.

  Lemma good_cond : forall c t f, frag c -> frag t -> frag f -> good t -> good f -> good (ECond c t f).
  Proof.
    intros c t f Hfc Hft Hff IHt IHf st. cbn [gen_core]. destruct (gen_private st) as [ident st0] eqn:Ep.
    pose proof (mono_wrapg c L_Cond st0 Hfc) as Hi1.
    destruct (wrapg L_Cond (pg_level c) (core c st0)) as [st1 oc]. cbn [fst snd] in *.
    set (st2 := emit_hoist st1 ident c (g_val (end_path oc)) (g_js (end_path oc))).
    pose proof (mono_wrapg t L_Cond st2 Hft) as Hi2.
    pose proof (sub_reads t L_Cond st2 IHt) as Hrt.
    destruct (wrapg L_Cond (pg_level t) (core t st2)) as [st3 ot]. cbn [fst snd] in *.
    pose proof (mono_wrapg f L_Cond st3 Hff) as Hi3.
    pose proof (sub_reads f L_Cond st3 IHf) as Hrf.
    destruct (wrapg L_Cond (pg_level f) (core f st3)) as [st4 of]. cbn [fst snd] in *.
    intros Hh p ks v Hp Hd Hv.
    assert (Hid : hv ident = eval ev c).
    { apply Hh. apply Hi3. apply Hi2. apply in_emit_hoist. }
    assert (Hh3 : hv_ok (hoists st3) hv ev) by (eapply hv_ok_incl; eauto).
    specialize (Hrt Hh3). specialize (Hrf Hh).
    cbn [g_pas] in Hp. inversion Hp; subst. clear Hp.
    cbn [eval] in Hv. destruct (eval ev c) as [x|] eqn:Ec; [|discriminate].
    rewrite path_den_eq in Hd. cbn [tail_keys] in Hd.
    rewrite head_den_cond in Hd. unfold hv_truthy in Hd. rewrite Hid in Hd.
    destruct (g_pas ot) as [pt|] eqn:Et; destruct (g_pas of) as [pf|] eqn:Ef; try discriminate;
      destruct (truthy x); try discriminate;
      match type of Hd with
      | match path_den hv ?q with _ => _ end = _ =>
          destruct (path_den hv q) as [ks1|] eqn:Eq; [|discriminate];
          inversion Hd; subst; rewrite app_nil_r
      end;
      first [ exact (Hrt _ _ _ Et Eq Hv) | exact (Hrf _ _ _ Ef Eq Hv) ].
  Qed.

  Lemma good_scope : forall i, good (EScope i).
  Proof.
    intros i st _ p ks v Hp Hd Hv. cbn [gen_core snd g_pas] in Hp.
    destruct (sv_lv (scope_nth scopes i)); destruct (sv_upt (scope_nth scopes i)); try discriminate;
      inversion Hp; subst; cbn in Hd; discriminate.
  Qed.

  Theorem path_get : forall e, frag e -> good e.
  Proof.
    induction 1.
    - apply good_field.
    - apply good_scope.
    - intros st _; cbn [gen_core snd]; apply reads_nopath.
    - intros st _; cbn [gen_core snd]; apply reads_nopath.
    - intros st _; cbn [gen_core snd]; apply reads_nopath.
    - intros st _; cbn [gen_core snd]; apply reads_nopath.
    - intros st _; cbn [gen_core snd]; apply reads_nopath.
    - intros st _; cbn [gen_core snd]; apply reads_nopath.
    - intros st _. cbn [gen_core]. destruct (wrapg L_Cond (pg_level v) (core v st)). apply reads_nopath.
    - now apply good_member.
    - now apply good_index.
    - intros st _. cbn [gen_core]. destruct (wrapg L_Unary (pg_level v) (core v st)). apply reads_nopath.
    - intros st _. destruct op; cbn [gen_core];
        repeat match goal with
               | |- context [gen_private ?s] => destruct (gen_private s)
               | |- context [wrapg ?a ?l ?r] => destruct (wrapg a l r)
               end; apply reads_nopath.
    - now apply good_cond.
  Qed.
End Get.
