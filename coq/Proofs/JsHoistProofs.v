(* T4: executing the hoisted `var` statements in order and then evaluating the emitted tree gives
   the value of the source expression, from ANY initial values of the hoisted variables.
   (Removes the hypothesis `hv_ok` of T3 by construction.) *)
From GE Require Import Model.JsSem Model.Upt Proofs.StrProofs Proofs.UptProofs Proofs.VarNameProofs Proofs.JsGenProofs.
From Coq Require Import Lia ZifyBool ZifyN.
Import ListNotations.
Local Open Scope N_scope.

Definition hname (c : N) : str := 36 :: var_name c.

Lemma hname_inj : forall a b, hname a = hname b -> a = b.
Proof.
  intros a b H. unfold hname in H. apply var_name_injective.
  exact (f_equal (@tl N) H).
Qed.

(* hoisted variables a tree mentions *)
Fixpoint jidents (j : jx) : list str :=
  match j with
  | JToStr v | JUn _ v | JParen v => jidents v
  | JMember o _ => jidents o
  | JIndex o i => i :: jidents o
  | JBin _ l r => jidents l ++ jidents r
  | JCondVar i t f => i :: jidents t ++ jidents f
  | JNullishVar i r => i :: jidents r
  | _ => []
  end.

Lemma jeval_ext : forall ev h1 h2 j, (forall k, In k (jidents j) -> h1 k = h2 k) -> jeval ev h1 j = jeval ev h2 j.
Proof.
  intros ev h1 h2. induction j; intros H; cbn [jeval jidents] in *; try reflexivity.
  - now rewrite IHj.
  - now rewrite IHj.
  - rewrite IHj by (intros; apply H; now right). rewrite (H ident) by now left. reflexivity.
  - now rewrite IHj.
  - rewrite IHj1 by (intros; apply H, in_or_app; now left).
    rewrite IHj2 by (intros; apply H, in_or_app; now right). reflexivity.
  - rewrite (H ident) by now left.
    rewrite IHj1 by (intros; apply H; right; apply in_or_app; now left).
    rewrite IHj2 by (intros; apply H; right; apply in_or_app; now right). reflexivity.
  - rewrite (H ident) by now left. rewrite IHj by (intros; apply H; now right). reflexivity.
  - now apply IHj.
Qed.

Lemma run_hoists_app : forall ev a b h, run_hoists ev (a ++ b) h = run_hoists ev b (run_hoists ev a h).
Proof. intros ev a. induction a as [|[i j] a IH]; intros b h; cbn [app run_hoists]; [reflexivity | apply IH]. Qed.

Definition inr (a b : N) (k : str) : Prop := exists c, a <= c < b /\ k = hname c.

Lemma inr_widen : forall a b a' b' k, inr a b k -> a' <= a -> b <= b' -> inr a' b' k.
Proof. intros a b a' b' k [c [Hc Hk]] H1 H2. exists c. split; [lia | exact Hk]. Qed.

Lemma inr_disjoint : forall a b c d k, inr a b k -> inr c d k -> b <= c -> False.
Proof. intros a b c d k [x [Hx Hk]] [y [Hy Hk']] H. subst k. apply hname_inj in Hk'. lia. Qed.

Section Hoist.
  Variable scopes : list scope_var.
  Variable lit_str : str -> str.
  Variable ev : env.
  Notation core := (gen_core scopes lit_str).

  (* what one generation step adds and guarantees *)
  Definition step_ok (e : expr) (st : gst) (r : gst * gout) : Prop :=
    next_priv st <= next_priv (fst r) /\
    exists new_js,
      hoists_js (fst r) = hoists_js st ++ new_js /\
      (forall k, In k (map fst new_js) -> inr (next_priv st) (next_priv (fst r)) k) /\
      (forall k, In k (jidents (g_js (snd r))) -> inr (next_priv st) (next_priv (fst r)) k) /\
      forall henv0,
        let henv' := run_hoists ev new_js henv0 in
        jeval ev henv' (g_js (snd r)) = eval ev e /\
        (forall k, ~ inr (next_priv st) (next_priv (fst r)) k -> henv' k = henv0 k).

  Definition good (e : expr) : Prop := forall st, step_ok e st (core e st).

  Lemma step_wrapg : forall e a st, step_ok e st (core e st) -> step_ok e st (wrapg a (pg_level e) (core e st)).
  Proof.
    intros e a st H. destruct (core e st) as [st1 o]. unfold step_ok in *. cbn [wrapg fst snd g_js] in *.
    destruct H as [Hn [new [Hh [Hi [Hj Hs]]]]]. split; [exact Hn|]. exists new. repeat split; try assumption.
    - destruct (a <? pg_level e); exact Hj.
    - destruct (a <? pg_level e); cbn [jeval]; apply Hs.
    - apply Hs.
  Qed.

  Lemma good_leaf : forall e st v p c j,
    (forall h, jeval ev h j = eval ev e) -> jidents j = [] ->
    step_ok e st (st, {| g_val := v; g_pas := p; g_calc := c; g_js := j |}).
  Proof.
    intros e st v p c j Hj Hi. unfold step_ok. cbn [fst snd g_js]. split; [lia|]. exists []. rewrite app_nil_r.
    repeat split; try reflexivity.
    - intros k [].
    - rewrite Hi. intros k [].
    - apply Hj.
  Qed.

  Lemma not_inr_hname : forall n a b, n < a -> ~ inr a b (hname n).
  Proof. intros n a b H [c [Hc Hk]]. apply hname_inj in Hk. lia. Qed.

  Lemma inr_hname : forall n a b, a <= n < b -> inr a b (hname n).
  Proof. intros n a b H. exists n. split; [exact H | reflexivity]. Qed.

  (* the first phase of every hoisting construct: allocate ident, generate sub-expression x,
     hoist it. Afterwards the variable holds the value of x and nothing outside the range moved. *)
  Lemma hoist_phase : forall x st ident st0 st1 ox,
    gen_private st = (ident, st0) ->
    step_ok x st0 (st1, ox) ->
    let st2 := emit_hoist st1 ident x (g_val (end_path ox)) (g_js (end_path ox)) in
    ident = hname (next_priv st) /\ next_priv st < next_priv st2 /\
    exists new,
      hoists_js st2 = hoists_js st ++ new /\
      (forall k, In k (map fst new) -> inr (next_priv st) (next_priv st2) k) /\
      forall henv0,
        let h := run_hoists ev new henv0 in
        h ident = eval ev x /\
        (forall k, ~ inr (next_priv st) (next_priv st2) k -> h k = henv0 k).
  Proof.
    intros x st ident st0 st1 ox Ep Hx st2.
    unfold gen_private in Ep. inversion Ep; subst ident st0; clear Ep.
    destruct Hx as [Hn [newx [Hh [Hi [_ Hs]]]]]. cbn [fst snd next_priv hoists_js] in *.
    split; [reflexivity|]. split; [cbn; lia|].
    exists (newx ++ [(hname (next_priv st), g_js ox)]). repeat split.
    - cbn [st2 emit_hoist hoists_js end_path g_js]. rewrite Hh. now rewrite app_assoc.
    - intros k Hk. rewrite map_app in Hk. apply in_app_or in Hk. destruct Hk as [Hk|[Hk|[]]].
      + eapply inr_widen; [apply Hi, Hk | lia | cbn; lia].
      + subst k. apply inr_hname. cbn. lia.
    - rewrite run_hoists_app. cbn [run_hoists]. rewrite str_eqb_refl. apply Hs.
    - intros k Hk. rewrite run_hoists_app. cbn [run_hoists].
      destruct (str_eqb k (hname (next_priv st))) eqn:E.
      + apply str_eqb_eq in E. subst k. exfalso. apply Hk. apply inr_hname. cbn. lia.
      + apply Hs. intros Hin. apply Hk. eapply inr_widen; [exact Hin | lia | cbn; lia].
  Qed.

  Ltac widen := eapply inr_widen; [eassumption | cbn in *; lia | cbn in *; lia].

  Lemma good_index : forall o k, good o -> good k -> good (EIndex o k).
  Proof.
    intros o k Go Gk st. cbn [gen_core]. destruct (gen_private st) as [ident st0] eqn:Ep.
    pose proof (step_wrapg k L_Cond st0 (Gk st0)) as Hk.
    destruct (wrapg L_Cond (pg_level k) (core k st0)) as [st1 ok].
    pose proof (hoist_phase k st ident st0 st1 ok Ep Hk) as Hph. cbv zeta in Hph.
    set (st2 := emit_hoist st1 ident k (g_val (end_path ok)) (g_js (end_path ok))) in *.
    pose proof (step_wrapg o L_Cond st2 (Go st2)) as Ho.
    destruct (wrapg L_Cond (pg_level o) (core o st2)) as [st3 oo].
    destruct Hph as [Hid [Hlt [newA [HhA [HiA HsA]]]]].
    destruct Ho as [HnO [newO [HhO [HiO [HjO HsO]]]]]. cbn [fst snd] in *.
    unfold step_ok. cbn [fst snd g_js]. split; [lia|]. exists (newA ++ newO). repeat split.
    - rewrite HhO, HhA. now rewrite app_assoc.
    - intros x Hx. rewrite map_app in Hx. apply in_app_or in Hx. destruct Hx as [Hx|Hx].
      + apply HiA in Hx. widen.
      + apply HiO in Hx. widen.
    - intros x Hx. cbn [jidents] in Hx. destruct Hx as [Hx|Hx].
      + subst x ident. apply inr_hname. lia.
      + apply HjO in Hx. widen.
    - rewrite run_hoists_app. cbn [jeval eval].
      destruct (HsA henv0) as [HA1 HA2]. destruct (HsO (run_hoists ev newA henv0)) as [HO1 HO2].
      rewrite HO1. rewrite HO2 by (subst ident; apply not_inr_hname; lia). now rewrite HA1.
    - intros x Hx. rewrite run_hoists_app.
      destruct (HsA henv0) as [HA1 HA2]. destruct (HsO (run_hoists ev newA henv0)) as [HO1 HO2].
      rewrite HO2 by (intros Hin; apply Hx; widen). apply HA2. intros Hin; apply Hx; widen.
  Qed.

  (* a tree generated in an earlier phase keeps its value when later phases add variables *)
  Lemma stable : forall j a b c h1 h2,
    (forall k, In k (jidents j) -> inr a b k) -> b <= c ->
    (forall k, ~ inr b c k -> h2 k = h1 k) ->
    jeval ev h2 j = jeval ev h1 j.
  Proof.
    intros j a b c h1 h2 Hj Hbc Hout. apply jeval_ext. intros k Hk. apply Hout.
    intros Hin. exact (inr_disjoint _ _ _ _ _ (Hj k Hk) Hin (N.le_refl _)).
  Qed.

  Lemma good_nullish : forall l r, good l -> good r -> good (EBin BNullish l r).
  Proof.
    intros l r Gl Gr st. cbn [gen_core]. destruct (gen_private st) as [ident st0] eqn:Ep.
    pose proof (step_wrapg l L_Cond st0 (Gl st0)) as Hl.
    destruct (wrapg L_Cond (pg_level l) (core l st0)) as [st1 ol].
    pose proof (hoist_phase l st ident st0 st1 ol Ep Hl) as Hph. cbv zeta in Hph.
    set (st2 := emit_hoist st1 ident l (g_val (end_path ol)) (g_js (end_path ol))) in *.
    pose proof (step_wrapg r L_Cond st2 (Gr st2)) as Hr.
    destruct (wrapg L_Cond (pg_level r) (core r st2)) as [st3 or].
    destruct Hph as [Hid [Hlt [newA [HhA [HiA HsA]]]]].
    destruct Hr as [HnO [newO [HhO [HiO [HjO HsO]]]]]. cbn [fst snd] in *.
    unfold step_ok. cbn [fst snd g_js end_path]. split; [lia|]. exists (newA ++ newO). repeat split.
    - rewrite HhO, HhA. now rewrite app_assoc.
    - intros x Hx. rewrite map_app in Hx. apply in_app_or in Hx. destruct Hx as [Hx|Hx].
      + apply HiA in Hx. widen.
      + apply HiO in Hx. widen.
    - intros x Hx. cbn [jidents] in Hx. destruct Hx as [Hx|Hx].
      + subst x ident. apply inr_hname. lia.
      + apply HjO in Hx. widen.
    - rewrite run_hoists_app. cbn [jeval eval].
      destruct (HsA henv0) as [HA1 HA2]. destruct (HsO (run_hoists ev newA henv0)) as [HO1 HO2].
      rewrite HO1. rewrite HO2 by (subst ident; apply not_inr_hname; lia). now rewrite HA1.
    - intros x Hx. rewrite run_hoists_app.
      destruct (HsA henv0) as [HA1 HA2]. destruct (HsO (run_hoists ev newA henv0)) as [HO1 HO2].
      rewrite HO2 by (intros Hin; apply Hx; widen). apply HA2. intros Hin; apply Hx; widen.
  Qed.

  Lemma good_cond : forall c t f, good c -> good t -> good f -> good (ECond c t f).
  Proof.
    intros c t f Gc Gt Gf st. cbn [gen_core]. destruct (gen_private st) as [ident st0] eqn:Ep.
    pose proof (step_wrapg c L_Cond st0 (Gc st0)) as Hc.
    destruct (wrapg L_Cond (pg_level c) (core c st0)) as [st1 oc].
    pose proof (hoist_phase c st ident st0 st1 oc Ep Hc) as Hph. cbv zeta in Hph.
    set (st2 := emit_hoist st1 ident c (g_val (end_path oc)) (g_js (end_path oc))) in *.
    pose proof (step_wrapg t L_Cond st2 (Gt st2)) as Ht.
    destruct (wrapg L_Cond (pg_level t) (core t st2)) as [st3 ot].
    pose proof (step_wrapg f L_Cond st3 (Gf st3)) as Hf.
    destruct (wrapg L_Cond (pg_level f) (core f st3)) as [st4 of].
    destruct Hph as [Hid [Hlt [newA [HhA [HiA HsA]]]]].
    destruct Ht as [HnT [newT [HhT [HiT [HjT HsT]]]]].
    destruct Hf as [HnF [newF [HhF [HiF [HjF HsF]]]]]. cbn [fst snd] in *.
    unfold step_ok. cbn [fst snd g_js]. split; [lia|]. exists (newA ++ newT ++ newF). repeat split.
    - rewrite HhF, HhT, HhA. now rewrite !app_assoc.
    - intros x Hx. rewrite !map_app in Hx. apply in_app_or in Hx. destruct Hx as [Hx|Hx]; [|apply in_app_or in Hx; destruct Hx as [Hx|Hx]].
      + apply HiA in Hx. widen.
      + apply HiT in Hx. widen.
      + apply HiF in Hx. widen.
    - intros x Hx. cbn [jidents] in Hx. destruct Hx as [Hx|Hx]; [|apply in_app_or in Hx; destruct Hx as [Hx|Hx]].
      + subst x ident. apply inr_hname. lia.
      + apply HjT in Hx. widen.
      + apply HjF in Hx. widen.
    - rewrite !run_hoists_app. cbn [jeval eval].
      destruct (HsA henv0) as [HA1 HA2]. set (hA := run_hoists ev newA henv0) in *.
      destruct (HsT hA) as [HT1 HT2]. set (hT := run_hoists ev newT hA) in *.
      destruct (HsF hT) as [HF1 HF2]. set (hF := run_hoists ev newF hT) in *.
      rewrite HF2 by (subst ident; apply not_inr_hname; lia).
      rewrite HT2 by (subst ident; apply not_inr_hname; lia).
      rewrite HA1. rewrite HF1.
      rewrite (stable (g_js ot) _ _ _ hT hF HjT HnF HF2). now rewrite HT1.
    - intros x Hx. rewrite !run_hoists_app.
      destruct (HsA henv0) as [HA1 HA2]. set (hA := run_hoists ev newA henv0) in *.
      destruct (HsT hA) as [HT1 HT2]. set (hT := run_hoists ev newT hA) in *.
      destruct (HsF hT) as [HF1 HF2].
      rewrite HF2 by (intros Hin; apply Hx; widen).
      rewrite HT2 by (intros Hin; apply Hx; widen).
      apply HA2. intros Hin; apply Hx; widen.
  Qed.

  Lemma good_bin_plain : forall op l r, op <> BNullish -> good l -> good r -> good (EBin op l r).
  Proof.
    intros op l r Hop Gl Gr st.
    destruct op; try congruence; cbn [gen_core];
    match goal with |- context [wrapg ?a (pg_level l) (core l st)] =>
      pose proof (step_wrapg l a st (Gl st)) as Hl; destruct (wrapg a (pg_level l) (core l st)) as [st1 ol] end;
    match goal with |- context [wrapg ?a (pg_level r) (core r ?s)] =>
      pose proof (step_wrapg r a s (Gr s)) as Hr; destruct (wrapg a (pg_level r) (core r s)) as [st2 or] end;
    destruct Hl as [HnL [newL [HhL [HiL [HjL HsL]]]]];
    destruct Hr as [HnR [newR [HhR [HiR [HjR HsR]]]]]; cbn [fst snd] in *;
    (unfold step_ok; cbn [fst snd g_js end_path]; split; [lia|]; exists (newL ++ newR); repeat split;
     [ rewrite HhR, HhL; now rewrite app_assoc
     | intros x Hx; rewrite map_app in Hx; apply in_app_or in Hx; destruct Hx as [Hx|Hx];
       [apply HiL in Hx; widen | apply HiR in Hx; widen]
     | intros x Hx; cbn [jidents] in Hx; apply in_app_or in Hx; destruct Hx as [Hx|Hx];
       [apply HjL in Hx; widen | apply HjR in Hx; widen]
     | rewrite run_hoists_app; cbn [jeval eval];
       destruct (HsL henv0) as [HL1 HL2]; destruct (HsR (run_hoists ev newL henv0)) as [HR1 HR2];
       rewrite HR1, (stable (g_js ol) _ _ _ (run_hoists ev newL henv0) _ HjL HnR HR2), HL1; reflexivity
     | intros x Hx; rewrite run_hoists_app;
       destruct (HsL henv0) as [HL1 HL2]; destruct (HsR (run_hoists ev newL henv0)) as [HR1 HR2];
       rewrite HR2 by (intros Hin; apply Hx; widen); apply HL2; intros Hin; apply Hx; widen ]).
  Qed.

  (* one sub-expression, same state, the tree wrapped by a constructor that adds no variable *)
  Lemma good_unary : forall (F : jx -> jx) (G : option val -> option val) e v a st gv gp gc,
    good v ->
    (forall h j, jeval ev h (F j) = G (jeval ev h j)) -> (forall j, jidents (F j) = jidents j) ->
    eval ev e = G (eval ev v) ->
    let r := wrapg a (pg_level v) (core v st) in
    step_ok e st (fst r, {| g_val := gv (snd r); g_pas := gp (snd r); g_calc := gc (snd r); g_js := F (g_js (snd r)) |}).
  Proof.
    intros F G e v a st gv gp gc Gv HF HI He r.
    pose proof (step_wrapg v a st (Gv st)) as Hv. fold r in Hv. destruct r as [st1 o1].
    destruct Hv as [Hn [new [Hh [Hi [Hj Hs]]]]]. cbn [fst snd] in *.
    unfold step_ok. cbn [fst snd g_js]. split; [exact Hn|]. exists new. repeat split; try assumption.
    - rewrite HI. exact Hj.
    - rewrite HF, He. now rewrite (proj1 (Hs henv0)).
    - apply Hs.
  Qed.

  Theorem hoisting_correct : forall e, frag e -> good e.
  Proof.
    induction 1 as [x|i| | |s|z|t|b|v Hv IHv|o k Ho IHo|o k Ho IHo Hk IHk|op v Hv IHv|op l r Hl IHl Hr IHr|c t f Hc IHc Ht IHt Hf IHf].
    - intros st. cbn [gen_core]. apply good_leaf; reflexivity.
    - intros st. cbn [gen_core]. apply good_leaf; reflexivity.
    - intros st. cbn [gen_core]. apply good_leaf; reflexivity.
    - intros st. cbn [gen_core]. apply good_leaf; reflexivity.
    - intros st. cbn [gen_core]. apply good_leaf; reflexivity.
    - intros st. cbn [gen_core]. apply good_leaf; reflexivity.
    - intros st. cbn [gen_core]. apply good_leaf; reflexivity.
    - intros st. cbn [gen_core]. apply good_leaf; reflexivity.
    - intros st. cbn [gen_core].
      pose proof (good_unary JToStr (fun a => match a with Some x => option_map VStr (display_string x) | None => None end)
                    (EToStr v) v L_Cond st (fun o => lit "Y(" ++ g_val (end_path o) ++ lit ")") (fun _ => None)
                    (fun o => g_calc (end_path o)) IHv (fun _ _ => eq_refl) (fun _ => eq_refl) eq_refl) as H.
      cbv zeta in H. destruct (wrapg L_Cond (pg_level v) (core v st)) as [st1 o1]. exact H.
    - intros st. cbn [gen_core].
      pose proof (good_unary (fun j => JMember j k) (fun a => match a with Some x => get_prop x k | None => None end)
                    (EMember o k) o L_Cond st (fun o1 => lit "X(" ++ g_val o1 ++ lit ")." ++ k)
                    (fun o1 => push_tail (g_pas o1) (TStatic k)) (fun o1 => g_calc o1) IHo
                    (fun _ _ => eq_refl) (fun _ => eq_refl) eq_refl) as H.
      cbv zeta in H. destruct (wrapg L_Cond (pg_level o) (core o st)) as [st1 o1]. exact H.
    - now apply good_index.
    - intros st. cbn [gen_core].
      pose proof (good_unary (JUn op) (fun a => match a with Some x => un_val op x | None => None end)
                    (EUn op v) v L_Unary st (fun o => unop_text op ++ g_val (end_path o)) (fun _ => None)
                    (fun o => g_calc (end_path o)) IHv (fun _ _ => eq_refl) (fun _ => eq_refl) eq_refl) as H.
      cbv zeta in H. destruct (wrapg L_Unary (pg_level v) (core v st)) as [st1 o1]. exact H.
    - destruct op; try (apply good_bin_plain; [discriminate | assumption | assumption]).
      now apply good_nullish.
    - now apply good_cond.
  Qed.

  (* the statement for a whole binding: run the hoisted statements, evaluate the tree *)
  Theorem compile_correct : forall e n henv0, frag e ->
    let r := core e (mk_gst n) in
    jeval ev (run_hoists ev (hoists_js (fst r)) henv0) (g_js (snd r)) = eval ev e.
  Proof.
    intros e n henv0 Hf r. destruct (hoisting_correct e Hf (mk_gst n)) as [_ [new [Hh [_ [_ Hs]]]]].
    fold r in Hh, Hs. cbn [mk_gst hoists_js app] in Hh. rewrite Hh. apply Hs.
  Qed.
End Hoist.
