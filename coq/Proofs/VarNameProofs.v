From GE Require Import Model.Str Model.VarName Model.JsLex Proofs.StrProofs.
From Coq Require Import Lia ZifyBool ZifyN ZifyNat.
Local Ltac Zify.zify_post_hook ::= Z.div_mod_to_equations.

Ltac case_ifs := repeat match goal with
  | |- context [if ?b then _ else _] =>
      lazymatch b with
      | context [if _ then _ else _] => fail
      | _ => destruct b eqn:?
      end
  end.

(* ---------- alphabets ---------- *)
Definition start_idx (c : N) : N := if c <? 97 then c - 65 else c - 97 + 26.
Definition follow_idx (c : N) : N :=
  if c =? 95 then 0 else if c <? 65 then c - 48 + 1 else if c <? 97 then c - 65 + 11 else c - 97 + 37.

Lemma start_idx_char i : i < 52 -> start_idx (start_char i) = i.
Proof. intros H. unfold start_idx, start_char. case_ifs; lia. Qed.

Lemma follow_idx_char i : i < 63 -> follow_idx (follow_char i) = i.
Proof. intros H. unfold follow_idx, follow_char. case_ifs; lia. Qed.

Lemma start_char_alpha i : i < 52 -> is_alpha (start_char i) = true.
Proof. intros H. unfold start_char, is_alpha, is_lower, is_upper. case_ifs; lia. Qed.

Lemma follow_char_id_part i : i < 63 -> is_id_part (follow_char i) = true.
Proof.
  intros H. unfold follow_char, is_id_part, is_id_start, is_alpha, is_lower, is_upper, is_digit.
  case_ifs; lia.
Qed.

(* ---------- validity ---------- *)
Lemma var_name_rest_id_part fuel : forall id, forallb is_id_part (var_name_rest fuel id) = true.
Proof.
  induction fuel as [|f IH]; intros id; cbn [var_name_rest]; [reflexivity|].
  destruct (id =? 0); [reflexivity|]. cbn [forallb]. rewrite IH, follow_char_id_part by lia. reflexivity.
Qed.

Theorem var_name_valid id : is_identifier_name (var_name id) = true.
Proof.
  unfold var_name, is_identifier_name. rewrite var_name_rest_id_part.
  unfold is_id_start. rewrite start_char_alpha by lia. reflexivity.
Qed.

(* ---------- decoding, injectivity ---------- *)
Definition rest_val (l : str) : N := fold_right (fun c acc => follow_idx c + 63 * acc) 0 l.
Definition decode (s : str) : N :=
  match s with [] => 0 | c :: r => start_idx c + 52 * rest_val r end.

Lemma rest_val_var_name_rest fuel : forall id, id < 2 ^ N.of_nat fuel ->
  rest_val (var_name_rest fuel id) = id.
Proof.
  induction fuel as [|f IH]; intros id H; cbn [var_name_rest].
  - cbn in H. cbn. lia.
  - destruct (N.eqb_spec id 0) as [->|Hne]; [reflexivity|].
    cbn [rest_val fold_right]. fold (rest_val (var_name_rest f (id / 63))).
    replace (N.of_nat (S f)) with (N.succ (N.of_nat f)) in H by lia.
    rewrite N.pow_succ_r' in H.
    assert (H' : id / 63 < 2 ^ N.of_nat f) by lia.
    rewrite (IH _ H'), follow_idx_char by lia. lia.
Qed.

Lemma pos_lt_pow2_size p : N.pos p < 2 ^ N.of_nat (Pos.size_nat p).
Proof.
  induction p as [p IH|p IH|]; cbn [Pos.size_nat].
  - replace (N.of_nat (S (Pos.size_nat p))) with (N.succ (N.of_nat (Pos.size_nat p))) by lia.
    rewrite N.pow_succ_r'. lia.
  - replace (N.of_nat (S (Pos.size_nat p))) with (N.succ (N.of_nat (Pos.size_nat p))) by lia.
    rewrite N.pow_succ_r'. lia.
  - cbn. lia.
Qed.

Lemma n_lt_pow2_size n : n < 2 ^ N.of_nat (N.size_nat n).
Proof. destruct n as [|p]; [cbn; lia | apply pos_lt_pow2_size]. Qed.

Theorem decode_var_name id : decode (var_name id) = id.
Proof.
  unfold var_name, decode. rewrite start_idx_char by lia.
  rewrite rest_val_var_name_rest; [lia|].
  pose proof (n_lt_pow2_size id). lia.
Qed.

Theorem var_name_injective a b : var_name a = var_name b -> a = b.
Proof. intros H. rewrite <- (decode_var_name a), <- (decode_var_name b), H. reflexivity. Qed.

(* one-letter names are exactly the ids below 52; A..Z (the runtime's letters) are ids below 26 *)
Theorem var_name_not_runtime id : 26 <= id -> forall c, is_upper c = true -> var_name id <> [c].
Proof.
  intros H c Hc E. unfold var_name in E. injection E as E1 E2.
  destruct (N.ltb_spec id 52) as [Hlt|Hge].
  - rewrite N.mod_small in E1 by lia. unfold start_char in E1. unfold is_upper in Hc.
    destruct (N.ltb_spec id 26); lia.
  - destruct id as [|p]; [lia|]. cbn [N.size_nat] in E2.
    destruct (Pos.size_nat p) eqn:Es; [destruct p; discriminate|].
    cbn [var_name_rest] in E2. destruct (N.eqb_spec (N.pos p / 52) 0); [lia | discriminate].
Qed.

(* ---------- the allocator ---------- *)
Lemma is_forbidden_In s : is_forbidden s = true <-> In s forbidden.
Proof.
  unfold is_forbidden, mem_str. rewrite existsb_exists. split.
  - intros [x [Hx E]]. apply str_eqb_eq in E. now subst.
  - intros H. exists s. split; [assumption | apply str_eqb_refl].
Qed.

Lemma next_ident_name_spec fuel : forall id name id',
  next_ident_name fuel id = Some (name, id') ->
  is_forbidden name = false /\ id < id' /\ name = var_name (id' - 1) /\
  (forall j, id <= j < id' - 1 -> is_forbidden (var_name j) = true).
Proof.
  induction fuel as [|f IH]; intros id name id' H; cbn [next_ident_name] in H; [discriminate|].
  destruct (is_forbidden (var_name id)) eqn:E.
  - destruct (IH _ _ _ H) as [A [B [C D]]]. repeat split; try assumption; try lia.
    intros j Hj. destruct (N.eq_dec j id) as [->|Hne]; [assumption | apply D; lia].
  - injection H as <- <-. split; [assumption|]. split; [lia|]. split.
    + f_equal. lia.
    + intros j Hj. lia.
Qed.

(* names of consecutive ids *)
Fixpoint names_from (n : nat) (id : N) : list str :=
  match n with O => [] | S m => var_name id :: names_from m (id + 1) end.

Lemma names_from_In n : forall id s, In s (names_from n id) -> exists j, id <= j < id + N.of_nat n /\ s = var_name j.
Proof.
  induction n as [|n IH]; intros id s H; [destruct H|].
  destruct H as [<-|H]; [exists id; split; [lia | reflexivity]|].
  destruct (IH _ _ H) as [j [Hj E]]. exists j. split; [lia | assumption].
Qed.

Lemma names_from_NoDup n : forall id, NoDup (names_from n id).
Proof.
  induction n as [|n IH]; intros id; cbn [names_from]; constructor; [|apply IH].
  intros H. destruct (names_from_In _ _ _ H) as [j [Hj E]].
  apply var_name_injective in E. lia.
Qed.

Lemma next_none_all_forbidden fuel : forall id,
  next_ident_name fuel id = None -> incl (names_from fuel id) forbidden.
Proof.
  induction fuel as [|f IH]; intros id H; cbn [names_from]; [intros x []|].
  cbn [next_ident_name] in H. destruct (is_forbidden (var_name id)) eqn:E; [|discriminate].
  intros x [<-|Hx]; [now apply is_forbidden_In | now apply (IH _ H)].
Qed.

Lemma names_from_length n id : length (names_from n id) = n.
Proof. revert id; induction n as [|n IH]; intros id; cbn; [reflexivity | now rewrite IH]. Qed.

Theorem alloc_total id : exists name id', alloc id = Some (name, id').
Proof.
  unfold alloc. destruct (next_ident_name alloc_fuel id) as [[name id']|] eqn:E; [eauto|].
  exfalso. apply next_none_all_forbidden in E.
  pose proof (NoDup_incl_length (names_from_NoDup alloc_fuel id) E) as L.
  rewrite names_from_length in L. unfold alloc_fuel in L. lia.
Qed.

Theorem alloc_not_forbidden id name id' : alloc id = Some (name, id') -> is_forbidden name = false.
Proof. intros H. now destruct (next_ident_name_spec _ _ _ _ H). Qed.

Lemma js_reserved_forbidden s : In s js_reserved -> In s forbidden.
Proof. unfold js_reserved. intros H. rewrite <- (firstn_skipn 48 forbidden). apply in_or_app. now left. Qed.

Theorem alloc_not_reserved id name id' : alloc id = Some (name, id') -> ~ In name js_reserved.
Proof.
  intros H Hin. apply alloc_not_forbidden in H. apply js_reserved_forbidden, is_forbidden_In in Hin. congruence.
Qed.

Theorem alloc_valid id name id' : alloc id = Some (name, id') -> is_identifier_name name = true.
Proof. intros H. destruct (next_ident_name_spec _ _ _ _ H) as [_ [_ [-> _]]]. apply var_name_valid. Qed.

(* successive allocations (a strictly increasing counter) never return the same name twice *)
Theorem alloc_fresh id1 n1 id1' id2 n2 id2' :
  alloc id1 = Some (n1, id1') -> alloc id2 = Some (n2, id2') -> id1' <= id2 -> n1 <> n2.
Proof.
  intros H1 H2 Hle E.
  destruct (next_ident_name_spec _ _ _ _ H1) as [_ [A1 [B1 _]]].
  destruct (next_ident_name_spec _ _ _ _ H2) as [_ [A2 [B2 _]]].
  rewrite B1, B2 in E. apply var_name_injective in E. lia.
Qed.

Example alloc_skips_if : alloc 2218 = Some ([106; 102], 2220) /\ var_name 2218 = [105; 102].
Proof. split; reflexivity. Qed.
