(* No silent failure: whenever the expression parser fails it has added a diagnostic, unless it
   failed because the input ended (the rule stated in parse/expr.rs: "each parse_* fn should return
   None if failed; unless the input is ended, a warning should be added before returns None").
   Consequence for the binding parser: a binding that yields no expression is always accompanied by a
   diagnostic - EmptyExpression, MissingExpressionEnd, UnexpectedExpressionCharacter after the expression,
   or the expression parser's own. *)
From GE Require Import Model.ExprParse Proofs.ExprParseProofs.
From Coq Require Import Lia ZifyBool ZifyN.
Import ListNotations.
Local Open Scope nat_scope.

Definition wd {A : Type} (r : pres A) : Prop :=
  match r with
  | PFail p w => w = true \/ p = []
  | POk _ _ => True
  end.

(* ---- the number scanner ends silently only at the end of the input ---- *)
Lemma dec_loop_end : forall fuel s int ov n n', fst (dec_loop fuel s int ov n) = (NEnd, n') -> n' = (n + N.of_nat (length s))%N.
Proof.
  induction fuel as [|f IH]; intros s int ov n n' H; cbn [dec_loop] in H; [discriminate|].
  destruct s as [|c r]; [discriminate|].
  destruct (c =? 101)%N.
  - destruct r as [|x r'].
    + cbn in H. injection H as <-. cbn. lia.
    + destruct (N.eqb_spec x 45) as [->|Hx].
      * destruct r' as [|p r'']; [cbn in H; injection H as <-; cbn; lia|].
        cbn in H. destruct (negb (is_digit p)); [discriminate|].
        match type of H with fst (match ?X with Some _ => _ | None => _ end) = _ => destruct X; discriminate H end.
      * assert (E : (match x :: r' with 45%N :: r'0 => (r'0, (n + 2)%N) | _ => (x :: r', (n + 1)%N) end) = (x :: r', (n + 1)%N)).
        { destruct x as [|px]; [reflexivity|]. do 6 (destruct px as [px|px|]; try reflexivity). congruence. }
        rewrite E in H. cbn in H. destruct (negb (is_digit x)); [discriminate|].
        match type of H with fst (match ?X with Some _ => _ | None => _ end) = _ => destruct X; discriminate H end.
  - destruct (if (c =? 46)%N then (None, ov) else _) as [int' ov'].
    destruct r as [|p r'].
    + cbn in H. destruct int' as [z|]; [destruct ov'|]; discriminate.
    + destruct (negb (is_ident_char p) && negb (p =? 46)%N)%bool.
      * cbn in H. destruct int' as [z|]; [destruct ov'|]; discriminate.
      * destruct (is_digit p || (match int' with Some _ => true | None => false end) && (p =? 46)%N || (p =? 101)%N)%bool; [|discriminate].
        apply IH in H. change (length (c :: p :: r')) with (S (length (p :: r'))). rewrite Nat2N.inj_succ. lia.
Qed.

Lemma skipn_all2 : forall (s : str) n, length s <= n -> skipn n s = [].
Proof. intros s n H. apply skipn_all2. exact H. Qed.

Lemma parse_number_end : forall pre s n, parse_number pre s = (NEnd, n) -> skipn (N.to_nat n) s = [].
Proof.
  intros pre s n H. unfold parse_number in H. destruct s as [|c r]; [injection H as <-; reflexivity|].
  destruct (negb (is_digit c) && negb (c =? 46)%N)%bool; [discriminate|].
  assert (Hfd : forall s0 res n0, finish_dec s0 res = (NEnd, n0) -> fst res = (NEnd, n0)).
  { intros s0 [[r0 m] b] n0 E. unfold finish_dec in E. destruct r0; try (injection E as <-; reflexivity); try discriminate.
    destruct (has_mantissa_digit _); discriminate. }
  destruct (c =? 48)%N.
  - destruct r as [|d r']; [discriminate|].
    destruct (is_oct_digit d).
    { exfalso. revert H. generalize (acc_new 3) as a. generalize 1%N as k. generalize (length (d :: r') + 1) as fuel. generalize (d :: r') as s0.
      intros s0 fuel. revert s0. induction fuel as [|f IH]; intros s0 k a H; cbn [oct_loop] in H; [discriminate|].
      destruct s0 as [|c0 r0]; [discriminate|]. destruct r0 as [|p r1].
      - unfold acc_finish in H. destruct (a_int _); discriminate.
      - destruct (negb (is_ident_char p)); [unfold acc_finish in H; destruct (a_int _); discriminate|].
        destruct (negb (is_oct_digit p)); [discriminate|]. exact (IH _ _ _ H). }
    destruct (d =? 120)%N.
    + destruct (tl (d :: r')) as [|p t] eqn:Et.
      * injection H as <-. cbn in Et. subst r'. reflexivity.
      * destruct (negb (pre p)); [discriminate|]. exfalso. revert H.
        generalize (acc_new 4) as a. generalize 2%N as k. generalize (length (d :: r') + 1) as fuel. generalize (p :: t) as s0.
        intros s0 fuel. revert s0. induction fuel as [|f IH]; intros s0 k a H; cbn [hex_loop] in H; [discriminate|].
        destruct s0 as [|c0 r0]; [discriminate|]. destruct (hex_val c0); [|discriminate]. destruct r0 as [|p0 r1].
        -- unfold acc_finish in H. destruct (a_int _); discriminate.
        -- destruct (negb (is_ident_char p0)); [unfold acc_finish in H; destruct (a_int _); discriminate|].
           destruct (negb (pre p0)); [discriminate|]. exact (IH _ _ _ H).
    + destruct ((d =? 101)%N || (d =? 46)%N || (d =? 56)%N || (d =? 57)%N)%bool.
      * apply Hfd in H. apply dec_loop_end in H. subst n. apply skipn_all2. cbn [length]. lia.
      * destruct (is_ident_char d); discriminate.
  - apply Hfd in H. apply dec_loop_end in H. subst n. apply skipn_all2. cbn [length]. lia.
Qed.

Lemma num_result_wd : forall s, wd (num_result s).
Proof.
  intro s. unfold num_result. destruct (parse_number_fixed s) as [r n] eqn:E. destruct r; cbn; auto.
  right. exact (parse_number_end _ _ _ E).
Qed.

Lemma is_nil_false_or : forall s, negb (is_nil s) = true \/ s = [].
Proof. intros [|c r]; [right; reflexivity|left; reflexivity]. Qed.

Section Diag.
  Variable pcond : str -> pres expr.
  Hypothesis Hpc : forall s, wd (pcond s).

  Ltac pc_at x := let H := fresh "Hp" in pose proof (Hpc x) as H.

  Lemma args_loop_wd : forall n s, wd (args_loop pcond n s).
  Proof.
    induction n as [|n IH]; intro s; cbn [args_loop]; [left; reflexivity|].
    destruct (skip s) as [|c q]; [right; reflexivity|]. destruct (N.eqb c 41); [exact I|].
    pc_at s. destruct (pcond s) as [e rest|p w]; [|exact Hp].
    destruct (tok (lit ",") [] rest) as [rest2|]; [|exact I].
    pose proof (IH rest2) as Hi. destruct (args_loop pcond n rest2); [exact I|exact Hi].
  Qed.

  Lemma obj_loop_wd : forall n s, wd (obj_loop pcond n s).
  Proof.
    induction n as [|n IH]; intro s; cbn [obj_loop]; [left; reflexivity|].
    destruct (skip s) as [|c q]; [exact I|]. destruct (N.eqb c 125); [exact I|].
    destruct (N.eqb c 46).
    - destruct (tok (lit "...") [] s) as [r|]; [|left; reflexivity].
      pc_at r. destruct (pcond r) as [v rest|p w]; [|exact Hp].
      destruct (skip rest) as [|d rest2]; [right; reflexivity|].
      destruct (N.eqb d 125); [exact I|]. destruct (N.eqb d 44); [|left; reflexivity].
      pose proof (IH rest2) as Hi. destruct (obj_loop pcond n rest2); [exact I|exact Hi].
    - destruct (field_name s) as [[name r]|]; [|left; reflexivity].
      destruct (skip r) as [|d r2]; [exact I|].
      destruct (N.eqb d 58).
      + pc_at r2. destruct (pcond r2) as [v rest|p w]; [|exact Hp].
        destruct (skip rest) as [|d2 rest2]; [right; reflexivity|].
        destruct (N.eqb d2 125); [exact I|]. destruct (N.eqb d2 44); [|left; reflexivity].
        pose proof (IH rest2) as Hi. destruct (obj_loop pcond n rest2); [exact I|exact Hi].
      + destruct (N.eqb d 125); [exact I|]. destruct (N.eqb d 44); [|left; reflexivity].
        pose proof (IH r2) as Hi. destruct (obj_loop pcond n r2); [exact I|exact Hi].
  Qed.

  Lemma arr_loop_wd : forall n s, wd (arr_loop pcond n s).
  Proof.
    induction n as [|n IH]; intro s; cbn [arr_loop]; [left; reflexivity|].
    destruct (skip s) as [|c r0]; [exact I|]. destruct (N.eqb c 93); [exact I|].
    destruct (N.eqb c 44).
    - pose proof (IH r0) as Hi. destruct (arr_loop pcond n r0); [exact I|exact Hi].
    - set (item_start := if starts_with (lit "...") (c :: r0) then skipn 3 (c :: r0) else s).
      pc_at item_start. destruct (pcond item_start) as [v rest|p w]; [|exact Hp].
      destruct (skip rest) as [|d rest2]; [right; reflexivity|].
      destruct (N.eqb d 93); [exact I|]. destruct (N.eqb d 44); [|left; reflexivity].
      pose proof (IH rest2) as Hi. destruct (arr_loop pcond n rest2); [exact I|exact Hi].
  Qed.

  Lemma p_lit_wd : forall s, wd (p_lit pcond s).
  Proof.
    intro s. unfold p_lit. destruct (skip s) as [|c r]; [right; reflexivity|].
    destruct (is_ident_start c). { destruct (take_ident (c :: r)); exact I. }
    destruct ((c =? 34)%N || (c =? 39)%N)%bool. { destruct (wx_str_decode c r) as [[v rest]|]; [exact I|right; reflexivity]. }
    destruct (is_digit c || (c =? 46)%N)%bool; [apply num_result_wd|].
    destruct (N.eqb c 40).
    { pc_at r. destruct (pcond r) as [e rest|p w]; [|exact Hp]. destruct (tok (lit ")") [] rest); [exact I|left; reflexivity]. }
    destruct (N.eqb c 123).
    { pose proof (obj_loop_wd (S (length r)) r) as Ho. destruct (obj_loop pcond (S (length r)) r) as [fs rest|p w]; [|exact Ho].
      destruct (tok (lit "}") [] rest); [exact I|left; reflexivity]. }
    destruct (N.eqb c 91).
    { pose proof (arr_loop_wd (S (length r)) r) as Ho. destruct (arr_loop pcond (S (length r)) r) as [fs rest|p w]; [|exact Ho].
      destruct (tok (lit "]") [] rest); [exact I|left; reflexivity]. }
    left; reflexivity.
  Qed.

  Lemma member_loop_wd : forall n obj s, wd (member_loop pcond n obj s).
  Proof.
    induction n as [|n IH]; intros obj s; cbn [member_loop]; [left; reflexivity|].
    destruct (tok (lit ".") [lit ".."] s) as [r|].
    { destruct (field_name r) as [[name rest]|]; [apply IH|left; reflexivity]. }
    destruct (tok (lit "[") [] s) as [r|].
    { pc_at r. destruct (pcond r) as [e rest|p w]; [|exact Hp].
      destruct (tok (lit "]") [] rest) as [rest2|]; [apply IH|apply is_nil_false_or]. }
    destruct (tok (lit "(") [] s) as [r|]; [|exact I].
    pose proof (args_loop_wd (S (length r)) r) as Ha. destruct (args_loop pcond (S (length r)) r) as [args rest|p w]; [|exact Ha].
    destruct (tok (lit ")") [] rest) as [rest2|]; [apply IH|apply is_nil_false_or].
  Qed.

  Lemma p_member_wd : forall s, wd (p_member pcond s).
  Proof.
    intro s. unfold p_member. pose proof (p_lit_wd s) as Hl. destruct (p_lit pcond s) as [o rest|p w]; [|exact Hl].
    apply member_loop_wd.
  Qed.

  Lemma unary_loop_wd : forall n s, wd (unary_loop pcond n s).
  Proof.
    induction n as [|n IH]; intro s; cbn [unary_loop]; [left; reflexivity|].
    destruct (first_op unops s) as [[u rest]|].
    - pose proof (IH rest) as Hi. destruct (unary_loop pcond n rest); [exact I|exact Hi].
    - apply p_member_wd.
  Qed.

  Lemma level_loop_wd : forall next ops, (forall s, wd (next s)) -> forall n l s, wd (level_loop next ops n l s).
  Proof.
    intros next ops Hn. induction n as [|n IH]; intros l s; cbn [level_loop]; [left; reflexivity|].
    destruct (first_op ops s) as [[b rest]|]; [|exact I].
    pose proof (Hn rest) as Hr. destruct (next rest) as [r rest2|p w]; [apply IH|exact Hr].
  Qed.

  Lemma level_wd : forall next ops, (forall s, wd (next s)) -> forall s, wd (level next ops s).
  Proof.
    intros next ops Hn s. unfold level. pose proof (Hn s) as H1. destruct (next s) as [l rest|p w]; [|exact H1].
    apply level_loop_wd. exact Hn.
  Qed.

  Lemma p_lor_wd : forall s, wd (p_lor pcond s).
  Proof.
    unfold p_lor, p_land, p_bor, p_bxor, p_band, p_eq, p_cmp, p_shift, p_add, p_mul.
    repeat apply level_wd. intro s. apply unary_loop_wd.
  Qed.

  Lemma cond_body_wd : forall s, wd (cond_body pcond s).
  Proof.
    intro s. unfold cond_body. pose proof (p_lor_wd s) as H1. destruct (p_lor pcond s) as [c rest|p w]; [|exact H1].
    destruct (tok_cond rest) as [r|]; [|exact I].
    pc_at r. destruct (pcond r) as [t rest2|p w]; [|exact Hp].
    destruct (tok (lit ":") [] rest2) as [r3|]; [|left; reflexivity].
    pc_at r3. destruct (pcond r3) as [f rest3|p w]; [exact I|exact Hp0].
  Qed.
End Diag.

Lemma parse_cond_fuel_wd : forall f s, wd (parse_cond_fuel f s).
Proof. induction f as [|f IH]; intro s; cbn [parse_cond_fuel]; [left; reflexivity|]. apply cond_body_wd. exact IH. Qed.

Lemma parse_top_wd : forall t s, wd (parse_top t s).
Proof.
  intros t s. unfold parse_top. destruct (is_object_inner t s).
  - pose proof (obj_loop_wd _ (parse_cond_fuel_wd (S (length s))) (S (length s)) s) as H.
    destruct (obj_loop _ _ s); [exact I|exact H].
  - apply parse_cond_fuel_wd.
Qed.

(* the binding parser: no expression => a diagnostic *)
Definition diagnosed (d : bdiag) : Prop :=
  match d with
  | DOk => False
  | DEmpty | DGarbage | DMissingEnd _ => True
  | DInner w => w = true
  end.

Theorem failed_binding_is_diagnosed : forall t s,
  match binding_d t s with
  | (Some _, _, d) => d = DOk
  | (None, _, d) => diagnosed d
  end.
Proof.
  intros t s. unfold binding_d. destruct (starts_with (lit "}}") (skip s)); [exact I|].
  pose proof (parse_top_wd t s) as H. destruct (parse_top t s) as [e rest|p w].
  - destruct (find_close (drop_ws rest)) as [[[|b0 b] a]|]; [reflexivity|exact I|exact I].
  - destruct (find_close p) as [[b a]|] eqn:E; [|exact I]. cbn. destruct H as [H|H]; [exact H|]. subst p. discriminate.
Qed.

Lemma binding_d_binding : forall t s, let '(e, rest, _) := binding_d t s in binding t s = (e, rest).
Proof.
  intros t s. unfold binding_d, binding. destruct (starts_with (lit "}}") (skip s)); [reflexivity|].
  destruct (parse_top t s) as [e rest|p w].
  - destruct (find_close (drop_ws rest)) as [[[|b0 b] a]|]; reflexivity.
  - destruct (find_close p) as [[b a]|]; reflexivity.
Qed.
