From GE Require Import Model.Str Model.Lit Model.Expr Model.Tmpl Model.Val Model.Render.
From Coq Require Import Lia.
Local Open Scope nat_scope.

Section R.
  Variable subs : list (str * nodes).
  Variable globals : list val.
  Variable slot_values : val.
  Variable call : env -> nodes -> option (list rnode).

  Notation rnodes := (render_nodes subs globals slot_values call).
  Notation rif := (render_if subs globals slot_values call).
  Notation rnode_ := (render_node subs globals slot_values call).

  Fixpoint bapp (a b : ifbranches) : ifbranches :=
    match a with BNil => b | BCons c body r => BCons c body (bapp r b) end.
  Fixpoint blen (a : ifbranches) : N :=
    match a with BNil => 0%N | BCons _ _ r => (1 + blen r)%N end.
  Fixpoint all_falsy (ev : env) (a : ifbranches) : Prop :=
    match a with
    | BNil => True
    | BCons c _ r => (exists v, eval_value ev c = Some v /\ truthy v = false) /\ all_falsy ev r
    end.

  (* wx:if / wx:elif / wx:else renders exactly the FIRST truthy branch, under its 1-based index *)
  Theorem render_if_first_truthy ev pre : forall c body post k v,
    all_falsy ev pre -> eval_value ev c = Some v -> truthy v = true ->
    rif ev (bapp pre (BCons c body post)) k =
    option_map (fun ch => Some [RIf (VNum (Z.of_N (k + blen pre))) ch]) (rnodes VUndef ev body).
  Proof.
    induction pre as [|c0 body0 r IH]; intros c body post k v Hf Hc Ht.
    - cbn [bapp blen render_if]. rewrite Hc, Ht. now rewrite N.add_0_r.
    - cbn [bapp blen render_if]. destruct Hf as [[v0 [E0 F0]] Hr]. rewrite E0, F0.
      rewrite (IH c body post (k + 1)%N v Hr Hc Ht).
      replace (k + 1 + blen r)%N with (k + (1 + blen r))%N by lia. reflexivity.
  Qed.

  (* when no condition is truthy, the else branch (or nothing) is rendered under index 0 *)
  Theorem render_if_none_truthy ev b : forall k, all_falsy ev b -> rif ev b k = Some None.
  Proof.
    induction b as [|c body r IH]; intros k Hf; cbn [render_if]; [reflexivity|].
    destruct Hf as [[v [E F]] Hr]. rewrite E, F. apply IH, Hr.
  Qed.

  Lemma render_node_if sv ev b has_else else_body :
    rnode_ sv ev (NIf b has_else else_body) =
    match rif ev b 1%N with
    | Some (Some r) => Some r
    | Some None => option_map (fun c => [RIf (VNum 0) c]) (rnodes VUndef ev else_body)
    | None => None
    end.
  Proof. reflexivity. Qed.

  Corollary render_else ev b has_else else_body sv :
    all_falsy ev b ->
    rnode_ sv ev (NIf b has_else else_body) = option_map (fun c => [RIf (VNum 0) c]) (rnodes VUndef ev else_body).
  Proof. intros H. rewrite render_node_if. now rewrite (render_if_none_truthy ev b 1%N H). Qed.

  Definition for_items (ev : env) (children : nodes) :=
    fix go (l0 : list (val * val)) : option (list (list rnode)) :=
      match l0 with
      | [] => Some []
      | (it, ix) :: r0 =>
          match rnodes VUndef {| e_data := e_data ev; e_scopes := e_scopes ev ++ [it; ix] |} children, go r0 with
          | Some c, Some rest => Some (c :: rest)
          | _, _ => None
          end
      end.

  Lemma render_node_for sv ev lst item index key children :
    rnode_ sv ev (NFor lst item index key children) =
    match eval_value ev lst with
    | Some lv => match list_items lv with
                 | Some items => option_map (fun x => [RFor x]) (for_items ev children items)
                 | None => None
                 end
    | None => None
    end.
  Proof. reflexivity. Qed.

  (* wx:for renders its body once per element of an array, with item then index in scope *)
  Theorem render_for_array ev e l item index key children sv r :
    eval ev e = Some (VArr l) ->
    rnode_ sv ev (NFor (VDynamic e) item index key children) = Some r ->
    exists items, r = [RFor items] /\ length items = length l /\
      forall i x body, nth_error l i = Some x -> nth_error items i = Some body ->
        rnodes VUndef {| e_data := e_data ev; e_scopes := e_scopes ev ++ [x; VNum (Z.of_nat i)] |} children = Some body.
  Proof.
    intros He H. rewrite render_node_for in H. cbn [eval_value] in H. rewrite He in H. cbn [list_items] in H.
    destruct (for_items ev children (combine l (map (fun i => VNum (Z.of_nat i)) (seq 0 (length l))))) as [items|] eqn:G;
      [|discriminate].
    injection H as <-. exists items. split; [reflexivity|].
    assert (K : forall (l' : list val) (start : nat) its,
      for_items ev children (combine l' (map (fun i => VNum (Z.of_nat i)) (seq start (length l')))) = Some its ->
      length its = length l' /\
      forall i x body, nth_error l' i = Some x -> nth_error its i = Some body ->
        rnodes VUndef {| e_data := e_data ev; e_scopes := e_scopes ev ++ [x; VNum (Z.of_nat (start + i))] |} children = Some body).
    { induction l' as [|a l' IHl]; intros start its Hg.
      - cbn in Hg. injection Hg as <-. split; [reflexivity|]. intros i x body Hx. destruct i; discriminate.
      - cbn [length seq map combine for_items] in Hg. fold (for_items ev children) in Hg.
        destruct (rnodes VUndef _ children) as [c|] eqn:Ec; [|discriminate].
        destruct (for_items ev children (combine l' (map (fun i => VNum (Z.of_nat i)) (seq (S start) (length l'))))) as [rest|] eqn:Er;
          [|discriminate].
        injection Hg as <-. destruct (IHl (S start) rest Er) as [L1 L2]. split; [cbn; lia|].
        intros i x body Hx Hb. destruct i as [|i].
        + cbn in Hx, Hb. injection Hx as <-. injection Hb as <-. rewrite Nat.add_0_r. exact Ec.
        + cbn in Hx, Hb. specialize (L2 i x body Hx Hb). replace (start + S i) with (S start + i) by lia. exact L2. }
    destruct (K l 0 items G) as [L1 L2]. split; [exact L1|]. intros i x body Hx Hb. exact (L2 i x body Hx Hb).
  Qed.

  (* one channel per attribute: every attribute that carries a value for the runtime yields exactly one
     setter record, under the key of its family and normalised name *)
  Definition delivered (a : vattr) : bool :=
    match va_chan a with
    | ChSlotAttr => false                                   (* delivered as the element's `slot` argument *)
    | ChChange _ => is_dynamic a                            (* change: only exists for bindings *)
    | _ => true
    end.

  Definition attr_flags (a : vattr) : list bool :=
    match va_chan a with ChEvent _ c m cap => [c; m; cap; is_dynamic a] | _ => [] end.

  Lemma render_attrs_cons ev a l :
    render_attrs ev (a :: l) =
    if delivered a then
      match attr_value ev a, render_attrs ev l with
      | Some v, Some rest => Some (RAttr (chan_key (va_chan a)) v (attr_flags a) :: rest)
      | _, _ => None
      end
    else render_attrs ev l.
  Proof.
    cbn [render_attrs]. unfold delivered, attr_flags.
    destruct (va_chan a); reflexivity.
  Qed.

  Theorem render_attrs_one_per_attribute ev : forall l r,
    render_attrs ev l = Some r ->
    map (fun x => match x with RAttr k _ _ => k end) r = map (fun a => chan_key (va_chan a)) (filter delivered l).
  Proof.
    induction l as [|a l IH]; intros r H.
    - cbn in H. injection H as <-. reflexivity.
    - rewrite render_attrs_cons in H. cbn [filter]. destruct (delivered a).
      + destruct (attr_value ev a) as [v|]; [|discriminate].
        destruct (render_attrs ev l) as [rest|] eqn:Er; [|discriminate].
        injection H as <-. cbn [map]. now rewrite (IH rest eq_refl).
      + now apply IH.
  Qed.
End R.

(* text: a binding alone renders its display string (null / undefined as empty) *)
Example display_string_examples :
  display_string VNull = Some [] /\ display_string VUndef = Some [] /\
  display_string (VNum 0) = Some (lit "0") /\ display_string (VBool false) = Some (lit "false") /\
  display_string (VArr [VNum 1; VNull; VStr (lit "x")]) = Some (lit "1,,x").
Proof. repeat split; reflexivity. Qed.
