(* Guard soundness for object literals with named fields and array literals with plain items
   (the heads Q.b({..}) / Q.a([..]) of the path analysis), on top of Proofs/UptProofs.v. *)
From GE Require Import Model.Upt Proofs.StrProofs Proofs.UptProofs.
From Coq Require Import Lia ZifyBool ZifyN.
Import ListNotations.

(* the local fixpoints of Upt.uhead, named *)
Section Heads.
  Variable scopes : list scope_var.
  Variable sval : str -> upt.
  Variable root : str -> upt.
  Variable hv : str -> option val.
  Notation upres := (upres scopes sval root hv).

  Fixpoint kt_of (fs : list (option str * pres)) : list (str * upt) :=
    match fs with
    | [] => []
    | (Some k, r) :: rest => (if pres_has r then [(k, upres r)] else []) ++ kt_of rest
    | (None, _) :: rest => kt_of rest
    end.

  Fixpoint ts_of (l : list pres) : list upt :=
    match l with
    | [] => []
    | r :: rest => (if pres_has r then upres r else UNone) :: ts_of rest
    end.

  Lemma uhead_obj : forall fields,
    uhead scopes sval root hv (HObj fields) =
    if existsb (fun f => match fst f with None => true | Some _ => false end) fields then UAll
    else if existsb (fun x => utruthy (snd x)) (kt_of fields) then UNode (lookup_last (kt_of fields)) else UNone.
  Proof.
    intros fields. cbn [uhead].
    assert (E : forall fs, (fix go (fs : list (option str * pres)) : list (str * upt) :=
                       match fs with
                       | [] => []
                       | (Some k, r) :: rest => (if pres_has r then [(k, upres r)] else []) ++ go rest
                       | (None, _) :: rest => go rest
                       end) fs = kt_of fs).
    { induction fs as [|[[k|] r] rest IH]; cbn [kt_of]; [reflexivity | now rewrite IH | exact IH]. }
    now rewrite E.
  Qed.

  Lemma uhead_arr : forall items,
    uhead scopes sval root hv (HArr items []) =
    if existsb utruthy (ts_of items) then UNode (arr_child (ts_of items)) else UNone.
  Proof.
    intros items. cbn [uhead].
    assert (E : forall l, (fix go (l : list pres) : list upt :=
                         match l with
                         | [] => []
                         | r :: rest => (if pres_has r then upres r else UNone) :: go rest
                         end) l = ts_of l).
    { induction l as [|r rest IH]; cbn [ts_of]; [reflexivity | now rewrite IH]. }
    now rewrite E.
  Qed.

  Lemma upres_no_path : forall r, pres_has r = false -> upres r = UNone.
  Proof. intros [[p|] [|x subs]] H; try discriminate. reflexivity. Qed.
End Heads.

Lemma lookup_last_absent : forall kt k,
  existsb (fun x => str_eqb (fst x) k) kt = false -> lookup_last kt k = UNone.
Proof.
  induction kt as [|[k' t] rest IH]; intros k H; [reflexivity|].
  cbn [existsb fst] in H. apply Bool.orb_false_iff in H. destruct H as [H1 H2].
  cbn [lookup_last]. rewrite H2, H1. reflexivity.
Qed.

Section Obj.
  Variable scopes : list scope_var.
  Variable lit_str : str -> str.
  Variable sval : str -> upt.
  Variable root : str -> upt.
  Variable hv : str -> option val.
  Variable ev0 ev1 : env.
  Hypothesis Hcov : covers (UNode root) (Some (e_data ev0)) (Some (e_data ev1)).
  Hypothesis Hsc : forall i, covers (scope_tree scopes sval i)
                                    (Some (nth i (e_scopes ev0) VUndef)) (Some (nth i (e_scopes ev1) VUndef)).

  Notation upres := (Upt.upres scopes sval root hv).
  Notation good := (UptProofs.good scopes lit_str sval root hv ev0 ev1).
  Notation rel := (UptProofs.rel scopes sval root hv ev0 ev1).
  Notation core := (gen_core scopes lit_str).

  (* named fields whose values evaluate inside the fragment under both data *)
  Fixpoint named_ok (l : ofields) : Prop :=
    match l with
    | ONil => True
    | ONamed k v r => good v /\ eval ev0 v <> None /\ eval ev1 v <> None /\ named_ok r
    | OSpread _ _ => False
    end.

  Inductive fields_rel : ofields -> list (option str * pres) -> Prop :=
    | frl_nil : fields_rel ONil []
    | frl_cons : forall k v r p c news,
        covers (upres (PRes p c)) (eval ev0 v) (eval ev1 v) ->
        fields_rel r news -> fields_rel (ONamed k v r) ((Some k, PRes p c) :: news).

  Lemma gen_obj_named : forall k v r st s na nc subs,
    gen_obj scopes lit_str (ONamed k v r) st s na nc subs =
    let '(st1, o) := wrapg L_Cond (pg_level v) (core v st) in
    gen_obj scopes lit_str r st1 (s ++ (if nc then lit "," else []) ++ k ++ lit ":" ++ g_val o) na true
            (subs ++ [(Some k, PRes (g_pas o) (g_calc o))]).
  Proof. reflexivity. Qed.

  Definition st_of (r : gst * str * bool * list (option str * pres)) : gst := fst (fst (fst r)).
  Definition subs_of (r : gst * str * bool * list (option str * pres)) := snd r.

  Lemma gen_obj_rel : forall l, named_ok l -> forall st s na nc subs,
    let r := gen_obj scopes lit_str l st s na nc subs in
    incl (hoists st) (hoists (st_of r)) /\
    (hv_ok (hoists (st_of r)) hv ev1 -> exists news, subs_of r = subs ++ news /\ fields_rel l news).
  Proof.
    induction l as [|k v r IH|v r IH]; intros Hok st s na nc subs.
    - cbn. split; [apply incl_refl|]. intros _. exists []. split; [now rewrite app_nil_r | constructor].
    - destruct Hok as [Gv [_ [_ Hr]]]. rewrite gen_obj_named.
      destruct (sub_call scopes lit_str sval root hv ev0 ev1 v L_Cond st Gv) as [Hi1 Hr1].
      destruct (wrapg L_Cond (pg_level v) (core v st)) as [st1 o]. cbn [fst snd] in Hi1, Hr1.
      specialize (IH Hr st1 (s ++ (if nc then lit "," else []) ++ k ++ lit ":" ++ g_val o) na true
                     (subs ++ [(Some k, PRes (g_pas o) (g_calc o))])).
      cbv zeta in IH. destruct IH as [Hi2 Hr2]. split.
      + eapply incl_tran; eauto.
      + intros Hh. destruct (Hr2 Hh) as [news [Es Hf]].
        exists ((Some k, PRes (g_pas o) (g_calc o)) :: news). split.
        * rewrite Es. now rewrite <- app_assoc.
        * constructor; [|exact Hf]. apply Hr1. eapply hv_ok_incl; eauto.
    - destruct Hok.
  Qed.

  Fixpoint keys_of (l : ofields) : list str :=
    match l with ONamed k _ r => k :: keys_of r | _ => [] end.

  Lemma eval_o_named : forall ev k v r,
    eval_o ev (ONamed k v r) =
    match eval ev v, eval_o ev r with
    | Some x, Some rest => if existsb (fun kv => str_eqb (fst kv) k) rest then None else Some ((k, x) :: rest)
    | _, _ => None
    end.
  Proof. reflexivity. Qed.

  Lemma eval_o_keys : forall ev l vs, eval_o ev l = Some vs -> map fst vs = keys_of l.
  Proof.
    intros ev. induction l as [|k v r IH|v r IH]; intros vs H.
    - cbn in H. inversion H. reflexivity.
    - rewrite eval_o_named in H. destruct (eval ev v) as [x|]; [|discriminate].
      destruct (eval_o ev r) as [rest|]; [|discriminate].
      destruct (existsb _ rest); [discriminate|]. inversion H; subst. cbn. now rewrite (IH rest eq_refl).
    - discriminate H.
  Qed.

  (* with total fields, whether eval_o succeeds depends on the keys only *)
  Fixpoint total_o (ev : env) (l : ofields) : Prop :=
    match l with
    | ONil => True
    | ONamed _ v r => eval ev v <> None /\ total_o ev r
    | OSpread _ _ => False
    end.

  Fixpoint dupfree (ks : list str) : bool :=
    match ks with
    | [] => true
    | k :: r => negb (existsb (fun k' => str_eqb k' k) r) && dupfree r
    end.

  Lemma existsb_map_fst : forall (vs : list (str * val)) k,
    existsb (fun kv => str_eqb (fst kv) k) vs = existsb (fun k' => str_eqb k' k) (map fst vs).
  Proof. induction vs as [|[a b] r IH]; intros k; [reflexivity|]. cbn. now rewrite IH. Qed.

  Lemma eval_o_some : forall ev l, total_o ev l ->
    (if dupfree (keys_of l) then eval_o ev l <> None else eval_o ev l = None).
  Proof.
    intros ev. induction l as [|k v r IH|v r IH]; intros Ht.
    - cbn. discriminate.
    - destruct Ht as [Hv Hr]. specialize (IH Hr). rewrite eval_o_named. cbn [keys_of dupfree].
      destruct (eval ev v) as [x|]; [|congruence].
      destruct (dupfree (keys_of r)) eqn:Ed.
      + destruct (eval_o ev r) as [rest|] eqn:Er; [|congruence].
        rewrite existsb_map_fst, (eval_o_keys ev r rest Er).
        destruct (existsb (fun k' => str_eqb k' k) (keys_of r)); cbn; [reflexivity | discriminate].
      + rewrite IH. rewrite Bool.andb_false_r. reflexivity.
    - destruct Ht.
  Qed.

  Lemma fields_rel_no_spread : forall l news, fields_rel l news ->
    existsb (fun f : option str * pres => match fst f with None => true | Some _ => false end) news = false.
  Proof. induction 1; [reflexivity | exact IHfields_rel]. Qed.

  Lemma fields_rel_keys : forall l news, fields_rel l news ->
    forall k, existsb (fun x => str_eqb (fst x) k) (kt_of scopes sval root hv news) = true ->
              existsb (fun k' => str_eqb k' k) (keys_of l) = true.
  Proof.
    induction 1 as [|k v r p c news Hc Hf IH]; intros k' H; [discriminate H|].
    cbn [kt_of] in H. cbn [keys_of existsb].
    destruct (pres_has (PRes p c)); cbn [app existsb fst] in H.
    - apply Bool.orb_true_iff in H. destruct H as [H|H]; [now rewrite H | rewrite (IH _ H); apply Bool.orb_true_r].
    - rewrite (IH _ H). apply Bool.orb_true_r.
  Qed.

  (* the per-key relation between the tree object and the evaluated objects *)
  Lemma obj_children : forall l news, fields_rel l news ->
    forall vs0 vs1, eval_o ev0 l = Some vs0 -> eval_o ev1 l = Some vs1 ->
    forall k, covers (lookup_last (kt_of scopes sval root hv news) k) (Some (obj_get k vs0)) (Some (obj_get k vs1)).
  Proof.
    induction 1 as [|k v r p c news Hc Hf IH]; intros vs0 vs1 E0 E1 k'.
    - inversion E0; inversion E1; subst. cbn. constructor.
    - rewrite eval_o_named in E0, E1.
      destruct (eval ev0 v) as [x0|]; [|discriminate]. destruct (eval_o ev0 r) as [r0|] eqn:Er0; [|discriminate].
      destruct (eval ev1 v) as [x1|]; [|discriminate]. destruct (eval_o ev1 r) as [r1|] eqn:Er1; [|discriminate].
      destruct (existsb _ r0) eqn:D0; [discriminate|]. destruct (existsb _ r1) eqn:D1; [discriminate|].
      inversion E0; inversion E1; subst. clear E0 E1.
      specialize (IH r0 r1 eq_refl eq_refl k').
      cbn [obj_get]. cbn [kt_of].
      assert (Habs : existsb (fun x => str_eqb (fst x) k) (kt_of scopes sval root hv news) = false).
      { destruct (existsb (fun x => str_eqb (fst x) k) (kt_of scopes sval root hv news)) eqn:E; [|reflexivity].
        pose proof (fields_rel_keys _ _ Hf _ E) as Hk.
        rewrite existsb_map_fst, (eval_o_keys ev0 r r0 Er0) in D0. congruence. }
      destruct (str_eqb k' k) eqn:Ek.
      + apply str_eqb_eq in Ek. subst k'.
        destruct (pres_has (PRes p c)) eqn:Hp; cbn [app lookup_last fst].
        * rewrite Habs, str_eqb_refl. exact Hc.
        * rewrite (lookup_last_absent _ _ Habs).
          rewrite (upres_no_path scopes sval root hv _ Hp) in Hc. exact Hc.
      + destruct (pres_has (PRes p c)); cbn [app lookup_last fst]; [|exact IH].
        destruct (existsb (fun x => str_eqb (fst x) k') (kt_of scopes sval root hv news)) eqn:E; [exact IH|].
        rewrite (lookup_last_absent _ _ E) in IH.
        assert (Ek' : str_eqb k k' = false).
        { apply str_eqb_neq. intros ->. rewrite str_eqb_refl in Ek. discriminate. }
        rewrite Ek'. exact IH.
  Qed.

  (* when no field tree is marked every field has the same value *)
  Lemma obj_unmarked : forall l news, fields_rel l news ->
    existsb (fun x => utruthy (snd x)) (kt_of scopes sval root hv news) = false ->
    eval_o ev0 l = eval_o ev1 l.
  Proof.
    induction 1 as [|k v r p c news Hc Hf IH]; intros Hm; [reflexivity|].
    cbn [kt_of] in Hm. rewrite !eval_o_named.
    assert (Hv : eval ev0 v = eval ev1 v /\ existsb (fun x => utruthy (snd x)) (kt_of scopes sval root hv news) = false).
    { destruct (pres_has (PRes p c)) eqn:Hp.
      - cbn [app existsb snd] in Hm. apply Bool.orb_false_iff in Hm. destruct Hm as [H1 H2]. split; [|exact H2].
        destruct (upres (PRes p c)); try discriminate. now apply covers_none_eq.
      - cbn [app] in Hm. split; [|exact Hm].
        rewrite (upres_no_path scopes sval root hv _ Hp) in Hc. now apply covers_none_eq. }
    destruct Hv as [Hv Hm']. now rewrite Hv, (IH Hm').
  Qed.

  Lemma obj_covers : forall l news, fields_rel l news -> total_o ev0 l -> total_o ev1 l ->
    covers (uhead scopes sval root hv (HObj news)) (eval ev0 (EObj l)) (eval ev1 (EObj l)).
  Proof.
    intros l news Hf T0 T1. rewrite uhead_obj, (fields_rel_no_spread _ _ Hf).
    change (eval ev0 (EObj l)) with (option_map VObj (eval_o ev0 l)).
    change (eval ev1 (EObj l)) with (option_map VObj (eval_o ev1 l)).
    destruct (existsb (fun x => utruthy (snd x)) (kt_of scopes sval root hv news)) eqn:Em.
    - pose proof (eval_o_some ev0 l T0) as S0. pose proof (eval_o_some ev1 l T1) as S1.
      destruct (dupfree (keys_of l)).
      + destruct (eval_o ev0 l) as [vs0|] eqn:E0; [|congruence].
        destruct (eval_o ev1 l) as [vs1|] eqn:E1; [|congruence].
        cbn [option_map]. constructor. intros k. cbn [getp get_prop].
        exact (obj_children l news Hf vs0 vs1 E0 E1 k).
      + rewrite S0, S1. apply covers_refl.
    - rewrite (obj_unmarked l news Hf Em). constructor.
  Qed.

  Lemma gen_core_obj' : forall fs st,
    core (EObj fs) st =
    let '(st1, s, need_assign, subs) := gen_obj scopes lit_str fs st [] false false [] in
    let v := if need_assign then lit "Object.assign({" ++ s ++ lit "})" else lit "{" ++ s ++ lit "}" in
    (st1, {| g_val := v; g_pas := Some (PPath (HObj subs) []); g_calc := []; g_js := JOpaque L_Member v |}).
  Proof. reflexivity. Qed.

  Lemma named_ok_total : forall l, named_ok l -> total_o ev0 l /\ total_o ev1 l.
  Proof.
    induction l as [|k v r IH|v r IH]; intros H; cbn [named_ok total_o] in *; [tauto| |tauto].
    destruct H as [_ [H0 [H1 Hr]]]. destruct (IH Hr). tauto.
  Qed.

  Lemma good_obj : forall l, named_ok l -> good (EObj l).
  Proof.
    intros l Hok st. rewrite gen_core_obj'.
    pose proof (gen_obj_rel l Hok st [] false false []) as H. cbv zeta in H.
    destruct (gen_obj scopes lit_str l st [] false false []) as [[[st1 s] na] subs].
    unfold st_of, subs_of in H. cbn [fst snd] in *. destruct H as [Hi Hr]. split; [exact Hi|].
    intros Hh. destruct (Hr Hh) as [news [Es Hf]]. cbn [app] in Es. subst subs.
    unfold UptProofs.rel. rewrite upres_eq. cbn [g_pas g_calc Upt.any_marked existsb].
    cbn [Upt.upath fold_left].
    destruct (named_ok_total l Hok) as [T0 T1]. now apply obj_covers.
  Qed.

  (* ---------------- arrays ---------------- *)
  Fixpoint items_ok (l : afields) : Prop :=
    match l with
    | ANil => True
    | ANormal v r => good v /\ eval ev0 v <> None /\ eval ev1 v <> None /\ items_ok r
    | _ => False
    end.

  Inductive items_rel : afields -> list pres -> Prop :=
    | irl_nil : items_rel ANil []
    | irl_cons : forall v r p c news,
        covers (upres (PRes p c)) (eval ev0 v) (eval ev1 v) ->
        items_rel r news -> items_rel (ANormal v r) (PRes p c :: news).

  Lemma gen_arr_normal : forall v r st s nc cm items,
    gen_arr scopes lit_str (ANormal v r) st s nc cm items [] =
    let '(st1, o) := wrapg L_Cond (pg_level v) (core v st) in
    gen_arr scopes lit_str r st1 (s ++ (if cm then lit "," else []) ++ g_val o) nc true
            (items ++ [PRes (g_pas o) (g_calc o)]) [].
  Proof. reflexivity. Qed.

  Definition ast_of (r : gst * str * bool * list pres * list pres) : gst := fst (fst (fst (fst r))).
  Definition aitems_of (r : gst * str * bool * list pres * list pres) := snd (fst r).
  Definition aspread_of (r : gst * str * bool * list pres * list pres) := snd r.

  Lemma gen_arr_rel : forall l, items_ok l -> forall st s nc cm items,
    let r := gen_arr scopes lit_str l st s nc cm items [] in
    incl (hoists st) (hoists (ast_of r)) /\ aspread_of r = [] /\
    (hv_ok (hoists (ast_of r)) hv ev1 -> exists news, aitems_of r = items ++ news /\ items_rel l news).
  Proof.
    induction l as [|v r IH|v r IH|r IH]; intros Hok st s nc cm items.
    - cbn. split; [apply incl_refl|]. split; [reflexivity|]. intros _. exists []. split; [now rewrite app_nil_r | constructor].
    - destruct Hok as [Gv [_ [_ Hr]]]. rewrite gen_arr_normal.
      destruct (sub_call scopes lit_str sval root hv ev0 ev1 v L_Cond st Gv) as [Hi1 Hr1].
      destruct (wrapg L_Cond (pg_level v) (core v st)) as [st1 o]. cbn [fst snd] in Hi1, Hr1.
      specialize (IH Hr st1 (s ++ (if cm then lit "," else []) ++ g_val o) nc true (items ++ [PRes (g_pas o) (g_calc o)])).
      cbv zeta in IH. destruct IH as [Hi2 [Hs Hr2]]. split; [eapply incl_tran; eauto|]. split; [exact Hs|].
      intros Hh. destruct (Hr2 Hh) as [news [Es Hf]].
      exists (PRes (g_pas o) (g_calc o) :: news). split.
      + rewrite Es. now rewrite <- app_assoc.
      + constructor; [|exact Hf]. apply Hr1. eapply hv_ok_incl; eauto.
    - destruct Hok.
    - destruct Hok.
  Qed.

  Lemma eval_a_normal : forall ev v r,
    eval_a ev (ANormal v r) = match eval ev v, eval_a ev r with Some x, Some rest => Some (x :: rest) | _, _ => None end.
  Proof. reflexivity. Qed.

  Fixpoint total_a (ev : env) (l : afields) : Prop :=
    match l with
    | ANil => True
    | ANormal v r => eval ev v <> None /\ total_a ev r
    | _ => False
    end.

  Lemma eval_a_total : forall ev l, total_a ev l -> eval_a ev l <> None.
  Proof.
    intros ev. induction l as [|v r IH|v r IH|r IH]; intros H; cbn [total_a] in H; try contradiction.
    - discriminate.
    - destruct H as [Hv Hr]. rewrite eval_a_normal. destruct (eval ev v); [|congruence].
      specialize (IH Hr). destruct (eval_a ev r); [discriminate | congruence].
  Qed.

  Lemma arr_children : forall l news, items_rel l news ->
    forall vs0 vs1, eval_a ev0 l = Some vs0 -> eval_a ev1 l = Some vs1 ->
    length vs0 = length vs1 /\
    forall n, covers (nth n (ts_of scopes sval root hv news) UNone) (Some (nth n vs0 VUndef)) (Some (nth n vs1 VUndef)).
  Proof.
    induction 1 as [|v r p c news Hc Hf IH]; intros vs0 vs1 E0 E1.
    - inversion E0; inversion E1; subst. split; [reflexivity|]. intros [|n]; constructor.
    - rewrite eval_a_normal in E0, E1.
      destruct (eval ev0 v) as [x0|]; [|discriminate]. destruct (eval_a ev0 r) as [r0|]; [|discriminate].
      destruct (eval ev1 v) as [x1|]; [|discriminate]. destruct (eval_a ev1 r) as [r1|]; [|discriminate].
      inversion E0; inversion E1; subst. destruct (IH r0 r1 eq_refl eq_refl) as [Hl Hn].
      split; [cbn; now rewrite Hl|]. intros [|n]; cbn [nth ts_of].
      + destruct (pres_has (PRes p c)) eqn:Hp; [exact Hc|].
        rewrite (upres_no_path scopes sval root hv _ Hp) in Hc. exact Hc.
      + apply Hn.
  Qed.

  Lemma arr_unmarked : forall l news, items_rel l news ->
    existsb utruthy (ts_of scopes sval root hv news) = false -> eval_a ev0 l = eval_a ev1 l.
  Proof.
    induction 1 as [|v r p c news Hc Hf IH]; intros Hm; [reflexivity|].
    cbn [ts_of existsb] in Hm. apply Bool.orb_false_iff in Hm. destruct Hm as [H1 H2].
    rewrite !eval_a_normal, (IH H2).
    assert (Hv : eval ev0 v = eval ev1 v).
    { destruct (pres_has (PRes p c)) eqn:Hp.
      - destruct (upres (PRes p c)); try discriminate. now apply covers_none_eq.
      - rewrite (upres_no_path scopes sval root hv _ Hp) in Hc. now apply covers_none_eq. }
    now rewrite Hv.
  Qed.

  Lemma nth_N_nth : forall {A} (i : N) (l : list A) (d : A),
    match nth_N i l with Some x => x | None => d end = nth (N.to_nat i) l d.
  Proof.
    intros A i l d. unfold nth_N. destruct (N.ltb_spec i (N.of_nat (length l))).
    - destruct (nth_error l (N.to_nat i)) eqn:E.
      + symmetry. now apply nth_error_nth.
      + apply nth_error_None in E. lia.
    - symmetry. apply nth_overflow. lia.
  Qed.

  Lemma items_ok_total : forall l, items_ok l -> total_a ev0 l /\ total_a ev1 l.
  Proof.
    induction l as [|v r IH|v r IH|r IH]; intros H; cbn [items_ok total_a] in *; tauto.
  Qed.

  Lemma arr_covers : forall l news, items_rel l news -> total_a ev0 l -> total_a ev1 l ->
    covers (uhead scopes sval root hv (HArr news [])) (eval ev0 (EArr l)) (eval ev1 (EArr l)).
  Proof.
    intros l news Hf T0 T1. rewrite uhead_arr.
    change (eval ev0 (EArr l)) with (option_map VArr (eval_a ev0 l)).
    change (eval ev1 (EArr l)) with (option_map VArr (eval_a ev1 l)).
    destruct (existsb utruthy (ts_of scopes sval root hv news)) eqn:Em.
    - pose proof (eval_a_total ev0 l T0) as S0. pose proof (eval_a_total ev1 l T1) as S1.
      destruct (eval_a ev0 l) as [vs0|] eqn:E0; [|congruence].
      destruct (eval_a ev1 l) as [vs1|] eqn:E1; [|congruence].
      destruct (arr_children l news Hf vs0 vs1 E0 E1) as [Hl Hn].
      cbn [option_map]. constructor. intros k. cbn [getp get_prop]. unfold arr_child.
      destruct (str_eqb k (lit "length")); [constructor|].
      destruct (index_of_key k) as [i|]; [|constructor].
      rewrite !nth_N_nth. apply Hn.
    - rewrite (arr_unmarked l news Hf Em). constructor.
  Qed.

  Lemma gen_core_arr' : forall fs st,
    core (EArr fs) st =
    let '(st1, s, need_concat, items, spread) := gen_arr scopes lit_str fs st [] false false [] [] in
    let v := if need_concat then lit "[].concat([" ++ s ++ lit "])" else lit "[" ++ s ++ lit "]" in
    (st1, {| g_val := v; g_pas := Some (PPath (HArr items spread) []); g_calc := []; g_js := JOpaque L_Member v |}).
  Proof. reflexivity. Qed.

  Lemma good_arr : forall l, items_ok l -> good (EArr l).
  Proof.
    intros l Hok st. rewrite gen_core_arr'.
    pose proof (gen_arr_rel l Hok st [] false false []) as H. cbv zeta in H.
    destruct (gen_arr scopes lit_str l st [] false false [] []) as [[[[st1 s] nc] items] spread].
    unfold ast_of, aitems_of, aspread_of in H. cbn [fst snd] in *. destruct H as [Hi [Hs Hr]]. subst spread.
    split; [exact Hi|]. intros Hh. destruct (Hr Hh) as [news [Es Hf]]. cbn [app] in Es. subst items.
    unfold UptProofs.rel. rewrite upres_eq. cbn [g_pas g_calc Upt.any_marked existsb].
    cbn [Upt.upath fold_left].
    destruct (items_ok_total l Hok) as [T0 T1]. now apply arr_covers.
  Qed.

  Theorem gen_sound2 : forall e, frag2 ev0 ev1 e -> good e.
  Proof.
    apply (frag2_mut ev0 ev1 (fun e _ => good e) (fun l _ => named_ok l) (fun l _ => items_ok l)).
    - intros x. apply good_field; assumption.
    - intros i. apply good_scope; assumption.
    - intros st; cbn [gen_core fst snd]; split; [apply incl_refl|]; intros _; now apply rel_literal.
    - intros st; cbn [gen_core fst snd]; split; [apply incl_refl|]; intros _; now apply rel_literal.
    - intros s st; cbn [gen_core fst snd]; split; [apply incl_refl|]; intros _; now apply rel_literal.
    - intros z st; cbn [gen_core fst snd]; split; [apply incl_refl|]; intros _; now apply rel_literal.
    - intros t st; cbn [gen_core fst snd]; split; [apply incl_refl|]; intros _; now apply rel_literal.
    - intros b st; cbn [gen_core fst snd]; split; [apply incl_refl|]; intros _; now apply rel_literal.
    - intros v _ H. now apply good_tostr.
    - intros o k _ H. now apply good_member.
    - intros o k _ Ho _ Hk. now apply good_index.
    - intros op v _ H. now apply good_un.
    - intros op l r _ Hl _ Hr. now apply good_bin.
    - intros c t f _ Hc _ Ht _ Hf. now apply good_cond.
    - intros fs _ H. now apply good_obj.
    - intros fs _ H. now apply good_arr.
    - exact I.
    - intros k v r _ Hv H0 H1 _ Hr. cbn [named_ok]. tauto.
    - exact I.
    - intros v r _ Hv H0 H1 _ Hr. cbn [items_ok]. tauto.
  Qed.

  Theorem guard_sound2 : forall e n,
    frag2 ev0 ev1 e ->
    let '(st, v, r) := prepare scopes lit_str e (mk_gst n) in
    hv_ok (hoists st) hv ev1 ->
    guard_den scopes sval root hv r = false ->
    eval ev0 e = eval ev1 e.
  Proof.
    intros e n Hf. unfold prepare, gen.
    destruct (sub_call scopes lit_str sval root hv ev0 ev1 e L_Cond (mk_gst n) (gen_sound2 e Hf)) as [_ Hr].
    destruct (wrapg L_Cond (pg_level e) (core e (mk_gst n))) as [st o]. cbn [fst snd] in *.
    intros Hh Hg. specialize (Hr Hh). unfold UptProofs.rel in Hr. unfold guard_den in Hg.
    destruct (Upt.upres scopes sval root hv (PRes (g_pas o) (g_calc o))); try discriminate.
    now apply covers_none_eq.
  Qed.
End Obj.
