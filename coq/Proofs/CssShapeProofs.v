(* C08 / C10 for token SHAPES: the counterpart of CssClassProofs for the projection "every token that is not white space,
   numeric values forgotten" (CssSpec.tok_shape: kind, unit, strings).  For every qualified rule the shapes written equal the
   specification's: nothing dropped, nothing added, every rpx dimension in value / selector-block context is a vw dimension. *)
From GE Require Import Model.Str Model.CssNum Model.CssTok Model.CssOut Model.CssUrlEnc Model.Css Model.CssSpec.
From GE Require Import Proofs.CssOutProofs Proofs.CssWalkProofs Proofs.CssTokProofs.
From GE Require Proofs.CssClassProofs.
From Coq Require Import Lia.
Open Scope N_scope.

Definition is_nws (t : tok) : bool := negb (is_ws t).
Definition shp (l : list tok) : list tok := map tok_shape (filter is_nws l).
Definition eshp (l : list etok) : list tok := shp (map e_tok l).

Lemma idc_app : forall a b, shp (a ++ b) = shp a ++ shp b.
Proof. intros. unfold shp. rewrite filter_app, map_app. reflexivity. Qed.
Lemma eidc_app : forall a b, eshp (a ++ b) = eshp a ++ eshp b.
Proof. intros. unfold eshp. rewrite map_app. apply idc_app. Qed.

Definition sout_ (st : wstate) : list tok := shp (o_tokens (cur_out st)).

Lemma idc_sep : forall b : bool, shp (if b then [TWs sp] else []) = [].
Proof. destruct b; reflexivity. Qed.

Lemma idc_append_token : forall st t p src,
  shp (o_tokens (append_token st t p src)) = shp (o_tokens st) ++ shp [t].
Proof. intros. rewrite o_tokens_append_token, !idc_app, idc_sep. reflexivity. Qed.

Lemma idc_append_token_sp : forall st t p src,
  shp (o_tokens (append_token_sp st t p src)) = shp (o_tokens st) ++ shp [t].
Proof.
  intros st t p src. destruct (is_ws t) eqn:W.
  - destruct (is_ws_inv _ W) as [s ->]. destruct st as [ch u pv en tk]. unfold append_token_sp, o_tokens. cbn [o_toks rev].
    rewrite idc_app. reflexivity.
  - rewrite append_token_sp_not_ws by exact W. apply idc_append_token.
Qed.

(* st' extends st: the current output grew, its identifier/comment projection by exactly X *)
Definition SExt (X : list tok) (st st' : wstate) : Prop :=
  w_using_low st' = w_using_low st /\ sout_ st' = sout_ st ++ X.

Lemma SExt_refl : forall st, SExt [] st st.
Proof. intro st. split; [reflexivity | rewrite app_nil_r; reflexivity]. Qed.

Lemma SExt_trans : forall X Y a b c, SExt X a b -> SExt Y b c -> SExt (X ++ Y) a c.
Proof.
  intros X Y a b c [A1 A2] [B1 B2]. split; [rewrite B1; exact A1 | rewrite B2, A2, app_assoc; reflexivity].
Qed.

Lemma SExt_eq : forall X Y a b, SExt X a b -> X = Y -> SExt Y a b.
Proof. intros X Y a b H E. subst. exact H. Qed.

Lemma SExt_emit : forall st t p src (sp_mode : bool),
  SExt (shp [t]) st (if sp_mode then tok_sp st t p src else tok_at st t p src).
Proof.
  intros st t p src m. unfold SExt, sout_, tok_sp, tok_at, emit, cur_out.
  destruct m; destruct (w_using_low st); cbn [w_using_low w_low w_normal apply_op];
    (split; [reflexivity|]); first [apply idc_append_token_sp | apply idc_append_token].
Qed.

Lemma SExt_tok_at : forall st t p src, SExt (shp [t]) st (tok_at st t p src).
Proof. intros. apply (SExt_emit st t p src false). Qed.
Lemma SExt_tok_sp : forall st t p src, SExt (shp [t]) st (tok_sp st t p src).
Proof. intros. apply (SExt_emit st t p src true). Qed.

Lemma SExt_dim : forall (o : opts) (st : wstate) (n : cnum) (u : str) (p : pos) (g : gap),
  SExt (eshp [mke g (rpx_tok o n u)]) st (write_maybe_rpx_dimension o st n u p).
Proof.
  intros. unfold write_maybe_rpx_dimension, rpx_tok. destruct (str_eqb u s_rpx).
  - eapply SExt_eq; [apply SExt_tok_at | reflexivity].
  - apply (SExt_tok_at st (TDim n u)).
Qed.

(* the identifier writer against the specification's case table *)
Lemma SExt_class : forall (o : opts) (st : wstate) (s : str) (p : pos) (ic : bool) (g : gap),
  SExt (eshp (if ic then
                match class_prefix_sign o, class_prefix o with
                | Some c, Some pre => [mke g (TComment c); mke GNo (TIdent (pre ++ s_dashdash ++ s))]
                | Some c, None => [mke g (TComment c); mke GNo (TIdent s)]
                | None, Some pre => [mke g (TIdent (pre ++ s_dashdash ++ s))]
                | None, None => [mke g (TIdent s)]
                end
              else [mke g (TIdent s)]))
       st (write_maybe_class_name o st s p ic).
Proof.
  intros o st s p ic g. unfold write_maybe_class_name.
  destruct ic; [|apply (SExt_tok_sp st (TIdent s) p None)].
  destruct (class_prefix_sign o) as [c|]; destruct (class_prefix o) as [pre|].
  - eapply (SExt_trans [TComment c] [TIdent (pre ++ s_dashdash ++ s)]); [apply (SExt_tok_at st (TComment c)) | apply (SExt_tok_sp _ (TIdent (pre ++ s_dashdash ++ s)))].
  - eapply (SExt_trans [TComment c] [TIdent s]); [apply (SExt_tok_at st (TComment c)) | apply (SExt_tok_sp _ (TIdent s))].
  - apply (SExt_tok_sp st (TIdent (pre ++ s_dashdash ++ s))).
  - apply (SExt_tok_sp st (TIdent s)).
Qed.

Lemma val_node_block : forall o t p body e c m,
  val_node o (Block t p body e c) m = val_list o (val_node o) m body None false.
Proof. reflexivity. Qed.
Lemma sel_node_block : forall o t p body e c,
  sel_node o (Block t p body e c) = sel_list o (sel_node o) true body true false false false.
Proof. reflexivity. Qed.

(* ---- value context: convert_rpx_in_block vs val_list (whatever the calc / math / range flags) ---- *)
Lemma SExt_rpx_body : forall o l in_calc prev st m prev' ur,
  shaped l = true ->
  SExt (eshp (val_list o (val_node o) m l prev' ur)) st (rpx_body o in_calc l prev st).
Proof.
  intros o l.
  remember (nodes_size l) as n eqn:Hn. revert l Hn.
  induction n as [n IHn] using (well_founded_induction Wf_nat.lt_wf).
  intros l Hn. destruct l as [|x r]; intros in_calc prev st m prev' ur Hs; [apply SExt_refl|].
  cbn [rpx_body val_list].
  destruct (shaped_cons _ _ Hs) as [Hsx Hsr].
  assert (Hr : forall ic pv s m1 p1 u1, SExt (eshp (val_list o (val_node o) m1 r p1 u1)) s (rpx_body o ic r pv s)).
  { intros. eapply (IHn (nodes_size r)); [subst n; apply size_tail | reflexivity | exact Hsr]. }
  destruct (is_comment (node_tok x)) eqn:Ec; [apply Hr|].
  destruct (is_ws (node_tok x)) eqn:Ew.
  - (* whitespace: dropped, or a single space next to + / - : no identifier either way *)
    destruct x as [t p|t p b e c]; cbn [node_tok] in Ew;
      [|destruct (shaped_blk _ _ _ _ _ _ Hs) as [Ho _]; destruct (open_ok_not_wsc _ Ho) as [_ [_ Hc]]; rewrite Hc in Ew; discriminate].
    destruct (is_ws_inv _ Ew) as [w ->].
    rewrite eidc_app.
    replace (eshp (if m && (is_plus_minus prev' || is_plus_minus (first_noncomment r)) then [mke GReq (TWs sp)] else []))
      with (@nil tok) by (destruct (m && (is_plus_minus prev' || is_plus_minus (first_noncomment r))); reflexivity).
    cbn [app is_ws andb]. destruct in_calc; cbn [negb].
    + set (st1 := if is_plus_minus (first_noncomment r) || is_plus_minus prev
                  then tok_at st (TWs sp) (node_pos (Leaf (TWs w) p)) None else st).
      assert (E : SExt [] st st1).
      { unfold st1. destruct (is_plus_minus (first_noncomment r) || is_plus_minus prev); [apply (SExt_tok_at st (TWs sp)) | apply SExt_refl]. }
      eapply SExt_eq; [eapply SExt_trans; [exact E | apply Hr] | reflexivity].
    + apply Hr.
  - replace (is_ws (node_tok x) && negb in_calc) with false by (rewrite Ew; reflexivity).
    rewrite eidc_app.
    destruct x as [t p | open p body endp closed].
    + cbn [node_tok node_pos] in *. eapply SExt_trans; [|apply Hr].
      destruct t; try discriminate; try (apply SExt_tok_at).
      apply SExt_dim.
    + cbn [node_tok node_pos] in *. destruct (shaped_blk _ _ _ _ _ _ Hs) as [_ [Hsb _]].
      eapply SExt_trans; [|apply Hr].
      rewrite !eidc_app, val_node_block.
      eapply SExt_trans; [apply (SExt_tok_at st open)|].
      eapply SExt_trans; [|apply SExt_tok_at].
      eapply (IHn (nodes_size body)); [subst n; apply size_body | reflexivity | exact Hsb].
Qed.

(* ---- selector context: convert_class_names_and_rpx_in_block vs sel_list (conv = true) ---- *)
Lemma SExt_cn_body : forall o l lead ic hw st first ws cmt,
  shaped l = true -> (lead = true -> ic = false) ->
  SExt (eshp (sel_list o (sel_node o) true l first ws cmt ic)) st (cn_body o l lead ic hw st).
Proof.
  intros o l.
  remember (nodes_size l) as n eqn:Hn. revert l Hn.
  induction n as [n IHn] using (well_founded_induction Wf_nat.lt_wf).
  intros l Hn. destruct l as [|x r]; intros lead ic hw st first ws cmt Hs Hlead; [apply SExt_refl|].
  cbn [cn_body sel_list].
  destruct (shaped_cons _ _ Hs) as [Hsx Hsr].
  assert (Hr : forall ld i h s f w c, (ld = true -> i = false) ->
               SExt (eshp (sel_list o (sel_node o) true r f w c i)) s (cn_body o r ld i h s)).
  { intros. eapply (IHn (nodes_size r)); [subst n; apply size_tail | reflexivity | exact Hsr | assumption]. }
  destruct (is_comment (node_tok x)) eqn:Ec; [apply Hr; exact Hlead|].
  destruct (is_ws (node_tok x)) eqn:Ew.
  - destruct x as [t p|t p b e c]; cbn [node_tok] in Ew;
      [|destruct (shaped_blk _ _ _ _ _ _ Hs) as [Ho _]; destruct (open_ok_not_wsc _ Ho) as [_ [_ Hc]]; rewrite Hc in Ew; discriminate].
    destruct (is_ws_inv _ Ew) as [w ->]. cbn [andb is_ws node_tok].
    destruct lead.
    + rewrite (Hlead eq_refl). apply Hr. reflexivity.
    + cbn [is_curly orb fst snd]. apply Hr. discriminate.
  - replace (is_ws (node_tok x) && lead) with false by (rewrite Ew; reflexivity).
    set (st0 := if is_curly (node_tok x) || false then st
                else if hw then tok_sp st (TWs sp) (node_pos x) None else st).
    assert (H0 : SExt [] st st0).
    { unfold st0. destruct (is_curly (node_tok x) || false); [apply SExt_refl|].
      destruct hw; [apply (SExt_tok_sp st (TWs sp)) | apply SExt_refl]. }
    rewrite eidc_app.
    eapply SExt_eq; [eapply SExt_trans; [exact H0|]|reflexivity].
    destruct x as [t p | open p body endp closed].
    + cbn [node_tok node_pos fst snd] in *.
      destruct t; try discriminate; cbn [fst snd];
        try (eapply SExt_trans; [apply SExt_tok_at | apply Hr; discriminate]).
      * eapply SExt_trans; [apply SExt_class | apply Hr; discriminate].
      * eapply SExt_trans; [apply SExt_dim | apply Hr; discriminate].
    + cbn [node_tok node_pos fst snd] in *. destruct (shaped_blk _ _ _ _ _ _ Hs) as [Ho [Hsb _]].
      replace (match open with TDelim c0 => c0 =? 46 | _ => false end) with false
        by (destruct open; try discriminate Ho; reflexivity).
      eapply SExt_trans; [|apply Hr; discriminate].
      rewrite !eidc_app. cbn [andb].
      eapply SExt_trans; [apply (SExt_tok_at st0 open)|].
      eapply SExt_trans; [|apply SExt_tok_at].
      destruct (is_math_fn open).
      * rewrite val_node_block. apply SExt_rpx_body. exact Hsb.
      * rewrite sel_node_block.
        eapply (IHn (nodes_size body)); [subst n; apply size_body | reflexivity | exact Hsb | reflexivity].
Qed.

(* ---- one qualified rule: prelude (no `{}` at its top level) + declaration block ---- *)
Notation no_curly := CssClassProofs.no_curly.

Definition rule_spec (o : opts) (prelude body : list node) (first ws cmt ic : bool) : list etok :=
  sel_list o (sel_node o) false prelude first ws cmt ic ++
  [mke GFree TCurly] ++ val_list o (val_node o) false body None false ++ [mke GFree TCloseCurly].

Local Ltac blk_case o r body body0 st0 p IHr H0 Hsb T :=
  let A := fresh "A" in let B := fresh "B" in
  destruct (IHr false false
              (tok_at (cn_body o body0 true false false (tok_at st0 T p None)) (close_of T) p None)
              false false false) as [A B]; split; [exact A|];
  rewrite <- app_assoc, eidc_app; cbn [andb is_numeric];
  fold (rule_spec o r body false false false false);
  eapply SExt_eq; [eapply SExt_trans; [exact H0|]; eapply SExt_trans; [|exact B]|reflexivity];
  rewrite !eidc_app, sel_node_block;
  eapply SExt_trans; [apply SExt_tok_at|]; eapply SExt_trans; [|apply SExt_tok_at];
  apply SExt_cn_body; [exact Hsb | reflexivity].

Theorem shape_exact_rule : forall o prelude pb body e c rest ic hw st first ws cmt,
  shaped prelude = true -> shaped body = true -> no_curly prelude = true ->
  fst (qr_loop o (prelude ++ Block TCurly pb body e c :: rest) ic hw st) = rest /\
  SExt (eshp (rule_spec o prelude body first ws cmt ic)) st
       (snd (qr_loop o (prelude ++ Block TCurly pb body e c :: rest) ic hw st)).
Proof.
  intros o prelude. induction prelude as [|x r IH]; intros pb body e c rest ic hw st first ws cmt Hs Hb Hn.
  - cbn [app qr_loop node_tok is_comment is_curly is_ws orb fst snd]. split; [reflexivity|].
    unfold rule_spec. cbn [sel_list]. rewrite !eidc_app. change (eshp []) with (@nil tok). cbn [app].
    eapply SExt_trans; [apply (SExt_tok_at st TCurly)|].
    eapply SExt_trans; [|apply SExt_tok_at]. apply SExt_rpx_body. exact Hb.
  - destruct (shaped_cons _ _ Hs) as [Hsx Hsr].
    assert (Hnr : no_curly r = true).
    { cbn [no_curly] in Hn. destruct x as [?|t ? ? ? ?]; [exact Hn | destruct t; try exact Hn; discriminate]. }
    cbn [app qr_loop]. unfold rule_spec. cbn [sel_list].
    assert (IHr : forall i h s f w cm,
               fst (qr_loop o (r ++ Block TCurly pb body e c :: rest) i h s) = rest /\
               SExt (eshp (rule_spec o r body f w cm i)) s
                    (snd (qr_loop o (r ++ Block TCurly pb body e c :: rest) i h s))).
    { intros. apply IH; assumption. }
    destruct (is_comment (node_tok x)) eqn:Ec; [apply IHr|].
    destruct (is_ws (node_tok x)) eqn:Ew.
    + destruct x as [t p|t p b e0 c0]; cbn [node_tok] in Ew;
        [|destruct (shaped_blk _ _ _ _ _ _ Hs) as [Ho _]; destruct (open_ok_not_wsc _ Ho) as [_ [_ Hc]]; rewrite Hc in Ew; discriminate].
      destruct (is_ws_inv _ Ew) as [w ->]. cbn [is_curly is_ws orb node_tok]. apply IHr.
    + set (st0 := if is_curly (node_tok x) || false then st
                  else if hw then tok_sp st (TWs sp) (node_pos x) None else st).
      assert (H0 : SExt [] st st0).
      { unfold st0. destruct (is_curly (node_tok x) || false); [apply SExt_refl|].
        destruct hw; [apply (SExt_tok_sp st (TWs sp)) | apply SExt_refl]. }
      destruct x as [t p | open p body0 endp closed].
      * cbn [node_tok node_pos] in *.
        assert (Step : forall X s1 i1, SExt X st0 s1 ->
                  fst (qr_loop o (r ++ Block TCurly pb body e c :: rest) i1 false s1) = rest /\
                  SExt (X ++ eshp (rule_spec o r body false false (is_numeric t) i1)) st
                       (snd (qr_loop o (r ++ Block TCurly pb body e c :: rest) i1 false s1))).
        { intros X s1 i1 HX. destruct (IHr i1 false s1 false false (is_numeric t)) as [A B]. split; [exact A|].
          eapply SExt_eq; [eapply SExt_trans; [exact H0 | eapply SExt_trans; [exact HX | exact B]]|reflexivity]. }
        rewrite <- app_assoc, eidc_app. fold (rule_spec o r body false false (is_numeric t)
                                               (match t with TDelim c0 => c0 =? 46 | _ => false end)).
        destruct t; try discriminate; try (apply Step; apply SExt_tok_sp).
        -- apply Step. apply SExt_class.
        -- destruct (c0 =? 46); apply Step; apply SExt_tok_sp.
      * cbn [node_tok node_pos] in *. destruct (shaped_blk _ _ _ _ _ _ Hs) as [Ho [Hsb _]].
        destruct open; try discriminate Ho.
        -- blk_case o r body body0 st0 p IHr H0 Hsb (TFunc s).
        -- blk_case o r body body0 st0 p IHr H0 Hsb TParen.
        -- blk_case o r body body0 st0 p IHr H0 Hsb TSquare.
        -- cbn [no_curly] in Hn. discriminate Hn.
Qed.

(* the pinned form: normal output, starting from any state that writes to the normal output *)
Theorem shape_exact_rule_normal : forall o prelude pb body e c rest st,
  shaped prelude = true -> shaped body = true -> no_curly prelude = true -> w_using_low st = false ->
  shp (o_tokens (w_normal (snd (qr_loop o (prelude ++ Block TCurly pb body e c :: rest) false false st)))) =
  shp (o_tokens (w_normal st)) ++
  shp (map e_tok (sel_spec o false prelude true false false false ++
                  [mke GFree TCurly] ++ val_spec o false body None false ++ [mke GFree TCloseCurly])).
Proof.
  intros o prelude pb body e c rest st Hs Hb Hn Hu.
  destruct (shape_exact_rule o prelude pb body e c rest false false st true false false Hs Hb Hn) as [_ [U I]].
  unfold sout_, cur_out in I. rewrite U, Hu in I. exact I.
Qed.

Example shape_exact_rule_inhabited :
  let o := mkopts (Some [112]) (Some [83]) 1144750080 None false None in
  let P := mkpos 0 in
  (* .a:not(:is(.b .c)) *)
  let prelude := [Leaf (TDelim 46) (P 0); Leaf (TIdent [97]) (P 1); Leaf TColon (P 2);
                  Block (TFunc [110;111;116]) (P 3)
                    [Leaf TColon (P 7);
                     Block (TFunc [105;115]) (P 8)
                       [Leaf (TDelim 46) (P 11); Leaf (TIdent [98]) (P 12); Leaf (TWs [32]) (P 13);
                        Leaf (TDelim 46) (P 14); Leaf (TIdent [99]) (P 15)] (P 16) true] (P 17) true] in
  shaped prelude = true /\ no_curly prelude = true /\
  map ser_tok (shp (map e_tok (sel_spec o false prelude true false false false))) =
    [[46]; [47;42;83;42;47]; [112;45;45;97]; [58]; [110;111;116;40]; [58]; [105;115;40]; [46]; [47;42;83;42;47]; [112;45;45;98];
     [46]; [47;42;83;42;47]; [112;45;45;99]; [41]; [41]].
Proof. vm_compute. repeat split; reflexivity. Qed.
