(* Walker-level facts about the model of lib.rs (coq/Model/Css.v):
   every invariant of the output state machine that is preserved by a single operation holds
   for both outputs of `transform`, for every token tree and every option set.  In particular
   both outputs are runs of operation sequences, so all theorems of CssOutProofs apply to them. *)
From GE Require Import Model.Str Model.CssNum Model.CssTok Model.CssOut Model.CssUrlEnc Model.Css.
From GE Require Import Proofs.CssOutProofs.
From Coq Require Import Lia.
Open Scope N_scope.

(* positions that occur in a forest: start of every node, end position of every block *)
Fixpoint node_poss (n : node) : list pos :=
  match n with
  | Leaf _ p => [p]
  | Block _ p body e _ =>
      p :: e :: (fix go (l : list node) : list pos :=
                   match l with [] => [] | x :: r => node_poss x ++ go r end) body
  end.
Fixpoint poss (l : list node) : list pos :=
  match l with [] => [] | x :: r => node_poss x ++ poss r end.

Lemma node_poss_block : forall t p body e c, node_poss (Block t p body e c) = p :: e :: poss body.
Proof.
  intros. cbn [node_poss].
  assert (E : (fix go (l : list node) : list pos :=
                 match l with [] => [] | x :: r => node_poss x ++ go r end) body = poss body).
  { induction body as [|x r IH]; [reflexivity|]. cbn [poss]. rewrite IH. reflexivity. }
  rewrite E. reflexivity.
Qed.

Section Preserve.
Variable P : ostate -> Prop.
Variable Sp : pos -> Prop.     (* positions an operation may carry *)
Definition op_pos_ok (o : op) : Prop :=
  match o with OpRaw _ _ => True | OpTok _ p _ => Sp p | OpTokSP _ p _ => Sp p end.
Hypothesis P_step : forall st o, op_pos_ok o -> P st -> P (apply_op st o).

Definition Pw (st : wstate) : Prop := P (w_normal st) /\ P (w_low st).
Definition nodes_ok (l : list node) : Prop := forall p, In p (poss l) -> Sp p.

Lemma nodes_ok_cons : forall x r, nodes_ok (x :: r) -> Sp (node_pos x) /\ nodes_ok r.
Proof.
  intros x r H. split.
  - apply H. cbn [poss]. apply in_or_app. left. destruct x; [left; reflexivity | rewrite node_poss_block; left; reflexivity].
  - intros p Hp. apply H. cbn [poss]. apply in_or_app. right. exact Hp.
Qed.

Lemma nodes_ok_block : forall t p body e c r, nodes_ok (Block t p body e c :: r) -> Sp e /\ nodes_ok body.
Proof.
  intros t p body e c r H. split.
  - apply H. cbn [poss]. apply in_or_app. left. rewrite node_poss_block. right. left. reflexivity.
  - intros q Hq. apply H. cbn [poss]. apply in_or_app. left. rewrite node_poss_block. right. right. exact Hq.
Qed.

Lemma nodes_ok_head : forall x r, nodes_ok (x :: r) -> Sp (node_pos x).
Proof. intros x r H. destruct (nodes_ok_cons x r H) as [A _]. exact A. Qed.
Lemma nodes_ok_tail : forall x r, nodes_ok (x :: r) -> nodes_ok r.
Proof. intros x r H. destruct (nodes_ok_cons x r H) as [_ A]. exact A. Qed.
Lemma nodes_ok_block_body : forall t p body e c r, nodes_ok (Block t p body e c :: r) -> nodes_ok body.
Proof. intros t p body e c r H. destruct (nodes_ok_block t p body e c r H) as [_ A]. exact A. Qed.

Lemma nodes_ok_skip_ws : forall l, nodes_ok l -> nodes_ok (skip_ws l).
Proof.
  induction l as [|x r IH]; intro H; [exact H|]. cbn [skip_ws].
  destruct (is_ws_or_comment (node_tok x)); [apply IH; apply (nodes_ok_tail _ _ H) | exact H].
Qed.

Lemma nodes_ok_skip_comments : forall l, nodes_ok l -> nodes_ok (skip_comments l).
Proof.
  induction l as [|x r IH]; intro H; [exact H|]. cbn [skip_comments].
  destruct (is_comment (node_tok x)); [apply IH; apply (nodes_ok_tail _ _ H) | exact H].
Qed.

Lemma cur_pos_ok : forall l endp, nodes_ok l -> Sp endp -> Sp (cur_pos l endp).
Proof. intros l endp H He. destruct l as [|x r]; [exact He|]. apply (nodes_ok_head _ _ H). Qed.

Lemma Pw_emit : forall st o, op_pos_ok o -> Pw st -> Pw (emit st o).
Proof. intros st o Ho [Hn Hl]. unfold emit, Pw. destruct (w_using_low st); cbn; split; auto. Qed.
Lemma Pw_emit_low : forall st o, op_pos_ok o -> Pw st -> Pw (emit_low st o).
Proof. intros st o Ho [Hn Hl]. unfold emit_low, Pw. cbn. split; auto. Qed.
Lemma Pw_tok_at : forall st t p s, Sp p -> Pw st -> Pw (tok_at st t p s).
Proof. intros. apply Pw_emit; assumption. Qed.
Lemma Pw_tok_sp : forall st t p s, Sp p -> Pw st -> Pw (tok_sp st t p s).
Proof. intros. apply Pw_emit; assumption. Qed.
Lemma Pw_warn : forall st k p, Pw st -> Pw (warn st k p).
Proof. intros st k p H. exact H. Qed.
Lemma Pw_set_stack : forall st s, Pw st -> Pw (set_stack st s).
Proof. intros st s H. exact H. Qed.
Lemma Pw_set_using_low : forall st b, Pw st -> Pw (set_using_low st b).
Proof. intros st b H. exact H. Qed.
Lemma Pw_set_oof : forall st, Pw st -> Pw (set_oof st).
Proof. intros st H. exact H. Qed.

Hint Resolve Pw_emit Pw_emit_low Pw_tok_at Pw_tok_sp Pw_warn Pw_set_stack Pw_set_using_low Pw_set_oof : pw.

Lemma Pw_class : forall o st s p ic, Sp p -> Pw st -> Pw (write_maybe_class_name o st s p ic).
Proof.
  intros o st s p ic Hp H. unfold write_maybe_class_name.
  destruct ic; destruct (class_prefix_sign o); destruct (class_prefix o); auto with pw.
Qed.

Lemma Pw_dim : forall o st n u p, Sp p -> Pw st -> Pw (write_maybe_rpx_dimension o st n u p).
Proof. intros. unfold write_maybe_rpx_dimension. destruct (str_eqb u s_rpx); auto with pw. Qed.

Hint Resolve Pw_class Pw_dim : pw.

Lemma size_tail : forall x r, (nodes_size r < nodes_size (x :: r))%nat.
Proof. intros. unfold nodes_size. cbn [fold_right]. destruct x; cbn [node_size]; lia. Qed.
Lemma size_body : forall t p body e c r, (nodes_size body < nodes_size (Block t p body e c :: r))%nat.
Proof. intros. unfold nodes_size. cbn [fold_right node_size]. fold (nodes_size body). lia. Qed.

Lemma Pw_rpx_body : forall o l in_calc prev st,
  nodes_ok l -> Pw st -> Pw (rpx_body o in_calc l prev st).
Proof.
  intros o l.
  remember (nodes_size l) as n eqn:Hn. revert l Hn.
  induction n as [n IHn] using (well_founded_induction Wf_nat.lt_wf).
  intros l Hn. destruct l as [|x r]; intros in_calc prev st Hl H; [exact H|].
  cbn [rpx_body].
  destruct (nodes_ok_cons _ _ Hl) as [Hx Hrl].
  assert (Hr : forall ic pv s, Pw s -> Pw (rpx_body o ic r pv s)).
  { intros. eapply (IHn (nodes_size r)); [|reflexivity|exact Hrl|assumption].
    subst n. apply size_tail. }
  destruct (is_comment (node_tok x)); [apply Hr; exact H|].
  destruct (is_ws (node_tok x) && negb in_calc); [apply Hr; exact H|].
  apply Hr.
  destruct x as [t p | open p body endp closed].
  - cbn [node_pos] in *. destruct t; auto with pw.
    destruct (is_plus_minus (first_noncomment r) || is_plus_minus prev); auto with pw.
  - cbn [node_pos] in *. destruct (nodes_ok_block _ _ _ _ _ _ Hl) as [He Hb].
    apply Pw_tok_at; [exact Hx|].
    eapply (IHn (nodes_size body)); [|reflexivity|exact Hb|auto with pw].
    subst n. apply size_body.
Qed.

Lemma Pw_cn_body : forall o l lead ic hw st,
  nodes_ok l -> Pw st -> Pw (cn_body o l lead ic hw st).
Proof.
  intros o l.
  remember (nodes_size l) as n eqn:Hn. revert l Hn.
  induction n as [n IHn] using (well_founded_induction Wf_nat.lt_wf).
  intros l Hn. destruct l as [|x r]; intros lead ic hw st Hl H; [exact H|].
  cbn [cn_body].
  destruct (nodes_ok_cons _ _ Hl) as [Hx Hrl].
  assert (Hr : forall a b c s, Pw s -> Pw (cn_body o r a b c s)).
  { intros. eapply (IHn (nodes_size r)); [|reflexivity|exact Hrl|assumption].
    subst n. apply size_tail. }
  destruct (is_comment (node_tok x)); [apply Hr; exact H|].
  destruct (is_ws (node_tok x) && lead); [apply Hr; exact H|].
  apply Hr.
  set (st0 := if is_curly (node_tok x) || is_ws (node_tok x) then st
              else if hw then tok_sp st (TWs sp) (node_pos x) None else st).
  assert (H0 : Pw st0).
  { unfold st0. destruct (is_curly (node_tok x) || is_ws (node_tok x)); [exact H|]. destruct hw; auto with pw. }
  destruct x as [t p | open p body endp closed].
  - cbn [node_pos] in *. destruct t; cbn [fst snd]; auto with pw.
  - cbn [fst snd node_pos] in *. destruct (nodes_ok_block _ _ _ _ _ _ Hl) as [He Hb].
    apply Pw_tok_at; [exact Hx|].
    destruct (is_math_fn open); [apply Pw_rpx_body; [exact Hb | auto with pw]|].
    eapply (IHn (nodes_size body)); [|reflexivity|exact Hb|auto with pw].
    subst n. apply size_body.
Qed.

Lemma Pw_qr_loop : forall o l ic hw st,
  nodes_ok l -> Pw st -> Pw (snd (qr_loop o l ic hw st)).
Proof.
  intros o l. induction l as [|x r IH]; intros ic hw st Hl H; [exact H|].
  cbn [qr_loop].
  destruct (nodes_ok_cons _ _ Hl) as [Hx Hrl].
  destruct (is_comment (node_tok x)); [apply IH; [exact Hrl | exact H]|].
  set (st0 := if is_curly (node_tok x) || is_ws (node_tok x) then st
              else if hw then tok_sp st (TWs sp) (node_pos x) None else st).
  assert (H0 : Pw st0).
  { unfold st0. destruct (is_curly (node_tok x) || is_ws (node_tok x)); [exact H|]. destruct hw; auto with pw. }
  destruct x as [t p | open p body endp closed].
  - cbn [node_pos] in *. destruct t; try (apply IH; [exact Hrl | auto with pw]).
    destruct (c =? 46); apply IH; solve [exact Hrl | auto with pw].
  - cbn [node_pos] in *. destruct (nodes_ok_block _ _ _ _ _ _ Hl) as [He Hb].
    destruct open;
      try (apply IH; [exact Hrl | apply Pw_tok_at; [exact Hx | apply Pw_cn_body; [exact Hb | auto with pw]]]).
    cbn [snd]. apply Pw_tok_at; [exact Hx|]. apply Pw_rpx_body; [exact Hb | auto with pw].
Qed.

Lemma Pw_write_attr : forall st n v p, Sp p -> Pw st -> Pw (write_attr_selector st n v p).
Proof. intros. unfold write_attr_selector. auto 10 with pw. Qed.
Hint Resolve Pw_write_attr : pw.

Lemma Pw_fold_left : forall (A : Type) (f : wstate -> A -> wstate) (l : list A) st,
  (forall s a, Pw s -> Pw (f s a)) -> Pw st -> Pw (fold_left f l st).
Proof. intros A f l. induction l as [|a l IH]; intros st Hf H; [exact H|]. cbn [fold_left]. apply IH; auto. Qed.

Lemma Pw_host_emit : forall o st p body, Sp p -> nodes_ok body -> Pw st -> Pw (host_emit o st p body).
Proof.
  intros o st p body Hp Hb H. unfold host_emit.
  apply Pw_set_using_low. unfold low_close_wrappers.
  apply Pw_fold_left; [intros; apply Pw_emit_low; [exact I | assumption]|].
  apply Pw_tok_at; [exact Hp|]. apply Pw_rpx_body; [exact Hb |]. apply Pw_tok_at; [exact Hp|].
  assert (H1 : Pw (low_open_wrappers (set_using_low st true))).
  { unfold low_open_wrappers. apply Pw_fold_left; [|auto with pw].
    intros. apply Pw_emit_low; [exact I|]. apply Pw_emit_low; [exact I | assumption]. }
  destruct (host_is o); auto with pw.
Qed.

Lemma host_scan_ok : forall l endp inv nd rest inv',
  nodes_ok l -> host_scan l endp inv = Some (nd, rest, inv') ->
  nodes_ok (nd :: rest).
Proof.
  induction l as [|x r IH]; intros endp inv nd rest inv' Hl E; [discriminate|].
  cbn [host_scan] in E. destruct (nodes_ok_cons _ _ Hl) as [Hx Hrl].
  destruct (is_ws_or_comment (node_tok x)); [eapply IH; eassumption|].
  destruct x as [t p|open p body e c]; [eapply IH; eassumption|].
  destruct open; try (eapply IH; eassumption).
  inversion E; subst. exact Hl.
Qed.

Lemma Pw_qr_main : forall o l endp st, nodes_ok l -> Pw st -> Pw (snd (qr_main o l endp st)).
Proof.
  intros o l endp st Hl H. unfold qr_main.
  destruct (if convert_host o then host_late_scan l endp O None else None) as [[rest wp]|];
    [cbn [snd]; auto with pw | apply Pw_qr_loop; [exact Hl | exact H]].
Qed.

Lemma Pw_qrule : forall o l endp st, nodes_ok l -> Pw st -> Pw (snd (qrule o l endp st)).
Proof.
  intros o l endp st Hl0 H. unfold qrule.
  pose proof (nodes_ok_skip_ws _ Hl0) as Hl.
  destruct (convert_host o); [|apply Pw_qr_main; [exact Hl | exact H]].
  unfold host_try_parse.
  destruct (skip_ws l) as [|x r]; [apply Pw_qr_main; [exact Hl | exact H]|].
  destruct x as [t p|open p body e c]; [|apply Pw_qr_main; [exact Hl | exact H]].
  destruct t; try (apply Pw_qr_main; [exact Hl | exact H]).
  destruct (nodes_ok_cons _ _ Hl) as [_ Hr].
  pose proof (nodes_ok_skip_comments _ Hr) as Hr1.
  destruct (skip_comments r) as [|y r2]; [exact H|].
  destruct (nodes_ok_cons _ _ Hr1) as [_ Hr2].
  match goal with |- Pw (snd match match ?s with _ => _ end with _ => _ end) => destruct s as [inv|] end;
    [|apply Pw_qr_main; [exact Hl | exact H]].
  destruct (host_scan r2 endp inv) as [[[nd rest] [wp|]]|] eqn:Es; cbn [snd]; try exact H.
  - destruct nd; auto with pw.
  - pose proof (host_scan_ok _ _ _ _ _ _ Hr2 Es) as Hn.
    destruct nd as [?|t0 p0 b0 e0 c0]; cbn [snd]; [exact H|].
    apply Pw_host_emit; [apply (nodes_ok_head _ _ Hn) | apply (nodes_ok_block_body _ _ _ _ _ _ Hn) | exact H].
Qed.

Definition closes_ok (closes : list (tok * pos)) : Prop := Forall (fun c => Sp (snd c)) closes.

Lemma Pw_import_conds : forall o l closes st, nodes_ok l -> closes_ok closes -> Pw st ->
  match import_conds o l closes st with
  | ImpErr s => Pw s
  | ImpGo cursor _ cl s => Pw s /\ nodes_ok cursor /\ closes_ok cl
  end.
Proof.
  intros o l. induction l as [|x r IH]; intros closes st Hl Hc H; [split; [assumption | split; assumption]|].
  cbn [import_conds].
  destruct (nodes_ok_cons _ _ Hl) as [Hx Hrl].
  destruct (is_ws_or_comment (node_tok x)); [apply IH; assumption|].
  destruct x as [t p|open p body e c].
  - cbn [node_pos] in Hx.
    destruct t; try exact (Pw_warn _ _ _ H); try (split; [assumption | split; assumption]).
    destruct (match closes with [] => str_eqb_ci s s_layer | _ :: _ => false end);
      [|split; [assumption | split; assumption]].
    apply IH; [exact Hrl | constructor; [exact Hx | exact Hc] | auto with pw].
  - destruct (nodes_ok_block _ _ _ _ _ _ Hl) as [He Hb]. cbn [node_pos] in Hx.
    destruct open; try exact (Pw_warn _ _ _ H); try (split; [assumption | split; assumption]).
    destruct (str_eqb_ci s s_layer).
    { apply IH; [exact Hrl | constructor; [exact Hx | exact Hc] |].
      apply Pw_tok_at; [exact Hx|]. apply Pw_rpx_body; [exact Hb | auto with pw]. }
    destruct (str_eqb_ci s s_supports).
    { apply IH; [exact Hrl | constructor; [exact Hx | exact Hc] |].
      apply Pw_tok_at; [exact Hx|]. apply Pw_tok_at; [exact Hx|].
      apply Pw_cn_body; [exact Hb | auto with pw]. }
    split; [assumption | split; assumption].
Qed.

Lemma Pw_import_media : forall o l wpos st, nodes_ok l -> Pw st ->
  Pw (snd (import_media o l wpos st)) /\
  match fst (import_media o l wpos st) with Some rest => nodes_ok rest | None => True end.
Proof.
  intros o l. induction l as [|x r IH]; intros wpos st Hl H; [split; [exact H | exact Hl]|].
  cbn [import_media].
  destruct (nodes_ok_cons _ _ Hl) as [Hx Hrl].
  destruct (is_ws_or_comment (node_tok x)); [apply IH; assumption|].
  destruct x as [t p|open p body e c].
  - cbn [node_pos] in Hx. destruct t; try (apply IH; [exact Hrl | auto with pw]).
    cbn [fst snd]. split; assumption.
  - destruct (nodes_ok_block _ _ _ _ _ _ Hl) as [He Hb]. cbn [node_pos] in Hx.
    destruct open;
      try (apply IH; [exact Hrl | apply Pw_tok_at; [exact Hx | apply Pw_cn_body; [exact Hb | auto with pw]]]).
    cbn [fst snd]. split; [auto with pw | exact I].
Qed.

Lemma Pw_close_all : forall closes st, closes_ok closes -> Pw st -> Pw (close_all closes st).
Proof.
  unfold close_all. induction closes as [|c cl IH]; intros st Hc H; [exact H|].
  cbn [fold_left]. inversion Hc; subst. apply IH; [assumption | auto with pw].
Qed.

Lemma import_target_ok : forall r path r1, nodes_ok r -> import_target r = Some (path, r1) -> nodes_ok r1.
Proof.
  intros r path r1 Hr0 E. unfold import_target in E.
  pose proof (nodes_ok_skip_ws _ Hr0) as Hr.
  destruct (skip_ws r) as [|x r2]; [discriminate|].
  destruct (nodes_ok_cons _ _ Hr) as [_ Hr2].
  destruct x as [t p|open p body e c].
  - destruct t; try discriminate; inversion E; subst; exact Hr2.
  - destruct open; try discriminate.
    destruct (str_eqb_ci s s_url); [|discriminate].
    destruct (skip_ws body) as [|y b2]; [discriminate|].
    destruct y as [t2 p2|? ? ? ? ?]; [|discriminate]. destruct t2; try discriminate.
    destruct (skip_ws b2); [|discriminate]. inversion E; subst; exact Hr2.
Qed.

Lemma Pw_import_try : forall o sign spos r endp st, nodes_ok r -> Sp endp -> Sp spos -> Pw st ->
  Pw (snd (import_try o sign spos r endp st)) /\
  match fst (import_try o sign spos r endp st) with Some rest => nodes_ok rest | None => True end.
Proof.
  intros o sign spos r endp st Hr0 He Hs H. unfold import_try.
  destruct (import_target r) as [[path r1]|] eqn:Et; [|split; [exact H | exact I]].
  pose proof (import_target_ok _ _ _ Hr0 Et) as Hr1.
  pose proof (Pw_import_conds o r1 [] st Hr1 (Forall_nil _) H) as Hc.
  destruct (import_conds o r1 [] st) as [s1 | cursor hm closes s1]; [split; [exact Hc | exact I]|].
  destruct Hc as [Hc [Hcur Hcl]].
  destruct hm.
  - pose proof (Pw_import_media o cursor (cur_pos cursor endp) (tok_at s1 (TAt s_media) spos None)
                  Hcur (Pw_tok_at _ _ _ _ Hs Hc)) as [Hm Hrest].
    destruct (import_media o cursor (cur_pos cursor endp) (tok_at s1 (TAt s_media) spos None)) as [[rest|] s3];
      cbn [fst snd] in *; [|split; [exact Hm | exact I]].
    split; [|exact Hrest]. apply Pw_close_all; [constructor; [exact Hs | exact Hcl]|]. auto with pw.
  - cbn [fst snd]. split; [|exact Hcur]. apply Pw_close_all; [exact Hcl|]. auto with pw.
Qed.

Lemma nodes_ok_skip_to : forall l, nodes_ok l -> nodes_ok (skip_to_block_or_semi l).
Proof.
  induction l as [|x r IH]; intro H; [exact H|]. cbn [skip_to_block_or_semi].
  destruct (nodes_ok_cons _ _ H) as [_ Hr].
  destruct x as [t p|open p b e c]; [destruct t; auto | destruct open; auto].
Qed.

Lemma Pw_at_prelude : forall o rec contain mark l st,
  (forall body be s, nodes_ok body -> Sp be -> Pw s -> Pw (rec body be s)) ->
  nodes_ok l -> Pw st ->
  Pw (snd (at_prelude o rec contain mark l st)) /\ nodes_ok (fst (at_prelude o rec contain mark l st)).
Proof.
  intros o rec contain mark l. induction l as [|x r IH]; intros st Hrec Hl H; [split; assumption|].
  cbn [at_prelude].
  destruct (nodes_ok_cons _ _ Hl) as [Hx Hrl].
  destruct (is_ws_or_comment (node_tok x)); [apply IH; assumption|].
  destruct x as [t p|open p body e c].
  - cbn [node_pos] in Hx. destruct t; try (apply IH; [exact Hrec | exact Hrl | auto with pw]).
    cbn [fst snd]. split; [auto with pw | exact Hrl].
  - destruct (nodes_ok_block _ _ _ _ _ _ Hl) as [He Hb]. cbn [node_pos] in Hx.
    destruct open;
      try (apply IH; [exact Hrec | exact Hrl | apply Pw_tok_at; [exact Hx |
             match goal with |- Pw (if ?b then _ else _) => destruct b end;
             [apply Pw_rpx_body | apply Pw_cn_body]; [exact Hb | auto with pw | exact Hb | auto with pw]]]).
    cbn [fst snd]. split; [|exact Hrl]. apply Pw_set_stack. apply Pw_tok_at; [exact Hx|].
    destruct contain; [apply Hrec; [exact Hb | exact He | auto with pw] | apply Pw_rpx_body; [exact Hb | auto with pw]].
Qed.

Lemma Pw_at_rule : forall o rec l endp at_start st,
  (forall body be s, nodes_ok body -> Sp be -> Pw s -> Pw (rec body be s)) ->
  nodes_ok l -> Sp endp -> Pw st ->
  match at_rule o rec l endp at_start st with
  | Some (rest, s) => Pw s /\ nodes_ok rest
  | None => True
  end.
Proof.
  intros o rec l endp at_start st Hrec Hl He H. unfold at_rule.
  destruct l as [|x r]; [exact I|]. destruct x as [t p|? ? ? ? ?]; [|exact I].
  destruct t; try exact I.
  destruct (nodes_ok_cons _ _ Hl) as [Hx Hr]. cbn [node_pos] in Hx.
  destruct (if str_eqb_ci s s_import then import_sign o else None) as [sign|].
  - set (st0 := if at_start then st else warn st W_IMPORT_POS (cur_pos r endp)).
    assert (H0 : Pw st0) by (unfold st0; destruct at_start; auto with pw).
    pose proof (Pw_import_try o sign (cur_pos r endp) r endp st0 Hr He (cur_pos_ok _ _ Hr He) H0) as [Hi Hrest].
    destruct (import_try o sign (cur_pos r endp) r endp st0) as [[rest|] s1]; cbn [fst snd] in *.
    + split; assumption.
    + split; [exact Hi | apply nodes_ok_skip_to; exact Hr].
  - pose proof (Pw_at_prelude o rec (contain_rule_list s) (o_mark (cur_out st)) r
                  (tok_at st (TAt s) p None) Hrec Hr (Pw_tok_at _ _ _ _ Hx H)) as [Ha Hb].
    destruct (at_prelude o rec (contain_rule_list s) (o_mark (cur_out st)) r (tok_at st (TAt s) p None)).
    split; assumption.
Qed.

Lemma qr_loop_rest_ok : forall o l ic hw st, nodes_ok l -> nodes_ok (fst (qr_loop o l ic hw st)).
Proof.
  intros o l. induction l as [|x r IH]; intros ic hw st Hl; [exact Hl|].
  cbn [qr_loop]. destruct (nodes_ok_cons _ _ Hl) as [_ Hr].
  destruct (is_comment (node_tok x)); [apply IH; exact Hr|].
  destruct x as [t p|open p b e c].
  - destruct t; try (apply IH; exact Hr). destruct (c =? 46); apply IH; exact Hr.
  - destruct open; try (apply IH; exact Hr). exact Hr.
Qed.

Lemma host_scan_rest_ok : forall l endp inv nd rest inv',
  nodes_ok l -> host_scan l endp inv = Some (nd, rest, inv') -> nodes_ok rest.
Proof.
  intros. eapply nodes_ok_tail. eapply host_scan_ok; eassumption.
Qed.

Lemma host_late_scan_rest_ok : forall l endp ac found rest wp,
  nodes_ok l -> host_late_scan l endp ac found = Some (rest, wp) -> nodes_ok rest.
Proof.
  induction l as [|x r IH]; intros endp ac found rest wp Hl E; [discriminate|].
  cbn [host_late_scan] in E. destruct (nodes_ok_cons _ _ Hl) as [_ Hr].
  destruct (is_comment (node_tok x)); [eapply IH; eassumption|].
  destruct x as [t p|open p b e c].
  - destruct t; eapply IH; eassumption.
  - destruct open; try (eapply IH; eassumption).
    destruct found; [|discriminate]. inversion E; subst. exact Hr.
Qed.

Lemma qr_main_rest_ok : forall o l endp st, nodes_ok l -> nodes_ok (fst (qr_main o l endp st)).
Proof.
  intros o l endp st Hl. unfold qr_main.
  destruct (if convert_host o then host_late_scan l endp O None else None) as [[rest wp]|] eqn:E;
    [|apply qr_loop_rest_ok; exact Hl].
  cbn [fst]. destruct (convert_host o); [|discriminate]. eapply host_late_scan_rest_ok; eassumption.
Qed.

Lemma qrule_rest_ok : forall o l endp st, nodes_ok l -> nodes_ok (fst (qrule o l endp st)).
Proof.
  intros o l endp st Hl0. unfold qrule.
  pose proof (nodes_ok_skip_ws _ Hl0) as Hl.
  destruct (convert_host o); [|apply qr_main_rest_ok; exact Hl].
  unfold host_try_parse.
  destruct (skip_ws l) as [|x r]; [apply qr_main_rest_ok; exact Hl|].
  destruct x as [t p|open p body e c]; [|apply qr_main_rest_ok; exact Hl].
  destruct t; try (apply qr_main_rest_ok; exact Hl).
  destruct (nodes_ok_cons _ _ Hl) as [_ Hr].
  pose proof (nodes_ok_skip_comments _ Hr) as Hr1.
  destruct (skip_comments r) as [|y r2]; [intros q []|].
  destruct (nodes_ok_cons _ _ Hr1) as [_ Hr2].
  match goal with |- nodes_ok (fst match match ?s with _ => _ end with _ => _ end) => destruct s as [inv|] end;
    [|apply qr_main_rest_ok; exact Hl].
  destruct (host_scan r2 endp inv) as [[[nd rest] [wp|]]|] eqn:Es; cbn [fst]; try (intros q []).
  - destruct nd; cbn [fst]; eapply host_scan_rest_ok; eassumption.
  - destruct nd; cbn [fst]; eapply host_scan_rest_ok; eassumption.
Qed.

Lemma Pw_rules : forall fuel o l endp at_start st,
  nodes_ok l -> Sp endp -> Pw st -> Pw (rules fuel o l endp at_start st).
Proof.
  induction fuel as [|f IH]; intros o l endp at_start st Hl0 He H; [exact H|].
  cbn [rules]. pose proof (nodes_ok_skip_ws _ Hl0) as Hl.
  destruct (skip_ws l) as [|x r] eqn:E; [exact H|].
  pose proof (Pw_at_rule o (fun body be s => rules f o body be false s) (x :: r) endp at_start st
                (fun body be s Hb Hbe Hs => IH o body be false s Hb Hbe Hs) Hl He H) as Ha.
  destruct (at_rule o (fun body be s => rules f o body be false s) (x :: r) endp at_start st) as [[rest s1]|].
  - destruct Ha. apply IH; assumption.
  - pose proof (Pw_qrule o (x :: r) endp st Hl H) as Hq.
    pose proof (qrule_rest_ok o (x :: r) endp st Hl) as Hrest.
    destruct (qrule o (x :: r) endp st) as [rest s1]. apply IH; assumption.
Qed.

Theorem Pw_transform : forall o tree endp,
  nodes_ok tree -> Sp endp -> P o_init -> Pw (transform o tree endp).
Proof. intros o tree endp Ht He H0. unfold transform. apply Pw_rules; [exact Ht | exact He | split; exact H0]. Qed.

End Preserve.

(* ---- consequences ---- *)

Definition op_run (st : ostate) : Prop := exists ops, st = run_ops ops.

Lemma op_run_step : forall st o, op_run st -> op_run (apply_op st o).
Proof. intros st o [ops ->]. exists (ops ++ [o]). symmetry. apply run_ops_snoc. Qed.

(* both outputs of the transformer are the result of running a sequence of output operations
   from the empty output: the walkers never touch an output in any other way *)
Theorem transform_outputs_are_op_runs : forall o tree endp,
  op_run (w_normal (transform o tree endp)) /\ op_run (w_low (transform o tree endp)).
Proof.
  intros. apply (Pw_transform op_run (fun _ => True) (fun st o _ H => op_run_step st o H)).
  - intros p _. exact I.
  - exact I.
  - exists []. reflexivity.
Qed.

Theorem transform_col_invariant : forall o tree endp,
  o_utf16 (w_normal (transform o tree endp)) = utf16_length (o_text (w_normal (transform o tree endp))) /\
  o_utf16 (w_low (transform o tree endp)) = utf16_length (o_text (w_low (transform o tree endp))).
Proof.
  intros o tree endp. destruct (transform_outputs_are_op_runs o tree endp) as [[a ->] [b ->]].
  split; apply out_col_invariant.
Qed.

Theorem transform_entries_monotone : forall o tree endp,
  Sorted.StronglySorted (fun a b => e_dst_col a <= e_dst_col b) (o_map (w_normal (transform o tree endp))) /\
  Sorted.StronglySorted (fun a b => e_dst_col a <= e_dst_col b) (o_map (w_low (transform o tree endp))).
Proof.
  intros o tree endp. destruct (transform_outputs_are_op_runs o tree endp) as [[a ->] [b ->]].
  split; apply entries_monotone.
Qed.
