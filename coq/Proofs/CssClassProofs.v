(* C09, positive half at the level of one qualified rule: for EVERY selector prelude (any nesting
   depth of blocks and functions, comments anywhere) and every declaration block, the sequence of
   identifiers and sign comments that the walkers of lib.rs write is exactly the sequence the
   specification (CssSpec.sel_list / val_list) demands: every identifier that directly follows a
   `.` in selector context is prefixed (and signed), at every depth, and no other identifier is.
   Whitespace and separators are not part of this statement (they are C08's). *)
From GE Require Import Model.Str Model.CssNum Model.CssTok Model.CssOut Model.CssUrlEnc Model.Css Model.CssSpec.
From GE Require Import Proofs.CssOutProofs Proofs.CssWalkProofs Proofs.CssTokProofs.
From Coq Require Import Lia.
Open Scope N_scope.

Definition is_idc (t : tok) : bool := match t with TIdent _ | TComment _ => true | _ => false end.
Definition idc (l : list tok) : list tok := filter is_idc l.
Definition eidc (l : list etok) : list tok := idc (map e_tok l).

Lemma idc_app : forall a b, idc (a ++ b) = idc a ++ idc b.
Proof. intros. unfold idc. apply filter_app. Qed.
Lemma eidc_app : forall a b, eidc (a ++ b) = eidc a ++ eidc b.
Proof. intros. unfold eidc. rewrite map_app. apply idc_app. Qed.

Definition iout (st : wstate) : list tok := idc (o_tokens (cur_out st)).

Lemma idc_sep : forall b : bool, idc (if b then [TWs sp] else []) = [].
Proof. destruct b; reflexivity. Qed.

Lemma idc_append_token : forall st t p src,
  idc (o_tokens (append_token st t p src)) = idc (o_tokens st) ++ idc [t].
Proof. intros. rewrite o_tokens_append_token, !idc_app, idc_sep. reflexivity. Qed.

Lemma idc_append_token_sp : forall st t p src,
  idc (o_tokens (append_token_sp st t p src)) = idc (o_tokens st) ++ idc [t].
Proof.
  intros st t p src. destruct (is_ws t) eqn:W.
  - destruct (is_ws_inv _ W) as [s ->]. destruct st as [ch u pv en tk]. unfold append_token_sp, o_tokens. cbn [o_toks rev].
    rewrite idc_app. reflexivity.
  - rewrite append_token_sp_not_ws by exact W. apply idc_append_token.
Qed.

(* st' extends st: the current output grew, its identifier/comment projection by exactly X *)
Definition IExt (X : list tok) (st st' : wstate) : Prop :=
  w_using_low st' = w_using_low st /\ iout st' = iout st ++ X.

Lemma IExt_refl : forall st, IExt [] st st.
Proof. intro st. split; [reflexivity | rewrite app_nil_r; reflexivity]. Qed.

Lemma IExt_trans : forall X Y a b c, IExt X a b -> IExt Y b c -> IExt (X ++ Y) a c.
Proof.
  intros X Y a b c [A1 A2] [B1 B2]. split; [rewrite B1; exact A1 | rewrite B2, A2, app_assoc; reflexivity].
Qed.

Lemma IExt_eq : forall X Y a b, IExt X a b -> X = Y -> IExt Y a b.
Proof. intros X Y a b H E. subst. exact H. Qed.

Lemma IExt_emit : forall st t p src (sp_mode : bool),
  IExt (idc [t]) st (if sp_mode then tok_sp st t p src else tok_at st t p src).
Proof.
  intros st t p src m. unfold IExt, iout, tok_sp, tok_at, emit, cur_out.
  destruct m; destruct (w_using_low st); cbn [w_using_low w_low w_normal apply_op];
    (split; [reflexivity|]); first [apply idc_append_token_sp | apply idc_append_token].
Qed.

Lemma IExt_tok_at : forall st t p src, IExt (idc [t]) st (tok_at st t p src).
Proof. intros. apply (IExt_emit st t p src false). Qed.
Lemma IExt_tok_sp : forall st t p src, IExt (idc [t]) st (tok_sp st t p src).
Proof. intros. apply (IExt_emit st t p src true). Qed.

Lemma IExt_dim : forall (o : opts) (st : wstate) (n : cnum) (u : str) (p : pos),
  IExt (@nil tok) st (write_maybe_rpx_dimension o st n u p).
Proof. intros. unfold write_maybe_rpx_dimension. destruct (str_eqb u s_rpx); apply IExt_tok_at. Qed.

Lemma eidc_rpx_tok : forall o g n u, eidc [mke g (rpx_tok o n u)] = [].
Proof. intros. unfold rpx_tok. destruct (str_eqb u s_rpx); reflexivity. Qed.

(* the identifier writer against the specification's case table *)
Lemma IExt_class : forall (o : opts) (st : wstate) (s : str) (p : pos) (ic : bool) (g : gap),
  IExt (eidc (if ic then
                match class_prefix_sign o, class_prefix o with
                | Some c, Some pre => [mke g (TComment c); mke GNo (TIdent (pre ++ s_dashdash ++ s))]
                | Some c, None => [mke g (TComment c); mke GNo (TIdent s)]
                | None, Some pre => [mke g (TIdent (pre ++ s_dashdash ++ s))]
                | None, None => [mke g (TIdent s)]
                end
              else [mke g (TIdent s)]))
       st (write_maybe_class_name o st s p ic).
Proof.
  intros o st s p ic g. unfold write_maybe_class_name.
  destruct ic; [|apply (IExt_tok_sp st (TIdent s) p None)].
  destruct (class_prefix_sign o) as [c|]; destruct (class_prefix o) as [pre|].
  - eapply (IExt_trans [TComment c] [TIdent (pre ++ s_dashdash ++ s)]); [apply (IExt_tok_at st (TComment c)) | apply (IExt_tok_sp _ (TIdent (pre ++ s_dashdash ++ s)))].
  - eapply (IExt_trans [TComment c] [TIdent s]); [apply (IExt_tok_at st (TComment c)) | apply (IExt_tok_sp _ (TIdent s))].
  - apply (IExt_tok_sp st (TIdent (pre ++ s_dashdash ++ s))).
  - apply (IExt_tok_sp st (TIdent s)).
Qed.

Lemma val_node_block : forall o t p body e c m,
  val_node o (Block t p body e c) m = val_list o (val_node o) m body None false.
Proof. reflexivity. Qed.
Lemma sel_node_block : forall o t p body e c,
  sel_node o (Block t p body e c) = sel_list o (sel_node o) true body true false false false.
Proof. reflexivity. Qed.

(* ---- value context: convert_rpx_in_block vs val_list (whatever the calc / math / range flags) ---- *)
Lemma IExt_rpx_body : forall o l in_calc prev st m prev' ur,
  shaped l = true ->
  IExt (eidc (val_list o (val_node o) m l prev' ur)) st (rpx_body o in_calc l prev st).
Proof.
  intros o l.
  remember (nodes_size l) as n eqn:Hn. revert l Hn.
  induction n as [n IHn] using (well_founded_induction Wf_nat.lt_wf).
  intros l Hn. destruct l as [|x r]; intros in_calc prev st m prev' ur Hs; [apply IExt_refl|].
  cbn [rpx_body val_list].
  destruct (shaped_cons _ _ Hs) as [Hsx Hsr].
  assert (Hr : forall ic pv s m1 p1 u1, IExt (eidc (val_list o (val_node o) m1 r p1 u1)) s (rpx_body o ic r pv s)).
  { intros. eapply (IHn (nodes_size r)); [subst n; apply size_tail | reflexivity | exact Hsr]. }
  destruct (is_comment (node_tok x)) eqn:Ec; [apply Hr|].
  destruct (is_ws (node_tok x)) eqn:Ew.
  - (* whitespace: dropped, or a single space next to + / - : no identifier either way *)
    destruct x as [t p|t p b e c]; cbn [node_tok] in Ew;
      [|destruct (shaped_blk _ _ _ _ _ _ Hs) as [Ho _]; destruct (open_ok_not_wsc _ Ho) as [_ [_ Hc]]; rewrite Hc in Ew; discriminate].
    destruct (is_ws_inv _ Ew) as [w ->].
    rewrite eidc_app.
    replace (eidc (if m && (is_plus_minus prev' || is_plus_minus (first_noncomment r)) then [mke GReq (TWs sp)] else []))
      with (@nil tok) by (destruct (m && (is_plus_minus prev' || is_plus_minus (first_noncomment r))); reflexivity).
    cbn [app is_ws andb]. destruct in_calc; cbn [negb].
    + set (st1 := if is_plus_minus (first_noncomment r) || is_plus_minus prev
                  then tok_at st (TWs sp) (node_pos (Leaf (TWs w) p)) None else st).
      assert (E : IExt [] st st1).
      { unfold st1. destruct (is_plus_minus (first_noncomment r) || is_plus_minus prev); [apply (IExt_tok_at st (TWs sp)) | apply IExt_refl]. }
      eapply IExt_eq; [eapply IExt_trans; [exact E | apply Hr] | reflexivity].
    + apply Hr.
  - replace (is_ws (node_tok x) && negb in_calc) with false by (rewrite Ew; reflexivity).
    rewrite eidc_app.
    destruct x as [t p | open p body endp closed].
    + cbn [node_tok node_pos] in *. eapply IExt_trans; [|apply Hr].
      destruct t; try discriminate; try (apply IExt_tok_at).
      eapply IExt_eq; [apply IExt_dim | symmetry; apply eidc_rpx_tok].
    + cbn [node_tok node_pos] in *. destruct (shaped_blk _ _ _ _ _ _ Hs) as [_ [Hsb _]].
      eapply IExt_trans; [|apply Hr].
      rewrite !eidc_app, val_node_block.
      eapply IExt_trans; [apply (IExt_tok_at st open)|].
      eapply IExt_trans; [|apply IExt_tok_at].
      eapply (IHn (nodes_size body)); [subst n; apply size_body | reflexivity | exact Hsb].
Qed.

(* ---- selector context: convert_class_names_and_rpx_in_block vs sel_list (conv = true) ---- *)
Lemma IExt_cn_body : forall o l lead ic hw st first ws cmt,
  shaped l = true -> (lead = true -> ic = false) ->
  IExt (eidc (sel_list o (sel_node o) true l first ws cmt ic)) st (cn_body o l lead ic hw st).
Proof.
  intros o l.
  remember (nodes_size l) as n eqn:Hn. revert l Hn.
  induction n as [n IHn] using (well_founded_induction Wf_nat.lt_wf).
  intros l Hn. destruct l as [|x r]; intros lead ic hw st first ws cmt Hs Hlead; [apply IExt_refl|].
  cbn [cn_body sel_list].
  destruct (shaped_cons _ _ Hs) as [Hsx Hsr].
  assert (Hr : forall ld i h s f w c, (ld = true -> i = false) ->
               IExt (eidc (sel_list o (sel_node o) true r f w c i)) s (cn_body o r ld i h s)).
  { intros. eapply (IHn (nodes_size r)); [subst n; apply size_tail | reflexivity | exact Hsr | assumption]. }
  destruct (is_comment (node_tok x)) eqn:Ec; [apply Hr; exact Hlead|].
  destruct (is_ws (node_tok x)) eqn:Ew.
  - destruct x as [t p|t p b e c]; cbn [node_tok] in Ew;
      [|destruct (shaped_blk _ _ _ _ _ _ Hs) as [Ho _]; destruct (open_ok_not_wsc _ Ho) as [_ [_ Hc]]; rewrite Hc in Ew; discriminate].
    destruct (is_ws_inv _ Ew) as [w ->]. cbn [andb is_ws node_tok].
    destruct lead.
    + rewrite (Hlead eq_refl). apply Hr. reflexivity.
    + cbn [is_curly orb fst snd]. apply Hr. discriminate.
  - replace (is_ws (node_tok x) && lead) with false by (rewrite Ew; reflexivity).
    set (st0 := if is_curly (node_tok x) || false then st
                else if hw then tok_sp st (TWs sp) (node_pos x) None else st).
    assert (H0 : IExt [] st st0).
    { unfold st0. destruct (is_curly (node_tok x) || false); [apply IExt_refl|].
      destruct hw; [apply (IExt_tok_sp st (TWs sp)) | apply IExt_refl]. }
    rewrite eidc_app.
    eapply IExt_eq; [eapply IExt_trans; [exact H0|]|reflexivity].
    destruct x as [t p | open p body endp closed].
    + cbn [node_tok node_pos fst snd] in *.
      destruct t; try discriminate; cbn [fst snd];
        try (eapply IExt_trans; [apply IExt_tok_at | apply Hr; discriminate]).
      * eapply IExt_trans; [apply IExt_class | apply Hr; discriminate].
      * eapply IExt_trans; [eapply IExt_eq; [apply IExt_dim | symmetry; apply eidc_rpx_tok] | apply Hr; discriminate].
    + cbn [node_tok node_pos fst snd] in *. destruct (shaped_blk _ _ _ _ _ _ Hs) as [Ho [Hsb _]].
      replace (match open with TDelim c0 => c0 =? 46 | _ => false end) with false
        by (destruct open; try discriminate Ho; reflexivity).
      eapply IExt_trans; [|apply Hr; discriminate].
      rewrite !eidc_app. cbn [andb].
      eapply IExt_trans; [apply (IExt_tok_at st0 open)|].
      eapply IExt_trans; [|apply IExt_tok_at].
      destruct (is_math_fn open).
      * rewrite val_node_block. apply IExt_rpx_body. exact Hsb.
      * rewrite sel_node_block.
        eapply (IHn (nodes_size body)); [subst n; apply size_body | reflexivity | exact Hsb | reflexivity].
Qed.

(* ---- one qualified rule: prelude (no `{}` at its top level) + declaration block ---- *)
Fixpoint no_curly (l : list node) : bool :=
  match l with
  | [] => true
  | Block TCurly _ _ _ _ :: _ => false
  | _ :: r => no_curly r
  end.

Definition rule_spec (o : opts) (prelude body : list node) (first ws cmt ic : bool) : list etok :=
  sel_list o (sel_node o) false prelude first ws cmt ic ++
  [mke GFree TCurly] ++ val_list o (val_node o) false body None false ++ [mke GFree TCloseCurly].

Local Ltac blk_case o r body body0 st0 p IHr H0 Hsb T :=
  let A := fresh "A" in let B := fresh "B" in
  destruct (IHr false false
              (tok_at (cn_body o body0 true false false (tok_at st0 T p None)) (close_of T) p None)
              false false false) as [A B]; split; [exact A|];
  rewrite <- app_assoc, eidc_app; cbn [andb is_numeric];
  fold (rule_spec o r body false false false false);
  eapply IExt_eq; [eapply IExt_trans; [exact H0|]; eapply IExt_trans; [|exact B]|reflexivity];
  rewrite !eidc_app, sel_node_block;
  eapply IExt_trans; [apply IExt_tok_at|]; eapply IExt_trans; [|apply IExt_tok_at];
  apply IExt_cn_body; [exact Hsb | reflexivity].

Theorem class_exact_rule : forall o prelude pb body e c rest ic hw st first ws cmt,
  shaped prelude = true -> shaped body = true -> no_curly prelude = true ->
  fst (qr_loop o (prelude ++ Block TCurly pb body e c :: rest) ic hw st) = rest /\
  IExt (eidc (rule_spec o prelude body first ws cmt ic)) st
       (snd (qr_loop o (prelude ++ Block TCurly pb body e c :: rest) ic hw st)).
Proof.
  intros o prelude. induction prelude as [|x r IH]; intros pb body e c rest ic hw st first ws cmt Hs Hb Hn.
  - cbn [app qr_loop node_tok is_comment is_curly is_ws orb fst snd]. split; [reflexivity|].
    unfold rule_spec. cbn [sel_list]. rewrite !eidc_app. change (eidc []) with (@nil tok). cbn [app].
    eapply IExt_trans; [apply (IExt_tok_at st TCurly)|].
    eapply IExt_trans; [|apply IExt_tok_at]. apply IExt_rpx_body. exact Hb.
  - destruct (shaped_cons _ _ Hs) as [Hsx Hsr].
    assert (Hnr : no_curly r = true).
    { cbn [no_curly] in Hn. destruct x as [?|t ? ? ? ?]; [exact Hn | destruct t; try exact Hn; discriminate]. }
    cbn [app qr_loop]. unfold rule_spec. cbn [sel_list].
    assert (IHr : forall i h s f w cm,
               fst (qr_loop o (r ++ Block TCurly pb body e c :: rest) i h s) = rest /\
               IExt (eidc (rule_spec o r body f w cm i)) s
                    (snd (qr_loop o (r ++ Block TCurly pb body e c :: rest) i h s))).
    { intros. apply IH; assumption. }
    destruct (is_comment (node_tok x)) eqn:Ec; [apply IHr|].
    destruct (is_ws (node_tok x)) eqn:Ew.
    + destruct x as [t p|t p b e0 c0]; cbn [node_tok] in Ew;
        [|destruct (shaped_blk _ _ _ _ _ _ Hs) as [Ho _]; destruct (open_ok_not_wsc _ Ho) as [_ [_ Hc]]; rewrite Hc in Ew; discriminate].
      destruct (is_ws_inv _ Ew) as [w ->]. cbn [is_curly is_ws orb node_tok]. apply IHr.
    + set (st0 := if is_curly (node_tok x) || false then st
                  else if hw then tok_sp st (TWs sp) (node_pos x) None else st).
      assert (H0 : IExt [] st st0).
      { unfold st0. destruct (is_curly (node_tok x) || false); [apply IExt_refl|].
        destruct hw; [apply (IExt_tok_sp st (TWs sp)) | apply IExt_refl]. }
      destruct x as [t p | open p body0 endp closed].
      * cbn [node_tok node_pos] in *.
        assert (Step : forall X s1 i1, IExt X st0 s1 ->
                  fst (qr_loop o (r ++ Block TCurly pb body e c :: rest) i1 false s1) = rest /\
                  IExt (X ++ eidc (rule_spec o r body false false (is_numeric t) i1)) st
                       (snd (qr_loop o (r ++ Block TCurly pb body e c :: rest) i1 false s1))).
        { intros X s1 i1 HX. destruct (IHr i1 false s1 false false (is_numeric t)) as [A B]. split; [exact A|].
          eapply IExt_eq; [eapply IExt_trans; [exact H0 | eapply IExt_trans; [exact HX | exact B]]|reflexivity]. }
        rewrite <- app_assoc, eidc_app. fold (rule_spec o r body false false (is_numeric t)
                                               (match t with TDelim c0 => c0 =? 46 | _ => false end)).
        destruct t; try discriminate; try (apply Step; apply IExt_tok_sp).
        -- apply Step. apply IExt_class.
        -- destruct (c0 =? 46); apply Step; apply IExt_tok_sp.
      * cbn [node_tok node_pos] in *. destruct (shaped_blk _ _ _ _ _ _ Hs) as [Ho [Hsb _]].
        destruct open; try discriminate Ho.
        -- blk_case o r body body0 st0 p IHr H0 Hsb (TFunc s).
        -- blk_case o r body body0 st0 p IHr H0 Hsb TParen.
        -- blk_case o r body body0 st0 p IHr H0 Hsb TSquare.
        -- cbn [no_curly] in Hn. discriminate Hn.
Qed.

(* the pinned form: normal output, starting from any state that writes to the normal output *)
Theorem class_exact_rule_normal : forall o prelude pb body e c rest st,
  shaped prelude = true -> shaped body = true -> no_curly prelude = true -> w_using_low st = false ->
  idc (o_tokens (w_normal (snd (qr_loop o (prelude ++ Block TCurly pb body e c :: rest) false false st)))) =
  idc (o_tokens (w_normal st)) ++
  idc (map e_tok (sel_spec o false prelude true false false false ++
                  [mke GFree TCurly] ++ val_spec o false body None false ++ [mke GFree TCloseCurly])).
Proof.
  intros o prelude pb body e c rest st Hs Hb Hn Hu.
  destruct (class_exact_rule o prelude pb body e c rest false false st true false false Hs Hb Hn) as [_ [U I]].
  unfold iout, cur_out in I. rewrite U, Hu in I. exact I.
Qed.

Example class_exact_rule_inhabited :
  let o := mkopts (Some [112]) (Some [83]) 1144750080 None false None in
  let P := mkpos 0 in
  (* .a:not(:is(.b .c)) *)
  let prelude := [Leaf (TDelim 46) (P 0); Leaf (TIdent [97]) (P 1); Leaf TColon (P 2);
                  Block (TFunc [110;111;116]) (P 3)
                    [Leaf TColon (P 7);
                     Block (TFunc [105;115]) (P 8)
                       [Leaf (TDelim 46) (P 11); Leaf (TIdent [98]) (P 12); Leaf (TWs [32]) (P 13);
                        Leaf (TDelim 46) (P 14); Leaf (TIdent [99]) (P 15)] (P 16) true] (P 17) true] in
  shaped prelude = true /\ no_curly prelude = true /\
  map ser_tok (idc (map e_tok (sel_spec o false prelude true false false false))) =
    [[47;42;83;42;47]; [112;45;45;97]; [47;42;83;42;47]; [112;45;45;98]; [47;42;83;42;47]; [112;45;45;99]].
Proof. vm_compute. repeat split; reflexivity. Qed.
