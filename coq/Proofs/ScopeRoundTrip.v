(* Scope references: an expression whose identifiers were resolved against the enclosing scopes
   (convert_scopes) is printed, with the scopes' own names, as the same text as before the
   resolution; so parsing the print and resolving again gives the same expression. *)
From GE Require Import Model.StrExpr Model.ExprParse Proofs.ExprRtTokens Proofs.ExprRoundTrip Proofs.NumRoundTrip.
From Coq Require Import Lia.
Import ListNotations.
Local Open Scope nat_scope.

Lemma find_last_index_spec : forall x scopes i0 found i,
  find_last_index x scopes i0 found = Some i ->
  (found = Some i /\ True) \/ (i0 <= i /\ nth_error scopes (i - i0) = Some x).
Proof.
  intros x. induction scopes as [|s r IH]; intros i0 found i H; cbn [find_last_index] in H.
  - left. split; [exact H|exact I].
  - destruct (IH _ _ _ H) as [[E _]|[Hle Hn]].
    + destruct (str_eqb s x) eqn:Es.
      * injection E as <-. right. split; [lia|]. rewrite Nat.sub_diag. cbn. apply str_eqb_eq in Es. congruence.
      * left. split; [exact E|exact I].
    + right. split; [lia|]. replace (i - i0) with (S (i - S i0)) by lia. exact Hn.
Qed.

Lemma lookup_scope_nth : forall x scopes i, lookup_scope x scopes = Some i -> nth_error scopes i = Some x.
Proof.
  intros x scopes i H. unfold lookup_scope in H. destruct (find_last_index_spec _ _ _ _ _ H) as [[E _]|[_ Hn]]; [discriminate|].
  rewrite Nat.sub_0_r in Hn. exact Hn.
Qed.

Section Scopes.
  Variable scopes : list str.
  Definition scope_names (i : nat) : str := nth i scopes [].

  Lemma scope_names_lookup : forall x i, lookup_scope x scopes = Some i -> scope_names i = x.
  Proof. intros x i H. apply lookup_scope_nth in H. unfold scope_names. apply nth_error_nth. exact H. Qed.

  Notation cs := (convert_scopes scopes).
  Notation pr := (sx_core scope_names).

  Lemma level_convert : forall e, sx_level (cs e) = sx_level e.
  Proof. destruct e; try reflexivity. cbn [convert_scopes]. destruct (lookup_scope x scopes); reflexivity. Qed.

  Lemma shortcut_convert : forall k v, is_shortcut scope_names k (cs v) = is_shortcut scope_names k v.
  Proof.
    intros k v. destruct v; try reflexivity. cbn [convert_scopes]. destruct (lookup_scope x scopes) as [i|] eqn:E; [|reflexivity].
    cbn [is_shortcut]. rewrite (scope_names_lookup x i E). reflexivity.
  Qed.

  (* raw expressions: before resolution there is no scope reference *)
  Fixpoint raw (e : expr) : Prop :=
    match e with
    | EScope _ => False
    | EField _ | EUndef | ENull | EStr _ | EInt _ | EFloat _ | EBool _ => True
    | EToStr v => raw v
    | EObj fs => raw_o fs
    | EArr fs => raw_a fs
    | EMember o _ => raw o
    | EIndex o k => raw o /\ raw k
    | ECall f args => raw f /\ raw_x args
    | EUn _ v => raw v
    | EBin _ l r => raw l /\ raw r
    | ECond c t f => raw c /\ raw t /\ raw f
    end
  with raw_x (l : exprs) : Prop := match l with XNil => True | XCons e r => raw e /\ raw_x r end
  with raw_o (l : ofields) : Prop :=
    match l with ONil => True | ONamed _ v r => raw v /\ raw_o r | OSpread v r => raw v /\ raw_o r end
  with raw_a (l : afields) : Prop :=
    match l with ANil => True | ANormal v r => raw v /\ raw_a r | ASpread v r => raw v /\ raw_a r | AHole r => raw_a r end.

  Lemma pr_convert_all :
    (forall e, raw e -> pr (cs e) = pr e) /\
    (forall l, raw_x l -> forall first, sx_args scope_names (convert_scopes_x scopes l) first = sx_args scope_names l first) /\
    (forall l, raw_o l -> forall first, sx_obj scope_names (convert_scopes_o scopes l) first = sx_obj scope_names l first) /\
    (forall l, raw_a l -> forall first, sx_arr scope_names (convert_scopes_a scopes l) first = sx_arr scope_names l first).
  Proof.
    apply expr_mutind; cbn [raw raw_x raw_o raw_a].
    - intros i H. contradiction.
    - intros x _. cbn [convert_scopes]. destruct (lookup_scope x scopes) as [i|] eqn:E; [|reflexivity].
      cbn [sx_core]. apply scope_names_lookup. exact E.
    - intros e IH H. reflexivity.
    - reflexivity.
    - reflexivity.
    - reflexivity.
    - reflexivity.
    - reflexivity.
    - reflexivity.
    - intros fs IH H. cbn [convert_scopes]. rewrite !pr_obj, (IH H). reflexivity.
    - intros fs IH H. cbn [convert_scopes]. rewrite !pr_arr, (IH H). reflexivity.
    - intros o IH k H. cbn [convert_scopes]. rewrite !pr_member. unfold sub. rewrite level_convert, (IH H).
      destruct o; try reflexivity. cbn [convert_scopes]. destruct (lookup_scope x scopes); reflexivity.
    - intros o IHo k IHk [Ho Hk]. cbn [convert_scopes]. rewrite !pr_index. unfold sub. rewrite !level_convert, (IHo Ho), (IHk Hk). reflexivity.
    - intros f IHf args IHa [Hf Ha]. cbn [convert_scopes]. rewrite !pr_call. unfold sub. rewrite level_convert, (IHf Hf), (IHa Ha). reflexivity.
    - intros op v IH H. cbn [convert_scopes]. rewrite !pr_un. unfold sub. rewrite level_convert, (IH H). reflexivity.
    - intros op l IHl r IHr [Hl Hr]. cbn [convert_scopes]. rewrite !pr_bin. unfold sub. rewrite !level_convert, (IHl Hl), (IHr Hr). reflexivity.
    - intros c IHc t IHt f IHf [Hc [Ht Hf]]. cbn [convert_scopes]. rewrite !pr_cond. unfold sub.
      rewrite !level_convert, (IHc Hc), (IHt Ht), (IHf Hf). reflexivity.
    - intros _ first. reflexivity.
    - intros e IHe r IHr [He Hr] first. cbn [convert_scopes_x]. rewrite !sx_args_cons. unfold sub. rewrite level_convert, (IHe He), (IHr Hr). reflexivity.
    - intros _ first. reflexivity.
    - intros k v IHv r IHr [Hv Hr] first. cbn [convert_scopes_o]. rewrite !sx_obj_named. unfold sub.
      rewrite shortcut_convert, level_convert, (IHv Hv), (IHr Hr). reflexivity.
    - intros v IHv r IHr [Hv Hr] first. cbn [convert_scopes_o]. rewrite !sx_obj_spread. unfold sub. rewrite level_convert, (IHv Hv), (IHr Hr). reflexivity.
    - intros _ first. reflexivity.
    - intros v IHv r IHr [Hv Hr] first. cbn [convert_scopes_a]. rewrite !sx_arr_normal. unfold sub. rewrite level_convert, (IHv Hv), (IHr Hr). reflexivity.
    - intros v IHv r IHr [Hv Hr] first. cbn [convert_scopes_a]. rewrite !sx_arr_spread. unfold sub. rewrite level_convert, (IHv Hv), (IHr Hr). reflexivity.
    - intros r IHr Hr first. cbn [convert_scopes_a]. rewrite !sx_arr_hole, (IHr Hr).
      destruct r; reflexivity.
  Qed.

  Lemma wf_raw : forall e, wf e -> raw e.
  Proof.
    apply (expr_mut (fun e => wf e -> raw e) (fun l => wf_x l -> raw_x l) (fun l => wf_o l -> raw_o l) (fun l => wf_a l -> raw_a l));
      cbn [wf wf_x wf_o wf_a raw raw_x raw_o raw_a]; try tauto.
    intros k v IHv r IHr [_ [[E|Hv] Hr]]; [subst v; cbn; tauto|tauto].
  Qed.

  (* resolve, print with the scopes' names, parse, resolve: the same expression *)
  Theorem resolved_print_parse : forall e, wf e -> forall rest,
    match parse_cond (pr (cs e) ++ 125%N :: 125%N :: rest) with
    | POk e' r => cs e' = cs e /\ r = 125%N :: 125%N :: rest
    | PFail _ _ => False
    end.
  Proof.
    intros e H rest. destruct pr_convert_all as [Hp _]. rewrite (Hp e (wf_raw e H)).
    rewrite (print_parse_cond scope_names num_roundtrip z_to_str_head e H rest). split; reflexivity.
  Qed.
End Scopes.
