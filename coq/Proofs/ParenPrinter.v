(* Source parentheses are honoured exactly: a printer that writes the same concrete syntax as the
   stringifier but puts ANY additional pairs of parentheses around operands (chosen by an arbitrary
   oracle - none, all, or any mixture) produces text that the expression parser reads as the same
   expression.  With the oracle "never" this is the stringifier's own minimal-parentheses text, with
   "always" the fully parenthesised spelling whose meaning does not depend on any precedence table:
   the parser assigns both the same tree, i.e. it implements exactly the precedence and associativity
   encoded in the printer's level tables. *)
From GE Require Import Model.StrExpr Model.ExprParse Proofs.ExprRtTokens Proofs.ExprRoundTrip Proofs.ExprRoundTripGen
  Proofs.NumRoundTrip.
From Coq Require Import Lia.
Import ListNotations.

Definition gshort (k : str) (v : expr) : bool := match v with EField x => str_eqb x k | _ => false end.

Section Oracle.
  Variable o : expr -> bool.    (* operands that get an extra pair of parentheses *)

  Fixpoint gp (e : expr) : str :=
    let sub (c : expr) (accept : N) := paren_if (o c || (accept <? sx_level c)%N) (gp c) in
    match e with
    | EScope _ => []
    | EField x => x
    | EToStr _ => []
    | EUndef => lit "undefined"
    | ENull => lit "null"
    | EStr s => wx_lit_str s
    | EInt z => z_to_str z
    | EFloat t => t
    | EBool b => if b then lit "true" else lit "false"
    | EObj fs => lit "{" ++ gpo fs true ++ lit "}"
    | EArr fs => lit "[" ++ gpa fs true ++ lit "]"
    | EMember ob k =>
        (match ob with
         | EInt _ | EFloat _ => lit "(" ++ gp ob ++ lit ")"
         | _ => sub ob L_Member
         end) ++ lit "." ++ k
    | EIndex ob k => sub ob L_Member ++ lit "[" ++ sub k L_Cond ++ lit "]"
    | ECall f args => sub f L_Member ++ lit "(" ++ gpx args true ++ lit ")"
    | EUn op v => unop_text op ++ sub v L_Unary
    | EBin op l r => sub l (sx_left op) ++ sx_binop_text op ++ sub r (sx_right op)
    | ECond c t f => sub c L_LogicOr ++ lit "?" ++ sub t L_Cond ++ lit ":" ++ sub f L_Cond
    end
  with gpx (l : exprs) (first : bool) : str :=
    match l with
    | XNil => []
    | XCons e r => (if first then [] else lit ",") ++ paren_if (o e || (L_Cond <? sx_level e)%N) (gp e) ++ gpx r false
    end
  with gpo (l : ofields) (first : bool) : str :=
    match l with
    | ONil => []
    | ONamed k v r =>
        (if first then [] else lit ",") ++ k ++
        (if gshort k v then [] else lit ":" ++ paren_if (o v || (L_Cond <? sx_level v)%N) (gp v)) ++ gpo r false
    | OSpread v r =>
        (if first then [] else lit ",") ++ lit "..." ++ paren_if (o v || (L_Cond <? sx_level v)%N) (gp v) ++ gpo r false
    end
  with gpa (l : afields) (first : bool) : str :=
    match l with
    | ANil => []
    | ANormal v r => (if first then [] else lit ",") ++ paren_if (o v || (L_Cond <? sx_level v)%N) (gp v) ++ gpa r false
    | ASpread v r => (if first then [] else lit ",") ++ lit "..." ++ paren_if (o v || (L_Cond <? sx_level v)%N) (gp v) ++ gpa r false
    | AHole r =>
        (if first then [] else lit ",") ++
        (match r with ANil => lit "," | _ => [] end) ++ gpa r false
    end.

  Definition gsub (c : expr) (accept : N) : str := paren_if (o c || (accept <? sx_level c)%N) (gp c).

  Lemma gsub_dec : forall e a, (gsub e a = gp e /\ (sx_level e <= a)%N) \/ gsub e a = 40%N :: gp e ++ [41%N].
  Proof.
    intros e a. unfold gsub, paren_if. destruct (o e); cbn [orb]; [right; reflexivity|].
    destruct (a <? sx_level e)%N eqn:E; [right; reflexivity|left]. split; [reflexivity|]. apply N.ltb_ge. exact E.
  Qed.

  Lemma gshort_sound : forall k v, wf v -> gshort k v = true -> v = EField k.
  Proof. intros k v _ H. destruct v; cbn in H; try discriminate. apply str_eqb_eq in H. congruence. Qed.
  Lemma gshort_field : forall k, gshort k (EField k) = true.
  Proof. intro k. cbn. apply str_eqb_eq. reflexivity. Qed.

  Theorem extra_parentheses_honoured : forall e, wf e -> forall rest,
    parse_cond (gp e ++ 125%N :: 125%N :: rest) = POk e (125%N :: 125%N :: rest).
  Proof.
    intros e H rest.
    apply (ExprRoundTripGen.print_parse_cond gp gpx gpo gpa gsub gshort); try exact H;
      first [ exact gsub_dec | exact gshort_sound | exact gshort_field | exact num_roundtrip | exact z_to_str_head
            | intros; reflexivity ].
  Qed.

  Theorem extra_parentheses_binding : forall e, wf e -> forall rest,
    ExprParse.binding false (gp e ++ 125%N :: 125%N :: rest) = (Some e, rest).
  Proof.
    intros e H rest.
    apply (ExprRoundTripGen.print_parse_binding gp gpx gpo gpa gsub gshort); try exact H;
      first [ exact gsub_dec | exact gshort_sound | exact gshort_field | exact num_roundtrip | exact z_to_str_head
            | intros; reflexivity ].
  Qed.
End Oracle.

(* unfolding the oracle printer *)
Section Unfold.
  Variable o : expr -> bool.
  Lemma gp_member : forall ob k, gp o (EMember ob k) =
    (match ob with EInt _ | EFloat _ => lit "(" ++ gp o ob ++ lit ")" | _ => gsub o ob L_Member end) ++ lit "." ++ k.
  Proof. reflexivity. Qed.
  Lemma gp_index : forall ob k, gp o (EIndex ob k) = gsub o ob L_Member ++ lit "[" ++ gsub o k L_Cond ++ lit "]".
  Proof. reflexivity. Qed.
  Lemma gp_call : forall f args, gp o (ECall f args) = gsub o f L_Member ++ lit "(" ++ gpx o args true ++ lit ")".
  Proof. reflexivity. Qed.
  Lemma gp_un : forall op v, gp o (EUn op v) = unop_text op ++ gsub o v L_Unary.
  Proof. reflexivity. Qed.
  Lemma gp_bin : forall op l r, gp o (EBin op l r) = gsub o l (sx_left op) ++ sx_binop_text op ++ gsub o r (sx_right op).
  Proof. reflexivity. Qed.
  Lemma gp_cond : forall c t f, gp o (ECond c t f) = gsub o c L_LogicOr ++ lit "?" ++ gsub o t L_Cond ++ lit ":" ++ gsub o f L_Cond.
  Proof. reflexivity. Qed.
  Lemma gp_obj : forall fs, gp o (EObj fs) = lit "{" ++ gpo o fs true ++ lit "}".
  Proof. reflexivity. Qed.
  Lemma gp_arr : forall fs, gp o (EArr fs) = lit "[" ++ gpa o fs true ++ lit "]".
  Proof. reflexivity. Qed.
  Lemma gpx_cons : forall e r first, gpx o (XCons e r) first = (if first then [] else lit ",") ++ gsub o e L_Cond ++ gpx o r false.
  Proof. reflexivity. Qed.
  Lemma gpo_named : forall k v r first, gpo o (ONamed k v r) first =
    (if first then [] else lit ",") ++ k ++ (if gshort k v then [] else lit ":" ++ gsub o v L_Cond) ++ gpo o r false.
  Proof. reflexivity. Qed.
  Lemma gpo_spread : forall v r first, gpo o (OSpread v r) first = (if first then [] else lit ",") ++ lit "..." ++ gsub o v L_Cond ++ gpo o r false.
  Proof. reflexivity. Qed.
  Lemma gpa_normal : forall v r first, gpa o (ANormal v r) first = (if first then [] else lit ",") ++ gsub o v L_Cond ++ gpa o r false.
  Proof. reflexivity. Qed.
  Lemma gpa_spread : forall v r first, gpa o (ASpread v r) first = (if first then [] else lit ",") ++ lit "..." ++ gsub o v L_Cond ++ gpa o r false.
  Proof. reflexivity. Qed.
  Lemma gpa_hole : forall r first, gpa o (AHole r) first =
    (if first then [] else lit ",") ++ (match r with ANil => lit "," | _ => [] end) ++ gpa o r false.
  Proof. reflexivity. Qed.
End Unfold.

(* with the oracle "never", the printer is the stringifier's (for expressions without scope references) *)
Lemma gp_never_is_sx_core : forall names,
  (forall e, wf e -> gp (fun _ => false) e = sx_core names e).
Proof.
  intro names. set (o := fun _ : expr => false).
  assert (Hsub : forall e a, gp o e = sx_core names e -> gsub o e a = ExprRoundTrip.sub names e a).
  { intros e a E. unfold gsub, ExprRoundTrip.sub. change (o e) with false. cbn [orb]. rewrite E. reflexivity. }
  assert (H : (forall e, wf e -> gp o e = sx_core names e) /\
              (forall l, wf_x l -> forall first, gpx o l first = sx_args names l first) /\
              (forall l, wf_o l -> forall first, gpo o l first = sx_obj names l first) /\
              (forall l, wf_a l -> forall first, gpa o l first = sx_arr names l first)).
  { apply expr_mutind; cbn [wf wf_x wf_o wf_a]; try contradiction; try reflexivity.
    - intros fs IH H. rewrite gp_obj, ExprRoundTrip.pr_obj, (IH H). reflexivity.
    - intros fs IH H. rewrite gp_arr, ExprRoundTrip.pr_arr, (IH H). reflexivity.
    - intros ob IH k [H _]. rewrite gp_member, ExprRoundTrip.pr_member, (Hsub ob L_Member (IH H)), (IH H). reflexivity.
    - intros ob IHo k IHk [Ho Hk]. rewrite gp_index, ExprRoundTrip.pr_index, (Hsub _ _ (IHo Ho)), (Hsub _ _ (IHk Hk)). reflexivity.
    - intros f IHf args IHa [Hf Ha]. rewrite gp_call, ExprRoundTrip.pr_call, (Hsub _ _ (IHf Hf)), (IHa Ha). reflexivity.
    - intros op v IH H. rewrite gp_un, ExprRoundTrip.pr_un, (Hsub _ _ (IH H)). reflexivity.
    - intros op l IHl r IHr [Hl Hr]. rewrite gp_bin, ExprRoundTrip.pr_bin, (Hsub _ _ (IHl Hl)), (Hsub _ _ (IHr Hr)). reflexivity.
    - intros c IHc t IHt f IHf [Hc [Ht Hf]]. rewrite gp_cond, ExprRoundTrip.pr_cond, (Hsub _ _ (IHc Hc)), (Hsub _ _ (IHt Ht)), (Hsub _ _ (IHf Hf)).
      reflexivity.
    - intros e IHe r IHr [He Hr] first. rewrite gpx_cons, ExprRoundTrip.sx_args_cons, (Hsub _ _ (IHe He)), (IHr Hr). reflexivity.
    - intros k v IHv r IHr [Hk [Hv Hr]] first. rewrite gpo_named, ExprRoundTrip.sx_obj_named, (IHr Hr). destruct Hv as [E|Hv].
      + subst v. cbn [gshort is_shortcut]. destruct (str_eqb k k) eqn:Ek; [reflexivity|].
        assert (str_eqb k k = true) by (apply str_eqb_eq; reflexivity). congruence.
      + rewrite (Hsub _ _ (IHv Hv)). destruct v; try reflexivity. cbn in Hv. contradiction.
    - intros v IHv r IHr [Hv Hr] first. rewrite gpo_spread, ExprRoundTrip.sx_obj_spread, (Hsub _ _ (IHv Hv)), (IHr Hr). reflexivity.
    - intros v IHv r IHr [Hv Hr] first. rewrite gpa_normal, ExprRoundTrip.sx_arr_normal, (Hsub _ _ (IHv Hv)), (IHr Hr). reflexivity.
    - intros v IHv r IHr [Hv Hr] first. rewrite gpa_spread, ExprRoundTrip.sx_arr_spread, (Hsub _ _ (IHv Hv)), (IHr Hr). reflexivity.
    - intros r IHr Hr first. rewrite gpa_hole, ExprRoundTrip.sx_arr_hole, (IHr Hr). reflexivity. }
  exact (proj1 H).
Qed.
