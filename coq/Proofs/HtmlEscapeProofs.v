From GE Require Import Model.Str Model.Hex Model.Escape.
From Coq Require Import Lia ZifyBool ZifyN.

Lemma N_match_other {A} (c k : N) (a b : A) : c <> k ->
  (if c =? k then a else b) = b.
Proof. intros H. destruct (N.eqb_spec c k); [contradiction | reflexivity]. Qed.

(* one escaping step, read back *)
Lemma unescape_step c r rest :
  unescape_html ((if c =? 60 then e_lt else if c =? 34 then e_quot else if c =? 38 then e_amp
                  else if (c =? 123) && next_is_lbrace r then e_lbrace else [c]) ++ rest)
  = c :: unescape_html rest.
Proof.
  destruct (N.eqb_spec c 60) as [->|H60]; [reflexivity|].
  destruct (N.eqb_spec c 34) as [->|H34]; [reflexivity|].
  destruct (N.eqb_spec c 38) as [->|H38]; [reflexivity|].
  destruct ((c =? 123) && next_is_lbrace r) eqn:E.
  - apply andb_prop in E. destruct E as [E _]. apply N.eqb_eq in E. subst c. reflexivity.
  - cbn [app]. (* a plain character that is not '&' is read back as itself *)
    destruct c as [|p]; [reflexivity|].
    destruct p as [p|p|]; try reflexivity;
    destruct p as [p|p|]; try reflexivity;
    destruct p as [p|p|]; try reflexivity;
    destruct p as [p|p|]; try reflexivity;
    destruct p as [p|p|]; try reflexivity;
    destruct p as [p|p|]; try reflexivity; congruence.
Qed.

(* the template parser reads a re-printed static text back as exactly that text *)
Theorem unescape_escape_html_body s : unescape_html (escape_html_body s) = s.
Proof.
  induction s as [|c r IH]; [reflexivity|].
  cbn [escape_html_body]. rewrite unescape_step. now rewrite IH.
Qed.

(* and the re-printed text contains no "{{" (it cannot be taken for a data binding), no '<'
   (it cannot open a tag) and no raw double quote (it cannot end an attribute value) *)
Ltac bits7 p := do 7 (destruct p as [p|p|]; try reflexivity).

Lemma hdl_cons_not c t : c <> 123 -> has_double_lbrace (c :: t) = has_double_lbrace t.
Proof. intros H. destruct c as [|p]; [reflexivity|]. bits7 p. congruence. Qed.

Lemma hdl_lbrace_other d t : d <> 123 -> has_double_lbrace (123 :: d :: t) = has_double_lbrace (d :: t).
Proof.
  intros H. cbn [has_double_lbrace].
  destruct d as [|p]; [reflexivity|]. bits7 p. congruence.
Qed.

Lemma hdl_lbrace_nil : has_double_lbrace [123] = false.
Proof. reflexivity. Qed.

Lemma escape_head_not_lbrace d r' :
  d <> 123 -> exists x t, escape_html_body (d :: r') = x :: t /\ x <> 123.
Proof.
  intros Hd. cbn [escape_html_body].
  destruct (N.eqb_spec d 60); [eexists; eexists; split; [reflexivity | discriminate]|].
  destruct (N.eqb_spec d 34); [eexists; eexists; split; [reflexivity | discriminate]|].
  destruct (N.eqb_spec d 38); [eexists; eexists; split; [reflexivity | discriminate]|].
  replace (d =? 123) with false by (symmetry; now apply N.eqb_neq). cbn [andb app].
  eexists; eexists; split; [reflexivity | exact Hd].
Qed.

Lemma head_escape_not_lbrace_pair c r :
  let piece := (if c =? 60 then e_lt else if c =? 34 then e_quot else if c =? 38 then e_amp
                else if (c =? 123) && next_is_lbrace r then e_lbrace else [c]) in
  has_double_lbrace (piece ++ escape_html_body r) = has_double_lbrace (escape_html_body r).
Proof.
  cbn zeta.
  destruct (N.eqb_spec c 60) as [->|H60]; [reflexivity|].
  destruct (N.eqb_spec c 34) as [->|H34]; [reflexivity|].
  destruct (N.eqb_spec c 38) as [->|H38]; [reflexivity|].
  destruct (N.eqb_spec c 123) as [->|H123]; cbn [andb].
  - destruct r as [|d r']; [reflexivity|].
    destruct (N.eqb_spec d 123) as [->|Hd]; [reflexivity|].
    assert (Hn : next_is_lbrace (d :: r') = false).
    { destruct d as [|p]; [reflexivity|]. bits7 p. congruence. }
    rewrite Hn. cbn [app].
    destruct (escape_head_not_lbrace d r' Hd) as [x [t [E Hx]]]. rewrite E.
    now apply hdl_lbrace_other.
  - cbn [app]. now apply hdl_cons_not.
Qed.

Theorem escape_html_body_no_binding_start s : has_double_lbrace (escape_html_body s) = false.
Proof.
  induction s as [|c r IH]; [reflexivity|].
  cbn [escape_html_body]. rewrite head_escape_not_lbrace_pair. exact IH.
Qed.

Theorem escape_html_body_no_special s : ~ In 60 (escape_html_body s) /\ ~ In 34 (escape_html_body s).
Proof.
  induction s as [|c r [IH1 IH2]]; [split; intros []|].
  cbn [escape_html_body].
  assert (P : forall k, (k = 60 \/ k = 34) ->
            ~ In k (if c =? 60 then e_lt else if c =? 34 then e_quot else if c =? 38 then e_amp
                    else if (c =? 123) && next_is_lbrace r then e_lbrace else [c])).
  { intros k Hk.
    destruct (N.eqb_spec c 60); [destruct Hk; subst; cbn; intuition discriminate|].
    destruct (N.eqb_spec c 34); [destruct Hk; subst; cbn; intuition discriminate|].
    destruct (N.eqb_spec c 38); [destruct Hk; subst; cbn; intuition discriminate|].
    destruct ((c =? 123) && next_is_lbrace r); [destruct Hk; subst; cbn; intuition discriminate|].
    destruct Hk; subst; cbn; intuition congruence. }
  split; intros H; apply in_app_or in H; destruct H as [H|H];
    [apply (P 60); auto | contradiction | apply (P 34); auto | contradiction].
Qed.

(* the text before the repair (no brace escaping) is refuted: "{{x}}" is printed raw *)
Definition legacy_escape_html_body (s : str) : str :=
  flat_map (fun c => if c =? 60 then e_lt else if c =? 34 then e_quot else if c =? 38 then e_amp else [c]) s.
Example legacy_static_text_becomes_binding :
  has_double_lbrace (legacy_escape_html_body [123; 123; 120; 125; 125]) = true.
Proof. reflexivity. Qed.
