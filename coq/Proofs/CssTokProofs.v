(* C08 / C09: token preservation.  For every token tree and every option set without @import /
   :host rewriting, the non-whitespace non-comment tokens written to the normal output are,
   in order and one for one, the tokens of the input, each unchanged or rewritten by one of
   the two documented rewrites; nothing is written to the low-priority output. *)
From GE Require Import Model.Str Model.CssNum Model.CssTok Model.CssOut Model.CssUrlEnc Model.Css.
From GE Require Import Proofs.CssOutProofs Proofs.CssWalkProofs.
From Coq Require Import Lia.
Open Scope N_scope.

Definition keep (t : tok) : bool := negb (is_ws t || is_comment t).
Definition strip (l : list tok) : list tok := filter keep l.

Fixpoint flat_node (n : node) : list tok :=
  match n with
  | Leaf t _ => [t]
  | Block open _ body _ _ =>
      open :: (fix go (l : list node) : list tok :=
                 match l with [] => [] | x :: r => flat_node x ++ go r end) body ++ [close_of open]
  end.
Fixpoint flatten (l : list node) : list tok :=
  match l with [] => [] | x :: r => flat_node x ++ flatten r end.

Lemma flat_node_block : forall t p body e c,
  flat_node (Block t p body e c) = t :: flatten body ++ [close_of t].
Proof.
  intros. cbn [flat_node].
  assert (E : (fix go (l : list node) : list tok :=
                 match l with [] => [] | x :: r => flat_node x ++ go r end) body = flatten body).
  { induction body as [|x r IH]; [reflexivity|]. cbn [flatten]. rewrite IH. reflexivity. }
  rewrite E. reflexivity.
Qed.

Lemma flatten_app : forall a b, flatten (a ++ b) = flatten a ++ flatten b.
Proof. induction a as [|x a IH]; intro b; [reflexivity|]. cbn [app flatten]. rewrite IH, app_assoc. reflexivity. Qed.

Lemma strip_app : forall a b, strip (a ++ b) = strip a ++ strip b.
Proof. intros. unfold strip. apply filter_app. Qed.

(* the opening token of a block node is one of the four block-opening tokens (what cssparser
   produces; the tree type itself does not enforce it) *)
Definition open_ok (t : tok) : bool :=
  match t with TFunc _ | TParen | TSquare | TCurly => true | _ => false end.
Fixpoint shaped_node (n : node) : bool :=
  match n with
  | Leaf _ _ => true
  | Block t _ body _ _ =>
      open_ok t && (fix go (l : list node) : bool :=
                      match l with [] => true | x :: r => shaped_node x && go r end) body
  end.
Fixpoint shaped (l : list node) : bool :=
  match l with [] => true | x :: r => shaped_node x && shaped r end.

Lemma shaped_block : forall t p body e c, shaped_node (Block t p body e c) = open_ok t && shaped body.
Proof.
  intros. cbn [shaped_node].
  assert (E : (fix go (l : list node) : bool :=
                 match l with [] => true | x :: r => shaped_node x && go r end) body = shaped body).
  { induction body as [|x r IH]; [reflexivity|]. cbn [shaped]. rewrite IH. reflexivity. }
  rewrite E. reflexivity.
Qed.

Lemma shaped_cons : forall x r, shaped (x :: r) = true -> shaped_node x = true /\ shaped r = true.
Proof. intros x r H. cbn [shaped] in H. apply andb_prop in H. exact H. Qed.

Lemma shaped_blk : forall t p body e c r, shaped (Block t p body e c :: r) = true ->
  open_ok t = true /\ shaped body = true /\ shaped r = true.
Proof.
  intros t p body e c r H. destruct (shaped_cons _ _ H) as [H1 H2]. rewrite shaped_block in H1.
  apply andb_prop in H1. destruct H1. auto.
Qed.

Lemma shaped_app : forall a b, shaped (a ++ b) = true -> shaped b = true.
Proof. induction a as [|x a IH]; intros b H; [exact H|]. cbn [app] in H. apply IH. apply (shaped_cons _ _ H). Qed.

Lemma open_ok_not_wsc : forall t, open_ok t = true -> is_ws_or_comment t = false /\ is_comment t = false /\ is_ws t = false.
Proof. intros t H. destruct t; try discriminate; auto. Qed.

(* the documented rewrites *)
Inductive tok_rel (o : opts) : tok -> tok -> Prop :=
| TR_same : forall t, tok_rel o t t
| TR_class : forall s pre, class_prefix o = Some pre ->
    tok_rel o (TIdent s) (TIdent (pre ++ s_dashdash ++ s))
| TR_rpx : forall n,
    tok_rel o (TDim n s_rpx)
              (TDim (mknum (n_sign n) (rpx_new_int (rpx_new_value (n_bits n) (rpx_ratio o)))
                           (rpx_new_value (n_bits n) (rpx_ratio o)) []) s_vw).

Lemma tok_rel_not_ident : forall o a b,
  tok_rel o a b -> (forall s, a <> TIdent s) -> (forall n u, a <> TDim n u) -> b = a.
Proof.
  intros o a b H H1 H2. destruct H as [t|s pre _|n]; [reflexivity | exfalso; apply (H1 s); reflexivity | exfalso; apply (H2 n s_rpx); reflexivity].
Qed.

Lemma Forall2_same : forall o l, Forall2 (tok_rel o) l l.
Proof. induction l; constructor; [apply TR_same | assumption]. Qed.

(* ---- the stripped view of the normal output ---- *)

Definition sout (st : wstate) : list tok := strip (o_tokens (w_normal st)).

Lemma o_tokens_append_token : forall st t p src,
  o_tokens (append_token st t p src) =
  o_tokens st ++ (if needs_separator (o_prev st) (ser_type t) then [TWs sp] else []) ++ [t].
Proof.
  intros [ch u pv en tk] t p src. unfold append_token, o_tokens. cbn [o_prev].
  destruct (needs_separator pv (ser_type t)); unfold push_text, add_entry, set_prev; cbn [o_chunks o_utf16 o_prev o_entries o_toks rev_append].
  - cbn [rev]. rewrite <- !app_assoc. reflexivity.
  - cbn [rev app]. reflexivity.
Qed.

Lemma strip_sep : forall b : bool, strip (if b then [TWs sp] else []) = [].
Proof. destruct b; reflexivity. Qed.

Lemma strip_append_token : forall st t p src,
  strip (o_tokens (append_token st t p src)) = strip (o_tokens st) ++ strip [t].
Proof. intros. rewrite o_tokens_append_token, !strip_app, strip_sep. reflexivity. Qed.

Lemma strip_append_token_sp : forall st t p src,
  strip (o_tokens (append_token_sp st t p src)) = strip (o_tokens st) ++ strip [t].
Proof.
  intros st t p src. destruct (is_ws t) eqn:W.
  - destruct (is_ws_inv _ W) as [s ->]. destruct st as [ch u pv en tk]. unfold append_token_sp, o_tokens. cbn [o_toks rev].
    rewrite strip_app. reflexivity.
  - rewrite append_token_sp_not_ws by exact W. apply strip_append_token.
Qed.

(* st' extends st: normal output grew by Y, related to X; low output and mode untouched *)
(* (the last part: the token list of the normal output - separators and comments included - only ever grows at its end;
   `segment_since` cuts the prelude of an at-rule out of it) *)
Definition Ext (o : opts) (X : list tok) (st st' : wstate) : Prop :=
  w_using_low st' = false /\ w_low st' = w_low st /\
  (exists Y, sout st' = sout st ++ Y /\ Forall2 (tok_rel o) X Y) /\
  (exists T, o_tokens (w_normal st') = o_tokens (w_normal st) ++ T).

Lemma Ext_refl : forall o st, w_using_low st = false -> Ext o [] st st.
Proof.
  intros o st H. unfold Ext. repeat split; [exact H| |exists []; rewrite app_nil_r; reflexivity].
  exists []. rewrite app_nil_r. split; [reflexivity | constructor].
Qed.

Lemma Ext_trans : forall o X X' a b c, Ext o X a b -> Ext o X' b c -> Ext o (X ++ X') a c.
Proof.
  intros o X X' a b c [A1 [A2 [[Y [A3 A4]] [T A5]]]] [B1 [B2 [[Y' [B3 B4]] [T' B5]]]]. unfold Ext.
  repeat split; [exact B1 | rewrite B2; exact A2 | |exists (T ++ T'); rewrite B5, A5, app_assoc; reflexivity].
  exists (Y ++ Y'). split; [rewrite B3, A3, app_assoc; reflexivity | apply Forall2_app; assumption].
Qed.

Lemma Ext_grow : forall o X a b, Ext o X a b -> exists T, o_tokens (w_normal b) = o_tokens (w_normal a) ++ T.
Proof. intros o X a b H. apply H. Qed.
Lemma Ext_low : forall o X a b, Ext o X a b -> w_low b = w_low a.
Proof. intros o X a b H. apply H. Qed.

Lemma Ext_using_low : forall o X a b, Ext o X a b -> w_using_low b = false.
Proof. intros o X a b H. apply H. Qed.

Lemma o_tokens_append_token_sp : forall st t p src,
  exists T, o_tokens (append_token_sp st t p src) = o_tokens st ++ T.
Proof.
  intros st t p src. destruct (is_ws t) eqn:W.
  - destruct (is_ws_inv _ W) as [s ->]. destruct st as [ch u pv en tk]. unfold append_token_sp, o_tokens. cbn [o_toks rev].
    eexists. reflexivity.
  - rewrite append_token_sp_not_ws by exact W. rewrite o_tokens_append_token. eexists. reflexivity.
Qed.

Lemma emit_facts : forall st t p src (op_ : op),
  w_using_low st = false -> (op_ = OpTok t p src \/ op_ = OpTokSP t p src) ->
  w_using_low (emit st op_) = false /\ w_low (emit st op_) = w_low st /\
  sout (emit st op_) = sout st ++ strip [t] /\
  exists T, o_tokens (w_normal (emit st op_)) = o_tokens (w_normal st) ++ T.
Proof.
  intros st t p src op_ H Hop. unfold emit. rewrite H. cbn [w_using_low w_low w_normal].
  split; [reflexivity|]. split; [reflexivity|]. unfold sout. cbn [w_normal].
  destruct Hop as [-> | ->]; cbn [apply_op]; (split; [first [apply strip_append_token | apply strip_append_token_sp]|]).
  - rewrite o_tokens_append_token. eexists. reflexivity.
  - apply o_tokens_append_token_sp.
Qed.

Lemma Ext_emit_gen : forall o st t' p src X (sp_mode : bool),
  w_using_low st = false -> Forall2 (tok_rel o) X (strip [t']) ->
  Ext o X st (if sp_mode then tok_sp st t' p src else tok_at st t' p src).
Proof.
  intros o st t' p src X m H HX. unfold Ext, tok_sp, tok_at.
  destruct m.
  - destruct (emit_facts st t' p src (OpTokSP t' p src) H (or_intror eq_refl)) as [A [B [C G]]].
    split; [exact A|]. split; [exact B|]. split; [|exact G]. exists (strip [t']). split; [exact C | exact HX].
  - destruct (emit_facts st t' p src (OpTok t' p src) H (or_introl eq_refl)) as [A [B [C G]]].
    split; [exact A|]. split; [exact B|]. split; [|exact G]. exists (strip [t']). split; [exact C | exact HX].
Qed.

Lemma Ext_tok_at : forall o st t p src, w_using_low st = false -> Ext o (strip [t]) st (tok_at st t p src).
Proof. intros. apply (Ext_emit_gen o st t p src (strip [t]) false); [assumption | apply Forall2_same]. Qed.

Lemma Ext_tok_sp : forall o st t p src, w_using_low st = false -> Ext o (strip [t]) st (tok_sp st t p src).
Proof. intros. apply (Ext_emit_gen o st t p src (strip [t]) true); [assumption | apply Forall2_same]. Qed.

Lemma Ext_nil_app : forall o X a b c, Ext o [] a b -> Ext o X b c -> Ext o X a c.
Proof. intros. change X with ([] ++ X). eapply Ext_trans; eassumption. Qed.

Lemma Ext_app_nil : forall o X a b c, Ext o X a b -> Ext o [] b c -> Ext o X a c.
Proof. intros. rewrite <- (app_nil_r X). eapply Ext_trans; eassumption. Qed.

Lemma Ext_warn : forall o X a b k p, Ext o X a b -> Ext o X a (warn b k p).
Proof. intros o X a b k p H. exact H. Qed.

Lemma Ext_set_stack : forall o X a b s, Ext o X a b -> Ext o X a (set_stack b s).
Proof. intros o X a b s H. exact H. Qed.

Lemma Ext_from_set_stack : forall o X a b s, Ext o X (set_stack a s) b -> Ext o X a b.
Proof. intros o X a b s H. exact H. Qed.

(* ---- token writers ---- *)

Lemma Ext_dim : forall o st n u p, w_using_low st = false ->
  Ext o [TDim n u] st (write_maybe_rpx_dimension o st n u p).
Proof.
  intros o st n u p H. unfold write_maybe_rpx_dimension.
  destruct (str_eqb u s_rpx) eqn:E.
  - assert (u = s_rpx).
    { clear - E. revert E. generalize s_rpx. induction u as [|c u IH]; intros [|d s] E; try discriminate; [reflexivity|].
      cbn [str_eqb] in E. apply andb_prop in E. destruct E as [E1 E2]. apply N.eqb_eq in E1. subst d. f_equal. apply IH, E2. }
    subst u. apply (Ext_emit_gen o st _ p _ [TDim n s_rpx] false H). cbn. constructor; [apply TR_rpx | constructor].
  - apply (Ext_tok_at o st (TDim n u) p None H).
Qed.

Lemma Ext_class : forall o st s p ic, w_using_low st = false ->
  Ext o [TIdent s] st (write_maybe_class_name o st s p ic).
Proof.
  intros o st s p ic H. unfold write_maybe_class_name.
  set (st1 := if ic then match class_prefix_sign o with Some c => tok_at st (TComment c) p None | None => st end else st).
  assert (H1 : Ext o [] st st1).
  { unfold st1. destruct ic; [|apply Ext_refl; exact H]. destruct (class_prefix_sign o); [|apply Ext_refl; exact H].
    apply (Ext_tok_at o st (TComment s0) p None H). }
  assert (U1 : w_using_low st1 = false) by (eapply (Ext_using_low o); exact H1).
  eapply Ext_nil_app; [exact H1|].
  destruct ic; [destruct (class_prefix o) as [pre|] eqn:Ep|].
  - apply (Ext_emit_gen o st1 _ p _ [TIdent s] true U1). cbn. constructor; [apply TR_class; exact Ep | constructor].
  - apply (Ext_tok_sp o st1 (TIdent s) p None U1).
  - destruct (class_prefix o); apply (Ext_tok_sp o st1 (TIdent s) p None U1).
Qed.

(* ---- convert_rpx_in_block ---- *)

Lemma strip_ws_tok : forall t, is_ws t = true -> strip [t] = [].
Proof. intros t H. unfold strip. cbn. unfold keep. rewrite H. reflexivity. Qed.
Lemma strip_comment_tok : forall t, is_comment t = true -> strip [t] = [].
Proof. intros t H. unfold strip. cbn. unfold keep. rewrite H, Bool.orb_true_r. reflexivity. Qed.


Lemma strip_flat_cons : forall x r, strip (flatten (x :: r)) = strip (flat_node x) ++ strip (flatten r).
Proof. intros. cbn [flatten]. apply strip_app. Qed.

Lemma strip_flat_block : forall t p body e c,
  strip (flat_node (Block t p body e c)) = strip [t] ++ strip (flatten body) ++ strip [close_of t].
Proof. intros. rewrite flat_node_block. change (t :: flatten body ++ [close_of t]) with ([t] ++ flatten body ++ [close_of t]). rewrite !strip_app. reflexivity. Qed.

Lemma Ext_rpx_body : forall o l in_calc prev st,
  shaped l = true -> w_using_low st = false -> Ext o (strip (flatten l)) st (rpx_body o in_calc l prev st).
Proof.
  intros o l.
  remember (nodes_size l) as n eqn:Hn. revert l Hn.
  induction n as [n IHn] using (well_founded_induction Wf_nat.lt_wf).
  intros l Hn. destruct l as [|x r]; intros in_calc prev st Hs H; [apply Ext_refl; exact H|].
  cbn [rpx_body]. rewrite strip_flat_cons.
  destruct (shaped_cons _ _ Hs) as [Hsx Hsr].
  assert (Hr : forall ic pv s, w_using_low s = false -> Ext o (strip (flatten r)) s (rpx_body o ic r pv s)).
  { intros. eapply (IHn (nodes_size r)); [|reflexivity|exact Hsr|assumption]. subst n. apply size_tail. }
  destruct (is_comment (node_tok x)) eqn:Ec.
  { destruct x as [t p|t p b e c]; cbn [node_tok] in Ec.
    - cbn [flat_node]. replace (strip [t]) with (@nil tok) by (unfold strip; cbn; unfold keep; rewrite Ec, Bool.orb_true_r; reflexivity).
      apply Hr; exact H.
    - destruct (shaped_blk _ _ _ _ _ _ Hs) as [Ho _]. destruct (open_ok_not_wsc _ Ho) as [_ [Hc _]]. rewrite Hc in Ec. discriminate. }
  destruct (is_ws (node_tok x) && negb in_calc) eqn:Ew.
  { apply andb_prop in Ew. destruct Ew as [Ew _].
    destruct x as [t p|t p b e c]; cbn [node_tok] in Ew.
    - cbn [flat_node]. replace (strip [t]) with (@nil tok) by (unfold strip; cbn; unfold keep; rewrite Ew; reflexivity).
      apply Hr; exact H.
    - destruct (shaped_blk _ _ _ _ _ _ Hs) as [Ho _]. destruct (open_ok_not_wsc _ Ho) as [_ [_ Hc]]. rewrite Hc in Ew. discriminate. }
  destruct x as [t p | open p body endp closed].
  - cbn [flat_node].
    eapply Ext_trans; [|apply Hr].
    + destruct t; try (apply Ext_tok_at; exact H).
      * apply Ext_dim; exact H.
      * rewrite (strip_ws_tok (TWs s) eq_refl).
        destruct (is_plus_minus (first_noncomment r) || is_plus_minus prev); [apply (Ext_tok_at o st (TWs sp)); exact H | apply Ext_refl; exact H].
    + destruct t; try (eapply (Ext_using_low o); apply Ext_tok_at; exact H).
      * eapply (Ext_using_low o); apply Ext_dim; exact H.
      * destruct (is_plus_minus (first_noncomment r) || is_plus_minus prev); [eapply (Ext_using_low o); apply (Ext_tok_at o st (TWs sp)); exact H | exact H].
  - rewrite strip_flat_block.
    assert (E1 : Ext o (strip [open]) st (tok_at st open p None)) by (apply Ext_tok_at; exact H).
    assert (E2 : Ext o (strip (flatten body)) (tok_at st open p None)
                       (rpx_body o (child_calc in_calc open) body None (tok_at st open p None))).
    { eapply (IHn (nodes_size body)); [subst n; apply size_body | reflexivity | apply (shaped_blk _ _ _ _ _ _ Hs) | eapply (Ext_using_low o); exact E1]. }
    assert (E3 : Ext o (strip [close_of open]) (rpx_body o (child_calc in_calc open) body None (tok_at st open p None))
                       (tok_at (rpx_body o (child_calc in_calc open) body None (tok_at st open p None))
                               (close_of open) p None)).
    { apply Ext_tok_at. eapply (Ext_using_low o); exact E2. }
    cbn [node_pos].
    assert (E123 : Ext o (strip [open] ++ strip (flatten body) ++ strip [close_of open]) st
                     (tok_at (rpx_body o (child_calc in_calc open) body None (tok_at st open p None))
                             (close_of open) p None)).
    { eapply Ext_trans; [exact E1|]. eapply Ext_trans; [exact E2 | exact E3]. }
    eapply Ext_trans; [exact E123|].
    apply Hr. exact (Ext_using_low _ _ _ _ E3).
Qed.

(* ---- convert_class_names_and_rpx_in_block ---- *)

Lemma Ext_space : forall (o : opts) (st : wstate) (hw : bool) (p : pos) (b : bool), w_using_low st = false ->
  Ext o [] st (if b then st else if hw then tok_sp st (TWs sp) p None else st).
Proof.
  intros o st hw p b H. destruct b; [apply Ext_refl; exact H|]. destruct hw; [|apply Ext_refl; exact H].
  apply (Ext_tok_sp o st (TWs sp) p None H).
Qed.

Lemma Ext_cn_body : forall o l lead ic hw st,
  shaped l = true -> w_using_low st = false -> Ext o (strip (flatten l)) st (cn_body o l lead ic hw st).
Proof.
  intros o l.
  remember (nodes_size l) as n eqn:Hn. revert l Hn.
  induction n as [n IHn] using (well_founded_induction Wf_nat.lt_wf).
  intros l Hn. destruct l as [|x r]; intros lead ic hw st Hs H; [apply Ext_refl; exact H|].
  cbn [cn_body]. rewrite strip_flat_cons.
  destruct (shaped_cons _ _ Hs) as [Hsx Hsr].
  assert (Hr : forall a b c s, w_using_low s = false -> Ext o (strip (flatten r)) s (cn_body o r a b c s)).
  { intros. eapply (IHn (nodes_size r)); [|reflexivity|exact Hsr|assumption]. subst n. apply size_tail. }
  destruct (is_comment (node_tok x)) eqn:Ec.
  { destruct x as [t p|t p b e c]; cbn [node_tok] in Ec;
      [|destruct (shaped_blk _ _ _ _ _ _ Hs) as [Ho _]; destruct (open_ok_not_wsc _ Ho) as [_ [Hc _]]; rewrite Hc in Ec; discriminate].
    cbn [flat_node]. rewrite (strip_comment_tok _ Ec). apply Hr; exact H. }
  destruct (is_ws (node_tok x) && lead) eqn:Ew.
  { apply andb_prop in Ew. destruct Ew as [Ew _].
    destruct x as [t p|t p b e c]; cbn [node_tok] in Ew;
      [|destruct (shaped_blk _ _ _ _ _ _ Hs) as [Ho _]; destruct (open_ok_not_wsc _ Ho) as [_ [_ Hc]]; rewrite Hc in Ew; discriminate].
    cbn [flat_node]. rewrite (strip_ws_tok _ Ew). apply Hr; exact H. }
  set (pp := node_pos x).
  set (st0 := if is_curly (node_tok x) || is_ws (node_tok x) then st
              else if hw then tok_sp st (TWs sp) pp None else st).
  assert (H0 : Ext o [] st st0) by (apply Ext_space; exact H).
  assert (U0 : w_using_low st0 = false) by (eapply (Ext_using_low o); exact H0).
  eapply Ext_nil_app; [exact H0|].
  destruct x as [t p | open p body endp closed].
  - cbn [flat_node fst snd].
    destruct t; cbn [fst snd];
      try (eapply Ext_trans; [apply Ext_tok_at; exact U0 | apply Hr; eapply (Ext_using_low o); apply Ext_tok_at; exact U0]).
    + eapply Ext_trans; [apply Ext_class; exact U0 | apply Hr; eapply (Ext_using_low o); apply Ext_class; exact U0].
    + eapply Ext_trans; [apply Ext_dim; exact U0 | apply Hr; eapply (Ext_using_low o); apply Ext_dim; exact U0].
    + rewrite (strip_ws_tok (TWs s) eq_refl). apply Hr. exact U0.
  - cbn [fst snd]. rewrite strip_flat_block.
    assert (E1 : Ext o (strip [open]) st0 (tok_at st0 open pp None)) by (apply Ext_tok_at; exact U0).
    set (st2 := if is_math_fn open then rpx_body o true body None (tok_at st0 open pp None)
                else cn_body o body true false false (tok_at st0 open pp None)).
    assert (E2 : Ext o (strip (flatten body)) (tok_at st0 open pp None) st2).
    { unfold st2. destruct (is_math_fn open).
      - apply Ext_rpx_body; [apply (shaped_blk _ _ _ _ _ _ Hs) | eapply (Ext_using_low o); exact E1].
      - eapply (IHn (nodes_size body)); [subst n; apply size_body | reflexivity | apply (shaped_blk _ _ _ _ _ _ Hs) | eapply (Ext_using_low o); exact E1]. }
    assert (E3 : Ext o (strip [close_of open]) st2 (tok_at st2 (close_of open) pp None)).
    { apply Ext_tok_at. eapply (Ext_using_low o); exact E2. }
    assert (E123 : Ext o (strip [open] ++ strip (flatten body) ++ strip [close_of open]) st0
                     (tok_at st2 (close_of open) pp None)).
    { eapply Ext_trans; [exact E1|]. eapply Ext_trans; [exact E2 | exact E3]. }
    eapply Ext_trans; [exact E123|].
    apply Hr. exact (Ext_using_low _ _ _ _ E3).
Qed.

(* ---- functions that return the remaining siblings ---- *)

(* l = consumed ++ rest, the consumed part was written, and progress was made *)
Definition Consumes (o : opts) (l rest : list node) (st st' : wstate) : Prop :=
  exists consumed, l = consumed ++ rest /\ Ext o (strip (flatten consumed)) st st' /\
                   (l = [] \/ (nodes_size rest < nodes_size l)%nat).

Lemma nodes_size_app : forall a b, nodes_size (a ++ b) = (nodes_size a + nodes_size b)%nat.
Proof. induction a as [|x a IH]; intro b; [reflexivity|]. unfold nodes_size in *. cbn [app fold_right]. rewrite IH. lia. Qed.

Lemma nodes_size_cons : forall x l, nodes_size (x :: l) = (node_size x + nodes_size l)%nat.
Proof. reflexivity. Qed.

Lemma node_size_pos : forall x, (0 < node_size x)%nat.
Proof. destruct x; cbn [node_size]; lia. Qed.

Lemma Consumes_cons : forall o x r rest st st1 st',
  Ext o (strip (flat_node x)) st st1 -> Consumes o r rest st1 st' -> Consumes o (x :: r) rest st st'.
Proof.
  intros o x r rest st st1 st' H1 [cons [E [H2 Hp]]]. exists (x :: cons). split; [cbn [app]; rewrite E; reflexivity|].
  split.
  - rewrite strip_flat_cons. eapply Ext_trans; eassumption.
  - right. subst r. rewrite nodes_size_cons, nodes_size_app. pose proof (node_size_pos x). lia.
Qed.

Lemma Consumes_stop : forall o x r st st', Ext o (strip (flat_node x)) st st' -> Consumes o (x :: r) r st st'.
Proof.
  intros o x r st st' H. exists [x]. split; [reflexivity|]. split.
  - cbn [flatten]. rewrite app_nil_r. exact H.
  - right. rewrite nodes_size_cons. pose proof (node_size_pos x). lia.
Qed.

Lemma Ext_qr_loop : forall o l ic hw st,
  shaped l = true -> w_using_low st = false ->
  Consumes o l (fst (qr_loop o l ic hw st)) st (snd (qr_loop o l ic hw st)).
Proof.
  intros o l. induction l as [|x r IH0]; intros ic hw st Hs H.
  { cbn [qr_loop fst snd]. exists []. split; [reflexivity|]. split; [apply Ext_refl; exact H | left; reflexivity]. }
  cbn [qr_loop].
  destruct (shaped_cons _ _ Hs) as [Hsx Hsr].
  assert (IH : forall ic hw st, w_using_low st = false ->
               Consumes o r (fst (qr_loop o r ic hw st)) st (snd (qr_loop o r ic hw st))).
  { intros. apply IH0; assumption. }
  destruct (is_comment (node_tok x)) eqn:Ec.
  { destruct x as [t p|t p b e c]; cbn [node_tok] in Ec;
      [|destruct (shaped_blk _ _ _ _ _ _ Hs) as [Ho _]; destruct (open_ok_not_wsc _ Ho) as [_ [Hc _]]; rewrite Hc in Ec; discriminate].
    eapply Consumes_cons; [|apply IH; exact H]. cbn [flat_node]. rewrite (strip_comment_tok _ Ec). apply Ext_refl; exact H. }
  set (pp := node_pos x).
  set (st0 := if is_curly (node_tok x) || is_ws (node_tok x) then st
              else if hw then tok_sp st (TWs sp) pp None else st).
  assert (H0 : Ext o [] st st0) by (apply Ext_space; exact H).
  assert (U0 : w_using_low st0 = false) by (eapply (Ext_using_low o); exact H0).
  destruct x as [t p | open p body endp closed].
  - destruct t;
      try (eapply Consumes_cons; [eapply Ext_nil_app; [exact H0 | cbn [flat_node]; apply Ext_tok_sp; exact U0]
                                 | apply IH; eapply (Ext_using_low o); apply Ext_tok_sp; exact U0]).
    + eapply Consumes_cons; [eapply Ext_nil_app; [exact H0 | cbn [flat_node]; apply Ext_class; exact U0]
                            | apply IH; eapply (Ext_using_low o); apply Ext_class; exact U0].
    + destruct (c =? 46);
        (eapply Consumes_cons; [eapply Ext_nil_app; [exact H0 | cbn [flat_node]; apply Ext_tok_sp; exact U0]
                               | apply IH; eapply (Ext_using_low o); apply Ext_tok_sp; exact U0]).
    + eapply Consumes_cons; [|apply IH; exact U0]. cbn [flat_node]. rewrite (strip_ws_tok (TWs s) eq_refl). exact H0.
  - assert (E1 : Ext o (strip [open]) st0 (tok_at st0 open pp None)) by (apply Ext_tok_at; exact U0).
    assert (Blk : forall st2, Ext o (strip (flatten body)) (tok_at st0 open pp None) st2 ->
                  Ext o (strip (flat_node (Block open p body endp closed))) st (tok_at st2 (close_of open) pp None)).
    { intros st2 E2. rewrite strip_flat_block. eapply Ext_nil_app; [exact H0|].
      eapply Ext_trans; [exact E1 | eapply Ext_trans; [exact E2 | apply Ext_tok_at; eapply (Ext_using_low o); exact E2]]. }
    destruct (shaped_blk _ _ _ _ _ _ Hs) as [_ [Hsb _]].
    destruct open;
      try (eapply Consumes_cons;
           [apply Blk; apply Ext_cn_body; [exact Hsb | eapply (Ext_using_low o); exact E1]
           | apply IH; eapply (Ext_using_low o); apply Blk; apply Ext_cn_body; [exact Hsb | eapply (Ext_using_low o); exact E1]]).
    cbn [fst snd]. apply Consumes_stop. apply Blk. apply Ext_rpx_body; [exact Hsb | eapply (Ext_using_low o); exact E1].
Qed.

Lemma skip_ws_split : forall l, shaped l = true -> exists pre, l = pre ++ skip_ws l /\ strip (flatten pre) = [].
Proof.
  induction l as [|x r IH]; intro Hs; [exists []; split; reflexivity|].
  destruct (shaped_cons _ _ Hs) as [Hsx Hsr].
  cbn [skip_ws]. destruct (is_ws_or_comment (node_tok x)) eqn:E.
  - destruct (IH Hsr) as [pre [E1 E2]]. exists (x :: pre). split; [cbn [app]; rewrite <- E1; reflexivity|].
    rewrite strip_flat_cons, E2, app_nil_r.
    destruct x as [t p|t p b e c]; cbn [node_tok] in E;
      [|destruct (shaped_blk _ _ _ _ _ _ Hs) as [Ho _]; destruct (open_ok_not_wsc _ Ho) as [Hc _]; rewrite Hc in E; discriminate].
    cbn [flat_node]. unfold is_ws_or_comment in E. destruct t; try discriminate; reflexivity.
  - exists []. split; reflexivity.
Qed.

Lemma skip_ws_shaped : forall l, shaped l = true -> shaped (skip_ws l) = true.
Proof.
  induction l as [|x r IH]; intro Hs; [reflexivity|]. cbn [skip_ws].
  destruct (is_ws_or_comment (node_tok x)); [apply IH; apply (shaped_cons _ _ Hs) | exact Hs].
Qed.

Lemma skip_ws_size : forall l, (nodes_size (skip_ws l) <= nodes_size l)%nat.
Proof.
  induction l as [|x r IH]; [cbn; lia|]. cbn [skip_ws]. destruct (is_ws_or_comment (node_tok x)); [|lia].
  unfold nodes_size in *. cbn [fold_right]. lia.
Qed.

Lemma Consumes_skip : forall o l rest st st',
  shaped l = true ->
  Consumes o (skip_ws l) rest st st' -> skip_ws l <> [] -> Consumes o l rest st st'.
Proof.
  intros o l rest st st' Hs [cons [E [H Hp]]] Hne. destruct (skip_ws_split l Hs) as [pre [E1 E2]].
  exists (pre ++ cons). split; [rewrite <- app_assoc, <- E; exact E1|]. split.
  - rewrite flatten_app, strip_app, E2. exact H.
  - right. destruct Hp as [Hp|Hp]; [contradiction|]. pose proof (skip_ws_size l). lia.
Qed.

Lemma Ext_qrule : forall o l endp st,
  shaped l = true ->
  convert_host o = false -> w_using_low st = false -> skip_ws l <> [] ->
  Consumes o l (fst (qrule o l endp st)) st (snd (qrule o l endp st)).
Proof.
  intros o l endp st Hs Hh H Hne. unfold qrule, qr_main. rewrite Hh.
  apply Consumes_skip; [exact Hs | apply Ext_qr_loop; [apply skip_ws_shaped; exact Hs | exact H] | exact Hne].
Qed.

Lemma Ext_at_prelude : forall o rec contain mark l st,
  shaped l = true ->
  (forall body be s, (nodes_size body < nodes_size l)%nat -> shaped body = true -> w_using_low s = false ->
                     Ext o (strip (flatten body)) s (rec body be s)) ->
  w_using_low st = false ->
  Consumes o l (fst (at_prelude o rec contain mark l st)) st (snd (at_prelude o rec contain mark l st)).
Proof.
  intros o rec contain mark l. induction l as [|x r IH0]; intros st Hsh Hrec H.
  { cbn [at_prelude fst snd]. exists []. split; [reflexivity|]. split; [apply Ext_refl; exact H | left; reflexivity]. }
  destruct (shaped_cons _ _ Hsh) as [Hsx Hsr].
  assert (Hrec' : forall body be s, (nodes_size body < nodes_size r)%nat -> shaped body = true -> w_using_low s = false ->
                                    Ext o (strip (flatten body)) s (rec body be s)).
  { intros body be s Hs Hb Hu. apply Hrec; [|exact Hb|exact Hu]. pose proof (size_tail x r). lia. }
  assert (IH : forall st, (forall body be s, (nodes_size body < nodes_size r)%nat -> shaped body = true -> w_using_low s = false ->
                                    Ext o (strip (flatten body)) s (rec body be s)) -> w_using_low st = false ->
               Consumes o r (fst (at_prelude o rec contain mark r st)) st (snd (at_prelude o rec contain mark r st))).
  { intros. apply IH0; assumption. }
  cbn [at_prelude].
  destruct (is_ws_or_comment (node_tok x)) eqn:Ew.
  { eapply Consumes_cons; [|apply IH; [exact Hrec' | exact H]].
    destruct x as [t p|t p b e c]; cbn [node_tok] in Ew;
      [|destruct (shaped_blk _ _ _ _ _ _ Hsh) as [Ho _]; destruct (open_ok_not_wsc _ Ho) as [Hc _]; rewrite Hc in Ew; discriminate].
    cbn [flat_node]. unfold is_ws_or_comment in Ew.
    replace (strip [t]) with (@nil tok) by (destruct t; try discriminate; reflexivity).
    apply Ext_refl; exact H. }
  destruct x as [t p | open p body endp closed].
  - destruct t;
      try (eapply Consumes_cons; [cbn [flat_node]; apply Ext_tok_at; exact H
                                 | apply IH; [exact Hrec' | eapply (Ext_using_low o); apply Ext_tok_at; exact H]]).
    cbn [fst snd]. apply Consumes_stop. cbn [flat_node]. apply Ext_tok_at; exact H.
  - assert (E1 : forall s, w_using_low s = false -> Ext o (strip [open]) s (tok_at s open p None)) by (intros; apply Ext_tok_at; assumption).
    destruct (shaped_blk _ _ _ _ _ _ Hsh) as [_ [Hsb _]].
    assert (EB : forall s, w_using_low s = false ->
                 Ext o (strip (flatten body)) s
                     (if is_layer_fn open then rpx_body o false body None s else cn_body o body true false false s)).
    { intros s0 Hs0. destruct (is_layer_fn open); [apply Ext_rpx_body | apply Ext_cn_body]; assumption. }
    destruct open;
      try (eapply Consumes_cons;
           [rewrite strip_flat_block; eapply Ext_trans; [apply E1; exact H|];
            eapply Ext_trans; [apply EB; eapply (Ext_using_low o); apply E1; exact H|];
            apply Ext_tok_at; eapply (Ext_using_low o); apply EB; eapply (Ext_using_low o); apply E1; exact H
           | apply IH; [exact Hrec'|]; eapply (Ext_using_low o); apply Ext_tok_at; eapply (Ext_using_low o);
             apply EB; eapply (Ext_using_low o); apply E1; exact H]).
    cbn [fst snd]. apply Consumes_stop. rewrite strip_flat_block.
    set (st1 := set_stack st (w_stack st ++ [segment_since (cur_out st) mark])).
    assert (U1 : w_using_low st1 = false) by exact H.
    assert (A1 : Ext o (strip [TCurly]) st (tok_at st1 TCurly p None)).
    { apply (Ext_from_set_stack o _ st _ (w_stack st ++ [segment_since (cur_out st) mark])). apply Ext_tok_at. exact U1. }
    set (st3 := if contain then rec body endp (tok_at st1 TCurly p None)
                else rpx_body o false body None (tok_at st1 TCurly p None)).
    assert (A2 : Ext o (strip (flatten body)) (tok_at st1 TCurly p None) st3).
    { unfold st3. destruct contain.
      - apply Hrec; [apply size_body | exact Hsb | eapply (Ext_using_low o); exact A1].
      - apply Ext_rpx_body; [exact Hsb | eapply (Ext_using_low o); exact A1]. }
    apply Ext_set_stack.
    eapply Ext_trans; [exact A1 | eapply Ext_trans; [exact A2 | apply Ext_tok_at; eapply (Ext_using_low o); exact A2]].
Qed.

Lemma Ext_at_rule : forall o rec l endp at_start st rest st',
  shaped l = true ->
  import_sign o = None ->
  (forall body be s, (nodes_size body < nodes_size l)%nat -> shaped body = true -> w_using_low s = false ->
                     Ext o (strip (flatten body)) s (rec body be s)) ->
  w_using_low st = false ->
  at_rule o rec l endp at_start st = Some (rest, st') ->
  Consumes o l rest st st'.
Proof.
  intros o rec l endp at_start st rest st' Hsh Hi Hrec H E. unfold at_rule in E.
  destruct l as [|x r]; [discriminate|]. destruct x as [t p|? ? ? ? ?]; [|discriminate].
  destruct t; try discriminate.
  replace (if str_eqb_ci s s_import then import_sign o else None) with (@None str) in E
    by (rewrite Hi; destruct (str_eqb_ci s s_import); reflexivity).
  inversion E as [E']; clear E.
  assert (Hrec' : forall body be s0, (nodes_size body < nodes_size r)%nat -> shaped body = true -> w_using_low s0 = false ->
                                     Ext o (strip (flatten body)) s0 (rec body be s0)).
  { intros body be s0 Hs Hb Hu. apply Hrec; [|exact Hb|exact Hu]. pose proof (size_tail (Leaf (TAt s) p) r). lia. }
  destruct (shaped_cons _ _ Hsh) as [_ Hsr].
  pose proof (Ext_at_prelude o rec (contain_rule_list s) (o_mark (cur_out st)) r (tok_at st (TAt s) p None) Hsr Hrec'
                (Ext_using_low _ _ _ _ (Ext_tok_at o st (TAt s) p None H))) as Hc.
  rewrite E' in Hc. cbn [fst snd] in Hc.
  eapply Consumes_cons; [cbn [flat_node]; apply Ext_tok_at; exact H | exact Hc].
Qed.

Lemma Ext_rules : forall fuel o l endp at_start st,
  shaped l = true ->
  import_sign o = None -> convert_host o = false ->
  (nodes_size l < fuel)%nat -> w_using_low st = false ->
  Ext o (strip (flatten l)) st (rules fuel o l endp at_start st).
Proof.
  induction fuel as [|f IH]; intros o l endp at_start st Hsh Hi Hh Hf H; [lia|].
  cbn [rules].
  destruct (skip_ws_split l Hsh) as [pre [Epre Spre]].
  pose proof (skip_ws_shaped l Hsh) as Hsl.
  pose proof (skip_ws_size l) as Hsz.
  destruct (skip_ws l) as [|x r] eqn:El.
  { rewrite Epre, app_nil_r, Spre. apply Ext_refl; exact H. }
  assert (Hrec : forall body be s, (nodes_size body < nodes_size (x :: r))%nat -> shaped body = true -> w_using_low s = false ->
                                   Ext o (strip (flatten body)) s (rules f o body be false s)).
  { intros body be s Hs Hb Hu. apply IH; [exact Hb | exact Hi | exact Hh | lia | exact Hu]. }
  assert (Fin : forall rest st1, Consumes o (x :: r) rest st st1 -> forall b,
                Ext o (strip (flatten l)) st (rules f o rest endp b st1)).
  { intros rest st1 [cons [E [Hc Hp]]] b. rewrite Epre, flatten_app, strip_app, Spre. cbn [app].
    rewrite E, flatten_app, strip_app. eapply Ext_trans; [exact Hc|].
    apply IH; [rewrite E in Hsl; apply (shaped_app _ _ Hsl) | exact Hi | exact Hh | | eapply (Ext_using_low o); exact Hc].
    destruct Hp as [Hp|Hp]; [discriminate | lia]. }
  destruct (at_rule o (fun body be s => rules f o body be false s) (x :: r) endp at_start st) as [[rest st1]|] eqn:Ea.
  - apply Fin. eapply Ext_at_rule; [exact Hsl | exact Hi | exact Hrec | exact H | exact Ea].
  - pose proof (Ext_qrule o (x :: r) endp st Hsl Hh H) as Hq.
    assert (Hne : skip_ws (x :: r) <> []).
    { (* skip_ws is idempotent on its own result *)
      assert (Hid : skip_ws (x :: r) = x :: r).
      { rewrite <- El. clear. induction l as [|y l IH]; [reflexivity|]. cbn [skip_ws].
        destruct (is_ws_or_comment (node_tok y)) eqn:E; [exact IH | cbn [skip_ws]; rewrite E; reflexivity]. }
      rewrite Hid. discriminate. }
    specialize (Hq Hne).
    destruct (qrule o (x :: r) endp st) as [rest st1]. cbn [fst snd] in Hq. apply Fin. exact Hq.
Qed.

Theorem tokens_preserved : forall o tree endp,
  shaped tree = true ->
  import_sign o = None -> convert_host o = false ->
  Forall2 (tok_rel o) (strip (flatten tree)) (strip (o_tokens (w_normal (transform o tree endp)))) /\
  w_low (transform o tree endp) = o_init.
Proof.
  intros o tree endp Hsh Hi Hh. unfold transform.
  destruct (Ext_rules (S (nodes_size tree)) o tree endp true w_init Hsh Hi Hh (Nat.lt_succ_diag_r _) eq_refl)
    as [_ [L [[Y [E F]] _]]].
  split; [|exact L]. unfold sout in E. change (strip (o_tokens (w_normal w_init))) with (@nil tok) in E.
  cbn [app] in E. rewrite E. exact F.
Qed.

Example tokens_preserved_inhabited :
  let o := mkopts (Some [112]) None 1144750080 None false None in
  let tree := [Leaf (TDelim 46) (mkpos 0 0); Leaf (TIdent [97]) (mkpos 0 1);
               Block TCurly (mkpos 0 2) [Leaf (TIdent [119]) (mkpos 0 3); Leaf TColon (mkpos 0 4);
                                         Leaf (TDim (mknum false (Some 75%Z) 1117126656 [55;53]) s_rpx) (mkpos 0 5)]
                     (mkpos 0 10) true] in
  shaped tree = true /\ import_sign o = None /\ convert_host o = false /\
  map ser_tok (strip (o_tokens (w_normal (transform o tree (mkpos 0 11))))) =
    [[46]; [112;45;45;97]; [123]; [119]; [58]; [49;48;118;119]; [125]].
Proof. vm_compute. repeat split; reflexivity. Qed.
