From GE Require Import Model.Str Model.TagLoops.
From Coq Require Import Lia ZifyBool ZifyN ZifyNat.
Local Open Scope nat_scope.

Lemma skip_ws_length s : length (skip_ws s) <= length s.
Proof. induction s as [|c r IH]; cbn; [lia|]. destruct (is_template_whitespace c); cbn; lia. Qed.

Lemma skip_ws_head s c r : skip_ws s = c :: r -> is_template_whitespace c = false.
Proof.
  induction s as [|x s IH]; cbn; [discriminate|].
  destruct (is_template_whitespace x) eqn:E; [exact IH|]. intros H. injection H as -> ->. exact E.
Qed.

Section Progress.
  Variable parse_attr : str -> str.
  Variable element_tag : bool.
  (* the attribute parser consumes at least one character when the input starts with a name character *)
  Hypothesis parse_attr_progress : forall c r, is_name_start c = true -> length (parse_attr (c :: r)) < length (c :: r).

  Lemma skip_invalid_length stop s : length (skip_invalid stop element_tag s) <= length s.
  Proof. induction s as [|c r IH]; cbn; [lia|]. destruct (_ || _ || _ || _)%bool; cbn; lia. Qed.

  (* with the TEMPLATE whitespace test, a character that reaches the recovery branch is consumed *)
  Lemma skip_invalid_progress c r :
    is_template_whitespace c = false -> (c =? 62)%N = false -> (element_tag && (c =? 47)%N)%bool = false ->
    is_name_start c = false ->
    length (skip_invalid is_template_whitespace element_tag (c :: r)) < length (c :: r).
  Proof.
    intros H1 H2 H3 H4. cbn [skip_invalid]. rewrite H1, H2, H3, H4. cbn [orb].
    pose proof (skip_invalid_length is_template_whitespace r). cbn [length]. lia.
  Qed.

  Theorem attr_loop_terminates : forall fuel s w,
    length s < fuel ->
    exists rest w', attr_loop parse_attr is_template_whitespace element_tag fuel s w = Done rest w'
                    /\ (N.to_nat w' <= N.to_nat w + length s)%nat.
  Proof.
    induction fuel as [|f IH]; intros s w Hf; [lia|].
    cbn [attr_loop]. pose proof (skip_ws_length s) as Hl.
    destruct (skip_ws s) as [|c r] eqn:E; [exists [], w; split; [reflexivity | lia]|].
    pose proof (skip_ws_head _ _ _ E) as Hws.
    destruct (c =? 62)%N eqn:E62; [exists (c :: r), w; split; [reflexivity | lia]|].
    destruct (element_tag && (c =? 47)%N)%bool eqn:E47.
    - destruct r as [|x r'].
      + destruct (IH [] (w + 1)%N) as [rest [w' [H1 H2]]]; [cbn in *; lia|].
        exists rest, w'. split; [exact H1 | cbn in *; lia].
      + destruct (N.eqb_spec x 62) as [->|Hx]; [exists (c :: 62%N :: r'), w; split; [reflexivity | lia]|].
        assert (Ex : forall A (a b : A), match x with 62%N => a | _ => b end = b).
        { intros. destruct x as [|q]; [reflexivity|]. do 6 (destruct q as [q|q|]; try reflexivity). congruence. }
        rewrite Ex. destruct (IH (x :: r') (w + 1)%N) as [rest [w' [H1 H2]]]; [cbn in *; lia|].
        exists rest, w'. split; [exact H1 | cbn in *; lia].
    - destruct (is_name_start c) eqn:En.
      + pose proof (parse_attr_progress c r En) as Hp.
        destruct (IH (parse_attr (c :: r)) w) as [rest [w' [H1 H2]]]; [cbn in *; lia|].
        exists rest, w'. split; [exact H1 | cbn in *; lia].
      + pose proof (skip_invalid_progress c r Hws E62 E47 En) as Hp.
        destruct (IH (skip_invalid is_template_whitespace element_tag (c :: r)) (w + 1)%N) as [rest [w' [H1 H2]]];
          [cbn in *; lia|].
        exists rest, w'. split; [exact H1 | cbn in *; lia].
  Qed.
End Progress.

(* with the Unicode whitespace test (the code before the repair) the loop never ends on U+3000:
   skip_whitespace does not skip it and the recovery loop stops in front of it *)
Theorem legacy_attr_loop_diverges : forall parse_attr element_tag fuel w,
  attr_loop parse_attr is_unicode_whitespace element_tag fuel [12288%N] w = OutOfFuel.
Proof.
  intros pa et fuel. induction fuel as [|f IH]; intros w; [reflexivity|].
  cbn [attr_loop skip_ws]. cbn. rewrite Bool.andb_false_r. cbn. apply IH.
Qed.
