(* C19: the output state machine of output.rs. All statements are by induction over
   arbitrary sequences of operations (append_raw / append_token / append_token_space_preserved). *)
From GE Require Import Model.Str Model.CssNum Model.CssTok Model.CssOut.
From Coq Require Import Lia Sorting.Sorted.
Open Scope N_scope.

Lemma utf16_length_app : forall a b, utf16_length (a ++ b) = utf16_length a + utf16_length b.
Proof. induction a as [|c a IH]; intro b; cbn [app utf16_length]; [reflexivity | rewrite IH; lia]. Qed.

Definition run_from (st : ostate) (ops : list op) : ostate := fold_left apply_op ops st.

Lemma run_from_app : forall ops1 ops2 st, run_from st (ops1 ++ ops2) = run_from (run_from st ops1) ops2.
Proof. intros. unfold run_from. apply fold_left_app. Qed.

Lemma run_ops_snoc : forall ops o, run_ops (ops ++ [o]) = apply_op (run_ops ops) o.
Proof. intros. unfold run_ops. rewrite fold_left_app. reflexivity. Qed.

(* ---- text of one step ---- *)

Lemma append_token_sp_not_ws : forall st t p src, is_ws t = false ->
  append_token_sp st t p src = append_token st t p src.
Proof. intros st t p src H. destruct t; try reflexivity. discriminate. Qed.

Lemma is_ws_inv : forall t, is_ws t = true -> exists s, t = TWs s.
Proof. intros t H. destruct t; try discriminate. eexists. reflexivity. Qed.


Lemma o_text_cons : forall s ch u p e t, o_text (mkout (s :: ch) u p e t) = o_text (mkout ch u p e t) ++ s.
Proof.
  intros. unfold o_text. cbn [o_chunks rev]. rewrite concat_app. cbn [concat]. rewrite app_nil_r. reflexivity.
Qed.

(* what one operation appends: separator (possibly empty) and payload *)
Definition op_sep (st : ostate) (o : op) : str :=
  match o with
  | OpRaw _ _ => []
  | OpTok t _ _ => if needs_separator (o_prev st) (ser_type t) then sp else []
  | OpTokSP t _ _ =>
      match t with
      | TWs _ => []
      | _ => if needs_separator (o_prev st) (ser_type t) then sp else []
      end
  end.

Definition op_payload (o : op) : str :=
  match o with
  | OpRaw s _ => s
  | OpTok t _ _ => ser_tok t
  | OpTokSP t _ _ => match t with TWs _ => sp | _ => ser_tok t end
  end.

Lemma append_token_text : forall st t p src,
  o_text (append_token st t p src) =
  o_text st ++ (if needs_separator (o_prev st) (ser_type t) then sp else []) ++ ser_tok t.
Proof.
  intros [ch u pv en tk] t p src. unfold append_token. cbn [o_prev].
  destruct (needs_separator pv (ser_type t)); unfold push_text, add_entry, set_prev; cbn [o_chunks o_utf16 o_prev o_entries o_toks].
  - rewrite !o_text_cons. rewrite <- app_assoc. unfold o_text. reflexivity.
  - rewrite o_text_cons. unfold o_text. reflexivity.
Qed.

Lemma apply_op_text : forall st o, o_text (apply_op st o) = o_text st ++ op_sep st o ++ op_payload o.
Proof.
  intros st o. destruct o as [s g | t p src | t p src]; cbn [apply_op op_sep op_payload].
  - destruct st as [ch u pv en tk]. unfold append_raw, push_text, set_prev. cbn [o_chunks o_utf16 o_prev o_entries o_toks].
    rewrite o_text_cons. unfold o_text. reflexivity.
  - apply append_token_text.
  - destruct (is_ws t) eqn:W.
    + destruct (is_ws_inv _ W) as [s ->].
      destruct st as [ch u pv en tk]. unfold append_token_sp. rewrite o_text_cons. unfold o_text. reflexivity.
    + rewrite append_token_sp_not_ws by exact W. rewrite append_token_text.
      destruct t; try reflexivity. discriminate.
Qed.

Lemma run_from_text_prefix : forall ops st, exists suffix, o_text (run_from st ops) = o_text st ++ suffix.
Proof.
  induction ops as [|o ops IH]; intro st.
  - exists []. cbn. rewrite app_nil_r. reflexivity.
  - cbn [run_from fold_left]. destruct (IH (apply_op st o)) as [sfx H]. unfold run_from in H. rewrite H.
    rewrite apply_op_text. eexists. rewrite <- !app_assoc. reflexivity.
Qed.

(* ---- the column counter ---- *)

Definition col_inv (st : ostate) : Prop := o_utf16 st = utf16_length (o_text st).

Lemma append_token_utf16 : forall st t p src,
  o_utf16 (append_token st t p src) =
  o_utf16 st + utf16_length ((if needs_separator (o_prev st) (ser_type t) then sp else []) ++ ser_tok t).
Proof.
  intros [ch u pv en tk] t p src. unfold append_token. cbn [o_prev].
  destruct (needs_separator pv (ser_type t)); unfold push_text, add_entry, set_prev; cbn [o_chunks o_utf16 o_prev o_entries o_toks];
    rewrite utf16_length_app; [change (utf16_length sp) with 1 | change (utf16_length []) with 0]; lia.
Qed.

Lemma apply_op_col_inv : forall st o, col_inv st -> col_inv (apply_op st o).
Proof.
  unfold col_inv. intros st o H. rewrite apply_op_text, utf16_length_app.
  destruct o as [s g | t p src | t p src]; cbn [apply_op op_sep op_payload].
  - destruct st as [ch u pv en tk]. unfold append_raw, push_text, set_prev in *. cbn [o_chunks o_utf16 o_prev o_entries o_toks] in *.
    cbn [app]. lia.
  - rewrite append_token_utf16, H. reflexivity.
  - destruct (is_ws t) eqn:W.
    + destruct (is_ws_inv _ W) as [s ->].
      destruct st as [ch u pv en tk]. unfold append_token_sp. cbn [o_utf16] in *.
      change (utf16_length ([] ++ sp)) with 1. rewrite <- H. reflexivity.
    + rewrite append_token_sp_not_ws by exact W. rewrite append_token_utf16, H.
      destruct t; try reflexivity. discriminate.
Qed.

Theorem out_col_invariant : forall ops, col_inv (run_ops ops).
Proof.
  intro ops. unfold run_ops. assert (G : forall st, col_inv st -> col_inv (fold_left apply_op ops st)).
  { induction ops as [|o ops IH]; intros st H; [exact H|]. cbn [fold_left]. apply IH, apply_op_col_inv, H. }
  apply G. reflexivity.
Qed.

(* ---- entries ---- *)

Lemma append_token_entries : forall st t p src,
  o_entries (append_token st t p src) =
  mkentry (o_utf16 st + utf16_length (if needs_separator (o_prev st) (ser_type t) then sp else []))
          p (option_map ser_tok src) :: o_entries st.
Proof.
  intros [ch u pv en tk] t p src. unfold append_token. cbn [o_prev].
  destruct (needs_separator pv (ser_type t)); unfold push_text, add_entry, set_prev; cbn [o_chunks o_utf16 o_prev o_entries o_toks];
    f_equal; f_equal; cbn; lia.
Qed.

Lemma apply_op_entries_incl : forall st o e, In e (o_entries st) -> In e (o_entries (apply_op st o)).
Proof.
  intros st o e H. destruct o as [s g | t p src | t p src]; cbn [apply_op].
  - destruct st; exact H.
  - rewrite append_token_entries. right. exact H.
  - destruct (is_ws t) eqn:W.
    + destruct (is_ws_inv _ W) as [s ->]. destruct st; exact H.
    + rewrite append_token_sp_not_ws by exact W. rewrite append_token_entries. right. exact H.
Qed.

Lemma run_from_entries_incl : forall ops st e, In e (o_entries st) -> In e (o_entries (run_from st ops)).
Proof.
  induction ops as [|o ops IH]; intros st e H; [exact H|]. cbn [run_from fold_left]. apply IH, apply_op_entries_incl, H.
Qed.

(* every append_token leaves an entry whose generated column is exactly the UTF-16 length of
   the text in front of the token's own serialisation (i.e. after the separator), carrying the
   position it was given and the css text of the source token as its name *)
Theorem entry_col_exact : forall ops1 t p src ops2,
  exists pre post,
    o_text (run_ops (ops1 ++ OpTok t p src :: ops2)) = pre ++ ser_tok t ++ post /\
    In (mkentry (utf16_length pre) p (option_map ser_tok src))
       (o_entries (run_ops (ops1 ++ OpTok t p src :: ops2))).
Proof.
  intros ops1 t p src ops2.
  set (st1 := run_ops ops1).
  assert (E : run_ops (ops1 ++ OpTok t p src :: ops2) = run_from (append_token st1 t p src) ops2).
  { unfold run_ops, run_from, st1. rewrite fold_left_app. reflexivity. }
  rewrite E.
  destruct (run_from_text_prefix ops2 (append_token st1 t p src)) as [sfx Hs].
  set (sep := if needs_separator (o_prev st1) (ser_type t) then sp else []).
  exists (o_text st1 ++ sep), sfx. split.
  - rewrite Hs, append_token_text. fold sep. rewrite <- !app_assoc. reflexivity.
  - apply run_from_entries_incl. rewrite append_token_entries. left. f_equal.
    rewrite utf16_length_app. fold sep. pose proof (out_col_invariant ops1) as H. unfold col_inv in H. fold st1 in H. lia.
Qed.

(* same statement for tokens written through append_token_space_preserved (non-whitespace) *)
Theorem entry_col_exact_sp : forall ops1 t p src ops2,
  is_ws t = false ->
  exists pre post,
    o_text (run_ops (ops1 ++ OpTokSP t p src :: ops2)) = pre ++ ser_tok t ++ post /\
    In (mkentry (utf16_length pre) p (option_map ser_tok src))
       (o_entries (run_ops (ops1 ++ OpTokSP t p src :: ops2))).
Proof.
  intros ops1 t p src ops2 Hw.
  assert (E : run_ops (ops1 ++ OpTokSP t p src :: ops2) = run_ops (ops1 ++ OpTok t p src :: ops2)).
  { unfold run_ops. rewrite !fold_left_app. cbn [fold_left apply_op]. rewrite append_token_sp_not_ws by exact Hw. reflexivity. }
  rewrite E. apply entry_col_exact.
Qed.

(* ---- monotonicity ---- *)

Definition mono_inv (st : ostate) : Prop :=
  StronglySorted (fun a b => e_dst_col b <= e_dst_col a) (o_entries st) /\
  Forall (fun e => e_dst_col e <= o_utf16 st) (o_entries st).

Lemma forall_le_weaken : forall (l : list entry) a b, a <= b ->
  Forall (fun e => e_dst_col e <= a) l -> Forall (fun e => e_dst_col e <= b) l.
Proof. intros l a b Hab H. eapply Forall_impl; [|exact H]. cbn. intros. lia. Qed.

Lemma apply_op_mono : forall st o, mono_inv st -> mono_inv (apply_op st o).
Proof.
  intros st o [Hs Hf]. destruct o as [s g | t p src | t p src]; cbn [apply_op].
  - destruct st as [ch u pv en tk]. unfold mono_inv, append_raw, push_text, set_prev in *. cbn [o_chunks o_utf16 o_prev o_entries o_toks] in *.
    split; [exact Hs|]. eapply forall_le_weaken; [|exact Hf]. lia.
  - unfold mono_inv. rewrite append_token_entries, append_token_utf16. split.
    + constructor; [exact Hs|]. eapply forall_le_weaken; [|exact Hf]. cbn [e_dst_col]. lia.
    + constructor.
      * cbn [e_dst_col]. rewrite utf16_length_app. apply N.add_le_mono_l, N.le_add_r.
      * eapply forall_le_weaken; [|exact Hf]. lia.
  - destruct (is_ws t) eqn:W.
    + destruct (is_ws_inv _ W) as [s ->].
      destruct st as [ch u pv en tk]. unfold mono_inv, append_token_sp in *. cbn [o_chunks o_utf16 o_prev o_entries o_toks] in *.
      split; [exact Hs|]. eapply forall_le_weaken; [|exact Hf]. lia.
    + rewrite append_token_sp_not_ws by exact W.
      unfold mono_inv. rewrite append_token_entries, append_token_utf16. split.
      * constructor; [exact Hs|]. eapply forall_le_weaken; [|exact Hf]. cbn [e_dst_col]. lia.
      * constructor.
        -- cbn [e_dst_col]. rewrite utf16_length_app. apply N.add_le_mono_l, N.le_add_r.
        -- eapply forall_le_weaken; [|exact Hf]. lia.
Qed.

Lemma run_ops_mono : forall ops, mono_inv (run_ops ops).
Proof.
  intro ops. unfold run_ops. assert (G : forall st, mono_inv st -> mono_inv (fold_left apply_op ops st)).
  { induction ops as [|o ops IH]; intros st H; [exact H|]. cbn [fold_left]. apply IH, apply_op_mono, H. }
  apply G. split; constructor.
Qed.

Lemma strongly_sorted_rev_le : forall (l : list entry),
  StronglySorted (fun a b => e_dst_col b <= e_dst_col a) l ->
  StronglySorted (fun a b => e_dst_col a <= e_dst_col b) (rev l).
Proof.
  induction l as [|x l IH]; intro H; [constructor|].
  inversion H as [|? ? Hs Hf]; subst. cbn [rev].
  assert (G : forall (l1 : list entry) y,
             StronglySorted (fun a b => e_dst_col a <= e_dst_col b) l1 ->
             Forall (fun e => e_dst_col e <= e_dst_col y) l1 ->
             StronglySorted (fun a b => e_dst_col a <= e_dst_col b) (l1 ++ [y])).
  { induction l1 as [|z l1 IH1]; intros y Hs1 Hf1; cbn [app].
    - constructor; constructor.
    - inversion Hs1; subst. inversion Hf1; subst. constructor.
      + apply IH1; assumption.
      + apply Forall_app. split; [assumption | constructor; [assumption | constructor]]. }
  apply G; [apply IH; exact Hs|]. apply Forall_rev. exact Hf.
Qed.

(* the source-map entries appear in non-decreasing order of generated column *)
Theorem entries_monotone : forall ops,
  StronglySorted (fun a b => e_dst_col a <= e_dst_col b) (o_map (run_ops ops)).
Proof. intro ops. unfold o_map. apply strongly_sorted_rev_le. apply (run_ops_mono ops). Qed.

(* an entry never points beyond the text written so far *)
Theorem entries_within_text : forall ops e,
  In e (o_map (run_ops ops)) -> e_dst_col e <= utf16_length (o_text (run_ops ops)).
Proof.
  intros ops e H. unfold o_map in H. apply in_rev in H.
  destruct (run_ops_mono ops) as [_ Hf]. rewrite Forall_forall in Hf. specialize (Hf e H).
  pose proof (out_col_invariant ops) as Hc. unfold col_inv in Hc. lia.
Qed.

(* the separator table is applied: whenever the table asks for a separator between the
   previous and the next token, append_token writes one before the token *)
Theorem separator_sound : forall st t p src,
  needs_separator (o_prev st) (ser_type t) = true ->
  o_text (append_token st t p src) = o_text st ++ sp ++ ser_tok t.
Proof. intros st t p src H. rewrite append_token_text, H. reflexivity. Qed.

Theorem no_spurious_separator : forall st t p src,
  needs_separator (o_prev st) (ser_type t) = false ->
  o_text (append_token st t p src) = o_text st ++ ser_tok t.
Proof. intros st t p src H. rewrite append_token_text, H. reflexivity. Qed.

Example entry_col_exact_inhabited :
  let ops := [OpTok (TIdent [97]) (mkpos 0 0) None; OpTok (TIdent [128512]) (mkpos 0 2) None;
              OpTok (TDelim 46) (mkpos 0 5) None] in
  o_text (run_ops ops) = [97; 32; 128512; 46] /\
  map e_dst_col (o_map (run_ops ops)) = [0; 2; 4].
Proof. vm_compute. split; reflexivity. Qed.
