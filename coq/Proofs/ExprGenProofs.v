From GE Require Import Model.Str Model.Lit Model.Expr Model.ExprGen.
From Coq Require Import Lia ZifyBool ZifyN.

(* ---------- the level tables are those of the ECMAScript stratified grammar ---------- *)
(* In  L : L op R  (left-associative binary operators) the left operand may be of the same
   level, the right operand must be one level tighter. *)
Definition binops : list binop :=
  [BMul; BDiv; BRem; BAdd; BSub; BShl; BShr; BUshr; BLt; BGt; BLe; BGe; BInstanceof; BEq; BNe; BEqq; BNeq;
   BAnd; BXor; BOr; BLAnd; BLOr].

Definition table_ok (op : binop) : bool :=
  (binop_left_allow op =? binop_level op) && (binop_right_allow op + 1 =? binop_level op).

Lemma tables_ok : forall op, op <> BNullish -> table_ok op = true.
Proof. intros op H. destruct op; try reflexivity. congruence. Qed.

(* the table before the repair (left operand of ^ allowed BitOr level) violates the condition *)
Definition legacy_left_allow (op : binop) : N := match op with BXor => L_BitOr | _ => binop_left_allow op end.
Lemma legacy_table_refuted : (legacy_left_allow BXor =? binop_level BXor) = false.
Proof. reflexivity. Qed.

(* every operand position of the generator asks for a level; a child is parenthesised exactly
   when its own level is looser than what the position allows *)
Section Paren.
  Variable scopes : list scope_var.
  Variable lit_str : str -> str.

  Lemma pg_level_le_cond e' : (L_Cond <? pg_level e') = false.
  Proof. destruct e' as [| | | | | | | | | | | | | | |op| ]; try reflexivity. destruct op; reflexivity. Qed.

  Lemma gen_paren_decision e allow st :
    let '(st1, o1) := gen scopes lit_str e allow st in
    let '(st2, o2) := gen scopes lit_str e L_Cond st in
    st1 = st2 /\ g_pas o1 = g_pas o2 /\ g_calc o1 = g_calc o2 /\
    g_val o1 = paren_if (allow <? pg_level e) (g_val o2).
  Proof.
    unfold gen, wrapg. destruct (gen_core scopes lit_str e st) as [st' o].
    rewrite pg_level_le_cond. cbn [g_val g_pas g_calc paren_if]. repeat split; reflexivity.
  Qed.
End Paren.
