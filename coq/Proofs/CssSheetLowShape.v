(* C17 / C08 for WHOLE SHEETS, the low-priority side in the SHAPE projection (every token that is not white space, numeric
   values forgotten): the low-priority output is the specification's low stream - per pure `:host` rule the replayed wrapper
   chain with its `{`s, the attribute selector(s), the declaration block, the closing `}`s - outside class D29.  Counterpart of
   CssSheetLow.v (identifier projection), same skeleton. *)
From GE Require Import Model.Str Model.CssNum Model.CssTok Model.CssOut Model.CssUrlEnc Model.Css Model.CssSpec.
From GE Require Import Proofs.CssOutProofs Proofs.CssWalkProofs Proofs.CssTokProofs Proofs.CssShapeProofs.
From GE Require Import Proofs.CssSheetShape Proofs.CssFrame Proofs.CssHostLowShape.
From GE Require Proofs.CssRuleProofs Proofs.CssHostSpec Proofs.CssHostLow Proofs.CssSheetLow.
From Coq Require Import Lia Bool.
Open Scope N_scope.

Local Notation K29 l ia := (k29_l k29_node l ia).
Definition host_emit_stack := CssSheetLow.host_emit_stack.
Definition segment_since_grow := CssHostLow.segment_since_grow.

(* ---------------------------------------------------------------- one step of a prelude walker: identifiers, raw growth, frame *)
Definition lowsame (st st' : wstate) : Prop :=
  w_using_low st' = false /\ w_low st' = w_low st /\ w_stack st' = w_stack st.

Lemma Fr_lowsame : forall st st', Fr st st' -> lowsame st st'.
Proof. intros st st' H. exact H. Qed.

Lemma lowsame_trans : forall a b c, lowsame a b -> lowsame b c -> lowsame a c.
Proof. intros a b c [A1 [A2 A3]] [B1 [B2 B3]]. unfold lowsame. rewrite B2, B3, A2, A3. auto. Qed.

Definition Step (X : list tok) (st st' : wstate) : Prop :=
  lowsame st st' /\ exists T, o_tokens (w_normal st') = o_tokens (w_normal st) ++ T /\ shp T = X.

Lemma Step_refl : forall st, w_using_low st = false -> Step [] st st.
Proof. intros st H. split; [unfold lowsame; auto|]. exists []. rewrite app_nil_r. auto. Qed.

Lemma Step_trans : forall X Y a b c, Step X a b -> Step Y b c -> Step (X ++ Y) a c.
Proof.
  intros X Y a b c [L1 [T1 [G1 I1]]] [L2 [T2 [G2 I2]]]. split; [eapply lowsame_trans; eassumption|].
  exists (T1 ++ T2). rewrite G2, G1, app_assoc, idc_app, I1, I2. auto.
Qed.

(* from the identifier view (SExt), the raw growth (Ext) and the frame (Fr) of one walker *)
Lemma Step_of : forall o X Z st st',
  w_using_low st = false -> SExt X st st' -> Ext o Z st st' -> Fr st st' -> Step X st st'.
Proof.
  intros o X Z st st' Hu [IU II] E F. split; [exact F|].
  destruct (Ext_grow _ _ _ _ E) as [T G]. exists T. split; [exact G|].
  unfold sout_, cur_out in II. rewrite IU, Hu in II. rewrite G, idc_app in II.
  apply (app_inv_head _ _ _ II).
Qed.

Lemma Step_tok_at : forall (o : opts) st t p, w_using_low st = false -> Step (shp [t]) st (tok_at st t p None).
Proof.
  intros o st t p Hu. apply (Step_of o _ (strip [t])); [exact Hu | apply SExt_tok_at | apply Ext_tok_at; exact Hu |].
  apply Fr_tok_at. apply Fr_refl. exact Hu.
Qed.

Lemma Step_using_low : forall X a b, Step X a b -> w_using_low b = false.
Proof. intros X a b [[U _] _]. exact U. Qed.

(* ---------------------------------------------------------------- the stack mirrors the chain *)
Definition LS (chain : list (list etok)) (st : wstate) : Prop :=
  map (fun it : str * list tok => shp (snd it) ++ [TCurly]) (w_stack st) = map eshp chain.

Lemma LS_same_stack : forall chain a b, w_stack b = w_stack a -> LS chain a -> LS chain b.
Proof. intros chain a b E H. unfold LS. rewrite E. exact H. Qed.

Lemma slout_same_low : forall a b, w_low b = w_low a -> slout b = slout a.
Proof. intros a b E. unfold slout. rewrite E. reflexivity. Qed.

Lemma Step_body : forall o open body s, shaped body = true -> w_using_low s = false ->
  Step (eshp (if true && is_layer_fn open then val_spec o false body None false else sel_spec o true body true false false false)) s
       (if is_layer_fn open then rpx_body o false body None s else cn_body o body true false false s).
Proof.
  intros o open body s Hsb Hu. cbn [andb]. destruct (is_layer_fn open).
  - apply (Step_of o _ (strip (flatten body))); [exact Hu | unfold val_spec; apply SExt_rpx_body; exact Hsb
                                                 | apply Ext_rpx_body; assumption | apply Fr_rpx_body; apply Fr_refl; exact Hu].
  - apply (Step_of o _ (strip (flatten body))); [exact Hu | unfold sel_spec; apply SExt_cn_body; [exact Hsb | reflexivity]
                                                 | apply Ext_cn_body; assumption | apply Fr_cn_body; apply Fr_refl; exact Hu].
Qed.

Section AtPreludeLow.
Variables (o : opts) (rec : list node -> pos -> wstate -> wstate) (contain : bool).
Variable stm : wstate.
Variable chain : list (list etok).
Variable inner_low : list (list etok) -> list node -> list etok.
Variable good : list node -> Prop.
Hypothesis Hrec : forall body be s chain', shaped body = true -> good body -> w_using_low s = false -> LS chain' s ->
  w_using_low (rec body be s) = false /\ w_stack (rec body be s) = w_stack s /\
  slout (rec body be s) = slout s ++ eshp (inner_low chain' body).

Definition term_low (hd : list etok) (tm : node) : list etok :=
  match tm with
  | Block _ _ body _ _ => if contain then inner_low (chain ++ [hd ++ [mke GFree TCurly]]) body else []
  | Leaf _ _ => []
  end.

Lemma at_prelude_low : forall l st prelude tm rest hd,
  shaped l = true -> w_using_low st = false ->
  take_prelude true l = (prelude, Some tm, rest) -> no_bare_rpx prelude = true ->
  (forall t p body e c, tm = Block t p body e c -> contain = true -> good body) ->
  LS chain st ->
  (exists T, o_tokens (w_normal st) = o_tokens (w_normal stm) ++ T /\ shp T = eshp hd) ->
  w_using_low (snd (at_prelude o rec contain (o_mark (w_normal stm)) l st)) = false /\
  w_stack (snd (at_prelude o rec contain (o_mark (w_normal stm)) l st)) = w_stack st /\
  slout (snd (at_prelude o rec contain (o_mark (w_normal stm)) l st)) =
    slout st ++ eshp (term_low (hd ++ at_prelude_spec o true prelude) tm).
Proof.
  induction l as [|x r IH]; intros st prelude tm rest hd Hs Hu E Hb Hg HL HG; [discriminate E|].
  destruct (shaped_cons _ _ Hs) as [Hsx Hsr].
  cbn [take_prelude] in E. cbn [at_prelude].
  destruct (take_prelude true r) as [[p' t'] rest'] eqn:Er.
  (* the token is passed on to the rest of the prelude *)
  assert (Go : forall st1,
             (prelude, Some tm, rest) = (x :: p', t', rest') ->
             Step (eshp (at_prelude_spec o true [x])) st st1 ->
             w_using_low (snd (at_prelude o rec contain (o_mark (w_normal stm)) r st1)) = false /\
             w_stack (snd (at_prelude o rec contain (o_mark (w_normal stm)) r st1)) = w_stack st /\
             slout (snd (at_prelude o rec contain (o_mark (w_normal stm)) r st1)) =
               slout st ++ eshp (term_low (hd ++ at_prelude_spec o true prelude) tm)).
  { intros st1 E' HS. inversion E'; subst.
    destruct HS as [[U1 [L1 S1]] [T1 [G1 I1]]].
    destruct HG as [T [G I]].
    destruct (IH st1 p' tm rest' (hd ++ at_prelude_spec o true [x]) Hsr U1 eq_refl (no_bare_rpx_cons _ _ Hb) Hg (LS_same_stack _ _ _ S1 HL)) as [A [B C]].
    { exists (T ++ T1). rewrite G1, G, app_assoc, idc_app, I, I1, eidc_app. auto. }
    split; [exact A|]. split; [rewrite B; exact S1|].
    rewrite C, (slout_same_low _ _ L1), (at_prelude_spec_cons o true x p'), <- app_assoc. reflexivity. }
  destruct (is_ws_or_comment (node_tok x)) eqn:Ew.
  { (* whitespace and comments: skipped by both *)
    assert (E0 : eshp (at_prelude_spec o true [x]) = []) by (cbn [at_prelude_spec]; rewrite Ew; reflexivity).
    destruct x as [t p|open p body e c].
    - destruct t; try discriminate Ew; (apply Go; [symmetry; exact E | rewrite E0; apply Step_refl; exact Hu]).
    - destruct (shaped_blk _ _ _ _ _ _ Hs) as [Ho _]. destruct (open_ok_not_wsc _ Ho) as [Hc _].
      cbn [node_tok] in Ew. rewrite Hc in Ew. discriminate. }
  destruct x as [t p|open p body e c].
  - destruct t; try discriminate Ew;
      try (apply Go; [symmetry; exact E
                     | cbn [at_prelude_spec node_tok is_ws_or_comment]; rewrite app_nil_r; apply (Step_tok_at o); exact Hu]).
    { (* a dimension directly in the prelude is written as it is; by hypothesis it is not an rpx dimension *)
      apply Go; [symmetry; exact E|].
      cbn [at_prelude_spec node_tok is_ws_or_comment]. rewrite app_nil_r.
      assert (Hp : prelude = Leaf (TDim n u) p :: p') by (inversion E; reflexivity).
      rewrite Hp in Hb. rewrite (rpx_tok_bare o n u p p' Hb). apply (Step_tok_at o st (TDim n u) p Hu). }
    (* `;` ends the rule *)
    inversion E; subst. cbn [fst snd app at_prelude_spec term_low]. change (eshp []) with (@nil tok). rewrite app_nil_r.
    destruct (Step_tok_at o st TSemi p Hu) as [[U1 [L1 S1]] _].
    split; [exact U1|]. split; [exact S1 | apply slout_same_low; exact L1].
  - destruct (shaped_blk _ _ _ _ _ _ Hs) as [Ho [Hsb _]].
    assert (Blk : forall T, T = open -> is_curly T = false ->
              (prelude, Some tm, rest) = (Block T p body e c :: p', t', rest') ->
              w_using_low (snd (at_prelude o rec contain (o_mark (w_normal stm)) r
                     (tok_at (if is_layer_fn T then rpx_body o false body None (tok_at st T p None)
                              else cn_body o body true false false (tok_at st T p None)) (close_of T) p None))) = false /\
              w_stack (snd (at_prelude o rec contain (o_mark (w_normal stm)) r
                     (tok_at (if is_layer_fn T then rpx_body o false body None (tok_at st T p None)
                              else cn_body o body true false false (tok_at st T p None)) (close_of T) p None))) = w_stack st /\
              slout (snd (at_prelude o rec contain (o_mark (w_normal stm)) r
                     (tok_at (if is_layer_fn T then rpx_body o false body None (tok_at st T p None)
                              else cn_body o body true false false (tok_at st T p None)) (close_of T) p None))) =
                slout st ++ eshp (term_low (hd ++ at_prelude_spec o true prelude) tm)).
    { intros T ET HT E'. subst T.
      apply Go; [exact E'|].
      cbn [at_prelude_spec]. rewrite Ew, app_nil_r, !eidc_app.
      eapply Step_trans; [apply (Step_tok_at o st open p Hu)|].
      assert (U1 : w_using_low (tok_at st open p None) = false) by (apply (Step_using_low _ _ _ (Step_tok_at o st open p Hu))).
      eapply Step_trans; [apply (Step_body o open body _ Hsb U1)|].
      apply (Step_tok_at o). apply (Step_using_low _ _ _ (Step_body o open body _ Hsb U1)). }
    destruct open; try discriminate Ho;
      try (apply Blk; [reflexivity | reflexivity | symmetry; exact E]).
    (* the `{}` block ends the rule: the prelude written since the mark is pushed *)
    inversion E; subst. cbn [fst snd at_prelude_spec term_low]. rewrite app_nil_r.
    destruct HG as [T [G I]].
    assert (Ec : cur_out st = w_normal st) by (unfold cur_out; rewrite Hu; reflexivity).
    rewrite Ec.
    set (seg := segment_since (w_normal st) (o_mark (w_normal stm))).
    assert (Eseg : snd seg = T) by (apply segment_since_grow; exact G).
    set (st1 := set_stack st (w_stack st ++ [seg])).
    assert (U1 : w_using_low st1 = false) by exact Hu.
    assert (HL1 : LS (chain ++ [hd ++ [mke GFree TCurly]]) st1).
    { unfold LS, st1. cbn [set_stack w_stack]. rewrite !map_app, HL. cbn [map]. rewrite Eseg, I, eidc_app.
      reflexivity. }
    destruct (Step_tok_at o st1 TCurly p U1) as [[U2 [L2 S2]] _].
    set (st2 := tok_at st1 TCurly p None) in *.
    assert (Body : exists st3, st3 = (if contain then rec body e st2 else rpx_body o false body None st2) /\
                   w_using_low st3 = false /\ w_stack st3 = w_stack st1 /\
                   slout st3 = slout st ++ eshp (if contain then inner_low (chain ++ [hd ++ [mke GFree TCurly]]) body else [])).
    { eexists. split; [reflexivity|]. destruct contain.
      - destruct (Hrec body e st2 _ Hsb (Hg _ _ _ _ _ eq_refl eq_refl) U2 (LS_same_stack _ _ _ S2 HL1)) as [A [B C]].
        split; [exact A|]. split; [rewrite B; exact S2|]. rewrite C, (slout_same_low _ _ L2). reflexivity.
      - destruct (Fr_rpx_body st2 o body false None st2 (Fr_refl _ U2)) as [A [B C]].
        split; [exact A|]. split; [rewrite C; exact S2|].
        change (eshp []) with (@nil tok). rewrite app_nil_r, (slout_same_low _ _ B), (slout_same_low _ _ L2). reflexivity. }
    destruct Body as [st3 [E3 [U3 [S3 L3]]]]. rewrite <- E3.
    destruct (Step_tok_at o st3 TCloseCurly p U3) as [[U4 [L4 S4]] _].
    set (st4 := tok_at st3 TCloseCurly p None) in *.
    cbn [set_stack w_using_low w_stack]. split; [exact U4|]. split.
    + rewrite S4, S3. unfold st1. cbn [set_stack w_stack]. apply removelast_last.
    + change (slout (set_stack st4 (removelast (w_stack st4)))) with (slout st4).
      rewrite (slout_same_low _ _ L4), L3. reflexivity.
Qed.
End AtPreludeLow.

(* ---------------------------------------------------------------- the specification's low stream does not depend on the
   start flag *)
Lemma spec_low_irrel : forall f o c l a1 a2,
  so_low (rules_spec f o c l a1) = so_low (rules_spec f o c l a2).
Proof.
  induction f as [|f IH]; intros o c l a1 a2; [reflexivity|].
  rewrite !rules_spec_S. destruct (skip_ws l) as [|x r]; [reflexivity|].
  destruct (at_name x) as [s|].
  - unfold at_branch. destruct (take_prelude true r) as [[prelude term] rest].
    cbn [so_app so_low].
    rewrite (IH o c rest (a1 && (str_eqb_ci s s_import || str_eqb_ci s s_charset))
                (a2 && (str_eqb_ci s s_import || str_eqb_ci s s_charset))).
    f_equal. unfold at_this.
    destruct (if str_eqb_ci s s_import then import_sign o else None) as [sign|]; [|reflexivity].
    destruct (import_spec o sign prelude) as [toks|]; destruct term as [[tt tp|? ? ? ? ?]|];
      try (destruct tt); reflexivity.
  - unfold q_branch. destruct (take_prelude false (x :: r)) as [[prelude term] rest]. reflexivity.
Qed.

Definition Lw (f : nat) (o : opts) (chain : list (list etok)) (l : list node) : list etok :=
  so_low (rules_spec f o chain l false).

Theorem low_shape_rules : forall f o chain l endp at_start st,
  shaped l = true -> w_using_low st = false -> LS chain st -> K29 l false = false ->
  Cpl f o l = true ->
  w_using_low (rules f o l endp at_start st) = false /\
  w_stack (rules f o l endp at_start st) = w_stack st /\
  slout (rules f o l endp at_start st) = slout st ++ eshp (Lw f o chain l).
Proof.
  induction f as [|f IH]; intros o chain l endp at_start st Hs Hu HL Hk0 Hc; [discriminate Hc|].
  unfold Lw, Cpl in *. rewrite rules_spec_S in *. cbn [rules].
  pose proof (skip_ws_shaped l Hs) as Hsl.
  pose proof (skip_ws_idem l) as Hid.
  pose proof (k29_skip_ws l Hk0) as Hk.
  destruct (skip_ws l) as [|x r]; [cbn [so_empty so_low]; change (eshp []) with (@nil tok); rewrite app_nil_r; auto|].
  (* the tail of the list, whatever the first rule did *)
  assert (Tail : forall st' rest X lead,
            shaped rest = true -> w_using_low st' = false -> w_stack st' = w_stack st ->
            slout st' = slout st ++ X -> K29 rest false = false -> Cpl f o rest = true ->
            w_using_low (rules f o rest endp lead st') = false /\
            w_stack (rules f o rest endp lead st') = w_stack st /\
            slout (rules f o rest endp lead st') = slout st ++ X ++ eshp (so_low (rules_spec f o chain rest false))).
  { intros st' rest X lead Hsr Hu' Hst' Hl' Hkr' Hcr.
    destruct (IH o chain rest endp lead st' Hsr Hu' (LS_same_stack _ _ _ Hst' HL) Hkr' Hcr) as [A [B C]].
    split; [exact A|]. split; [rewrite B; exact Hst'|]. unfold Lw in C. rewrite C, Hl', <- app_assoc. reflexivity. }
  destruct (at_name x) as [s|] eqn:En.
  - (* an at-rule *)
    destruct x as [t p|? ? ? ? ?]; [|discriminate En]. destruct t; try discriminate En.
    inversion En; subst s0. clear En.
    unfold at_branch in *.
    destruct (take_prelude true r) as [[prelude term] rest] eqn:Et.
    unfold at_rule. unfold at_this in *.
    destruct (shaped_cons _ _ Hsl) as [_ Hsr].
    cbn [k29_l] in Hk. destruct (k29_at_prelude r prelude term rest Et Hk) as [Hkp [Hkb Hkr]].
    cbn [so_app so_low so_complete] in *. apply andb_prop in Hc. destruct Hc as [Hc1 Hc2].
    assert (Hcr : so_complete (rules_spec f o [] rest false) = true).
    { rewrite <- Hc2. apply (proj2 (spec_normal_irrel _ _ _ _ _ _ _)). }
    rewrite (spec_low_irrel f o chain rest _ false).
    pose proof (take_prelude_rest_shaped true r prelude term rest Hsr Et) as Hsrest.
    destruct (if str_eqb_ci s s_import then import_sign o else None) as [sign|].
    + (* @import with a sign: nothing reaches the low-priority output *)
      destruct (take_prelude_true_spec _ _ _ _ Et) as [Hnt Hl].
      set (st0 := if at_start then st else warn st W_IMPORT_POS (cur_pos r endp)).
      assert (F0 : Fr st st0) by (unfold st0; destruct at_start; [apply Fr_refl; exact Hu | apply Fr_warn; apply Fr_refl; exact Hu]).
      match goal with |- context [eshp (so_low ?T ++ _)] => set (this := T) in * end.
      assert (Main : exists st', import_try o sign (cur_pos r endp) r endp st0 = (Some rest, st')).
      { unfold this in *.
        destruct (import_spec o sign prelude) as [toks|] eqn:Es; [|destruct term as [[[] ?|? ? ? ? ?]|]; discriminate Hc1].
        destruct term as [[tt tp|bo bp bb be bc]|].
        - destruct tt; try (cbn [so_complete] in Hc1; discriminate Hc1).
          assert (Hsp : shaped prelude = true) by (rewrite Hl in Hsr; apply (shaped_app_l _ _ Hsr)).
          destruct (import_try_vs_spec o sign (cur_pos r endp) prelude (Leaf TSemi tp :: rest) endp st0 toks
                      (or_intror (ex_intro _ tp (ex_intro _ rest eq_refl))) Hsp Hnt Hkp Es) as [st' [A _]].
          rewrite <- Hl in A. exists st'. exact A.
        - cbn [so_complete] in Hc1. discriminate Hc1.
        - destruct Hl as [Hl Hrest]. subst rest.
          assert (Hsp : shaped prelude = true) by (rewrite <- Hl; exact Hsr).
          destruct (import_try_vs_spec o sign (cur_pos r endp) prelude [] endp st0 toks (or_introl eq_refl) Hsp Hnt Hkp Es) as [st' [A _]].
          rewrite app_nil_r, <- Hl in A. exists st'. exact A. }
      destruct Main as [st' Em].
      assert (Elow : so_low this = []).
      { unfold this. destruct (import_spec o sign prelude) as [toks|]; destruct term as [[tt tp|? ? ? ? ?]|];
          try (destruct tt); reflexivity. }
      pose proof (Fr_import_try st o sign (cur_pos r endp) r endp st0 F0) as F1.
      fold st0. rewrite Em in *. cbn [snd] in F1. destruct F1 as [U1 [L1 S1]].
      rewrite Elow. cbn [app].
      apply (Tail st' rest [] _ Hsrest U1 S1); [rewrite app_nil_r; apply slout_same_low; exact L1 | exact Hkr | exact Hcr].
    + (* every other at-rule *)
      destruct term as [tm|]; [|discriminate Hc1].
      set (inner := fun body => so_normal (rules_spec f o [] body false)).
      set (good := fun body => so_complete (rules_spec f o [] body false) = true /\ K29 body false = false).
      assert (Hrec0 : forall body be s0, shaped body = true -> good body -> w_using_low s0 = false ->
                     SExt (eshp (inner body)) s0 ((fun body be s => rules f o body be false s) body be s0)).
      { intros body be s0 Hb [Hg Hgk] Hu0. apply shape_exact_rules; [exact Hb | exact Hu0 | exact Hgk | exact Hg]. }
      assert (Hg : forall t0 p0 body e c, tm = Block t0 p0 body e c -> contain_rule_list s = true -> good body).
      { intros t0 p0 body e c E0 Hcon. subst tm. unfold good. rewrite contain_same in Hcon. rewrite Hcon in Hc1.
        cbn [so_complete] in Hc1. split; [|eapply Hkb; reflexivity].
        rewrite <- Hc1. apply (proj2 (spec_normal_irrel _ _ _ _ _ _ _)). }
      assert (Hu1 : w_using_low (tok_at st (TAt s) p None) = false) by (rewrite (proj1 (SExt_tok_at st (TAt s) p None)); exact Hu).
      destruct (at_prelude_vs_spec o _ (contain_rule_list s) (o_mark (cur_out st)) inner good Hrec0
                  r (tok_at st (TAt s) p None) prelude tm rest Hsr Hu1 Et Hkp Hg) as [A _].
      assert (Ec : cur_out st = w_normal st) by (unfold cur_out; rewrite Hu; reflexivity).
      rewrite Ec in *.
      assert (Hrec : forall body be s0 chain', shaped body = true -> good body -> w_using_low s0 = false -> LS chain' s0 ->
                w_using_low ((fun body be s => rules f o body be false s) body be s0) = false /\
                w_stack ((fun body be s => rules f o body be false s) body be s0) = w_stack s0 /\
                slout ((fun body be s => rules f o body be false s) body be s0) =
                  slout s0 ++ eshp ((fun c b => so_low (rules_spec f o c b false)) chain' body)).
      { intros body be s0 chain' Hb [Hgb Hgk] Hu0 HL0. apply (IH o chain' body be false s0 Hb Hu0 HL0 Hgk Hgb). }
      destruct (Step_tok_at o st (TAt s) p Hu) as [[_ [L1 S1]] [T1 [G1 I1]]].
      destruct (at_prelude_low o _ (contain_rule_list s) st chain
                  (fun c b => so_low (rules_spec f o c b false)) good Hrec
                  r (tok_at st (TAt s) p None) prelude tm rest [mke GFree (TAt s)]
                  Hsr Hu1 Et Hkp Hg (LS_same_stack _ _ _ S1 HL)
                  (ex_intro _ T1 (conj G1 I1))) as [B1 [B2 B3]].
      destruct (at_prelude o (fun body be s0 => rules f o body be false s0) (contain_rule_list s)
                  (o_mark (w_normal st)) r (tok_at st (TAt s) p None)) as [rest0 st'].
      cbn [fst snd] in A, B1, B2, B3. subst rest0.
      assert (Elow : eshp (term_low (contain_rule_list s) chain (fun c b => so_low (rules_spec f o c b false))
                             ([mke GFree (TAt s)] ++ at_prelude_spec o true prelude) tm) =
                     eshp (so_low (match tm with
                                   | Block _ _ body _ _ =>
                                       if ideal_contain s then
                                         mkso (([mke GFree (TAt s)] ++ at_prelude_spec o true prelude) ++ [mke GFree TCurly] ++
                                               so_normal (rules_spec f o (chain ++ [([mke GFree (TAt s)] ++ at_prelude_spec o true prelude) ++ [mke GFree TCurly]]) body false) ++ [mke GFree TCloseCurly])
                                              (so_low (rules_spec f o (chain ++ [([mke GFree (TAt s)] ++ at_prelude_spec o true prelude) ++ [mke GFree TCurly]]) body false))
                                              (so_warn (rules_spec f o (chain ++ [([mke GFree (TAt s)] ++ at_prelude_spec o true prelude) ++ [mke GFree TCurly]]) body false))
                                              (so_paths (rules_spec f o (chain ++ [([mke GFree (TAt s)] ++ at_prelude_spec o true prelude) ++ [mke GFree TCurly]]) body false))
                                              (so_complete (rules_spec f o (chain ++ [([mke GFree (TAt s)] ++ at_prelude_spec o true prelude) ++ [mke GFree TCurly]]) body false))
                                       else mkso (([mke GFree (TAt s)] ++ at_prelude_spec o true prelude) ++ [mke GFree TCurly] ++ val_spec o false body None false ++ [mke GFree TCloseCurly]) [] [] [] true
                                   | Leaf t _ => mkso (([mke GFree (TAt s)] ++ at_prelude_spec o true prelude) ++ [mke GFree t]) [] [] [] true
                                   end))).
      { unfold term_low. rewrite contain_same. destruct tm as [tt tp|bo bp bb be bc]; [reflexivity|].
        destruct (ideal_contain s); reflexivity. }
      rewrite eidc_app.
      apply (Tail st' rest _ _ Hsrest B1).
      * rewrite B2. exact S1.
      * rewrite B3, (slout_same_low _ _ L1), Elow. reflexivity.
      * exact Hkr.
      * exact Hcr.
  - (* a qualified rule *)
    assert (Ea : at_rule o (fun body be s => rules f o body be false s) (x :: r) endp at_start st = None).
    { unfold at_rule. destruct x as [t p|? ? ? ? ?]; [|reflexivity]. destruct t; try reflexivity. discriminate En. }
    rewrite Ea. unfold q_branch in *.
    destruct (take_prelude false (x :: r)) as [[prelude term] rest] eqn:Et.
    pose proof (take_prelude_false_spec _ _ _ _ Et) as T.
    unfold q_this in *.
    destruct term as [[tt tp|bo bp bb be bc]|];
      [contradiction | | cbn [so_app so_complete andb] in Hc; discriminate Hc].
    destruct bo; try contradiction. destruct T as [El Hn].
    pose proof Hsl as Hsl'. rewrite El in Hsl'.
    pose proof (shaped_app_l _ _ Hsl') as Hsp.
    destruct (shaped_blk _ _ _ _ _ _ (shaped_app _ _ Hsl')) as [_ [Hsb Hsr]].
    set (decls := [mke GFree TCurly] ++ val_spec o false bb None false ++ [mke GFree TCloseCurly]) in *.
    assert (Hq : exists st', qrule o (x :: r) endp st = (rest, st') /\
                   w_using_low st' = false /\ w_stack st' = w_stack st /\
                   slout st' = slout st ++
                     eshp (so_low (match (if convert_host o then host_kind_of prelude else HostNone) with
                                   | HostPure => mkso [] (concat chain ++ host_selector o ++ decls
                                                          ++ repeat (mke GFree TCloseCurly) (length chain)) [] [] true
                                   | HostCombined => mkso [] [] [W_HOST] [] true
                                   | HostNone => mkso (sel_spec o false prelude true false false false ++ decls) [] [] [] true
                                   end))).
    { destruct (shape_exact_rule o prelude bp bb be bc rest false false st true false false Hsp Hsb Hn) as [A _].
      assert (Loop : forall pre', fst (qr_loop o (pre' ++ Block TCurly bp bb be bc :: rest) false false st) = rest ->
                w_using_low (snd (qr_loop o (pre' ++ Block TCurly bp bb be bc :: rest) false false st)) = false /\
                w_stack (snd (qr_loop o (pre' ++ Block TCurly bp bb be bc :: rest) false false st)) = w_stack st /\
                slout (snd (qr_loop o (pre' ++ Block TCurly bp bb be bc :: rest) false false st)) = slout st ++ []).
      { intros pre' _. destruct (Fr_qr_loop st o (pre' ++ Block TCurly bp bb be bc :: rest) false false st (Fr_refl _ Hu)) as [U1 [L1 S1]].
        split; [exact U1|]. split; [exact S1|]. rewrite app_nil_r. apply slout_same_low. exact L1. }
      destruct (convert_host o) eqn:Eh.
      - pose proof (CssHostSpec.qrule_matches_spec bp be bb bc rest o prelude endp st Eh (no_curly_equiv _ Hn)) as M.
        rewrite <- El in M.
        destruct (host_kind_of prelude).
        + (* none: the selector walker *)
          rewrite M. rewrite <- CssHostSpec.skip_ws_app, <- El, Hid, El.
          destruct (Loop prelude A) as [U1 [S1 L1]].
          destruct (qr_loop o (prelude ++ Block TCurly bp bb be bc :: rest) false false st) as [rest0 st'].
          cbn [fst snd] in *. subst rest0. exists st'. cbn [so_low]. change (eshp []) with (@nil tok). auto.
        + (* pure: moved to the low-priority output, inside the replayed wrappers *)
          rewrite M. eexists. split; [reflexivity|].
          split; [reflexivity|]. split; [apply host_emit_stack|].
          assert (Elen : length (w_stack st) = length chain).
          { unfold LS in HL. rewrite <- (map_length (fun it : str * list tok => shp (snd it) ++ [TCurly]) (w_stack st)), HL, map_length. reflexivity. }
          assert (Ecc : eshp (concat chain) = concat (map eshp chain)).
          { clear. induction chain as [|c cs IHc]; [reflexivity|]. cbn [concat map]. rewrite eidc_app, IHc. reflexivity. }
          rewrite (host_emit_low_shp o st bp bb Hsb Hu). cbn [so_low].
          unfold stack_shp. unfold LS in HL. rewrite HL, Elen.
          rewrite !eidc_app, eidc_repeat_close, Ecc. unfold decls. rewrite !eidc_app, <- !app_assoc. reflexivity.
        + (* combined: dropped with a warning *)
          destruct M as [wp M]. rewrite M. eexists. split; [reflexivity|]. cbn [so_low]. change (eshp []) with (@nil tok).
          rewrite app_nil_r. split; [exact Hu|]. split; reflexivity.
      - unfold qrule, qr_main. rewrite Eh, Hid, El.
        destruct (Loop prelude A) as [U1 [S1 L1]].
        destruct (qr_loop o (prelude ++ Block TCurly bp bb be bc :: rest) false false st) as [rest0 st'].
        cbn [fst snd] in *. subst rest0. exists st'. cbn [so_low]. change (eshp []) with (@nil tok). auto. }
    destruct Hq as [st' [Eq [U' [S' L']]]]. rewrite Eq.
    assert (Hc' : so_complete (rules_spec f o [] rest false) = true).
    { destruct (if convert_host o then host_kind_of prelude else HostNone); cbn [so_app so_complete andb] in Hc; exact Hc. }
    match goal with |- context [so_low (so_app ?A ?B)] => change (so_low (so_app A B)) with (so_low A ++ so_low B) end.
    rewrite eidc_app.
    apply (Tail st' rest _ _ Hsr U' S' L'); [rewrite El in Hk; exact (k29_after_rule _ _ _ _ _ _ _ Hk) | exact Hc'].
Qed.

(* the pinned form: every option set *)
Theorem low_shape_sheet : forall o tree endp,
  shaped tree = true -> k29_list tree = false ->
  so_complete (expected o tree) = true ->
  shp (o_tokens (w_low (transform o tree endp))) = shp (map e_tok (so_low (expected o tree))).
Proof.
  intros o tree endp Hs Hk Hc. unfold transform, expected in *.
  rewrite (proj2 (spec_normal_irrel _ o [] [] tree true false)) in Hc.
  assert (HL : LS [] w_init) by reflexivity.
  destruct (low_shape_rules (S (nodes_size tree)) o [] tree endp true w_init Hs eq_refl HL Hk Hc) as [_ [_ E]].
  unfold slout in E. change (shp (o_tokens (w_low w_init))) with (@nil tok) in E. cbn [app] in E.
  rewrite E. unfold Lw, eshp. rewrite (spec_low_irrel _ o [] tree false true). reflexivity.
Qed.

(* not vacuous: `@media x{:host{a:1rpx}.c{}}` with host conversion - the wrapper is replayed around the converted rule, the
   rpx length inside it is converted *)
Example low_shape_sheet_inhabited :
  let o := mkopts (Some [112]) None 1144750080 None true None in
  let P := mkpos in
  let tree := [Leaf (TAt s_media) (P 0 0); Leaf (TWs [32]) (P 0 6); Leaf (TIdent [120]) (P 0 7);
               Block TCurly (P 0 8)
                 [Leaf TColon (P 0 9); Leaf (TIdent s_host) (P 0 10);
                  Block TCurly (P 0 14) [Leaf (TIdent [97]) (P 0 15); Leaf TColon (P 0 16);
                                         Leaf (TDim (mknum false (Some 75%Z) 1117126656 [55;53]) s_rpx) (P 0 17)] (P 0 22) true;
                  Leaf (TDelim 46) (P 0 23); Leaf (TIdent [99]) (P 0 24); Block TCurly (P 0 25) [] (P 0 26) true]
                 (P 0 27) true] in
  shaped tree = true /\ k29_list tree = false /\ so_complete (expected o tree) = true /\
  map ser_tok (shp (o_tokens (w_low (transform o tree (P 0 28))))) =
    map ser_tok (shp (map e_tok (so_low (expected o tree)))) /\
  length (shp (o_tokens (w_low (transform o tree (P 0 28))))) = 14%nat.
Proof. vm_compute. repeat split; reflexivity. Qed.
