(* C18: percent-encoding round trip, alphabet, and "no comment terminator" for the placeholder
   produced from an @import path. *)
From GE Require Import Model.Str Model.CssUrlEnc.
From Coq Require Import Lia.
Open Scope N_scope.

Definition is_byte (b : N) : Prop := b < 256.

(* lia does not look inside div / mod terms: name them first *)
Ltac absdm :=
  repeat match goal with
         | |- context [?a / ?b] => let q := fresh "q" in set (q := a / b) in *
         | |- context [?a mod ?b] => let r := fresh "r" in set (r := a mod b) in *
         | H : context [?a / ?b] |- _ => let q := fresh "q" in set (q := a / b) in *
         | H : context [?a mod ?b] |- _ => let r := fresh "r" in set (r := a mod b) in *
         end.

Lemma hex_upper_val_hex_upper : forall d, d < 16 -> hex_upper_val (hex_upper d) = Some d.
Proof.
  intros d Hd. unfold hex_upper, hex_upper_val, is_digit.
  destruct (d <? 10) eqn:E.
  - apply N.ltb_lt in E.
    replace ((48 <=? 48 + d) && (48 + d <=? 57)) with true.
    + f_equal. lia.
    + symmetry. apply andb_true_intro. split; apply N.leb_le; lia.
  - apply N.ltb_ge in E.
    replace ((48 <=? 55 + d) && (55 + d <=? 57)) with false.
    + replace ((65 <=? 55 + d) && (55 + d <=? 70)) with true.
      * f_equal. lia.
      * symmetry. apply andb_true_intro. split; apply N.leb_le; lia.
    + symmetry. apply andb_false_iff. right. apply N.leb_gt. lia.
Qed.

Lemma unreserved_not_pct : forall b, is_unreserved b = true -> (b =? 37) = false.
Proof.
  intros b H. apply N.eqb_neq. intro E. subst b. vm_compute in H. discriminate.
Qed.

Lemma pct_decode_encode : forall bytes, Forall is_byte bytes -> pct_decode (pct_encode bytes) = Some bytes.
Proof.
  induction 1 as [|b l Hb Hl IH]; [reflexivity|].
  unfold pct_encode in *. cbn [flat_map]. unfold pct_byte at 1.
  destruct (is_unreserved b) eqn:U.
  - cbn [app pct_decode]. rewrite (unreserved_not_pct _ U). rewrite IH. reflexivity.
  - cbn [app pct_decode]. replace (37 =? 37) with true by reflexivity.
    unfold is_byte in Hb.
    assert (H1 : b / 16 < 16) by (apply N.div_lt_upper_bound; lia).
    assert (H2 : b mod 16 < 16) by (apply N.mod_lt; lia).
    rewrite (hex_upper_val_hex_upper _ H1), (hex_upper_val_hex_upper _ H2), IH.
    f_equal. f_equal. rewrite N.mul_comm. symmetry. apply N.div_mod. lia.
Qed.

(* ---- alphabet ---- *)
Definition placeholder_char (c : N) : bool := is_unreserved c || (c =? 37).

Lemma hex_upper_unreserved : forall d, d < 16 -> is_unreserved (hex_upper d) = true.
Proof.
  intros d Hd.
  assert (In d [0;1;2;3;4;5;6;7;8;9;10;11;12;13;14;15]).
  { assert (d = 0 \/ d = 1 \/ d = 2 \/ d = 3 \/ d = 4 \/ d = 5 \/ d = 6 \/ d = 7 \/ d = 8 \/ d = 9 \/
            d = 10 \/ d = 11 \/ d = 12 \/ d = 13 \/ d = 14 \/ d = 15) by lia.
    cbn [In]. intuition. }
  cbn [In] in H. intuition; subst d; reflexivity.
Qed.

Lemma pct_encode_alphabet : forall bytes, Forall is_byte bytes ->
  Forall (fun c => placeholder_char c = true) (pct_encode bytes).
Proof.
  induction 1 as [|b l Hb Hl IH]; [constructor|].
  unfold pct_encode in *. cbn [flat_map]. apply Forall_app. split; [|exact IH].
  unfold pct_byte. destruct (is_unreserved b) eqn:U.
  - constructor; [|constructor]. unfold placeholder_char. rewrite U. reflexivity.
  - unfold is_byte in Hb.
    assert (H1 : b / 16 < 16) by (apply N.div_lt_upper_bound; lia).
    assert (H2 : b mod 16 < 16) by (apply N.mod_lt; lia).
    repeat constructor; unfold placeholder_char.
    + rewrite (hex_upper_unreserved _ H1). reflexivity.
    + rewrite (hex_upper_unreserved _ H2). reflexivity.
Qed.

(* ---- UTF-8 ---- *)
Definition is_scalar (c : N) : Prop := c < 1114112.

Lemma utf8_char_bytes : forall c, is_scalar c -> Forall is_byte (utf8_char c).
Proof.
  intros c Hc. unfold is_scalar in Hc. unfold utf8_char, is_byte.
  destruct (c <? 128) eqn:E1; [apply N.ltb_lt in E1; repeat constructor; lia|].
  destruct (c <? 2048) eqn:E2.
  { apply N.ltb_lt in E2.
    assert (c / 64 < 32) by (apply N.div_lt_upper_bound; lia).
    assert (c mod 64 < 64) by (apply N.mod_lt; lia).
    repeat constructor; lia. }
  destruct (c <? 65536) eqn:E3.
  { apply N.ltb_lt in E3.
    assert (c / 4096 < 16) by (apply N.div_lt_upper_bound; lia).
    assert ((c / 64) mod 64 < 64) by (apply N.mod_lt; lia).
    assert (c mod 64 < 64) by (apply N.mod_lt; lia).
    repeat constructor; lia. }
  assert (c / 262144 < 5) by (apply N.div_lt_upper_bound; lia).
  assert ((c / 4096) mod 64 < 64) by (apply N.mod_lt; lia).
  assert ((c / 64) mod 64 < 64) by (apply N.mod_lt; lia).
  assert (c mod 64 < 64) by (apply N.mod_lt; lia).
  repeat constructor; lia.
Qed.

Lemma utf8_encode_bytes : forall s, Forall is_scalar s -> Forall is_byte (utf8_encode s).
Proof.
  induction 1 as [|c l Hc Hl IH]; [constructor|].
  unfold utf8_encode in *. cbn [flat_map]. apply Forall_app. split; [apply utf8_char_bytes; exact Hc | exact IH].
Qed.

Lemma split64 : forall c, c = 64 * (c / 64) + c mod 64.
Proof. intro c. apply N.div_mod. lia. Qed.

Lemma div_div_4096 : forall c, c / 4096 = (c / 64) / 64.
Proof. intro c. rewrite N.div_div by lia. reflexivity. Qed.

Lemma div_div_262144 : forall c, c / 262144 = ((c / 64) / 64) / 64.
Proof. intro c. rewrite !N.div_div by lia. reflexivity. Qed.

Lemma utf8_decode_char : forall c rest, is_scalar c ->
  utf8_decode (utf8_char c ++ rest) = option_map (cons c) (utf8_decode rest).
Proof.
  intros c rest Hc. unfold is_scalar in Hc. unfold utf8_char.
  destruct (c <? 128) eqn:E1.
  { cbn [app utf8_decode]. rewrite E1. reflexivity. }
  apply N.ltb_ge in E1.
  destruct (c <? 2048) eqn:E2.
  { apply N.ltb_lt in E2.
    assert (Hq : c / 64 < 32) by (apply N.div_lt_upper_bound; lia).
    assert (Hr : c mod 64 < 64) by (apply N.mod_lt; lia).
    pose proof (split64 c) as Hs.
    cbn [app utf8_decode].
    try (replace (192 + c / 64 <? 128) with false by (symmetry; apply N.ltb_ge; absdm; lia)).
    try (replace (192 + c / 64 <? 224) with true by (symmetry; apply N.ltb_lt; absdm; lia)).
    replace ((192 + c / 64 - 192) * 64 + (128 + c mod 64 - 128)) with c by (absdm; lia).
    reflexivity. }
  apply N.ltb_ge in E2.
  destruct (c <? 65536) eqn:E3.
  { apply N.ltb_lt in E3.
    pose proof (split64 c) as Hs. pose proof (split64 (c / 64)) as Hs2.
    pose proof (div_div_4096 c) as Hd.
    assert (Hq : c / 4096 < 16) by (apply N.div_lt_upper_bound; lia).
    assert (Hr1 : (c / 64) mod 64 < 64) by (apply N.mod_lt; lia).
    assert (Hr : c mod 64 < 64) by (apply N.mod_lt; lia).
    cbn [app utf8_decode].
    try (replace (224 + c / 4096 <? 128) with false by (symmetry; apply N.ltb_ge; absdm; lia)).
    try (replace (224 + c / 4096 <? 224) with false by (symmetry; apply N.ltb_ge; absdm; lia)).
    try (replace (224 + c / 4096 <? 240) with true by (symmetry; apply N.ltb_lt; absdm; lia)).
    replace ((224 + c / 4096 - 224) * 4096 + (128 + (c / 64) mod 64 - 128) * 64 + (128 + c mod 64 - 128))
      with c by (rewrite Hd in *; absdm; lia).
    reflexivity. }
  apply N.ltb_ge in E3.
  pose proof (split64 c) as Hs. pose proof (split64 (c / 64)) as Hs2.
  pose proof (split64 (c / 64 / 64)) as Hs3.
  pose proof (div_div_4096 c) as Hd. pose proof (div_div_262144 c) as Hd2.
  assert (Hq : c / 262144 < 5) by (apply N.div_lt_upper_bound; lia).
  assert (Hr2 : (c / 4096) mod 64 < 64) by (apply N.mod_lt; lia).
  assert (Hr1 : (c / 64) mod 64 < 64) by (apply N.mod_lt; lia).
  assert (Hr : c mod 64 < 64) by (apply N.mod_lt; lia).
  cbn [app utf8_decode].
  try (replace (240 + c / 262144 <? 128) with false by (symmetry; apply N.ltb_ge; absdm; lia)).
  try (replace (240 + c / 262144 <? 224) with false by (symmetry; apply N.ltb_ge; absdm; lia)).
  try (replace (240 + c / 262144 <? 240) with false by (symmetry; apply N.ltb_ge; absdm; lia)).
  replace ((240 + c / 262144 - 240) * 262144 + (128 + (c / 4096) mod 64 - 128) * 4096 +
           (128 + (c / 64) mod 64 - 128) * 64 + (128 + c mod 64 - 128)) with c.
  { reflexivity. }
  rewrite Hd in *. rewrite Hd2 in *. absdm. lia.
Qed.

Lemma utf8_decode_encode : forall s, Forall is_scalar s -> utf8_decode (utf8_encode s) = Some s.
Proof.
  induction 1 as [|c l Hc Hl IH]; [reflexivity|].
  unfold utf8_encode in *. cbn [flat_map]. rewrite utf8_decode_char by exact Hc. rewrite IH. reflexivity.
Qed.

(* ---- the statements used by Properties/C18.v ---- *)

Theorem url_roundtrip : forall s, Forall is_scalar s -> url_decode (url_encode s) = Some s.
Proof.
  intros s Hs. unfold url_decode, url_encode.
  rewrite pct_decode_encode by (apply utf8_encode_bytes; exact Hs).
  apply utf8_decode_encode. exact Hs.
Qed.

Theorem url_alphabet : forall s, Forall is_scalar s ->
  Forall (fun c => placeholder_char c = true) (url_encode s).
Proof. intros s Hs. apply pct_encode_alphabet, utf8_encode_bytes, Hs. Qed.

(* neither '*' (42) nor '/' (47) can occur, so the placeholder cannot close the comment *)
Theorem url_no_comment_end : forall s pre post, Forall is_scalar s ->
  url_encode s <> pre ++ [42; 47] ++ post.
Proof.
  intros s pre post Hs E. pose proof (url_alphabet s Hs) as A. rewrite E in A.
  apply Forall_app in A. destruct A as [_ A]. inversion A as [|x l H1 H2]; subst.
  vm_compute in H1. discriminate.
Qed.

Example url_roundtrip_inhabited :
  Forall is_scalar [97; 32; 42; 47; 233; 21517; 128512; 37] /\
  url_encode [97; 32; 42; 47; 233; 21517; 128512; 37]
    = [97; 37;50;48; 37;50;65; 37;50;70; 37;67;51; 37;65;57; 37;69;53; 37;57;48; 37;56;68;
       37;70;48; 37;57;70; 37;57;56; 37;56;48; 37;50;53].
Proof. split; [repeat constructor; unfold is_scalar; lia | vm_compute; reflexivity]. Qed.
