(* C17 / C18: facts about the @import and :host branches of the model, for arbitrary paths,
   bodies, positions, options and prior states; plus the refutation witnesses. *)
From GE Require Import Model.Str Model.CssNum Model.CssTok Model.CssOut Model.CssUrlEnc Model.Css Model.CssSpec.
From GE Require Import Proofs.CssOutProofs Proofs.CssWalkProofs.
From Coq Require Import Lia.
Open Scope N_scope.

(* ---------------------------------------------------------------- @import *)

(* `@import "<path>";` with a sign: exactly one token is written, the placeholder comment
   `<sign> <percent-encoded path>`, at the position right after the at-keyword *)
Lemma import_placeholder_simple : forall o sign spos path p ps r endp st,
  import_try o sign spos (Leaf (TStr path) p :: Leaf TSemi ps :: r) endp st =
  (Some r, tok_at st (TComment (sign ++ [32] ++ url_encode path)) spos None).
Proof. intros. reflexivity. Qed.

Lemma import_placeholder_ws : forall o sign spos path w pw p ps r endp st,
  import_try o sign spos (Leaf (TWs w) pw :: Leaf (TStr path) p :: Leaf TSemi ps :: r) endp st =
  (Some r, tok_at st (TComment (sign ++ [32] ++ url_encode path)) spos None).
Proof. intros. reflexivity. Qed.

(* the url forms (accepted since fix eb11eee): url token and url("...") function *)
Lemma import_placeholder_url : forall o sign spos path w pw p ps r endp st,
  import_try o sign spos (Leaf (TWs w) pw :: Leaf (TUrl path) p :: Leaf TSemi ps :: r) endp st =
  (Some r, tok_at st (TComment (sign ++ [32] ++ url_encode path)) spos None).
Proof. intros. reflexivity. Qed.

Lemma import_placeholder_url_fn : forall o sign spos path w pw p ps pf e c r endp st,
  import_try o sign spos
    (Leaf (TWs w) pw :: Block (TFunc s_url) pf [Leaf (TStr path) p] e c :: Leaf TSemi ps :: r) endp st =
  (Some r, tok_at st (TComment (sign ++ [32] ++ url_encode path)) spos None).
Proof. intros. reflexivity. Qed.

(* with a media query the placeholder is wrapped in `@media <query> { ... }`, opened and closed
   exactly once *)
Lemma import_placeholder_media : forall o sign spos path p q pq ps r endp st,
  str_eqb_ci q s_layer = false ->
  import_try o sign spos (Leaf (TStr path) p :: Leaf (TIdent q) pq :: Leaf TSemi ps :: r) endp st =
  (Some r,
   tok_at (tok_at (tok_at (tok_at (tok_at st (TAt s_media) spos None) (TIdent q) pq None)
                          TCurly spos None)
                  (TComment (sign ++ [32] ++ url_encode path)) spos None)
          TCloseCurly spos None).
Proof.
  intros o sign spos path p q pq ps r endp st H. unfold import_try, import_target.
  cbn [skip_ws node_tok is_ws_or_comment import_conds]. rewrite H. reflexivity.
Qed.

(* the bare `layer` keyword directly after the target opens an anonymous `@layer { }` wrapper
   (fix 89a064d; before it the keyword was read as a media type) *)
Lemma import_placeholder_bare_layer : forall o sign spos path p q pq ps r endp st,
  str_eqb_ci q s_layer = true ->
  import_try o sign spos (Leaf (TStr path) p :: Leaf (TIdent q) pq :: Leaf TSemi ps :: r) endp st =
  (Some r,
   tok_at (tok_at (tok_at (tok_at st (TAt q) pq (Some (TIdent q))) TCurly pq None)
                  (TComment (sign ++ [32] ++ url_encode path)) spos None)
          TCloseCurly pq None).
Proof.
  intros o sign spos path p q pq ps r endp st H. unfold import_try, import_target.
  cbn [skip_ws node_tok is_ws_or_comment import_conds]. rewrite H. reflexivity.
Qed.

(* `layer(..)` in any letter case: one `@layer <name> { }` wrapper (fix 33fc779) *)
Lemma import_placeholder_layer_fn : forall o sign spos path p x px body be cl ps r endp st,
  str_eqb_ci x s_layer = true ->
  import_try o sign spos (Leaf (TStr path) p :: Block (TFunc x) px body be cl :: Leaf TSemi ps :: r) endp st =
  (Some r,
   tok_at (tok_at (tok_at (rpx_body o false body None (tok_at st (TAt x) px (Some (TFunc x)))) TCurly px None)
                  (TComment (sign ++ [32] ++ url_encode path)) spos None)
          TCloseCurly px None).
Proof.
  intros o sign spos path p x px body be cl ps r endp st H. unfold import_try, import_target.
  cbn [skip_ws node_tok is_ws_or_comment import_conds]. rewrite H. reflexivity.
Qed.

(* without an import sign `@import` is an ordinary at-rule: it goes through the generic
   prelude walker *)
Lemma import_passthrough : forall o rec p r endp at_start st,
  import_sign o = None ->
  at_rule o rec (Leaf (TAt s_import) p :: r) endp at_start st =
  Some (at_prelude o rec false (o_mark (cur_out st)) r (tok_at st (TAt s_import) p None)).
Proof.
  intros o rec p r endp at_start st H. unfold at_rule.
  replace (str_eqb_ci s_import s_import) with true by reflexivity. rewrite H. reflexivity.
Qed.

(* ... and its `layer(a.b)` is written by the value walker: the layer name is not a class (fix in /repo: the generic
   prelude loop used the class-name converter for every function) *)
Lemma import_passthrough_layer : forall o rec contain mark path p x px body be cl ps r st,
  str_eqb_ci x s_layer = true ->
  at_prelude o rec contain mark (Leaf (TStr path) p :: Block (TFunc x) px body be cl :: Leaf TSemi ps :: r) st =
  (r, tok_at (tok_at (rpx_body o false body None (tok_at (tok_at st (TStr path) p None) (TFunc x) px None))
                     TCloseParen px None) TSemi ps None).
Proof.
  intros o rec contain mark path p x px body be cl ps r st H.
  cbn [at_prelude node_tok is_ws_or_comment is_layer_fn close_of]. rewrite H. reflexivity.
Qed.

(* an import that is not first in its rule list is flagged *)
Lemma import_position_warning : forall o rec sign p r endp st,
  import_sign o = Some sign ->
  exists rest st',
    at_rule o rec (Leaf (TAt s_import) p :: r) endp false st = Some (rest, st') /\
    exists st0, w_warns st0 = mkwarn W_IMPORT_POS (cur_pos r endp) :: w_warns st /\
                st' = snd (import_try o sign (cur_pos r endp) r endp st0).
Proof.
  intros o rec sign p r endp st H. unfold at_rule.
  replace (str_eqb_ci s_import s_import) with true by reflexivity. rewrite H.
  destruct (import_try o sign (cur_pos r endp) r endp (warn st W_IMPORT_POS (cur_pos r endp))) as [[rest|] s1] eqn:E.
  - exists rest, s1. split; [reflexivity|]. exists (warn st W_IMPORT_POS (cur_pos r endp)). split; [reflexivity|]. rewrite E. reflexivity.
  - eexists _, s1. split; [reflexivity|]. exists (warn st W_IMPORT_POS (cur_pos r endp)). split; [reflexivity|]. rewrite E. reflexivity.
Qed.

(* the "start of the sheet" survives `@import` / `@charset` rules (any letter case) and nothing else
   (fix 73ca189: every import after the first used to be flagged) *)
Lemma import_start_survives : forall f o x p r endp st rest st',
  str_eqb_ci x s_import || str_eqb_ci x s_charset = true ->
  at_rule o (fun body be s => rules f o body be false s) (Leaf (TAt x) p :: r) endp true st = Some (rest, st') ->
  rules (S f) o (Leaf (TAt x) p :: r) endp true st = rules f o rest endp true st'.
Proof.
  intros f o x p r endp st rest st' Hx E. cbn [rules skip_ws node_tok is_ws_or_comment].
  rewrite E. unfold keeps_start. rewrite Hx. reflexivity.
Qed.

Lemma import_start_lost : forall f o x p r endp at_start st rest st',
  str_eqb_ci x s_import || str_eqb_ci x s_charset = false ->
  at_rule o (fun body be s => rules f o body be false s) (Leaf (TAt x) p :: r) endp at_start st = Some (rest, st') ->
  rules (S f) o (Leaf (TAt x) p :: r) endp at_start st = rules f o rest endp false st'.
Proof.
  intros f o x p r endp at_start st rest st' Hx E. cbn [rules skip_ws node_tok is_ws_or_comment].
  rewrite E. unfold keeps_start. rewrite Hx. destruct at_start; reflexivity.
Qed.

(* a qualified rule ends the start of the sheet *)
Lemma qrule_start_lost : forall f o l endp at_start st,
  skip_ws l <> [] -> at_rule o (fun body be s => rules f o body be false s) (skip_ws l) endp at_start st = None ->
  rules (S f) o l endp at_start st =
  rules f o (fst (qrule o (skip_ws l) endp st)) endp false (snd (qrule o (skip_ws l) endp st)).
Proof.
  intros f o l endp at_start st Hne E. cbn [rules].
  destruct (skip_ws l) as [|x r] eqn:El; [contradiction|]. rewrite E.
  assert (K : keeps_start (x :: r) = false).
  { unfold at_rule in E. destruct x as [t p|? ? ? ? ?]; [|reflexivity]. destruct t; try reflexivity.
    destruct (if str_eqb_ci s s_import then import_sign o else None);
      [destruct (import_try o s0 (cur_pos r endp) r endp _) as [[?|] ?]; discriminate | discriminate]. }
  rewrite K, Bool.andb_false_r. destruct (qrule o (x :: r) endp st) as [rest st']. reflexivity.
Qed.

(* full statement: whatever form the target has (string, url token), the placeholder carrying
   the path appears in the normal output *)
Definition tok_is_comment (s : str) (t : tok) : bool :=
  match t with TComment c => str_eqb c s | _ => false end.

Definition import_sheet (target : tok) : list node :=
  [Leaf (TAt s_import) (mkpos 0 0); Leaf (TWs [32]) (mkpos 0 7); Leaf target (mkpos 0 8); Leaf TSemi (mkpos 0 20)].

Definition import_opts (sign : str) : opts := mkopts None None 1144750080 (Some sign) false None.

Definition C18_import_any_target_full : Prop :=
  forall sign path target, (target = TStr path \/ target = TUrl path) ->
    existsb (tok_is_comment (sign ++ [32] ++ url_encode path))
            (o_tokens (w_normal (transform (import_opts sign) (import_sheet target) (mkpos 0 21)))) = true.

Lemma str_eqb_refl : forall s, str_eqb s s = true.
Proof. induction s as [|c s IH]; [reflexivity|]. cbn [str_eqb]. rewrite N.eqb_refl, IH. reflexivity. Qed.

(* History: before fix eb11eee `@import url(foo.wxss);` was dropped (D17) and this statement was
   refuted by that witness; the model mirrors the repaired code and the statement is a theorem. *)
Theorem import_any_target : C18_import_any_target_full.
Proof.
  intros sign path target Ht. unfold transform, import_sheet, import_opts.
  cbn [nodes_size fold_right node_size Nat.add].
  cbn [rules skip_ws node_tok is_ws_or_comment at_rule import_sign].
  replace (str_eqb_ci s_import s_import) with true by reflexivity.
  cbn [cur_pos node_pos].
  assert (E : import_try (import_opts sign) sign (mkpos 0 7)
                [Leaf (TWs [32]) (mkpos 0 7); Leaf target (mkpos 0 8); Leaf TSemi (mkpos 0 20)] (mkpos 0 21) w_init =
              (Some [], tok_at w_init (TComment (sign ++ [32] ++ url_encode path)) (mkpos 0 7) None)).
  { destruct Ht as [-> | ->]; reflexivity. }
  unfold import_opts in E. rewrite E.
  cbn [rules skip_ws].
  unfold tok_at, emit, w_init. cbn [w_using_low w_normal apply_op].
  unfold append_token, o_init. cbn [o_prev needs_separator ser_type].
  unfold o_tokens, push_text, add_entry, set_prev. cbn [o_toks rev_append rev app existsb tok_is_comment].
  rewrite str_eqb_refl. reflexivity.
Qed.

Example import_any_target_former_witness :
  map ser_tok (o_tokens (w_normal (transform (import_opts [73]) (import_sheet (TUrl [102;111;111])) (mkpos 0 21))))
  = [[47;42;73;32;102;111;111;42;47]].
Proof. vm_compute. reflexivity. Qed.

(* wrappers: full statement "the braces written for an @import are balanced" is refuted for
   malformed conditions: output written before a failing `try_parse` is not rolled back *)
Definition count_tok (f : tok -> bool) (l : list tok) : nat := length (filter f l).
Definition is_open_curly (t : tok) : bool := match t with TCurly => true | _ => false end.
Definition is_close_curly (t : tok) : bool := match t with TCloseCurly => true | _ => false end.

Definition braces_balanced (st : ostate) : bool :=
  Nat.eqb (count_tok is_open_curly (o_tokens st)) (count_tok is_close_curly (o_tokens st)).

Definition C18_import_braces_balanced_full : Prop :=
  forall o tree endp, braces_balanced (w_normal (transform o tree endp)) = true.

(* @import 'a' layer(x) 5; *)
Definition unbalanced_import : list node :=
  [Leaf (TAt s_import) (mkpos 0 0); Leaf (TWs [32]) (mkpos 0 7); Leaf (TStr [97]) (mkpos 0 8);
   Leaf (TWs [32]) (mkpos 0 11);
   Block (TFunc s_layer) (mkpos 0 12) [Leaf (TIdent [120]) (mkpos 0 18)] (mkpos 0 19) true;
   Leaf (TWs [32]) (mkpos 0 20);
   Leaf (TNum (mknum false (Some 5%Z) 1084227584 [53])) (mkpos 0 21); Leaf TSemi (mkpos 0 22)].

Theorem import_braces_balanced_refuted : ~ C18_import_braces_balanced_full.
Proof.
  intro H. specialize (H (import_opts [73]) unbalanced_import (mkpos 0 23)). vm_compute in H. discriminate.
Qed.

(* ---------------------------------------------------------------- :host *)

(* with host conversion off a qualified rule never reaches the host branch *)
Lemma host_off_identity : forall o l endp st,
  convert_host o = false -> qrule o l endp st = qr_loop o (skip_ws l) false false st.
Proof. intros o l endp st H. unfold qrule, qr_main. rewrite H. reflexivity. Qed.

(* a pure `:host { ... }` rule: everything goes through host_emit *)
Lemma host_pure_rule : forall o pc ph pb body be cl rest endp st,
  convert_host o = true ->
  qrule o (Leaf TColon pc :: Leaf (TIdent s_host) ph :: Block TCurly pb body be cl :: rest) endp st =
  (rest, host_emit o st pb body).
Proof. intros o pc ph pb body be cl rest endp st H. unfold qrule. rewrite H. reflexivity. Qed.

(* `:host` followed by anything else before the block: rule dropped, warning, nothing written *)
Lemma host_combined_dropped_with_warning : forall o pc ph x px pb body be cl rest endp st,
  convert_host o = true -> is_ws_or_comment x = false ->
  qrule o (Leaf TColon pc :: Leaf (TIdent s_host) ph :: Leaf x px :: Block TCurly pb body be cl :: rest) endp st =
  (rest, warn st W_HOST pb).
Proof.
  intros o pc ph x px pb body be cl rest endp st H Hx. unfold qrule. rewrite H.
  unfold host_try_parse. cbn [skip_ws skip_comments node_tok is_ws_or_comment is_comment].
  replace (str_eqb_ci s_host s_host) with true by reflexivity.
  cbn [host_scan node_tok]. rewrite Hx. cbn [host_scan node_tok is_ws_or_comment keep_first pos_after cur_pos node_pos].
  destruct x; try discriminate; reflexivity.
Qed.

(* `: host` (whitespace after the colon) is not `:host`: the rule is an ordinary qualified rule
   (fix bdd7adf; before it the rule was converted, D26) *)
Lemma host_spaced_not_converted : forall o pc w pw r endp st,
  qrule o (Leaf TColon pc :: Leaf (TWs w) pw :: r) endp st =
  qr_main o (Leaf TColon pc :: Leaf (TWs w) pw :: r) endp st.
Proof.
  intros o pc w pw r endp st. unfold qrule. cbn [skip_ws node_tok is_ws_or_comment].
  destruct (convert_host o); reflexivity.
Qed.

(* a comment between the colon and `host` does not separate the tokens *)
Lemma host_comment_still_host : forall o pc c pcm ph pb body be cl rest endp st,
  convert_host o = true ->
  qrule o (Leaf TColon pc :: Leaf (TComment c) pcm :: Leaf (TIdent s_host) ph :: Block TCurly pb body be cl :: rest) endp st =
  (rest, host_emit o st pb body).
Proof. intros o pc c pcm ph pb body be cl rest endp st H. unfold qrule. rewrite H. reflexivity. Qed.

(* while the low-priority output is selected, the value walker writes to it only *)
Lemma emit_low_mode : forall st o, w_using_low st = true ->
  w_normal (emit st o) = w_normal st /\ w_using_low (emit st o) = true /\ w_stack (emit st o) = w_stack st.
Proof. intros st o H. unfold emit. rewrite H. cbn. auto. Qed.

Definition low_mode_same (st st' : wstate) : Prop :=
  w_normal st' = w_normal st /\ w_using_low st' = true /\ w_stack st' = w_stack st.

Lemma low_mode_refl : forall st, w_using_low st = true -> low_mode_same st st.
Proof. intros st H. unfold low_mode_same. auto. Qed.

Lemma low_mode_trans : forall a b c, low_mode_same a b -> low_mode_same b c -> low_mode_same a c.
Proof. intros a b c [A1 [A2 A3]] [B1 [B2 B3]]. unfold low_mode_same. rewrite B1, A1, B3, A3. auto. Qed.

Lemma low_mode_emit : forall st o, w_using_low st = true -> low_mode_same st (emit st o).
Proof. intros. apply emit_low_mode. assumption. Qed.

Lemma low_mode_step : forall st0 st o, low_mode_same st0 st -> low_mode_same st0 (emit st o).
Proof. intros st0 st o H. eapply low_mode_trans; [exact H|]. apply low_mode_emit. apply H. Qed.

Lemma low_mode_dim : forall o st0 st n u p, low_mode_same st0 st -> low_mode_same st0 (write_maybe_rpx_dimension o st n u p).
Proof. intros. unfold write_maybe_rpx_dimension, tok_at. destruct (str_eqb u s_rpx); apply low_mode_step; assumption. Qed.

Lemma low_mode_rpx_body : forall o l in_calc prev st0 st,
  low_mode_same st0 st -> low_mode_same st0 (rpx_body o in_calc l prev st).
Proof.
  intros o l.
  remember (nodes_size l) as n eqn:Hn. revert l Hn.
  induction n as [n IHn] using (well_founded_induction Wf_nat.lt_wf).
  intros l Hn. destruct l as [|x r]; intros in_calc prev st0 st H; [exact H|].
  cbn [rpx_body].
  assert (Hr : forall ic pv s, low_mode_same st0 s -> low_mode_same st0 (rpx_body o ic r pv s)).
  { intros. eapply (IHn (nodes_size r)); [|reflexivity|assumption]. subst n. apply size_tail. }
  destruct (is_comment (node_tok x)); [apply Hr; exact H|].
  destruct (is_ws (node_tok x) && negb in_calc); [apply Hr; exact H|].
  apply Hr.
  destruct x as [t p | open p body endp closed].
  - destruct t; try (apply low_mode_step; exact H).
    + apply low_mode_dim; exact H.
    + destruct (is_plus_minus (first_noncomment r) || is_plus_minus prev); [apply low_mode_step|]; exact H.
  - unfold tok_at. apply low_mode_step.
    eapply (IHn (nodes_size body)); [|reflexivity|apply low_mode_step; exact H].
    subst n. apply size_body.
Qed.

(* the normal output is untouched by the conversion of a `:host` rule, whatever its body *)
Theorem host_emit_normal_unchanged : forall o st p body,
  w_normal (host_emit o st p body) = w_normal st.
Proof.
  intros o st p body. unfold host_emit.
  set (s0 := set_using_low st true).
  assert (L0 : forall (items : list (str * list tok)) s, w_normal (fold_left
             (fun s item => emit_low (emit_low s (OpRaw (fst item) (snd item))) (OpRaw s_open [TCurly])) items s) = w_normal s
             /\ w_using_low (fold_left
             (fun s item => emit_low (emit_low s (OpRaw (fst item) (snd item))) (OpRaw s_open [TCurly])) items s) = w_using_low s
             /\ w_stack (fold_left
             (fun s item => emit_low (emit_low s (OpRaw (fst item) (snd item))) (OpRaw s_open [TCurly])) items s) = w_stack s).
  { induction items as [|it items IH]; intro s; [auto|]. cbn [fold_left]. destruct (IH (emit_low (emit_low s (OpRaw (fst it) (snd it))) (OpRaw s_open [TCurly]))) as [A [B C]].
    rewrite A, B, C. auto. }
  assert (L1 : forall (A : Type) (items : list A) s, w_normal (fold_left (fun s _ => emit_low s (OpRaw s_close [TCloseCurly])) items s) = w_normal s).
  { induction items as [|it items IH]; intro s; [reflexivity|]. cbn [fold_left]. rewrite IH. reflexivity. }
  unfold low_close_wrappers. cbn [set_using_low w_normal]. rewrite L1.
  set (s1 := low_open_wrappers s0).
  assert (H1 : low_mode_same s0 s1).
  { unfold s1, low_open_wrappers. destruct (L0 (w_stack s0) s0) as [A [B C]]. unfold low_mode_same. rewrite A, B, C. auto. }
  assert (H2 : forall s, low_mode_same s0 s -> forall n v q, low_mode_same s0 (write_attr_selector s n v q)).
  { intros s Hs n v q. unfold write_attr_selector, tok_at. repeat apply low_mode_step. exact Hs. }
  assert (H3 : low_mode_same s0
     (tok_at (rpx_body o false body None
        (tok_at (match host_is o with
                 | Some h => write_attr_selector (tok_at (write_attr_selector s1 s_wx_host
                               (match class_prefix o with Some x => x | None => [] end) p) TComma p None) s_is h p
                 | None => write_attr_selector s1 s_wx_host (match class_prefix o with Some x => x | None => [] end) p
                 end) TCurly p None)) TCloseCurly p None)).
  { unfold tok_at at 1. apply low_mode_step. apply low_mode_rpx_body. unfold tok_at at 1. apply low_mode_step.
    destruct (host_is o); [apply H2; unfold tok_at; apply low_mode_step; apply H2; exact H1 | apply H2; exact H1]. }
  destruct H3 as [A _]. rewrite A. reflexivity.
Qed.

Example host_pure_rule_inhabited :
  let o := mkopts (Some [112]) None 1144750080 None true (Some [104]) in
  let body := [Leaf (TIdent [97]) (mkpos 0 7); Leaf TColon (mkpos 0 8);
               Leaf (TDim (mknum false (Some 75%Z) 1117126656 [55;53]) s_rpx) (mkpos 0 9)] in
  let tree := [Leaf TColon (mkpos 0 0); Leaf (TIdent s_host) (mkpos 0 1);
               Block TCurly (mkpos 0 5) body (mkpos 0 14) true] in
  o_text (w_normal (transform o tree (mkpos 0 15))) = [] /\
  map ser_tok (o_tokens (w_low (transform o tree (mkpos 0 15)))) =
    map ser_tok [TSquare; TIdent s_wx_host; TDelim 61; TStr [112]; TCloseSquare; TComma;
                 TSquare; TIdent s_is; TDelim 61; TStr [104]; TCloseSquare; TCurly;
                 TIdent [97]; TColon; TDim (mknum false (Some 10%Z) 1092616192 []) s_vw; TCloseCurly].
Proof. vm_compute. split; reflexivity. Qed.
