(* The generator model keeps, next to the text, the tree it prints (g_js). This file proves:
   T1 the tree prints to exactly the emitted text;
   T2 every operand position of the tree respects the ECMAScript precedence requirement;
   T3 the tree evaluates to the value of the source expression (given the hoisted variables hold
      the values of their expressions). *)
From GE Require Import Model.JsSem Model.Upt Model.LvPath Proofs.UptProofs Proofs.ExprGenProofs Proofs.LvPathProofs.
From Coq Require Import Lia ZifyBool ZifyN.
Import ListNotations.
Local Open Scope N_scope.

(* integer literals are written without a sign (the scanner only accumulates digits; a leading
   `-` is the unary operator) *)
Fixpoint nn (e : expr) : Prop :=
  match e with
  | EInt z => (0 <= z)%Z
  | EToStr v | EUn _ v => nn v
  | EMember o _ => nn o
  | EIndex o k => nn o /\ nn k
  | EBin _ l r => nn l /\ nn r
  | ECond c t f => nn c /\ nn t /\ nn f
  | ECall f _ => nn f
  | _ => True
  end.

Section Twin.
  Variable scopes : list scope_var.
  Variable lit_str : str -> str.
  Notation core := (gen_core scopes lit_str).
  Notation pr := (print_js lit_str).

  Lemma print_wrapg : forall a l r,
    pr (g_js (snd r)) = g_val (snd r) -> pr (g_js (snd (wrapg a l r))) = g_val (snd (wrapg a l r)).
  Proof.
    intros a l [st o] H. cbn [wrapg snd g_js g_val] in *. destruct (a <? l); cbn [print_js paren_if]; now rewrite H.
  Qed.

  Lemma gen_core_obj : forall fs st,
    core (EObj fs) st =
    let '(st1, s, need_assign, subs) := gen_obj scopes lit_str fs st [] false false [] in
    let v := if need_assign then lit "Object.assign({" ++ s ++ lit "})" else lit "{" ++ s ++ lit "}" in
    (st1, {| g_val := v; g_pas := Some (PPath (HObj subs) []); g_calc := []; g_js := JOpaque L_Member v |}).
  Proof. reflexivity. Qed.
  Lemma gen_core_arr : forall fs st,
    core (EArr fs) st =
    let '(st1, s, need_concat, items, spread) := gen_arr scopes lit_str fs st [] false false [] [] in
    let v := if need_concat then lit "[].concat([" ++ s ++ lit "])" else lit "[" ++ s ++ lit "]" in
    (st1, {| g_val := v; g_pas := Some (PPath (HArr items spread) []); g_calc := []; g_js := JOpaque L_Member v |}).
  Proof. reflexivity. Qed.
  Lemma gen_core_call : forall f args st,
    core (ECall f args) st =
    let '(st1, of) := wrapg L_Cond (pg_level f) (core f st) in
    let of := end_path of in
    let '(st2, s, calc) := gen_args scopes lit_str args st1 true in
    let v := lit "P(" ++ g_val of ++ lit ")(" ++ s ++ lit ")" in
    (st2, {| g_val := v; g_pas := None; g_calc := g_calc of ++ calc; g_js := JOpaque L_Member v |}).
  Proof. reflexivity. Qed.

  Ltac step :=
    match goal with
    | |- context [gen_private ?s] => destruct (gen_private s) as [? ?]
    | IH : (forall st, print_js _ (g_js (snd (gen_core _ _ ?x st))) = _)
      |- context [wrapg ?al (pg_level ?x) (gen_core _ _ ?x ?s)] =>
        let H := fresh "Hp" in
        pose proof (print_wrapg al (pg_level x) _ (IH s)) as H;
        destruct (wrapg al (pg_level x) (gen_core scopes lit_str x s)) as [? ?]; cbn [snd] in H
    end; cbn [fst snd].

  Ltac finish :=
    cbn [snd g_js g_val end_path print_js] in *;
    repeat match goal with H : print_js _ _ = _ |- _ => rewrite H; clear H end; reflexivity.

  (* T1, for every expression form *)
  Theorem text_twin : forall e st, pr (g_js (snd (core e st))) = g_val (snd (core e st)).
  Proof.
    induction e using expr_mut with (P0 := fun _ => True) (P1 := fun _ => True) (P2 := fun _ => True);
      try exact I; intros st;
      try (rewrite gen_core_obj;
           match goal with |- context [gen_obj scopes lit_str ?fs st [] false false []] =>
             destruct (gen_obj scopes lit_str fs st [] false false []) as [[[? ?] ?] ?] end; reflexivity);
      try (rewrite gen_core_arr;
           match goal with |- context [gen_arr scopes lit_str ?fs st [] false false [] []] =>
             destruct (gen_arr scopes lit_str fs st [] false false [] []) as [[[[? ?] ?] ?] ?] end; reflexivity);
      try (rewrite gen_core_call;
           match goal with |- context [wrapg ?al ?lv (core ?x st)] => destruct (wrapg al lv (core x st)) as [? ?] end;
           cbv zeta;
           match goal with |- context [gen_args scopes lit_str ?a ?s true] =>
             destruct (gen_args scopes lit_str a s true) as [[? ?] ?] end; reflexivity);
      try (match goal with |- context [EBin ?op _ _] => destruct op end);
      cbn [gen_core]; repeat step; try finish.
  Qed.

  (* the construct emitted for e belongs to a grammar level no looser than the level the
     generator's tables assume for e (pg_level) *)
  Lemma jlevel_le_pg : forall e st, nn e -> jlevel_lit_aware (g_js (snd (core e st))) <= pg_level e.
  Proof.
    intros e st Hn. destruct e;
      try (rewrite gen_core_obj;
           match goal with |- context [gen_obj scopes lit_str ?fs st [] false false []] =>
             destruct (gen_obj scopes lit_str fs st [] false false []) as [[[? ?] ?] ?] end; cbn; lia);
      try (rewrite gen_core_arr;
           match goal with |- context [gen_arr scopes lit_str ?fs st [] false false [] []] =>
             destruct (gen_arr scopes lit_str fs st [] false false [] []) as [[[[? ?] ?] ?] ?] end; cbn; lia);
      try (rewrite gen_core_call;
           match goal with |- context [wrapg ?al ?lv (core ?x st)] => destruct (wrapg al lv (core x st)) as [? ?] end;
           cbv zeta;
           match goal with |- context [gen_args scopes lit_str ?a ?s true] =>
             destruct (gen_args scopes lit_str a s true) as [[? ?] ?] end; cbn; lia);
      try (match goal with |- context [EBin ?op _ _] => destruct op end);
      cbn [gen_core];
      repeat match goal with
             | |- context [gen_private ?s] => destruct (gen_private s) as [? ?]
             | |- context [wrapg ?al ?lv (gen_core _ _ ?x ?s)] => destruct (wrapg al lv (gen_core scopes lit_str x s)) as [? ?]
             end;
      cbn [snd g_js jlevel_lit_aware jlevel pg_level binop_level]; try lia.
    - cbn in Hn. destruct z; cbn; lia.
  Qed.

  Lemma wf_wrapg : forall a e st,
    nn e -> wf_prec (g_js (snd (core e st))) ->
    wf_prec (g_js (snd (wrapg a (pg_level e) (core e st)))) /\
    jlevel_lit_aware (g_js (snd (wrapg a (pg_level e) (core e st)))) <= a.
  Proof.
    intros a e st Hn Hw. pose proof (jlevel_le_pg e st Hn) as Hl.
    destruct (core e st) as [st1 o]. cbn [wrapg snd g_js] in *.
    destruct (N.ltb_spec a (pg_level e)); cbn [wf_prec jlevel_lit_aware jlevel]; split; try assumption; unfold L_Lit; lia.
  Qed.

  Ltac unfold_levels :=
    unfold L_Lit, L_Member, L_Unary, L_Multiply, L_Plus, L_Shift, L_Comparison, L_Eq, L_BitAnd, L_BitXor,
           L_BitOr, L_LogicAnd, L_LogicOr, L_Cond in *.

  Ltac step2 :=
    match goal with
    | |- context [gen_private ?s] => destruct (gen_private s) as [? ?]
    | IH : (forall st, nn ?x -> wf_prec (g_js (snd (gen_core _ _ ?x st)))), Hn : nn ?x
      |- context [wrapg ?al (pg_level ?x) (gen_core _ _ ?x ?s)] =>
        let Hw := fresh "Hw" in let Hl := fresh "Hl" in
        destruct (wf_wrapg al x s Hn (IH s Hn)) as [Hw Hl];
        destruct (wrapg al (pg_level x) (gen_core scopes lit_str x s)) as [? ?]; cbn [snd] in Hw, Hl
    end; cbn [fst snd].

  (* T2: every operand of a unary / binary operator in the emitted tree is of a level the
     grammar admits at that position (otherwise it has been parenthesised) *)
  Theorem emitted_respects_precedence : forall e st, nn e -> wf_prec (g_js (snd (core e st))).
  Proof.
    induction e using expr_mut with (P0 := fun _ => True) (P1 := fun _ => True) (P2 := fun _ => True);
      try exact I; intros st Hn;
      try (rewrite gen_core_obj;
           match goal with |- context [gen_obj scopes lit_str ?fs st [] false false []] =>
             destruct (gen_obj scopes lit_str fs st [] false false []) as [[[? ?] ?] ?] end; exact I);
      try (rewrite gen_core_arr;
           match goal with |- context [gen_arr scopes lit_str ?fs st [] false false [] []] =>
             destruct (gen_arr scopes lit_str fs st [] false false [] []) as [[[[? ?] ?] ?] ?] end; exact I);
      try (rewrite gen_core_call;
           match goal with |- context [wrapg ?al ?lv (core ?x st)] => destruct (wrapg al lv (core x st)) as [? ?] end;
           cbv zeta;
           match goal with |- context [gen_args scopes lit_str ?a ?s true] =>
             destruct (gen_args scopes lit_str a s true) as [[? ?] ?] end; exact I);
      cbn [nn] in Hn; repeat match goal with H : _ /\ _ |- _ => destruct H end;
      try (match goal with |- context [EBin ?op _ _] => destruct op end);
      cbn [gen_core]; repeat step2;
      cbn [snd g_js end_path wf_prec binop_level binop_left_allow binop_right_allow] in *;
      unfold_levels; repeat split; try assumption; try exact I; try lia.
  Qed.
End Twin.

Section Sem.
  Variable scopes : list scope_var.
  Variable lit_str : str -> str.
  Variable ev : env.
  Variable henv : str -> option val.
  Notation core := (gen_core scopes lit_str).
  Notation je := (jeval ev henv).

  Definition sem_ok (e : expr) : Prop :=
    forall st, hv_ok (hoists (fst (core e st))) henv ev -> je (g_js (snd (core e st))) = eval ev e.

  Lemma je_wrapg : forall a l r, je (g_js (snd (wrapg a l r))) = je (g_js (snd r)).
  Proof. intros a l [st o]. cbn [wrapg snd g_js]. destruct (a <? l); reflexivity. Qed.

  Lemma sub_sem : forall e a st, sem_ok e ->
    hv_ok (hoists (fst (wrapg a (pg_level e) (core e st)))) henv ev ->
    je (g_js (snd (wrapg a (pg_level e) (core e st)))) = eval ev e.
  Proof. intros e a st G Hh. rewrite fst_wrapg in Hh. rewrite je_wrapg. now apply G. Qed.

  Lemma mono : forall e a st, frag e -> incl (hoists st) (hoists (fst (wrapg a (pg_level e) (core e st)))).
  Proof. intros. apply (mono_wrapg scopes lit_str henv ev). assumption. Qed.

  Ltac lits := intros st _; reflexivity.

  Theorem generator_preserves_value : forall e, frag e -> sem_ok e.
  Proof.
    induction 1 as [x|i| | |s|z|t|b|v Hv IHv|o k Ho IHo|o k Ho IHo Hk IHk|op v Hv IHv|op l r Hl IHl Hr IHr|c t f Hc IHc Ht IHt Hf IHf].
    - lits. - lits. - lits. - lits. - lits. - lits. - lits. - lits.
    - (* EToStr *)
      intros st. cbn [gen_core]. pose proof (sub_sem v L_Cond st IHv) as Hs.
      destruct (wrapg L_Cond (pg_level v) (core v st)) as [st1 o1]. cbn [fst snd g_js end_path jeval eval] in *.
      intros Hh. now rewrite (Hs Hh).
    - (* EMember *)
      intros st. cbn [gen_core]. pose proof (sub_sem o L_Cond st IHo) as Hs.
      destruct (wrapg L_Cond (pg_level o) (core o st)) as [st1 o1]. cbn [fst snd g_js jeval eval] in *.
      intros Hh. now rewrite (Hs Hh).
    - (* EIndex *)
      intros st. cbn [gen_core]. destruct (gen_private st) as [ident st0].
      pose proof (mono k L_Cond st0 Hk) as Hi1. pose proof (sub_sem k L_Cond st0 IHk) as Hsk.
      destruct (wrapg L_Cond (pg_level k) (core k st0)) as [st1 ok]. cbn [fst snd] in *.
      match goal with |- context [emit_hoist ?a ?b ?c ?d ?g] => set (st2 := emit_hoist a b c d g) end.
      pose proof (mono o L_Cond st2 Ho) as Hi2. pose proof (sub_sem o L_Cond st2 IHo) as Hso.
      destruct (wrapg L_Cond (pg_level o) (core o st2)) as [st3 oo]. cbn [fst snd g_js jeval eval] in *.
      intros Hh. rewrite (Hso Hh).
      assert (Hid : henv ident = eval ev k) by (apply Hh, Hi2, in_emit_hoist).
      now rewrite Hid.
    - (* EUn *)
      intros st. cbn [gen_core]. pose proof (sub_sem v L_Unary st IHv) as Hs.
      destruct (wrapg L_Unary (pg_level v) (core v st)) as [st1 o1]. cbn [fst snd g_js end_path jeval eval] in *.
      intros Hh. now rewrite (Hs Hh).
    - (* EBin *)
      intros st.
      destruct op; cbn [gen_core];
        try (match goal with |- context [wrapg ?a (pg_level l) (core l st)] =>
               pose proof (mono l a st Hl) as Hi1; pose proof (sub_sem l a st IHl) as Hsl;
               destruct (wrapg a (pg_level l) (core l st)) as [st1 ol] end;
             cbn [fst snd] in *;
             match goal with |- context [wrapg ?a (pg_level r) (core r ?s)] =>
               pose proof (mono r a s Hr) as Hi2; pose proof (sub_sem r a s IHr) as Hsr;
               destruct (wrapg a (pg_level r) (core r s)) as [st2 or] end;
             cbn [fst snd g_js end_path jeval eval] in *;
             intros Hh; rewrite (Hsr Hh), (Hsl (hv_ok_incl _ _ _ _ Hi2 Hh)); reflexivity).
      (* ?? *)
      destruct (gen_private st) as [ident st0].
      pose proof (mono l L_Cond st0 Hl) as Hi1. pose proof (sub_sem l L_Cond st0 IHl) as Hsl.
      destruct (wrapg L_Cond (pg_level l) (core l st0)) as [st1 ol]. cbn [fst snd] in *.
      match goal with |- context [emit_hoist ?a ?b ?c ?d ?g] => set (st2 := emit_hoist a b c d g) end.
      pose proof (mono r L_Cond st2 Hr) as Hi2. pose proof (sub_sem r L_Cond st2 IHr) as Hsr.
      destruct (wrapg L_Cond (pg_level r) (core r st2)) as [st3 or]. cbn [fst snd g_js end_path jeval eval] in *.
      intros Hh. rewrite (Hsr Hh).
      assert (Hid : henv ident = eval ev l) by (apply Hh, Hi2, in_emit_hoist).
      now rewrite Hid.
    - (* ECond *)
      intros st. cbn [gen_core]. destruct (gen_private st) as [ident st0].
      pose proof (mono c L_Cond st0 Hc) as Hi1.
      destruct (wrapg L_Cond (pg_level c) (core c st0)) as [st1 oc]. cbn [fst snd] in *.
      match goal with |- context [emit_hoist ?a ?b ?c0 ?d ?g] => set (st2 := emit_hoist a b c0 d g) end.
      pose proof (mono t L_Cond st2 Ht) as Hi2. pose proof (sub_sem t L_Cond st2 IHt) as Hst.
      destruct (wrapg L_Cond (pg_level t) (core t st2)) as [st3 ot]. cbn [fst snd] in *.
      pose proof (mono f L_Cond st3 Hf) as Hi3. pose proof (sub_sem f L_Cond st3 IHf) as Hsf.
      destruct (wrapg L_Cond (pg_level f) (core f st3)) as [st4 of]. cbn [fst snd g_js jeval eval] in *.
      intros Hh. rewrite (Hsf Hh), (Hst (hv_ok_incl _ _ _ _ Hi3 Hh)).
      assert (Hid : henv ident = eval ev c) by (apply Hh, Hi3, Hi2, in_emit_hoist).
      now rewrite Hid.
  Qed.
End Sem.
