From GE Require Import Model.Str Model.Hex Model.Escape Model.JsLex Proofs.HexProofs.
From Coq Require Import Lia ZifyBool ZifyN.

Section RT.
  Variable esc_u : N -> bool.

  Definition valid_cp (c : N) : Prop := c < 1114112.

  Lemma head_not_digit r rest :
    starts_with_digit r = false ->
    exists d tl, gen_body esc_u r ++ 34 :: rest = d :: tl /\ is_digit d = false.
  Proof.
    destruct r as [|c r]; intros H.
    - exists 34, rest. split; reflexivity.
    - cbn [starts_with_digit] in H. cbn [gen_body]. unfold esc_one.
      destruct (c =? 0); [destruct (starts_with_digit r); eexists; eexists; split; reflexivity|].
      destruct (c =? 9); [eexists; eexists; split; reflexivity|].
      destruct (c =? 13); [eexists; eexists; split; reflexivity|].
      destruct (c =? 10); [eexists; eexists; split; reflexivity|].
      destruct (c =? 92); [eexists; eexists; split; reflexivity|].
      destruct (c =? 34); [eexists; eexists; split; reflexivity|].
      destruct (esc_u c); [eexists; eexists; split; reflexivity|].
      exists c. eexists. split; [reflexivity | exact H].
  Qed.

  Lemma body_roundtrip : forall (s rest : str) (fuel : nat),
    Forall valid_cp s ->
    (length (gen_body esc_u s ++ 34%N :: rest) <= fuel)%nat ->
    js_str_body fuel (gen_body esc_u s ++ 34 :: rest) = Some (s, rest).
  Proof.
    induction s as [|c r IH]; intros rest fuel Hv Hf.
    - cbn [gen_body app] in *. destruct fuel; [cbn in Hf; lia|]. reflexivity.
    - inversion Hv as [|? ? Hc Hr]; subst.
      cbn [gen_body] in *. rewrite <- app_assoc in *.
      unfold esc_one in *.
      destruct (N.eqb_spec c 0) as [->|N0].
      { destruct (starts_with_digit r) eqn:Hd.
        - cbn [app] in *. destruct fuel as [|fuel]; [cbn in Hf; lia|].
          cbn [js_str_body]. cbn [N.eqb Pos.eqb is_digit N.leb N.compare Pos.compare Pos.compare_cont andb hex_val].
          rewrite IH; [reflexivity | assumption | cbn [length] in Hf; lia].
        - cbn [app] in *. destruct fuel as [|fuel]; [cbn in Hf; lia|].
          destruct (head_not_digit r rest Hd) as [d [tl [E Ed]]].
          cbn [js_str_body]. cbn [N.eqb Pos.eqb].
          rewrite E, Ed, <- E. rewrite IH; [reflexivity | assumption | cbn [length] in Hf; lia]. }
      destruct (N.eqb_spec c 9) as [->|N9].
      { cbn [app] in *. destruct fuel as [|fuel]; [cbn in Hf; lia|]. cbn [js_str_body].
        cbn. rewrite IH; [reflexivity | assumption | cbn [length] in Hf; lia]. }
      destruct (N.eqb_spec c 13) as [->|N13].
      { cbn [app] in *. destruct fuel as [|fuel]; [cbn in Hf; lia|]. cbn [js_str_body].
        cbn. rewrite IH; [reflexivity | assumption | cbn [length] in Hf; lia]. }
      destruct (N.eqb_spec c 10) as [->|N10].
      { cbn [app] in *. destruct fuel as [|fuel]; [cbn in Hf; lia|]. cbn [js_str_body].
        cbn. rewrite IH; [reflexivity | assumption | cbn [length] in Hf; lia]. }
      destruct (N.eqb_spec c 92) as [->|N92].
      { cbn [app] in *. destruct fuel as [|fuel]; [cbn in Hf; lia|]. cbn [js_str_body].
        cbn. rewrite IH; [reflexivity | assumption | cbn [length] in Hf; lia]. }
      destruct (N.eqb_spec c 34) as [->|N34].
      { cbn [app] in *. destruct fuel as [|fuel]; [cbn in Hf; lia|]. cbn [js_str_body].
        cbn. rewrite IH; [reflexivity | assumption | cbn [length] in Hf; lia]. }
      destruct (esc_u c).
      { rewrite <- !app_assoc in *. cbn [app] in *.
        destruct fuel as [|fuel]; [cbn in Hf; lia|]. cbn [js_str_body].
        cbn [N.eqb Pos.eqb is_digit N.leb N.compare Pos.compare Pos.compare_cont andb].
        destruct (to_hex_parse c (125 :: gen_body esc_u r ++ 34 :: rest) Hc) as [cnt [E Hcnt]]; [reflexivity|].
        rewrite E.
        replace ((0 <? cnt) && (c <=? 1114111)) with true by (unfold valid_cp in Hc; lia).
        rewrite IH; [reflexivity | assumption |].
        cbn [length] in Hf. rewrite ?app_length in Hf. cbn [length] in Hf. rewrite ?app_length in Hf.
        cbn [length] in Hf. rewrite app_length. cbn [length]. lia. }
      { cbn [app] in *. destruct fuel as [|fuel]; [cbn in Hf; lia|]. cbn [js_str_body].
        replace (c =? 34) with false by lia. replace (c =? 92) with false by lia.
        replace ((c =? 10) || (c =? 13)) with false by lia.
        rewrite IH; [reflexivity | assumption | cbn [length] in Hf; lia]. }
  Qed.

  Theorem lit_str_roundtrip s rest :
    Forall valid_cp s -> js_string_decode (gen_lit_str esc_u s ++ rest) = Some (s, rest).
  Proof.
    intros Hv. unfold gen_lit_str, js_string_decode. cbn [app]. rewrite <- app_assoc. cbn [app].
    apply body_roundtrip; [assumption | lia].
  Qed.
End RT.

(* The pre-fix behaviour (plain Rust Debug: always "\0") is NOT a faithful embedding:
   NUL followed by a digit is rejected in strict mode (and is an octal escape otherwise). *)
Definition legacy_gen_lit_str (s : str) : str :=
  34 :: flat_map (fun c => if c =? 0 then [92; 48] else [c]) s ++ [34].
Example legacy_nul_digit_refuted :
  js_string_decode (legacy_gen_lit_str [0; 49]) = None.
Proof. reflexivity. Qed.
Example fixed_nul_digit_ok :
  js_string_decode (gen_lit_str (fun _ => false) [0; 49; 0; 97; 34; 92; 10; 8232] ++ [59])
  = Some ([0; 49; 0; 97; 34; 92; 10; 8232], [59]).
Proof. reflexivity. Qed.
