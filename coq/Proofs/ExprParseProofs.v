(* The expression / value parser model never moves backwards: every result position (success or
   failure) is no longer than the input, every token consumes; hence the value loop, run with the
   input length as fuel, always ends by its own exit condition (the stop predicate or the end of
   the input), never by running out of fuel. *)
From GE Require Import Model.ExprParse Proofs.TextDecodeProofs.
From Coq Require Import Lia.
Import ListNotations.
Local Open Scope nat_scope.

Definition le_res {A : Type} (r : pres A) (s : str) : Prop :=
  match r with
  | POk _ rest => length rest <= length s
  | PFail p _ => length p <= length s
  end.

Lemma drop_ws_le : forall s, length (drop_ws s) <= length s.
Proof. induction s as [|c r IH]; cbn; [lia|]. destruct (is_ws c); cbn; lia. Qed.

Lemma after_close_le : forall s, length (after_close s) <= length s.
Proof.
  induction s as [|c r IH]; cbn [after_close]; [cbn in *; lia|].
  destruct r as [|d r']; [cbn in *; lia|].
  destruct ((c =? 42)%N && (d =? 47)%N)%bool; cbn in *; lia.
Qed.

Lemma sk_le : forall f s, length (sk f s) <= length s.
Proof.
  induction f as [|f IH]; intro s; cbn [sk]; [lia|].
  pose proof (drop_ws_le s) as Hd.
  destruct (drop_ws s) as [|c [|d r]]; try exact Hd.
  destruct ((c =? 47)%N && (d =? 42)%N)%bool; [|exact Hd].
  pose proof (IH (after_close r)). pose proof (after_close_le r). cbn in Hd. lia.
Qed.

Lemma skip_le : forall s, length (skip s) <= length s.
Proof. intro s. apply sk_le. Qed.

Lemma starts_with_length : forall p s, starts_with p s = true -> length p <= length s.
Proof.
  induction p as [|x p IH]; intros [|y s] H; cbn in *; try lia; try discriminate.
  apply andb_prop in H. destruct H as [_ H]. apply IH in H. lia.
Qed.

Lemma tok_lt : forall t ex s r, 0 < length t -> tok t ex s = Some r -> length r < length s.
Proof.
  intros t ex s r Ht H. unfold tok in H.
  destruct (starts_with t (skip s)) eqn:E; [|discriminate].
  destruct (existsb _ ex); [discriminate|]. injection H as <-.
  apply starts_with_length in E. pose proof (skip_le s). rewrite skipn_length. lia.
Qed.

Lemma kw_lt : forall t s r, 0 < length t -> kw t s = Some r -> length r < length s.
Proof.
  intros t s r Ht H. unfold kw in H.
  destruct (starts_with t (skip s)) eqn:E; [|discriminate].
  apply starts_with_length in E. pose proof (skip_le s).
  assert (Hl : length (skipn (length t) (skip s)) < length s) by (rewrite skipn_length; lia).
  destruct (skipn (length t) (skip s)) as [|c q]; [injection H as <-; exact Hl|].
  destruct (is_ident_char c); [discriminate|]. injection H as <-. exact Hl.
Qed.

Lemma tok_cond_lt : forall s r, tok_cond s = Some r -> length r < length s.
Proof.
  intros s r H. unfold tok_cond in H.
  destruct (tok (lit "?") _ s) eqn:E.
  - injection H as <-. eapply tok_lt; [|exact E]. cbn; lia.
  - pose proof (skip_le s) as Hs. destruct (skip s) as [|a [|b [|d q]]]; try discriminate.
    destruct ((a =? 63)%N && (b =? 46)%N && is_digit d)%bool; [|discriminate].
    injection H as <-. cbn in *. lia.
Qed.

Definition consuming (t : str -> option str) : Prop := forall s r, t s = Some r -> length r < length s.

Lemma first_op_lt : forall (A : Type) (ops : optab A) s b r,
  Forall (fun p => consuming (snd p)) ops -> first_op ops s = Some (b, r) -> length r < length s.
Proof.
  intros A ops s b r Hall. induction Hall as [|[b0 t] l Ht _ IH]; cbn; [discriminate|].
  destruct (t s) eqn:E.
  - intro H. injection H as _ <-. exact (Ht s _ E).
  - exact IH.
Qed.

Ltac table_ok :=
  repeat constructor; cbn [snd]; intros ? ? ?;
  first [ eapply tok_lt; [|eassumption]; cbn; lia | eapply kw_lt; [|eassumption]; cbn; lia ].

Lemma unops_ok : Forall (fun p => consuming (snd p)) unops.   Proof. unfold unops. table_ok. Qed.
Lemma ops_mul_ok : Forall (fun p => consuming (snd p)) ops_mul.   Proof. unfold ops_mul. table_ok. Qed.
Lemma ops_add_ok : Forall (fun p => consuming (snd p)) ops_add.   Proof. unfold ops_add. table_ok. Qed.
Lemma ops_shift_ok : Forall (fun p => consuming (snd p)) ops_shift.   Proof. unfold ops_shift. table_ok. Qed.
Lemma ops_cmp_ok : Forall (fun p => consuming (snd p)) ops_cmp.   Proof. unfold ops_cmp. table_ok. Qed.
Lemma ops_eq_ok : Forall (fun p => consuming (snd p)) ops_eq.   Proof. unfold ops_eq. table_ok. Qed.
Lemma ops_band_ok : Forall (fun p => consuming (snd p)) ops_band.   Proof. unfold ops_band. table_ok. Qed.
Lemma ops_bxor_ok : Forall (fun p => consuming (snd p)) ops_bxor.   Proof. unfold ops_bxor. table_ok. Qed.
Lemma ops_bor_ok : Forall (fun p => consuming (snd p)) ops_bor.   Proof. unfold ops_bor. table_ok. Qed.
Lemma ops_land_ok : Forall (fun p => consuming (snd p)) ops_land.   Proof. unfold ops_land. table_ok. Qed.
Lemma ops_lor_ok : Forall (fun p => consuming (snd p)) ops_lor.   Proof. unfold ops_lor. table_ok. Qed.

Lemma take_ident_le : forall s, length (snd (take_ident s)) <= length s.
Proof.
  induction s as [|c r IH]; cbn; [lia|].
  destruct (is_ident_char c); [|cbn in *; lia].
  destruct (take_ident r) as [a b]. cbn in *. lia.
Qed.

Lemma is_ident_start_char : forall c, is_ident_start c = true -> is_ident_char c = true.
Proof.
  intros c H. unfold is_ident_start in H. unfold is_ident_char.
  destruct (N.eqb c 95); [reflexivity|]. destruct (N.eqb c 36); [reflexivity|].
  cbn in H |- *. rewrite H. reflexivity.
Qed.

Lemma take_ident_lt : forall c r, is_ident_start c = true -> length (snd (take_ident (c :: r))) < length (c :: r).
Proof.
  intros c r H. cbn. rewrite (is_ident_start_char c H).
  pose proof (take_ident_le r). destruct (take_ident r) as [a b]. cbn in *. lia.
Qed.

Lemma field_name_lt : forall s n r, field_name s = Some (n, r) -> length r < length s.
Proof.
  intros s n r H. unfold field_name in H. pose proof (skip_le s) as Hs.
  destruct (skip s) as [|c q]; [discriminate|].
  destruct (is_ident_start c) eqn:E; [|discriminate].
  pose proof (take_ident_lt c q E) as Hl. destruct (take_ident (c :: q)) as [a b].
  injection H as _ <-. cbn in Hl, Hs. lia.
Qed.

Lemma take_hex_len : forall n s a v, take_hex n s a = Some v -> n <= length s.
Proof.
  induction n as [|n IH]; intros s a v H; cbn in *; [lia|].
  destruct s as [|c r]; [discriminate|]. destruct (hex_val c); [|discriminate].
  apply IH in H. cbn. lia.
Qed.

Lemma wx_scan_lt : forall f q s v rest, wx_scan f q s = Some (v, rest) -> length rest < length s.
Proof.
  induction f as [|f IH]; intros q s v rest H; cbn [wx_scan] in H; [discriminate|].
  destruct s as [|c r]; [discriminate|].
  destruct (N.eqb c q); [injection H as _ <-; cbn; lia|].
  assert (Hsimple : forall ch r2 v rest, length r2 < length (c :: r) ->
            match wx_scan f q r2 with Some (t, rest0) => Some (ch :: t, rest0) | None => None end = Some (v, rest) ->
            length rest < length (c :: r)).
  { intros ch r2 v0 rest0 Hr2 H0. destruct (wx_scan f q r2) as [[t rest1]|] eqn:E; [|discriminate].
    injection H0 as _ <-. apply IH in E. lia. }
  destruct (N.eqb c 92).
  - destruct r as [|e r2]; [discriminate|].
    assert (Hr2 : length r2 < length (c :: e :: r2)) by (cbn; lia).
    repeat match type of H with
           | (if ?b then _ else _) = _ => destruct b eqn:?
           end; try (eapply Hsimple; [exact Hr2|exact H]);
           try (apply IH in H; cbn [length] in *; lia);
           try (destruct r2 as [|c2 r3]; [|destruct (N.eqb c2 10)]; apply IH in H; cbn [length] in *; lia).
    all: destruct (take_hex _ r2 0) as [v0|] eqn:Eh; try (eapply Hsimple; [exact Hr2|exact H]).
    all: destruct (is_scalar16 v0); try (eapply Hsimple; [exact Hr2|exact H]).
    all: eapply Hsimple; [|exact H]; rewrite skipn_length; cbn; lia.
  - eapply Hsimple; [|exact H]. cbn; lia.
Qed.

Lemma num_result_le : forall s, le_res (num_result s) s.
Proof.
  intro s. unfold num_result. destruct (parse_number_fixed s) as [r n].
  pose proof (skipn_length (N.to_nat n) s) as Hl.
  destruct r; cbn; lia.
Qed.

Lemma skip_cons_lt : forall s c r, skip s = c :: r -> length r < length s.
Proof. intros s c r H. pose proof (skip_le s) as Hs. rewrite H in Hs. cbn in Hs. lia. Qed.

Section WithCondLe.
  Variable pcond : str -> pres expr.
  Hypothesis Hpc : forall s, le_res (pcond s) s.

  Ltac use_pc x := let H := fresh "Hp" in pose proof (Hpc x) as H.

  Lemma args_loop_le : forall n s, le_res (args_loop pcond n s) s.
  Proof.
    induction n as [|n IH]; intro s; cbn [args_loop]; [cbn in *; lia|].
    pose proof (skip_le s) as Hs.
    destruct (skip s) as [|c q] eqn:Es; [cbn in *; lia|].
    destruct (N.eqb c 41); [cbn in *; lia|].
    use_pc s. destruct (pcond s) as [e rest|p]; [|exact Hp].
    destruct (tok (lit ",") [] rest) as [rest2|] eqn:Et.
    - apply tok_lt in Et; [|cbn in *; lia]. pose proof (IH rest2) as Hi.
      destruct (args_loop pcond n rest2); cbn in *; lia.
    - pose proof (skip_le rest). cbn in *. lia.
  Qed.

  Lemma obj_loop_le : forall n s, le_res (obj_loop pcond n s) s.
  Proof.
    induction n as [|n IH]; intro s; cbn [obj_loop]; [cbn in *; lia|].
    pose proof (skip_le s) as Hs.
    destruct (skip s) as [|c q] eqn:Es; [cbn in *; lia|].
    destruct (N.eqb c 125); [cbn in *; lia|].
    destruct (N.eqb c 46).
    - destruct (tok (lit "...") [] s) as [r|] eqn:Et; [|cbn in *; lia].
      apply tok_lt in Et; [|cbn in *; lia].
      use_pc r. destruct (pcond r) as [v rest|p]; [|cbn in *; lia].
      pose proof (skip_le rest) as Hr.
      destruct (skip rest) as [|d rest2] eqn:Er; [cbn in *; lia|].
      destruct (N.eqb d 125); [cbn in *; lia|].
      destruct (N.eqb d 44); [|cbn in *; lia].
      pose proof (IH rest2) as Hi. destruct (obj_loop pcond n rest2); cbn in *; lia.
    - destruct (field_name s) as [[name r]|] eqn:Ef; [|cbn in *; lia].
      apply field_name_lt in Ef.
      pose proof (skip_le r) as Hr.
      destruct (skip r) as [|d r2] eqn:Er; [cbn in *; lia|].
      destruct (N.eqb d 58).
      + use_pc r2. destruct (pcond r2) as [v rest|p]; [|cbn in *; lia].
        pose proof (skip_le rest) as Hr2.
        destruct (skip rest) as [|d2 rest2] eqn:Er2; [cbn in *; lia|].
        destruct (N.eqb d2 125); [cbn in *; lia|].
        destruct (N.eqb d2 44); [|cbn in *; lia].
        pose proof (IH rest2) as Hi. destruct (obj_loop pcond n rest2); cbn in *; lia.
      + destruct (N.eqb d 125); [cbn in *; lia|].
        destruct (N.eqb d 44); [|cbn in *; lia].
        pose proof (IH r2) as Hi. destruct (obj_loop pcond n r2); cbn in *; lia.
  Qed.

  Lemma arr_loop_le : forall n s, le_res (arr_loop pcond n s) s.
  Proof.
    induction n as [|n IH]; intro s; cbn [arr_loop]; [cbn in *; lia|].
    pose proof (skip_le s) as Hs.
    destruct (skip s) as [|c r0] eqn:Es; [cbn in *; lia|].
    destruct (N.eqb c 93); [cbn in *; lia|].
    destruct (N.eqb c 44).
    - pose proof (IH r0) as Hi. destruct (arr_loop pcond n r0); cbn in *; lia.
    - set (spread := starts_with (lit "...") (c :: r0)).
      set (item_start := if spread then skipn 3 (c :: r0) else s).
      assert (Hit : length item_start <= length s).
      { unfold item_start. destruct spread; [rewrite skipn_length; cbn in *; lia|lia]. }
      use_pc item_start. destruct (pcond item_start) as [v rest|p]; [|cbn in *; lia].
      pose proof (skip_le rest) as Hr.
      destruct (skip rest) as [|d rest2] eqn:Er; [cbn in *; lia|].
      destruct (N.eqb d 93); [cbn in *; lia|].
      destruct (N.eqb d 44); [|cbn in *; lia].
      pose proof (IH rest2) as Hi. destruct (arr_loop pcond n rest2); cbn in *; lia.
  Qed.

  Lemma p_lit_le : forall s, le_res (p_lit pcond s) s.
  Proof.
    intro s. unfold p_lit. pose proof (skip_le s) as Hs.
    destruct (skip s) as [|c r] eqn:Es; [cbn in *; lia|].
    destruct (is_ident_start c) eqn:Ei.
    { pose proof (take_ident_lt c r Ei) as Hl. destruct (take_ident (c :: r)) as [name rest]. cbn in *. lia. }
    destruct ((c =? 34)%N || (c =? 39)%N)%bool.
    { destruct (wx_str_decode c r) as [[v rest]|] eqn:Ew; [|cbn in *; lia].
      unfold wx_str_decode in Ew. apply wx_scan_lt in Ew. cbn in *. lia. }
    destruct (is_digit c || (c =? 46)%N)%bool.
    { pose proof (num_result_le (c :: r)) as Hn. destruct (num_result (c :: r)); cbn in *; lia. }
    destruct (N.eqb c 40).
    { use_pc r. destruct (pcond r) as [e rest|p]; [|cbn in *; lia].
      destruct (tok (lit ")") [] rest) as [rest2|] eqn:Et.
      - apply tok_lt in Et; [|cbn in *; lia]. cbn in *. lia.
      - pose proof (skip_le rest). cbn in *. lia. }
    destruct (N.eqb c 123).
    { pose proof (obj_loop_le (S (length r)) r) as Ho.
      destruct (obj_loop pcond (S (length r)) r) as [fs rest|p]; [|cbn in *; lia].
      destruct (tok (lit "}") [] rest) as [rest2|] eqn:Et.
      - apply tok_lt in Et; [|cbn in *; lia]. cbn in *. lia.
      - pose proof (skip_le rest). cbn in *. lia. }
    destruct (N.eqb c 91).
    { pose proof (arr_loop_le (S (length r)) r) as Ho.
      destruct (arr_loop pcond (S (length r)) r) as [fs rest|p]; [|cbn in *; lia].
      destruct (tok (lit "]") [] rest) as [rest2|] eqn:Et.
      - apply tok_lt in Et; [|cbn in *; lia]. cbn in *. lia.
      - pose proof (skip_le rest). cbn in *. lia. }
    cbn in *. lia.
  Qed.

  Lemma member_loop_le : forall n obj s, le_res (member_loop pcond n obj s) s.
  Proof.
    induction n as [|n IH]; intros obj s; cbn [member_loop]; [cbn in *; lia|].
    destruct (tok (lit ".") [lit ".."] s) as [r|] eqn:Ed.
    { apply tok_lt in Ed; [|cbn in *; lia].
      destruct (field_name r) as [[name rest]|] eqn:Ef.
      - apply field_name_lt in Ef. pose proof (IH (EMember obj name) rest) as Hi.
        destruct (member_loop pcond n (EMember obj name) rest); cbn in *; lia.
      - pose proof (skip_le r). cbn in *. lia. }
    destruct (tok (lit "[") [] s) as [r|] eqn:Eb.
    { apply tok_lt in Eb; [|cbn in *; lia].
      use_pc r. destruct (pcond r) as [e rest|p]; [|cbn in *; lia].
      destruct (tok (lit "]") [] rest) as [rest2|] eqn:Et.
      - apply tok_lt in Et; [|cbn in *; lia]. pose proof (IH (EIndex obj e) rest2) as Hi.
        destruct (member_loop pcond n (EIndex obj e) rest2); cbn in *; lia.
      - pose proof (skip_le rest). cbn in *. lia. }
    destruct (tok (lit "(") [] s) as [r|] eqn:Ep.
    { apply tok_lt in Ep; [|cbn in *; lia].
      pose proof (args_loop_le (S (length r)) r) as Ha.
      destruct (args_loop pcond (S (length r)) r) as [args rest|p]; [|cbn in *; lia].
      destruct (tok (lit ")") [] rest) as [rest2|] eqn:Et.
      - apply tok_lt in Et; [|cbn in *; lia]. pose proof (IH (ECall obj args) rest2) as Hi.
        destruct (member_loop pcond n (ECall obj args) rest2); cbn in *; lia.
      - pose proof (skip_le rest). cbn in *. lia. }
    pose proof (skip_le s). cbn in *. lia.
  Qed.

  Lemma p_member_le : forall s, le_res (p_member pcond s) s.
  Proof.
    intro s. unfold p_member. pose proof (p_lit_le s) as Hl.
    destruct (p_lit pcond s) as [o rest|p]; [|exact Hl].
    pose proof (member_loop_le (S (length rest)) o rest) as Hm.
    destruct (member_loop pcond (S (length rest)) o rest); cbn in *; lia.
  Qed.

  Lemma unary_loop_le : forall n s, le_res (unary_loop pcond n s) s.
  Proof.
    induction n as [|n IH]; intro s; cbn [unary_loop]; [cbn in *; lia|].
    destruct (first_op unops s) as [[u rest]|] eqn:E.
    - apply first_op_lt in E; [|exact unops_ok]. pose proof (IH rest) as Hi.
      destruct (unary_loop pcond n rest); cbn in *; lia.
    - apply p_member_le.
  Qed.

  Lemma p_unary_le : forall s, le_res (p_unary pcond s) s.
  Proof. intro s. apply unary_loop_le. Qed.

  Lemma level_loop_le : forall next ops, (forall s, le_res (next s) s) -> Forall (fun p => consuming (snd p)) ops ->
    forall n l s, le_res (level_loop next ops n l s) s.
  Proof.
    intros next ops Hn Hops. induction n as [|n IH]; intros l s; cbn [level_loop]; [cbn in *; lia|].
    destruct (first_op ops s) as [[b rest]|] eqn:E.
    - apply first_op_lt in E; [|exact Hops]. pose proof (Hn rest) as Hr.
      destruct (next rest) as [r rest2|p]; [|cbn in *; lia].
      pose proof (IH (EBin b l r) rest2) as Hi. destruct (level_loop next ops n (EBin b l r) rest2); cbn in *; lia.
    - pose proof (skip_le s). cbn in *. lia.
  Qed.

  Lemma level_le : forall next ops, (forall s, le_res (next s) s) -> Forall (fun p => consuming (snd p)) ops ->
    forall s, le_res (level next ops s) s.
  Proof.
    intros next ops Hn Hops s. unfold level. pose proof (Hn s) as H1.
    destruct (next s) as [l rest|p]; [|exact H1].
    pose proof (level_loop_le next ops Hn Hops (S (length rest)) l rest) as H2.
    destruct (level_loop next ops (S (length rest)) l rest); cbn in *; lia.
  Qed.

  Lemma p_lor_le : forall s, le_res (p_lor pcond s) s.
  Proof.
    unfold p_lor, p_land, p_bor, p_bxor, p_band, p_eq, p_cmp, p_shift, p_add, p_mul.
    repeat (apply level_le; [|first [exact ops_lor_ok|exact ops_land_ok|exact ops_bor_ok|exact ops_bxor_ok|exact ops_band_ok
                                    |exact ops_eq_ok|exact ops_cmp_ok|exact ops_shift_ok|exact ops_add_ok|exact ops_mul_ok]]).
    exact p_unary_le.
  Qed.

  Lemma cond_body_le : forall s, le_res (cond_body pcond s) s.
  Proof.
    intro s. unfold cond_body. pose proof (p_lor_le s) as H1.
    destruct (p_lor pcond s) as [c rest|p]; [|exact H1].
    destruct (tok_cond rest) as [r|] eqn:Eq.
    - apply tok_cond_lt in Eq. use_pc r. destruct (pcond r) as [t rest2|p]; [|cbn in *; lia].
      destruct (tok (lit ":") [] rest2) as [r3|] eqn:Ec.
      + apply tok_lt in Ec; [|cbn in *; lia]. use_pc r3. destruct (pcond r3) as [f rest3|p]; cbn in *; lia.
      + pose proof (skip_le rest2). cbn in *. lia.
    - pose proof (skip_le rest). cbn in *. lia.
  Qed.
End WithCondLe.

Lemma parse_cond_fuel_le : forall f s, le_res (parse_cond_fuel f s) s.
Proof.
  induction f as [|f IH]; intro s; cbn [parse_cond_fuel]; [cbn in *; lia|].
  apply cond_body_le. exact IH.
Qed.

Lemma parse_top_le : forall t s, le_res (parse_top t s) s.
Proof.
  intros t s. unfold parse_top. destruct (is_object_inner t s).
  - pose proof (obj_loop_le _ (parse_cond_fuel_le (S (length s))) (S (length s)) s) as H.
    destruct (obj_loop _ _ s); exact H.
  - apply parse_cond_fuel_le.
Qed.

Lemma find_close_le : forall s b a, find_close s = Some (b, a) -> length a <= length s.
Proof.
  induction s as [|c r IH]; intros b a H; cbn [find_close] in H; [discriminate|].
  destruct (starts_with (lit "}}") (c :: r)).
  - injection H as _ <-. destruct r as [|d r']; cbn; lia.
  - destruct (find_close r) as [[b0 a0]|] eqn:E; [|discriminate]. injection H as _ <-.
    specialize (IH _ _ eq_refl). cbn. lia.
Qed.

Lemma binding_le : forall t s, length (snd (binding t s)) <= length s.
Proof.
  intros t s. unfold binding. pose proof (skip_le s) as Hs.
  destruct (starts_with (lit "}}") (skip s)).
  { cbn [snd]. rewrite skipn_length. lia. }
  pose proof (parse_top_le t s) as Ht.
  destruct (parse_top t s) as [e rest|p]; cbn in Ht.
  - pose proof (drop_ws_le rest) as Hd.
    destruct (find_close (drop_ws rest)) as [[b a]|] eqn:E; [|cbn in *; lia].
    apply find_close_le in E. destruct b; cbn; lia.
  - destruct (find_close p) as [[b a]|] eqn:E; [|cbn in *; lia].
    apply find_close_le in E. cbn. lia.
Qed.

Section ValueLoop.
  Variable named : str -> option str.
  Variable stop : str -> bool.

  Lemma text_run_lt : forall n s, s <> [] -> 0 < n -> length (snd (text_run named stop n s)) < length s.
  Proof.
    induction n as [|n IH]; intros s Hs Hn; [lia|]. cbn [text_run].
    pose proof (next_piece_progress named s Hs) as Hp.
    destruct (next_piece named s) as [p rest]. cbn [snd] in Hp.
    destruct (stop rest || is_nil rest || starts_with (lit "{{") rest)%bool eqn:E; [exact Hp|].
    destruct n as [|n'].
    - cbn. exact Hp.
    - assert (Hr : rest <> []).
      { intro Hr. subst rest. cbn in E. rewrite Bool.orb_true_r in E. discriminate. }
      specialize (IH rest Hr ltac:(lia)).
      destruct (text_run named stop (S n') rest) as [q r2]. cbn [snd] in *. lia.
  Qed.

  (* the loop ends because the stop predicate holds or the input is exhausted, never for lack of fuel *)
  Lemma value_loop_done : forall n ret s, length s < n ->
    let '(_, rest) := value_loop named stop n ret s in stop rest = true \/ rest = [].
  Proof.
    induction n as [|n IH]; intros ret s Hn; [lia|]. cbn [value_loop].
    destruct (stop s || is_nil s)%bool eqn:E.
    { apply Bool.orb_true_iff in E. destruct E as [E|E]; [left; exact E|right; destruct s; [reflexivity|discriminate]]. }
    assert (Hs : s <> []).
    { intro Hs. subst s. cbn in E. rewrite Bool.orb_true_r in E. discriminate. }
    destruct (starts_with (lit "{{") s) eqn:Eb.
    - pose proof (binding_le false (skipn 2 s)) as Hb.
      apply starts_with_length in Eb. cbn in Eb.
      rewrite skipn_length in Hb.
      destruct (binding false (skipn 2 s)) as [[e|] rest]; cbn [snd] in Hb; apply IH; lia.
    - pose proof (text_run_lt (S (length s)) s Hs ltac:(lia)) as Ht.
      destruct (text_run named stop (S (length s)) s) as [txt rest]. cbn [snd] in Ht.
      apply IH. lia.
  Qed.

  Theorem parse_value_done : forall s,
    let '(_, rest) := parse_value named stop s in stop rest = true \/ rest = [].
  Proof. intro s. unfold parse_value. apply value_loop_done. lia. Qed.

  Theorem parse_value_no_lengthening : forall s, length (snd (parse_value named stop s)) <= length s.
  Proof.
    intro s. unfold parse_value.
    assert (H : forall n ret s, length (snd (value_loop named stop n ret s)) <= length s).
    { induction n as [|n IH]; intros ret s0; cbn [value_loop]; [cbn in *; lia|].
      destruct (stop s0 || is_nil s0)%bool eqn:E0; [cbn in *; lia|].
      destruct (starts_with (lit "{{") s0) eqn:Eb.
      - pose proof (binding_le false (skipn 2 s0)) as Hb. rewrite skipn_length in Hb.
        destruct (binding false (skipn 2 s0)) as [[e|] rest]; cbn [snd] in Hb.
        + pose proof (IH (combine_binding ret e) rest). lia.
        + pose proof (IH ret rest). lia.
      - destruct s0 as [|c r]; [cbn in E0; rewrite Bool.orb_true_r in E0; discriminate|].
        pose proof (text_run_lt (S (length (c :: r))) (c :: r) ltac:(discriminate) ltac:(lia)) as Ht.
        destruct (text_run named stop (S (length (c :: r))) (c :: r)) as [txt rest]. cbn [snd] in Ht.
        pose proof (IH (append_text (convert_for_text ret) txt) rest). lia. }
    apply H.
  Qed.
End ValueLoop.
