(* The low-priority side of a converted `:host` rule in the SHAPE projection (every token that is not white space, numeric
   values forgotten): the replayed wrappers with their `{`, the attribute selector(s), the block as a value, the closing `}`s. *)
From GE Require Import Model.Str Model.CssNum Model.CssTok Model.CssOut Model.CssUrlEnc Model.Css Model.CssSpec.
From GE Require Import Proofs.CssOutProofs Proofs.CssWalkProofs Proofs.CssTokProofs Proofs.CssShapeProofs.
From GE Require Proofs.CssHostLow Proofs.CssRuleProofs.
From Coq Require Import Lia Bool.
Open Scope N_scope.

Definition slout (st : wstate) : list tok := shp (o_tokens (w_low st)).
Definition stack_shp (st : wstate) : list tok :=
  concat (map (fun it : str * list tok => shp (snd it) ++ [TCurly]) (w_stack st)).

Lemma slout_emit_low_raw : forall st txt ghost, slout (emit_low st (OpRaw txt ghost)) = slout st ++ shp ghost.
Proof. intros st txt ghost. unfold slout, emit_low. cbn [w_low apply_op]. rewrite CssHostLow.o_tokens_append_raw, idc_app. reflexivity. Qed.

Lemma open_wrappers_fold : forall (items : list (str * list tok)) s,
  let s' := fold_left (fun s item => emit_low (emit_low s (OpRaw (fst item) (snd item))) (OpRaw s_open [TCurly])) items s in
  slout s' = slout s ++ concat (map (fun it : str * list tok => shp (snd it) ++ [TCurly]) items) /\
  w_using_low s' = w_using_low s /\ w_stack s' = w_stack s.
Proof.
  induction items as [|it items IH]; intro s; cbn [fold_left map concat].
  - rewrite app_nil_r. auto.
  - destruct (IH (emit_low (emit_low s (OpRaw (fst it) (snd it))) (OpRaw s_open [TCurly]))) as [A [B C]].
    cbv zeta in *. rewrite A, B, C. rewrite !slout_emit_low_raw.
    change (shp [TCurly]) with [TCurly]. rewrite <- !app_assoc.
    destruct (CssHostLow.emit_low_frame (emit_low s (OpRaw (fst it) (snd it))) (OpRaw s_open [TCurly])) as [_ [U1 S1]].
    destruct (CssHostLow.emit_low_frame s (OpRaw (fst it) (snd it))) as [_ [U2 S2]].
    rewrite U1, U2, S1, S2. auto.
Qed.

Lemma close_wrappers_fold : forall (T : Type) (items : list T) s,
  let s' := fold_left (fun s _ => emit_low s (OpRaw s_close [TCloseCurly])) items s in
  slout s' = slout s ++ repeat TCloseCurly (length items) /\ w_using_low s' = w_using_low s.
Proof.
  induction items as [|it items IH]; intro s; cbn [fold_left length repeat]; [rewrite app_nil_r; auto|].
  destruct (IH (emit_low s (OpRaw s_close [TCloseCurly]))) as [A B]. cbv zeta in *.
  rewrite A, B, slout_emit_low_raw. change (shp [TCloseCurly]) with [TCloseCurly]. rewrite <- app_assoc.
  destruct (CssHostLow.emit_low_frame s (OpRaw s_close [TCloseCurly])) as [_ [U _]]. rewrite U. auto.
Qed.

Lemma SExt_attr_selector : forall st n v p, SExt (eshp (attr_sel n v)) st (write_attr_selector st n v p).
Proof.
  intros st n v p. unfold write_attr_selector, attr_sel.
  change (eshp [mke GFree TSquare; mke GFree (TIdent n); mke GFree (TDelim 61); mke GFree (TStr v); mke GFree TCloseSquare])
    with (shp [TSquare] ++ shp [TIdent n] ++ shp [TDelim 61] ++ shp [TStr v] ++ shp [TCloseSquare]).
  eapply SExt_trans; [apply SExt_tok_at|]. eapply SExt_trans; [apply SExt_tok_at|].
  eapply SExt_trans; [apply SExt_tok_at|]. eapply SExt_trans; [apply SExt_tok_at|]. apply SExt_tok_at.
Qed.

Lemma sout_low : forall st, w_using_low st = true -> sout_ st = slout st.
Proof. intros st H. unfold sout_, cur_out, slout. rewrite H. reflexivity. Qed.

Theorem host_emit_low_shp : forall o st p body,
  shaped body = true -> w_using_low st = false ->
  slout (host_emit o st p body) =
  slout st ++ stack_shp st ++
  eshp (host_selector o ++ [mke GFree TCurly] ++ val_spec o false body None false ++ [mke GFree TCloseCurly]) ++
  repeat TCloseCurly (length (w_stack st)).
Proof.
  intros o st p body Hsb Hu. unfold host_emit.
  set (s0 := set_using_low st true).
  destruct (open_wrappers_fold (w_stack s0) s0) as [A [B C]]. cbv zeta in A, B, C.
  fold (low_open_wrappers s0) in A, B, C.
  set (s1 := low_open_wrappers s0) in *.
  assert (U1 : w_using_low s1 = true) by (rewrite B; reflexivity).
  set (X := eshp (host_selector o ++ [mke GFree TCurly] ++ val_spec o false body None false ++ [mke GFree TCloseCurly])).
  set (s2 := match host_is o with
             | Some h => write_attr_selector (tok_at (write_attr_selector s1 s_wx_host
                           (match class_prefix o with Some x => x | None => [] end) p) TComma p None) s_is h p
             | None => write_attr_selector s1 s_wx_host (match class_prefix o with Some x => x | None => [] end) p
             end).
  assert (H2 : SExt (eshp (host_selector o)) s1 s2).
  { unfold s2, host_selector. destruct (host_is o) as [h|].
    - rewrite eidc_app. change (eshp (mke GFree TComma :: attr_sel s_is h)) with (shp [TComma] ++ eshp (attr_sel s_is h)).
      eapply SExt_trans; [apply SExt_attr_selector|]. eapply SExt_trans; [apply SExt_tok_at | apply SExt_attr_selector].
    - rewrite app_nil_r. apply SExt_attr_selector. }
  set (s3 := tok_at (rpx_body o false body None (tok_at s2 TCurly p None)) TCloseCurly p None).
  assert (H3 : SExt X s1 s3).
  { unfold X, s3. rewrite !eidc_app.
    eapply SExt_trans; [exact H2|]. eapply SExt_trans; [apply (SExt_tok_at s2 TCurly)|].
    eapply SExt_trans; [|apply SExt_tok_at]. unfold val_spec. apply SExt_rpx_body. exact Hsb. }
  destruct H3 as [U3 I3].
  assert (U3' : w_using_low s3 = true) by (rewrite U3; exact U1).
  rewrite (sout_low s3 U3'), (sout_low s1 U1) in I3.
  destruct (close_wrappers_fold _ (w_stack s3) s3) as [D _]. cbv zeta in D.
  change (slout (set_using_low (low_close_wrappers s3) false)) with (slout (low_close_wrappers s3)).
  unfold low_close_wrappers. rewrite D, I3, A.
  assert (S3 : w_stack s3 = w_stack st).
  { pose proof (CssHostLow.open_wrappers_fold (w_stack s0) s0) as [_ [_ C0]]. cbv zeta in C0.
    assert (H1 : CssRuleProofs.low_mode_same s1 s1) by (apply CssRuleProofs.low_mode_refl; exact U1).
    assert (W : forall s, CssRuleProofs.low_mode_same s1 s -> forall n v q, CssRuleProofs.low_mode_same s1 (write_attr_selector s n v q)).
    { intros s Hs n v q. unfold write_attr_selector, tok_at. repeat apply CssRuleProofs.low_mode_step. exact Hs. }
    assert (H23 : CssRuleProofs.low_mode_same s1 s2).
    { unfold s2. destruct (host_is o); [apply W; unfold tok_at; apply CssRuleProofs.low_mode_step; apply W; exact H1 | apply W; exact H1]. }
    assert (H4 : CssRuleProofs.low_mode_same s1 s3).
    { unfold s3, tok_at. apply CssRuleProofs.low_mode_step. apply CssRuleProofs.low_mode_rpx_body. apply CssRuleProofs.low_mode_step. exact H23. }
    destruct H4 as [_ [_ S4]]. rewrite S4, C. reflexivity. }
  rewrite S3.
  unfold stack_shp. change (w_stack s0) with (w_stack st). change (slout s0) with (slout st).
  rewrite <- !app_assoc. reflexivity.
Qed.
