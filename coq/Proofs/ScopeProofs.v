From GE Require Import Model.Str Model.Expr Model.Tmpl Model.BindingMap Model.Scope Proofs.StrProofs.
From Coq Require Import Lia.
Local Open Scope nat_scope.

(* ================= lexical lookup ================= *)
Lemma find_last_index_app name : forall l1 l2 i found,
  find_last_index name (l1 ++ l2) i found =
  find_last_index name l2 (i + length l1) (find_last_index name l1 i found).
Proof.
  induction l1 as [|s l1 IH]; intros l2 i found; cbn [app find_last_index length].
  - now rewrite Nat.add_0_r.
  - rewrite IH. f_equal. lia.
Qed.

(* the innermost (last pushed) scope of a name shadows everything before it *)
Theorem lookup_innermost scopes name : lookup_scope name (scopes ++ [name]) = Some (length scopes).
Proof.
  unfold lookup_scope. rewrite find_last_index_app. cbn. now rewrite str_eqb_refl.
Qed.

Theorem lookup_other scopes name other :
  other <> name -> lookup_scope name (scopes ++ [other]) = lookup_scope name scopes.
Proof.
  intros H. unfold lookup_scope. rewrite find_last_index_app. cbn.
  destruct (str_eqb_spec other name); [contradiction | reflexivity].
Qed.

(* `index` is introduced after `item`: when both have the same name, the index wins *)
Corollary for_index_shadows_item scopes name :
  lookup_scope name (scopes ++ [name; name]) = Some (S (length scopes)).
Proof.
  replace (scopes ++ [name; name]) with ((scopes ++ [name]) ++ [name]) by now rewrite <- app_assoc.
  rewrite lookup_innermost. rewrite app_length. cbn. f_equal. lia.
Qed.

Lemma find_last_index_bound name : forall l i found r,
  (forall k, found = Some k -> k < i) ->
  find_last_index name l i found = Some r -> r < i + length l.
Proof.
  induction l as [|s l IH]; intros i found r Hf H; cbn in *.
  - apply Hf in H. lia.
  - apply IH in H; [lia|]. intros k Hk. destruct (str_eqb s name); [injection Hk as <-; lia | apply Hf in Hk; lia].
Qed.

Lemma lookup_scope_bound name scopes i : lookup_scope name scopes = Some i -> i < length scopes.
Proof. intros H. apply find_last_index_bound in H; [lia | discriminate]. Qed.

Lemma find_last_index_some name : forall l j k,
  exists r, find_last_index name l j (Some k) = Some r.
Proof.
  induction l as [|x l IH]; intros j k; cbn; [eauto|]. destruct (str_eqb x name); apply IH.
Qed.

Lemma find_last_index_name name : forall l i found r,
  found = None ->
  find_last_index name l i found = Some r -> nth (r - i) l [] = name /\ i <= r.
Proof.
  induction l as [|s l IH]; intros i found r Hf H; subst found; cbn in H; [discriminate|].
  destruct (str_eqb_spec s name) as [Heq|Hne].
  - (* this scope has the name: either a later one also has it, or this is the answer *)
    destruct (find_last_index name l (S i) None) as [n|] eqn:E.
    + assert (H0 : find_last_index name l (S i) (Some i) = Some n).
      { clear -E. revert E. generalize (S i). induction l as [|x l IHl]; intros j E; cbn in *; [discriminate|].
        destruct (str_eqb x name); [exact E | now apply IHl]. }
      rewrite H0 in H. injection H as <-.
      apply IH in E; [|reflexivity]. destruct E as [E1 E2]. split; [|lia].
      replace (n - i) with (S (n - S i)) by lia. exact E1.
    + assert (H0 : find_last_index name l (S i) (Some i) = Some i).
      { clear -E. revert E. generalize (S i). induction l as [|x l IHl]; intros j E; cbn in *; [reflexivity|].
        destruct (str_eqb x name); [|now apply IHl].
        destruct (find_last_index_some name l (S j) j) as [r Hr]. congruence. }
      rewrite H0 in H. injection H as <-. rewrite Nat.sub_diag. split; [exact Heq | lia].
  - apply IH in H; [|reflexivity]. destruct H as [E1 E2]. split; [|lia].
    replace (r - i) with (S (r - S i)) by lia. exact E1.
Qed.

(* the resolved index really names that scope *)
Theorem lookup_scope_sound name scopes i : lookup_scope name scopes = Some i -> nth i scopes [] = name.
Proof.
  intros H. apply find_last_index_name in H; [|reflexivity]. destruct H as [H _]. now rewrite Nat.sub_0_r in H.
Qed.

(* ================= substitution semantics of convert_scopes ================= *)
(* Any compositional semantics is determined by what the leaves denote; `inst fs fd` replaces a
   scope reference i by fs i and a data field x by fd x. *)
Fixpoint inst (fs : nat -> expr) (fd : str -> expr) (e : expr) : expr :=
  match e with
  | EScope i => fs i
  | EField x => fd x
  | EToStr v => EToStr (inst fs fd v)
  | EUndef => EUndef | ENull => ENull | EStr s => EStr s | EInt z => EInt z | EFloat t => EFloat t | EBool b => EBool b
  | EObj fs' => EObj (inst_o fs fd fs')
  | EArr fs' => EArr (inst_a fs fd fs')
  | EMember o k => EMember (inst fs fd o) k
  | EIndex o k => EIndex (inst fs fd o) (inst fs fd k)
  | ECall f args => ECall (inst fs fd f) (inst_x fs fd args)
  | EUn op v => EUn op (inst fs fd v)
  | EBin op l r => EBin op (inst fs fd l) (inst fs fd r)
  | ECond c t f => ECond (inst fs fd c) (inst fs fd t) (inst fs fd f)
  end
with inst_x fs fd (l : exprs) : exprs :=
  match l with XNil => XNil | XCons e r => XCons (inst fs fd e) (inst_x fs fd r) end
with inst_o fs fd (l : ofields) : ofields :=
  match l with
  | ONil => ONil
  | ONamed k v r => ONamed k (inst fs fd v) (inst_o fs fd r)
  | OSpread v r => OSpread (inst fs fd v) (inst_o fs fd r)
  end
with inst_a fs fd (l : afields) : afields :=
  match l with
  | ANil => ANil
  | ANormal v r => ANormal (inst fs fd v) (inst_a fs fd r)
  | ASpread v r => ASpread (inst fs fd v) (inst_a fs fd r)
  | AHole r => AHole (inst_a fs fd r)
  end.

Definition named_denotation (scopes : list str) (fs : nat -> expr) (fd : str -> expr) (x : str) : expr :=
  match lookup_scope x scopes with Some i => fs i | None => fd x end.

Theorem convert_scopes_correct scopes fs fd :
  (forall e, inst fs fd (convert_scopes scopes e) = inst fs (named_denotation scopes fs fd) e) /\
  (forall l, inst_x fs fd (convert_scopes_x scopes l) = inst_x fs (named_denotation scopes fs fd) l) /\
  (forall l, inst_o fs fd (convert_scopes_o scopes l) = inst_o fs (named_denotation scopes fs fd) l) /\
  (forall l, inst_a fs fd (convert_scopes_a scopes l) = inst_a fs (named_denotation scopes fs fd) l).
Proof.
  apply expr_mutind; intros; cbn [convert_scopes convert_scopes_x convert_scopes_o convert_scopes_a
                                  inst inst_x inst_o inst_a]; try congruence.
  unfold named_denotation. destruct (lookup_scope x scopes); reflexivity.
Qed.

(* every array element is visited, including those after a hole (the iterator before the
   repair stopped at the first hole) *)
Example hole_iterator_refuted :
  afields_values_until_hole (AHole (ANormal (EField [105%N]) ANil)) = []
  /\ afields_values (AHole (ANormal (EField [105%N]) ANil)) = [EField [105%N]].
Proof. split; reflexivity. Qed.

(* ================= scope discipline of the tree analysis ================= *)
Lemma analyse_value_scopes st d v :
  s_scopes (fst (fst (analyse_value st d v))) = s_scopes st /\ s_dyn (fst (fst (analyse_value st d v))) = s_dyn st.
Proof.
  destruct v as [s|e]; cbn; [split; reflexivity|].
  destruct (orb _ _); [split; reflexivity|]. destruct (collect_keys _ _). split; reflexivity.
Qed.

Lemma analyse_vals_scopes : forall l st d log,
  s_scopes (fst (fst (analyse_vals st d l log))) = s_scopes st /\ s_dyn (fst (fst (analyse_vals st d l log))) = s_dyn st.
Proof.
  induction l as [|a l IH]; intros st d log; cbn [analyse_vals]; [split; reflexivity|].
  destruct (va_val a) as [v|].
  - pose proof (analyse_value_scopes st d v) as [H1 H2].
    destruct (analyse_value st d v) as [[st1 v'] k]. cbn in H1, H2.
    specialize (IH st1 d (log ++ [k])). destruct (analyse_vals st1 d l (log ++ [k])) as [[st2 r'] log'].
    cbn in *. destruct IH as [I1 I2]. split; congruence.
  - specialize (IH st d log). destruct (analyse_vals st d l log) as [[st' r'] log']. exact IH.
Qed.

(* scopes never leak: after a node (or a list of nodes, or if-branches) the scope stack and the
   dynamic-tree depth are exactly what they were before *)
Theorem analyse_no_leak :
  (forall n st log, s_scopes (fst (fst (analyse_node st n log))) = s_scopes st
                    /\ s_dyn (fst (fst (analyse_node st n log))) = s_dyn st) /\
  (forall l st log, s_scopes (fst (fst (analyse_nodes st l log))) = s_scopes st
                    /\ s_dyn (fst (fst (analyse_nodes st l log))) = s_dyn st) /\
  (forall b st conds log, s_scopes (fst (fst (analyse_bodies st b conds log))) = s_scopes st
                    /\ s_dyn (fst (fst (analyse_bodies st b conds log))) = s_dyn st).
Proof.
  apply node_mutind.
  - (* NText *) intros v st log. cbn [analyse_node].
    pose proof (analyse_value_scopes st false v) as H. destruct (analyse_value st false v) as [[st1 v'] k]. exact H.
  - (* NElem *) intros tag statics vals refs children IH st log. cbn [analyse_node].
    pose proof (analyse_vals_scopes vals (push_scopes st (map snd refs)) false log) as [V1 V2].
    destruct (analyse_vals (push_scopes st (map snd refs)) false vals log) as [[st2 vals'] log1].
    specialize (IH st2 log1). destruct (analyse_nodes st2 children log1) as [[st3 ch'] log2].
    cbn in *. destruct IH as [I1 I2]. split; [reflexivity | congruence].
  - (* NPure *) intros slot refs children IH st log. cbn [analyse_node].
    destruct slot as [v|].
    + pose proof (analyse_value_scopes (push_scopes st (map snd refs)) true v) as [V1 V2].
      destruct (analyse_value (push_scopes st (map snd refs)) true v) as [[s v'] k].
      specialize (IH s (match v with VDynamic _ => log ++ [k] | VStatic _ => log end)).
      destruct (analyse_nodes s children _) as [[st3 ch'] log2]. cbn in *. destruct IH as [I1 I2].
      split; [reflexivity | congruence].
    + specialize (IH (push_scopes st (map snd refs)) log).
      destruct (analyse_nodes _ children log) as [[st3 ch'] log2]. cbn in *. destruct IH as [I1 I2].
      split; [reflexivity | congruence].
  - (* NFor *) intros lst item index key children IH st log. cbn [analyse_node].
    pose proof (analyse_value_scopes (inc_dyn st) true lst) as [V1 V2].
    destruct (analyse_value (inc_dyn st) true lst) as [[st1 lst'] k].
    specialize (IH (push_scopes st1 [item; index]) (match lst with VDynamic _ => log ++ [k] | VStatic _ => log end)).
    destruct (analyse_nodes _ children _) as [[st3 ch'] log2]. cbn in *. destruct IH as [I1 I2].
    split; [reflexivity | rewrite I2, V2; reflexivity].
  - (* NIf *) intros branches IHb has_else else_body IHe st log. cbn [analyse_node].
    assert (Hc : forall b st log, s_scopes (fst (fst (analyse_conds st b log))) = s_scopes st
                                  /\ s_dyn (fst (fst (analyse_conds st b log))) = s_dyn st).
    { induction b as [|c body r IHr]; intros st' log'; cbn [analyse_conds]; [split; reflexivity|].
      pose proof (analyse_value_scopes st' true c) as [W1 W2]. destruct (analyse_value st' true c) as [[st1 c'] k].
      specialize (IHr st1 (match c with VDynamic _ => log' ++ [k] | VStatic _ => log' end)).
      destruct (analyse_conds st1 r _) as [[st2 cs] log2]. cbn in *. destruct IHr. split; congruence. }
    pose proof (Hc branches (inc_dyn st) log) as [C1 C2].
    destruct (analyse_conds (inc_dyn st) branches log) as [[st1 conds] log1].
    specialize (IHb st1 conds log1). destruct (analyse_bodies st1 branches conds log1) as [[st2 br'] log2].
    specialize (IHe st2 log2). destruct (analyse_nodes st2 else_body log2) as [[st3 el'] log3].
    cbn in *. destruct IHb as [B1 B2]. destruct IHe as [E1 E2]. split; [reflexivity|].
    rewrite E2, B2, C2. reflexivity.
  - (* NTmplRef *) intros target data st log. cbn [analyse_node].
    pose proof (analyse_value_scopes (inc_dyn st) true target) as [V1 V2].
    destruct (analyse_value (inc_dyn st) true target) as [[st1 t'] k1].
    pose proof (analyse_value_scopes st1 true data) as [W1 W2].
    destruct (analyse_value st1 true data) as [[st2 d'] k2]. cbn in *.
    split; [congruence | rewrite W2, V2; reflexivity].
  - (* NInclude *) intros path st log. cbn. split; reflexivity.
  - (* NSlot *) intros name vals refs st log. cbn [analyse_node].
    pose proof (analyse_value_scopes (push_scopes (inc_dyn st) (map snd refs)) true name) as [V1 V2].
    destruct (analyse_value (push_scopes (inc_dyn st) (map snd refs)) true name) as [[st2 name'] k].
    pose proof (analyse_vals_scopes vals st2 true (match name with VDynamic _ => log ++ [k] | VStatic _ => log end)) as [W1 W2].
    destruct (analyse_vals st2 true vals _) as [[st3 vals'] log2]. cbn in *.
    split; [reflexivity | rewrite W2, V2; reflexivity].
  - (* NOther *) intros st log. cbn. split; reflexivity.
  - (* NNil *) intros st log. cbn. split; reflexivity.
  - (* NCons *) intros n IHn r IHr st log. cbn [analyse_nodes].
    specialize (IHn st log). destruct (analyse_node st n log) as [[st1 n'] log1].
    specialize (IHr st1 log1). destruct (analyse_nodes st1 r log1) as [[st2 r'] log2].
    cbn in *. destruct IHn, IHr. split; congruence.
  - (* BNil *) intros st conds log. cbn. split; reflexivity.
  - (* BCons *) intros c body IHb r IHr st conds log. cbn [analyse_bodies].
    specialize (IHb st log). destruct (analyse_nodes st body log) as [[st1 body'] log1].
    specialize (IHr st1 (tl conds) log1). destruct (analyse_bodies st1 r (tl conds) log1) as [[st2 r'] log2].
    cbn in *. destruct IHb, IHr. split; congruence.
Qed.

(* the list expression of wx:for is resolved BEFORE item / index are pushed *)
Theorem for_list_does_not_see_its_variables st e item index key children log :
  exists ch' st' log', analyse_node st (NFor (VDynamic e) item index key children) log
                       = (st', NFor (VDynamic (convert_scopes (s_scopes st) e)) item index key ch', log').
Proof.
  cbn [analyse_node analyse_value inc_dyn s_scopes s_dyn].
  replace (Nat.ltb 0 (S (s_dyn st)) || true)%bool with true by (now rewrite Bool.orb_true_r).
  cbn [s_scopes]. destruct (analyse_nodes _ children _) as [[st3 ch'] log2]. eauto.
Qed.

(* ================= binding map: a disabled field is never advertised again ================= *)
Definition is_disabled (b : bmc) (f : str) : Prop :=
  overall_disabled b = true \/ assoc_get f (bm_fields b) = Some Disabled.

Lemma is_disabled_not_advertised b f : is_disabled b f -> get_field b f = false.
Proof. unfold get_field. intros [H|H]; [now rewrite H | rewrite H; now destruct (overall_disabled b)]. Qed.

Lemma assoc_get_set k v l k' :
  assoc_get k' (assoc_set k v l) = if str_eqb k' k then Some v else assoc_get k' l.
Proof.
  induction l as [|[k0 v0] l IH]; cbn.
  - destruct (str_eqb k' k); reflexivity.
  - destruct (str_eqb_spec k k0) as [->|Hne]; cbn.
    + destruct (str_eqb_spec k' k0); reflexivity.
    + destruct (str_eqb_spec k' k0) as [->|Hne2].
      * destruct (str_eqb_spec k0 k); [congruence | reflexivity].
      * exact IH.
Qed.

Lemma add_field_keeps_disabled b g f : is_disabled b f -> is_disabled (fst (add_field b g)) f.
Proof.
  unfold add_field, is_disabled. intros [H|H].
  - destruct (assoc_get g (bm_fields b)) as [[n|]|]; cbn; now left.
  - destruct (assoc_get g (bm_fields b)) as [[n|]|] eqn:E; cbn; right; rewrite ?assoc_get_set;
      try (destruct (str_eqb_spec f g) as [->|]; [congruence | exact H]); exact H.
Qed.

Lemma disable_field_keeps b g f : is_disabled b f -> is_disabled (disable_field b g) f.
Proof.
  unfold disable_field, is_disabled. cbn. intros [H|H]; [now left | right].
  rewrite assoc_get_set. destruct (str_eqb f g); [reflexivity | exact H].
Qed.

Lemma disable_field_disables b f : is_disabled (disable_field b f) f.
Proof. right. cbn. rewrite assoc_get_set. now rewrite str_eqb_refl. Qed.

Definition collect_step (acc : bmc * list (str * N)) (f : str) : bmc * list (str * N) :=
  let '(b', keys) := acc in
  match add_field b' f with
  | (b'', Some i) => (b'', keys ++ [(f, i)])
  | (b'', None) => (b'', keys)
  end.

Lemma collect_fold_keeps f : forall l acc,
  is_disabled (fst acc) f -> is_disabled (fst (fold_left collect_step l acc)) f.
Proof.
  induction l as [|g l IH]; intros [b keys] H; cbn [fold_left]; [exact H|].
  apply IH. unfold collect_step. cbn [fst] in H.
  pose proof (add_field_keeps_disabled b g f H) as K.
  destruct (add_field b g) as [b' [i|]]; exact K.
Qed.

Lemma collect_keys_keeps b e f : is_disabled b f -> is_disabled (fst (collect_keys b e)) f.
Proof. intros H. unfold collect_keys. apply (collect_fold_keeps f (fields_of e) (b, [])). exact H. Qed.

Lemma disable_keys_keeps b e f : is_disabled b f -> is_disabled (disable_keys b e) f.
Proof.
  unfold disable_keys. revert b. induction (fields_of e) as [|g l IH]; intros b H; cbn; [exact H|].
  apply IH. now apply disable_field_keeps.
Qed.

Lemma disable_keys_disables b e f : In f (fields_of e) -> is_disabled (disable_keys b e) f.
Proof.
  unfold disable_keys. revert b. induction (fields_of e) as [|g l IH]; intros b H; [destruct H|].
  cbn. destruct H as [->|H]; [|now apply IH].
  clear IH. assert (K : is_disabled (disable_field b f) f) by apply disable_field_disables.
  revert K. generalize (disable_field b f). induction l as [|h l IHl]; intros b' K; cbn; [exact K|].
  apply IHl. now apply disable_field_keeps.
Qed.

(* a value analysed inside a dynamic tree or in a structural position un-advertises every data
   field it reads ... *)
Theorem structural_value_disables st disable e f :
  (0 < s_dyn st \/ disable = true) ->
  In f (fields_of (convert_scopes (s_scopes st) e)) ->
  is_disabled (s_bmc (fst (fst (analyse_value st disable (VDynamic e))))) f.
Proof.
  intros Hc Hin. cbn [analyse_value].
  assert (E : (Nat.ltb 0 (s_dyn st) || disable)%bool = true).
  { destruct Hc as [Hd| ->]; [|now rewrite Bool.orb_true_r].
    destruct (Nat.ltb_spec 0 (s_dyn st)); [reflexivity | lia]. }
  rewrite E. cbn. now apply disable_keys_disables.
Qed.

Lemma analyse_value_keeps st d v f :
  is_disabled (s_bmc st) f -> is_disabled (s_bmc (fst (fst (analyse_value st d v)))) f.
Proof.
  intros H. destruct v as [s|e]; cbn; [exact H|].
  destruct (orb _ _); cbn; [now apply disable_keys_keeps|].
  pose proof (collect_keys_keeps (s_bmc st) (convert_scopes (s_scopes st) e) f H) as K.
  destruct (collect_keys _ _) as [b keys]. exact K.
Qed.

Lemma analyse_vals_keeps f : forall l st d log,
  is_disabled (s_bmc st) f -> is_disabled (s_bmc (fst (fst (analyse_vals st d l log)))) f.
Proof.
  induction l as [|a l IH]; intros st d log H; cbn [analyse_vals]; [exact H|].
  destruct (va_val a) as [v|].
  - pose proof (analyse_value_keeps st d v f H) as K. destruct (analyse_value st d v) as [[st1 v'] k].
    specialize (IH st1 d (log ++ [k]) K). destruct (analyse_vals st1 d l _) as [[st2 r'] log']. exact IH.
  - specialize (IH st d log H). destruct (analyse_vals st d l log) as [[st' r'] log']. exact IH.
Qed.

(* ... and nothing analysed afterwards can advertise it again *)
Theorem analyse_keeps_disabled f :
  (forall n st log, is_disabled (s_bmc st) f -> is_disabled (s_bmc (fst (fst (analyse_node st n log)))) f) /\
  (forall l st log, is_disabled (s_bmc st) f -> is_disabled (s_bmc (fst (fst (analyse_nodes st l log)))) f) /\
  (forall b st conds log, is_disabled (s_bmc st) f -> is_disabled (s_bmc (fst (fst (analyse_bodies st b conds log)))) f).
Proof.
  apply node_mutind.
  - intros v st log H. cbn [analyse_node]. pose proof (analyse_value_keeps st false v f H) as K.
    destruct (analyse_value st false v) as [[st1 v'] k]. exact K.
  - intros tag statics vals refs children IH st log H. cbn [analyse_node].
    pose proof (analyse_vals_keeps f vals (push_scopes st (map snd refs)) false log H) as K.
    destruct (analyse_vals _ false vals log) as [[st2 vals'] log1].
    specialize (IH st2 log1 K). destruct (analyse_nodes st2 children log1) as [[st3 ch'] log2]. exact IH.
  - intros slot refs children IH st log H. cbn [analyse_node]. destruct slot as [v|].
    + pose proof (analyse_value_keeps (push_scopes st (map snd refs)) true v f H) as K.
      destruct (analyse_value _ true v) as [[s v'] k].
      specialize (IH s (match v with VDynamic _ => log ++ [k] | VStatic _ => log end) K).
      destruct (analyse_nodes s children _) as [[st3 ch'] log2]. exact IH.
    + specialize (IH (push_scopes st (map snd refs)) log H).
      destruct (analyse_nodes _ children log) as [[st3 ch'] log2]. exact IH.
  - intros lst item index key children IH st log H. cbn [analyse_node].
    pose proof (analyse_value_keeps (inc_dyn st) true lst f H) as K.
    destruct (analyse_value (inc_dyn st) true lst) as [[st1 lst'] k].
    specialize (IH (push_scopes st1 [item; index]) (match lst with VDynamic _ => log ++ [k] | VStatic _ => log end) K).
    destruct (analyse_nodes _ children _) as [[st3 ch'] log2]. exact IH.
  - intros branches IHb has_else else_body IHe st log H. cbn [analyse_node].
    assert (Hc : forall b st log, is_disabled (s_bmc st) f -> is_disabled (s_bmc (fst (fst (analyse_conds st b log)))) f).
    { induction b as [|c body r IHr]; intros st' log' H'; cbn [analyse_conds]; [exact H'|].
      pose proof (analyse_value_keeps st' true c f H') as K. destruct (analyse_value st' true c) as [[st1 c'] k].
      specialize (IHr st1 (match c with VDynamic _ => log' ++ [k] | VStatic _ => log' end) K).
      destruct (analyse_conds st1 r _) as [[st2 cs] log2]. exact IHr. }
    pose proof (Hc branches (inc_dyn st) log H) as K1.
    destruct (analyse_conds (inc_dyn st) branches log) as [[st1 conds] log1].
    specialize (IHb st1 conds log1 K1). destruct (analyse_bodies st1 branches conds log1) as [[st2 br'] log2].
    specialize (IHe st2 log2 IHb). destruct (analyse_nodes st2 else_body log2) as [[st3 el'] log3]. exact IHe.
  - intros target data st log H. cbn [analyse_node].
    pose proof (analyse_value_keeps (inc_dyn st) true target f H) as K1.
    destruct (analyse_value (inc_dyn st) true target) as [[st1 t'] k1].
    pose proof (analyse_value_keeps st1 true data f K1) as K2.
    destruct (analyse_value st1 true data) as [[st2 d'] k2]. exact K2.
  - intros path st log H. cbn. destruct H as [H|H]; [now left | now left].
  - intros name vals refs st log H. cbn [analyse_node].
    pose proof (analyse_value_keeps (push_scopes (inc_dyn st) (map snd refs)) true name f H) as K1.
    destruct (analyse_value _ true name) as [[st2 name'] k].
    pose proof (analyse_vals_keeps f vals st2 true (match name with VDynamic _ => log ++ [k] | VStatic _ => log end) K1) as K2.
    destruct (analyse_vals st2 true vals _) as [[st3 vals'] log2]. exact K2.
  - intros st log H. exact H.
  - intros st log H. exact H.
  - intros n IHn r IHr st log H. cbn [analyse_nodes].
    specialize (IHn st log H). destruct (analyse_node st n log) as [[st1 n'] log1].
    specialize (IHr st1 log1 IHn). destruct (analyse_nodes st1 r log1) as [[st2 r'] log2]. exact IHr.
  - intros st conds log H. exact H.
  - intros c body IHb r IHr st conds log H. cbn [analyse_bodies].
    specialize (IHb st log H). destruct (analyse_nodes st body log) as [[st1 body'] log1].
    specialize (IHr st1 (tl conds) log1 IHb). destruct (analyse_bodies st1 r (tl conds) log1) as [[st2 r'] log2]. exact IHr.
Qed.

(* an <include> disables the whole map *)
Theorem include_disables_all st path log f :
  is_disabled (s_bmc (fst (fst (analyse_node st (NInclude path) log)))) f.
Proof. left. reflexivity. Qed.

(* slot indices handed out for one field are consecutive, starting at 0 *)
Theorem add_field_consecutive b f n :
  assoc_get f (bm_fields b) = Some (Mapped n) ->
  snd (add_field b f) = Some n /\ assoc_get f (bm_fields (fst (add_field b f))) = Some (Mapped (n + 1)).
Proof.
  intros H. unfold add_field. rewrite H. cbn. split; [reflexivity|].
  rewrite assoc_get_set. now rewrite str_eqb_refl.
Qed.

Theorem add_field_first b f :
  assoc_get f (bm_fields b) = None ->
  snd (add_field b f) = Some 0%N /\ assoc_get f (bm_fields (fst (add_field b f))) = Some (Mapped 1).
Proof.
  intros H. unfold add_field. rewrite H. cbn. split; [reflexivity|].
  rewrite assoc_get_set. now rewrite str_eqb_refl.
Qed.
