(* The round trip print -> parse, generically: for ANY expression printer that satisfies the equations below
   (operands printed bare when their level allows it, or in parentheses - possibly more parentheses than
   needed), the parser reads the printed text back as the same expression. Instantiated with the
   stringifier's printer (minimal parentheses) and with printers that add arbitrary extra parentheses. *)
From GE Require Import Model.StrExpr Model.ExprParse Proofs.ExprParseProofs Proofs.ExprParseFuel Proofs.ExprRtTokens
  Proofs.ExprRtChain Proofs.WxStrProofs Proofs.ExprRoundTrip.
From Coq Require Import Lia ZifyBool ZifyN.
Import ListNotations.
Local Open Scope nat_scope.

Arguments N.eqb : simpl nomatch.
Arguments skip : simpl never.
Arguments tok : simpl never.
Arguments kw : simpl never.
Arguments wx_str_decode : simpl never.
Arguments num_result : simpl never.
Arguments parse_cond : simpl never.
Arguments sx_core : simpl never.
Arguments sx_args : simpl never.
Arguments sx_obj : simpl never.
Arguments sx_arr : simpl never.

Section Gen.
  (* the printer, by its equations *)
  Variable pr : expr -> str.
  Variable prx : exprs -> bool -> str.
  Variable pro : ofields -> bool -> str.
  Variable pra : afields -> bool -> str.
  Variable sub : expr -> N -> str.
  Variable short : str -> expr -> bool.

  (* an operand is printed bare only if its level allows it; otherwise (or at the printer's whim) in parentheses *)
  Hypothesis sub_dec : forall e a, (sub e a = pr e /\ (sx_level e <= a)%N) \/ sub e a = 40%N :: pr e ++ [41%N].
  Hypothesis short_sound : forall k v, wf v -> short k v = true -> v = EField k.
  Hypothesis short_field : forall k, short k (EField k) = true.

  Hypothesis pr_field : forall x, pr (EField x) = x.
  Hypothesis pr_undef : pr EUndef = lit "undefined".
  Hypothesis pr_null : pr ENull = lit "null".
  Hypothesis pr_bool : forall b, pr (EBool b) = if b then lit "true" else lit "false".
  Hypothesis pr_str : forall s, pr (EStr s) = wx_lit_str s.
  Hypothesis pr_int : forall z, pr (EInt z) = z_to_str z.
  Hypothesis pr_member : forall o k, pr (EMember o k) =
    (match o with EInt _ | EFloat _ => lit "(" ++ pr o ++ lit ")" | _ => sub o L_Member end) ++ lit "." ++ k.
  Hypothesis pr_index : forall o k, pr (EIndex o k) = sub o L_Member ++ lit "[" ++ sub k L_Cond ++ lit "]".
  Hypothesis pr_call : forall f args, pr (ECall f args) = sub f L_Member ++ lit "(" ++ prx args true ++ lit ")".
  Hypothesis pr_un : forall op v, pr (EUn op v) = unop_text op ++ sub v L_Unary.
  Hypothesis pr_bin : forall op l r, pr (EBin op l r) = sub l (sx_left op) ++ sx_binop_text op ++ sub r (sx_right op).
  Hypothesis pr_cond : forall c t f, pr (ECond c t f) = sub c L_LogicOr ++ lit "?" ++ sub t L_Cond ++ lit ":" ++ sub f L_Cond.
  Hypothesis pr_obj : forall fs, pr (EObj fs) = lit "{" ++ pro fs true ++ lit "}".
  Hypothesis pr_arr : forall fs, pr (EArr fs) = lit "[" ++ pra fs true ++ lit "]".
  Hypothesis sx_args_nil : forall first, prx XNil first = [].
  Hypothesis sx_args_cons : forall e r first, prx (XCons e r) first =
    (if first then [] else lit ",") ++ sub e L_Cond ++ prx r false.
  Hypothesis sx_obj_nil : forall first, pro ONil first = [].
  Hypothesis sx_obj_named : forall k v r first, pro (ONamed k v r) first =
    (if first then [] else lit ",") ++ k ++ (if short k v then [] else lit ":" ++ sub v L_Cond) ++ pro r false.
  Hypothesis sx_obj_spread : forall v r first, pro (OSpread v r) first =
    (if first then [] else lit ",") ++ lit "..." ++ sub v L_Cond ++ pro r false.
  Hypothesis sx_arr_nil : forall first, pra ANil first = [].
  Hypothesis sx_arr_normal : forall v r first, pra (ANormal v r) first =
    (if first then [] else lit ",") ++ sub v L_Cond ++ pra r false.
  Hypothesis sx_arr_spread : forall v r first, pra (ASpread v r) first =
    (if first then [] else lit ",") ++ lit "..." ++ sub v L_Cond ++ pra r false.
  Hypothesis sx_arr_hole : forall r first, pra (AHole r) first =
    (if first then [] else lit ",") ++ (match r with ANil => lit "," | _ => [] end) ++ pra r false.

  (* number literals (proved in Proofs/NumRoundTrip.v) *)
  Hypothesis num_rt : forall z tail, (0 <= z <= i64_max)%Z -> follow_num tail ->
    num_result (z_to_str z ++ tail) = POk (EInt z) tail.
  Hypothesis num_head : forall z, (0 <= z)%Z -> head_is is_digit (z_to_str z).

  Lemma sub_cases : forall e a, (sub e a = pr e /\ (sx_level e <= a)%N) \/ (forall tail, sub e a ++ tail = 40%N :: pr e ++ 41%N :: tail).
  Proof.
    intros e a. destruct (sub_dec e a) as [H|H]; [left; exact H|right]. intro tail. rewrite H. cbn [app]. rewrite <- app_assoc. reflexivity.
  Qed.

  (* ---- the first character of a printed operand ---- *)
  Lemma opstart_ident_start : forall c, is_ident_start c = true -> opstart c = true.
  Proof. intros c H. unfold opstart. rewrite H. reflexivity. Qed.

  Lemma head_app : forall (P : N -> bool) a b, head_is P a -> head_is P (a ++ b).
  Proof. intros P [|c a] b H; [contradiction|exact H]. Qed.

  Lemma sub_head : forall e a, head_is opstart (pr e) -> head_is opstart (sub e a).
  Proof. intros e a H. destruct (sub_dec e a) as [[E _]|E]; rewrite E; [exact H|reflexivity]. Qed.

  Lemma pr_head : forall e, wf e -> head_is opstart (pr e).
  Proof.
    induction e; intro H; cbn [wf] in H; try contradiction.
    - (* EField *) apply ok_name_spec in H. destruct H as [H _]. apply is_ident_chars in H. destruct H as [_ H].
      rewrite pr_field. destruct x; [contradiction|]. cbn in *. apply opstart_ident_start. exact H.
    - rewrite pr_undef. reflexivity.
    - rewrite pr_null. reflexivity.
    - rewrite pr_str. reflexivity.
    - (* EInt *) destruct H as [H _]. pose proof (num_head z H) as Hh. rewrite pr_int.
      destruct (z_to_str z) as [|d r]; [contradiction|]. cbn in *. unfold opstart. rewrite Hh.
      rewrite Bool.orb_true_r. reflexivity.
    - rewrite pr_bool. destruct b; reflexivity.
    - rewrite pr_obj. reflexivity.
    - rewrite pr_arr. reflexivity.
    - (* EMember *) rewrite pr_member. apply head_app. destruct H as [H _].
      destruct e; try (apply sub_head; apply IHe; exact H); reflexivity.
    - rewrite pr_index. apply head_app. apply sub_head. apply IHe1. tauto.
    - rewrite pr_call. apply head_app. apply sub_head. apply IHe. tauto.
    - rewrite pr_un. destruct op; reflexivity.
    - rewrite pr_bin. apply head_app. apply sub_head. apply IHe1. tauto.
    - rewrite pr_cond. apply head_app. apply sub_head. apply IHe1. tauto.
  Qed.

  Lemma sub_head_wf : forall e a tail, wf e -> head_is opstart (sub e a ++ tail).
  Proof. intros. apply head_app. apply sub_head. apply pr_head. assumption. Qed.

  (* ---- literals read by parse_lit ---- *)
  Lemma kof_field : forall x, ~ In x reserved -> keyword_or_field x = EField x.
  Proof.
    intros x H. unfold keyword_or_field.
    repeat match goal with
           | |- context [str_eqb x ?k] =>
               let E := fresh "E" in
               destruct (str_eqb x k) eqn:E; [apply str_eqb_eq in E; exfalso; apply H; rewrite E; cbn; tauto|]
           end.
    reflexivity.
  Qed.

  Lemma lit_ident : forall x v tail, is_ident x = true -> keyword_or_field x = v -> follow_id tail ->
    p_lit pc (x ++ tail) = POk v tail.
  Proof.
    intros x v tail Hx Hv Ht. destruct (is_ident_chars x Hx) as [Hall Hh].
    destruct x as [|c r]; [contradiction|]. cbn in Hh. unfold p_lit. cbn [app].
    rewrite (ident_start_stable c (r ++ tail) Hh), Hh.
    change (c :: r ++ tail) with ((c :: r) ++ tail). rewrite (take_ident_app _ _ Hall Ht), Hv. reflexivity.
  Qed.

  Lemma lit_str : forall s tail, p_lit pc (wx_lit_str s ++ tail) = POk (EStr s) tail.
  Proof.
    intros s tail. pose proof (wx_lit_str_roundtrip s tail) as H. unfold p_lit.
    unfold wx_lit_str in *. cbn [app tl] in *. rewrite skip_head by (reflexivity || discriminate).
    cbn. rewrite H. reflexivity.
  Qed.

  Lemma lit_int : forall z tail, (0 <= z <= i64_max)%Z -> follow_num tail -> p_lit pc (z_to_str z ++ tail) = POk (EInt z) tail.
  Proof.
    intros z tail Hz Ht. pose proof (num_head z ltac:(lia)) as Hh. pose proof (num_rt z tail Hz Ht) as Hn.
    unfold p_lit. destruct (z_to_str z) as [|d r]; [contradiction|]. cbn in Hh. cbn [app] in *.
    rewrite skip_head by (unfold is_digit, is_ws in *; lia).
    replace (is_ident_start d) with false by (unfold is_ident_start, is_alpha, is_lower, is_upper, is_digit in *; lia).
    replace ((d =? 34)%N || (d =? 39)%N)%bool with false by (unfold is_digit in *; lia).
    rewrite Hh. cbn [orb]. exact Hn.
  Qed.

  Lemma lit_paren : forall T e tail, pc (T ++ 41%N :: tail) = POk e (41%N :: tail) ->
    p_lit pc (40%N :: T ++ 41%N :: tail) = POk e tail.
  Proof.
    intros T e tail H. unfold p_lit. rewrite skip_head by (reflexivity || discriminate).
    cbn. rewrite H. tk. reflexivity.
  Qed.

  (* from parse_lit to the member loop *)
  Lemma ml_of_lit : forall T e tail n, p_lit pc (T ++ tail) = POk e tail -> length tail < n ->
    p_member pc (T ++ tail) = member_loop pc n e tail.
  Proof.
    intros T e tail n H Hn. unfold p_member. rewrite H.
    apply (member_loop_fuel pc parse_cond_le); lia.
  Qed.

  (* ---- what the round trip means at each entry point of the parser ---- *)
  Definition fol (e : expr) (tail : str) : Prop := match e with EInt _ => follow_num tail | _ => follow_id tail end.

  Lemma fol_of_num : forall e tail, follow_num tail -> fol e tail.
  Proof.
    intros e tail H. assert (Hi : follow_id tail) by (destruct tail; [exact I|destruct H; assumption]).
    destruct e; cbn; assumption.
  Qed.

  Definition RT_cond (e : expr) : Prop := forall tail, follow_num tail -> stopsM tail -> stopsB 10 tail -> tok_cond tail = None ->
    pc (pr e ++ tail) = POk e (skip tail).
  Definition RT_PL (j : nat) (e : expr) : Prop := forall tail, follow_num tail -> stopsM tail -> stopsB j tail ->
    PL j (pr e ++ tail) = POk e (skip tail).
  Definition RT_loop (b : nat) (e : expr) : Prop := forall tail n, follow_num tail -> stopsM tail -> stopsB b tail -> length tail < n ->
    PL (S b) (pr e ++ tail) = level_loop (PL b) (ops_of b) n e tail.
  Definition RT_ml (e : expr) : Prop := forall tail n, fol e tail -> length tail < n ->
    p_member pc (pr e ++ tail) = member_loop pc n e tail.
  Definition RT_un (e : expr) : Prop := forall tail, fol e tail -> first_op unops (pr e ++ tail) = None.

  Record RT (e : expr) : Prop := {
    rt_cond : RT_cond e;
    rt_pl : forall j, j <= 10 -> lvl e <= j + 2 -> RT_PL j e;
    rt_loop : forall b, b < 10 -> lvl e <= b + 3 -> RT_loop b e;
    rt_ml : lvl e <= 1 -> RT_ml e /\ RT_un e }.

  (* everything from a plain form at level j0 (expressions of level j0 + 2) *)
  Lemma RT_from_level : forall e j0, j0 <= 10 -> lvl e = j0 + 2 -> RT_PL j0 e -> (forall b, S b = j0 -> RT_loop b e) -> RT e.
  Proof.
    intros e j0 Hj0 Hl Hbase Hloop. constructor.
    - intros tail. apply (from_cond (pr e) e follow_num j0 Hbase Hj0).
    - intros j Hj Hle. intros tail. apply (from_levels (pr e) e follow_num j0 Hbase j). lia.
    - intros b Hb Hle. destruct (Nat.le_gt_cases j0 b) as [Hjb|Hjb].
      + intros tail n. apply (from_loop (pr e) e follow_num j0 Hbase b). exact Hjb.
      + apply Hloop. lia.
    - intro H. lia.
  Qed.

  (* everything for a member-level expression *)
  Lemma RT_from_member : forall e, lvl e <= 1 -> RT_ml e -> RT_un e -> RT e.
  Proof.
    intros e Hl Hml Hun.
    assert (Hbase : RT_PL 0 e).
    { intros tail. apply (unary_of_member (pr e) e follow_num).
      - intros t n Hq Hn. apply Hml; [apply fol_of_num; exact Hq|exact Hn].
      - intros t Hq. apply Hun. apply fol_of_num. exact Hq. }
    constructor.
    - intros tail. apply (from_cond (pr e) e follow_num 0 Hbase). lia.
    - intros j Hj Hle. intros tail. apply (from_levels (pr e) e follow_num 0 Hbase j). lia.
    - intros b Hb Hle. intros tail n. apply (from_loop (pr e) e follow_num 0 Hbase b). lia.
    - intros _. split; assumption.
  Qed.

  (* ---- parenthesised operands ---- *)
  Section Paren.
    Variable e : expr.
    Hypothesis Hc : RT_cond e.

    Lemma paren_inner : forall tail, pc (pr e ++ 41%N :: tail) = POk e (41%N :: tail).
    Proof.
      intro tail. destruct (closer_stops 41 tail ltac:(unfold closer; tauto)) as [HM [HB [HC HF]]].
      rewrite (Hc (41%N :: tail) HF HM (fun i _ => HB i) HC).
      rewrite skip_head by (reflexivity || discriminate). reflexivity.
    Qed.

    Let T : str := 40%N :: pr e ++ [41%N].
    Lemma paren_T : forall tail, T ++ tail = 40%N :: pr e ++ 41%N :: tail.
    Proof. intro tail. unfold T. cbn [app]. rewrite <- app_assoc. reflexivity. Qed.

    Lemma paren_ml : forall tail n, True -> length tail < n -> p_member pc (T ++ tail) = member_loop pc n e tail.
    Proof.
      intros tail n _ Hn. apply ml_of_lit; [|exact Hn]. rewrite paren_T. apply lit_paren. apply paren_inner.
    Qed.
    Lemma paren_un : forall tail, True -> first_op unops (T ++ tail) = None.
    Proof. intros tail _. rewrite paren_T. apply unops_miss_prim. reflexivity. Qed.

    Lemma paren_base : forall tail, True -> stopsM tail -> stopsB 0 tail -> PL 0 (T ++ tail) = POk e (skip tail).
    Proof. apply (unary_of_member T e (fun _ => True) paren_ml paren_un). Qed.

    Lemma paren_PL : forall j tail, stopsM tail -> stopsB j tail -> PL j (40%N :: pr e ++ 41%N :: tail) = POk e (skip tail).
    Proof.
      intros j tail HM HB. rewrite <- paren_T.
      apply (from_levels T e (fun _ => True) 0 paren_base j ltac:(lia) tail I HM HB).
    Qed.
    Lemma paren_loop : forall b tail n, stopsM tail -> stopsB b tail -> length tail < n ->
      PL (S b) (40%N :: pr e ++ 41%N :: tail) = level_loop (PL b) (ops_of b) n e tail.
    Proof.
      intros b tail n HM HB Hn. rewrite <- paren_T.
      apply (from_loop T e (fun _ => True) 0 paren_base b ltac:(lia) tail n I HM HB Hn).
    Qed.
    Lemma paren_member : forall tail n, length tail < n ->
      p_member pc (40%N :: pr e ++ 41%N :: tail) = member_loop pc n e tail.
    Proof. intros tail n Hn. rewrite <- paren_T. apply paren_ml; [exact I|exact Hn]. Qed.
    Lemma paren_unops : forall tail, first_op unops (40%N :: pr e ++ 41%N :: tail) = None.
    Proof. intro tail. apply unops_miss_prim. reflexivity. Qed.
  End Paren.

  (* an operand printed with accept level j + 2, read at level j *)
  Lemma sub_PL : forall e, RT e -> forall j, j <= 10 -> forall tail, follow_num tail -> stopsM tail -> stopsB j tail ->
    PL j (sub e (N.of_nat (j + 2)) ++ tail) = POk e (skip tail).
  Proof.
    intros e He j Hj tail HF HM HB. destruct (sub_cases e (N.of_nat (j + 2))) as [[E Hl]|E].
    - rewrite E. apply (rt_pl e He j Hj); [|exact HF|exact HM|exact HB]. unfold lvl. lia.
    - rewrite E. apply paren_PL; [exact (rt_cond e He)|exact HM|exact HB].
  Qed.

  (* a left operand printed with accept level b + 3, read by the loop of level b *)
  Lemma sub_loop : forall e, RT e -> forall b, b < 10 -> forall tail n, follow_num tail -> stopsM tail -> stopsB b tail -> length tail < n ->
    PL (S b) (sub e (N.of_nat (b + 3)) ++ tail) = level_loop (PL b) (ops_of b) n e tail.
  Proof.
    intros e He b Hb tail n HF HM HB Hn. destruct (sub_cases e (N.of_nat (b + 3))) as [[E Hl]|E].
    - rewrite E. apply (rt_loop e He b Hb); [|exact HF|exact HM|exact HB|exact Hn]. unfold lvl. lia.
    - rewrite E. apply paren_loop; [exact (rt_cond e He)|exact HM|exact HB|exact Hn].
  Qed.

  (* the object of a member access / index / call, read by parse_member up to its loop *)
  Lemma sub_member : forall e, RT e -> forall tail n, fol e tail -> length tail < n ->
    p_member pc (sub e L_Member ++ tail) = member_loop pc n e tail.
  Proof.
    intros e He tail n HF Hn. destruct (sub_cases e L_Member) as [[E Hl]|E].
    - rewrite E. destruct (rt_ml e He ltac:(unfold lvl, L_Member in *; lia)) as [Hml _]. apply Hml; assumption.
    - rewrite E. apply paren_member; [exact (rt_cond e He)|exact Hn].
  Qed.
  Lemma sub_member_un : forall e, RT e -> forall tail, fol e tail -> first_op unops (sub e L_Member ++ tail) = None.
  Proof.
    intros e He tail HF. destruct (sub_cases e L_Member) as [[E Hl]|E].
    - rewrite E. destruct (rt_ml e He ltac:(unfold lvl, L_Member in *; lia)) as [_ Hun]. apply Hun; assumption.
    - rewrite E. apply paren_unops.
  Qed.

  Lemma pc_sub_cond : forall e, RT e -> forall c tail, closer c -> pc (sub e L_Cond ++ c :: tail) = POk e (c :: tail).
  Proof.
    intros e He c tail Hcl. destruct (closer_stops c tail Hcl) as [HM [HB [HC HF]]].
    assert (Hsk : skip (c :: tail) = c :: tail) by (apply skip_head; unfold closer in Hcl; unfold is_ws; lia).
    destruct (sub_cases e L_Cond) as [[E _]|E]; rewrite E.
    - rewrite (rt_cond e He (c :: tail) HF HM (fun i _ => HB i) HC), Hsk. reflexivity.
    - rewrite <- (paren_T e).
      rewrite (from_cond _ e (fun _ => True) 0 (paren_base e (rt_cond e He)) ltac:(lia) (c :: tail) I HM (fun i _ => HB i) HC), Hsk.
      reflexivity.
  Qed.

  (* the same before any tail that stops the conditional level *)
  Lemma pc_sub_any : forall e, RT e -> forall tail, follow_num tail -> stopsM tail -> stopsB 10 tail -> tok_cond tail = None ->
    pc (sub e L_Cond ++ tail) = POk e (skip tail).
  Proof.
    intros e He tail HF HM HB HC. destruct (sub_cases e L_Cond) as [[E _]|E]; rewrite E.
    - exact (rt_cond e He tail HF HM HB HC).
    - rewrite <- (paren_T e).
      exact (from_cond _ e (fun _ => True) 0 (paren_base e (rt_cond e He)) ltac:(lia) tail I HM HB HC).
  Qed.

  (* ---- the first character after skipping, for the list loops ---- *)
  Definition opstart2 (c : N) : bool :=
    is_ident_start c || is_digit c || (c =? 34)%N || (c =? 40)%N || (c =? 91)%N || (c =? 123)%N || (c =? 33)%N || (c =? 126)%N
    || (c =? 43)%N || (c =? 45)%N.
  Definition skips_to_operand (s : str) : Prop := exists c q, skip s = c :: q /\ opstart2 c = true.

  Ltac chars2 := unfold opstart2, opstart, is_ident_start, is_ident_char, is_alpha, is_lower, is_upper, is_digit, is_ws in *; lia.

  Lemma sto_head : forall c q, opstart2 c = true -> skips_to_operand (c :: q).
  Proof. intros c q H. exists c, q. split; [apply skip_head; chars2|exact H]. Qed.

  Lemma sto_sub : forall e a tail, (forall t, skips_to_operand (pr e ++ t)) -> skips_to_operand (sub e a ++ tail).
  Proof.
    intros e a tail H. destruct (sub_cases e a) as [[E _]|E].
    - rewrite E. apply H.
    - rewrite E. apply sto_head. reflexivity.
  Qed.

  Lemma skip_pr : forall e, wf e -> forall tail, skips_to_operand (pr e ++ tail).
  Proof.
    induction e; intros H tail; cbn [wf] in H; try contradiction.
    - (* EField *) apply ok_name_spec in H. destruct H as [H _]. apply is_ident_chars in H. destruct H as [_ H].
      rewrite pr_field. destruct x as [|c r]; [contradiction|]. cbn in H. cbn [app]. apply sto_head. chars2.
    - rewrite pr_undef. apply sto_head. reflexivity.
    - rewrite pr_null. apply sto_head. reflexivity.
    - rewrite pr_str. unfold wx_lit_str. cbn [app]. apply sto_head. reflexivity.
    - (* EInt *) destruct H as [H _]. pose proof (num_head z H) as Hh. rewrite pr_int.
      destruct (z_to_str z) as [|d r]; [contradiction|]. cbn in Hh. cbn [app]. apply sto_head. chars2.
    - rewrite pr_bool. destruct b; apply sto_head; reflexivity.
    - rewrite pr_obj. apply sto_head. reflexivity.
    - rewrite pr_arr. apply sto_head. reflexivity.
    - (* EMember *) rewrite pr_member, <- app_assoc. destruct H as [H _].
      destruct e; try (apply sto_sub; intro t; apply IHe; exact H); apply sto_head; reflexivity.
    - rewrite pr_index, <- app_assoc. apply sto_sub. intro t. apply IHe1. tauto.
    - rewrite pr_call, <- app_assoc. apply sto_sub. intro t. apply IHe. tauto.
    - rewrite pr_un. destruct op; cbn [unop_text].
      + apply sto_head. reflexivity.
      + apply sto_head. reflexivity.
      + exists 43%N. eexists. split; [|reflexivity]. cbn [lit app]. change (lit " +") with [32%N; 43%N]. cbn [app].
        rewrite skip_ws by reflexivity. apply skip_head; [reflexivity|discriminate].
      + exists 45%N. eexists. split; [|reflexivity]. change (lit " -") with [32%N; 45%N]. cbn [app].
        rewrite skip_ws by reflexivity. apply skip_head; [reflexivity|discriminate].
      + exists 116%N. eexists. split; [|reflexivity]. change (lit " typeof ") with (32%N :: 116%N :: lit "ypeof "). cbn [app].
        rewrite skip_ws by reflexivity. apply skip_head; [reflexivity|discriminate].
      + exists 118%N. eexists. split; [|reflexivity]. change (lit " void ") with (32%N :: 118%N :: lit "oid "). cbn [app].
        rewrite skip_ws by reflexivity. apply skip_head; [reflexivity|discriminate].
    - rewrite pr_bin, <- app_assoc. apply sto_sub. intro t. apply IHe1. tauto.
    - rewrite pr_cond, <- app_assoc. apply sto_sub. intro t. apply IHe1. tauto.
  Qed.

  (* ---- the three list loops ---- *)
  Fixpoint all_x (P : expr -> Prop) (l : exprs) : Prop :=
    match l with XNil => True | XCons e r => P e /\ all_x P r end.
  Fixpoint all_o (P : expr -> Prop) (l : ofields) : Prop :=
    match l with ONil => True | ONamed k v r => (is_ident k = true /\ (v = EField k \/ P v)) /\ all_o P r | OSpread v r => P v /\ all_o P r end.
  Fixpoint all_a (P : expr -> Prop) (l : afields) : Prop :=
    match l with ANil => True | ANormal v r => P v /\ all_a P r | ASpread v r => P v /\ all_a P r | AHole r => all_a P r end.

  Definition good (e : expr) : Prop := wf e /\ RT e.

  Lemma sx_args_false : forall args, prx args false =
    match args with XNil => [] | XCons _ _ => 44%N :: prx args true end.
  Proof. destruct args; [apply sx_args_nil|]. rewrite !sx_args_cons. reflexivity. Qed.

  Lemma args_loop_rt : forall args, all_x good args -> forall tail n,
    length (prx args true ++ 41%N :: tail) < n ->
    args_loop pc n (prx args true ++ 41%N :: tail) = POk args (41%N :: tail).
  Proof.
    induction args as [|e r IH]; intros Hall tail n Hn.
    - destruct n as [|n]; [lia|]. rewrite sx_args_nil. cbn [app args_loop].
      rewrite skip_head by (reflexivity || discriminate).
      cbn. reflexivity.
    - destruct Hall as [[Hwf He] Hr]. destruct n as [|n]; [cbn in Hn; lia|].
      rewrite sx_args_cons in *. cbn [app] in *. rewrite <- app_assoc in *.
      cbn [args_loop].
      destruct (sto_sub e L_Cond (prx r false ++ 41%N :: tail) (fun t => skip_pr e Hwf t)) as [c [q [Hs Hc]]]. rewrite Hs.
      replace (c =? 41)%N with false by chars2.
      rewrite sx_args_false in *. destruct r as [|e2 r2].
      + cbn [app] in *. rewrite (pc_sub_cond e He 41%N tail ltac:(unfold closer; tauto)).
        tk. rewrite skip_head by (reflexivity || discriminate). reflexivity.
      + cbn [app] in *. rewrite (pc_sub_cond e He 44%N _ ltac:(unfold closer; tauto)).
        tk. rewrite (IH Hr tail n); [reflexivity|].
        rewrite app_length in Hn. cbn [length] in Hn. lia.
  Qed.

  Lemma sx_obj_false : forall fs, pro fs false =
    match fs with ONil => [] | _ => 44%N :: pro fs true end.
  Proof. destruct fs; [apply sx_obj_nil| |]; [rewrite !sx_obj_named|rewrite !sx_obj_spread]; reflexivity. Qed.

  Lemma shortcut_field : forall k v, wf v -> short k v = true -> v = EField k.
  Proof. exact short_sound. Qed.

  (* what follows a field value: the closing brace or a comma and the next field *)
  Lemma obj_rest : forall r tail, exists c q, pro r false ++ 125%N :: tail = c :: q /\ (c = 125%N \/ c = 44%N) /\
    (c = 125%N -> r = ONil /\ q = tail) /\ (c = 44%N -> q = pro r true ++ 125%N :: tail).
  Proof.
    intros r tail. rewrite sx_obj_false. destruct r.
    - exists 125%N, tail. cbn [app]. repeat split; auto; discriminate.
    - eexists 44%N, _. cbn [app]. repeat split; auto; discriminate.
    - eexists 44%N, _. cbn [app]. repeat split; auto; discriminate.
  Qed.

  (* the named-field branch of obj_loop *)
  Definition obj_named (k : nat) (s : str) : pres ofields :=
    match field_name s with
    | None => PFail (skip s) true
    | Some (name, r) =>
        match skip r with
        | [] => POk (ONamed name (EField name) ONil) []
        | d :: r2 =>
            if (d =? 58)%N then
              match pc r2 with
              | PFail p w => PFail p w
              | POk v rest =>
                  match skip rest with
                  | [] => PFail [] false
                  | d2 :: rest2 =>
                      if (d2 =? 125)%N then POk (ONamed name v ONil) (skip rest)
                      else if (d2 =? 44)%N then
                        match obj_loop pc k rest2 with
                        | POk more r3 => POk (ONamed name v more) r3
                        | PFail p w => PFail p w
                        end
                      else PFail (skip rest) true
                  end
              end
            else if (d =? 125)%N then POk (ONamed name (EField name) ONil) (skip r)
            else if (d =? 44)%N then
              match obj_loop pc k r2 with
              | POk more r3 => POk (ONamed name (EField name) more) r3
              | PFail p w => PFail p w
              end
            else PFail (skip r) true
        end
    end.

  Lemma obj_loop_ident : forall n k x, is_ident k = true -> obj_loop pc (S n) (k ++ x) = obj_named n (k ++ x).
  Proof.
    intros n k x Hk. destruct (is_ident_chars k Hk) as [_ Hh]. destruct k as [|k0 kr]; [contradiction|]. cbn in Hh.
    unfold obj_named. cbn [obj_loop app]. rewrite !(ident_start_stable k0 (kr ++ x) Hh).
    replace (k0 =? 125)%N with false by chars2. replace (k0 =? 46)%N with false by chars2. reflexivity.
  Qed.

  Lemma obj_loop_rt : forall fs, all_o good fs -> forall tail n,
    length (pro fs true ++ 125%N :: tail) < n ->
    obj_loop pc n (pro fs true ++ 125%N :: tail) = POk fs (125%N :: tail).
  Proof.
    induction fs as [|k v r IH|v r IH]; intros Hall tail n Hn.
    - destruct n as [|n]; [lia|]. rewrite sx_obj_nil. cbn [app obj_loop].
      rewrite skip_head by (reflexivity || discriminate). cbn. reflexivity.
    - destruct Hall as [[Hk Hv] Hr]. destruct n as [|n]; [cbn in Hn; lia|].
      rewrite sx_obj_named in *. cbn [app] in *. rewrite <- !app_assoc in *.
      destruct (obj_rest r tail) as [c [q [HR [Hc [H125 H44]]]]].
      rewrite (obj_loop_ident n k _ Hk). unfold obj_named.
      assert (Hsc : short k v = true -> v = EField k).
      { intro Esc. destruct Hv as [E|[Hwf _]]; [exact E|exact (shortcut_field k v Hwf Esc)]. }
      destruct (short k v) eqn:Esc.
      + rewrite (Hsc eq_refl) in *. cbn [app] in *. rewrite HR in *.
        rewrite field_name_ident; [|exact Hk|cbn; destruct Hc as [-> | ->]; reflexivity].
        rewrite skip_head by (destruct Hc as [-> | ->]; (reflexivity || discriminate)).
        destruct Hc as [-> | ->].
        * destruct (H125 eq_refl) as [-> ->]. cbn. reflexivity.
        * cbn. rewrite (H44 eq_refl) in *. rewrite (IH Hr tail n); [reflexivity|].
          rewrite app_length in Hn. cbn [length] in Hn. lia.
      + assert (He : RT v).
        { destruct Hv as [E|[_ He]]; [|exact He]. subst v. rewrite short_field in Esc. discriminate. }
        change (lit ":") with [58%N] in *. cbn [app] in *. rewrite <- ?app_assoc in *. rewrite HR in *.
        rewrite field_name_ident; [|exact Hk|cbn; reflexivity].
        rewrite skip_head by (reflexivity || discriminate). cbn.
        rewrite (pc_sub_cond v He c q ltac:(unfold closer; destruct Hc as [-> | ->]; tauto)).
        rewrite skip_head by (destruct Hc as [-> | ->]; (reflexivity || discriminate)).
        destruct Hc as [-> | ->].
        * destruct (H125 eq_refl) as [-> ->]. cbn. reflexivity.
        * cbn. rewrite (H44 eq_refl) in *. rewrite (IH Hr tail n); [reflexivity|].
          rewrite !app_length in Hn. cbn [length] in Hn. rewrite !app_length in Hn. cbn [length] in Hn. lia.
    - destruct Hall as [[Hwf He] Hr]. destruct n as [|n]; [cbn in Hn; lia|].
      rewrite sx_obj_spread in *. change (lit "...") with [46%N; 46%N; 46%N] in *. cbn [app] in *.
      rewrite <- !app_assoc in *.
      destruct (obj_rest r tail) as [c [q [HR [Hc [H125 H44]]]]]. rewrite HR in *.
      cbn [obj_loop]. rewrite skip_head by (reflexivity || discriminate). cbn.
      rewrite tok_eval by stab. cbn.
      rewrite (pc_sub_cond v He c q ltac:(unfold closer; destruct Hc as [-> | ->]; tauto)).
      rewrite skip_head by (destruct Hc as [-> | ->]; (reflexivity || discriminate)).
      destruct Hc as [-> | ->].
      + destruct (H125 eq_refl) as [-> ->]. cbn. reflexivity.
      + cbn. rewrite (H44 eq_refl) in *. rewrite (IH Hr tail n); [reflexivity|].
        repeat first [rewrite app_length in Hn | progress cbn [length] in Hn]. rewrite app_length. cbn [length]. lia.
  Qed.

  Lemma sx_arr_false : forall fs, pra fs false =
    match fs with ANil => [] | _ => 44%N :: pra fs true end.
  Proof.
    destruct fs; [apply sx_arr_nil| | |]; [rewrite !sx_arr_normal|rewrite !sx_arr_spread|rewrite !sx_arr_hole]; reflexivity.
  Qed.

  Lemma arr_rest : forall r tail, exists c q, pra r false ++ 93%N :: tail = c :: q /\ (c = 93%N \/ c = 44%N) /\
    (c = 93%N -> r = ANil /\ q = tail) /\ (c = 44%N -> q = pra r true ++ 93%N :: tail).
  Proof.
    intros r tail. rewrite sx_arr_false. destruct r.
    - exists 93%N, tail. cbn [app]. repeat split; auto; discriminate.
    - eexists 44%N, _. cbn [app]. repeat split; auto; discriminate.
    - eexists 44%N, _. cbn [app]. repeat split; auto; discriminate.
    - eexists 44%N, _. cbn [app]. repeat split; auto; discriminate.
  Qed.

  Lemma arr_loop_rt : forall fs, all_a good fs -> forall tail n,
    length (pra fs true ++ 93%N :: tail) < n ->
    arr_loop pc n (pra fs true ++ 93%N :: tail) = POk fs (93%N :: tail).
  Proof.
    induction fs as [|v r IH|v r IH|r IH]; intros Hall tail n Hn.
    - destruct n as [|n]; [lia|]. rewrite sx_arr_nil. cbn [app arr_loop].
      rewrite skip_head by (reflexivity || discriminate). cbn. reflexivity.
    - (* ANormal *) destruct Hall as [[Hwf He] Hr]. destruct n as [|n]; [cbn in Hn; lia|].
      rewrite sx_arr_normal in *. cbn [app] in *. rewrite <- !app_assoc in *.
      destruct (arr_rest r tail) as [c [q [HR [Hc [H93 H44]]]]]. rewrite HR in *.
      cbn [arr_loop].
      destruct (sto_sub v L_Cond (c :: q) (fun t => skip_pr v Hwf t)) as [c0 [q0 [Hs Hc0]]]. rewrite Hs.
      replace (c0 =? 93)%N with false by chars2. replace (c0 =? 44)%N with false by chars2.
      replace (starts_with (lit "...") (c0 :: q0)) with false
        by (change (lit "...") with [46%N; 46%N; 46%N]; cbn [starts_with]; replace (46 =? c0)%N with false by chars2; reflexivity).
      rewrite (pc_sub_cond v He c q ltac:(unfold closer; destruct Hc as [-> | ->]; tauto)).
      rewrite skip_head by (destruct Hc as [-> | ->]; (reflexivity || discriminate)).
      destruct Hc as [-> | ->].
      + destruct (H93 eq_refl) as [-> ->]. cbn. reflexivity.
      + cbn. rewrite (H44 eq_refl) in *. rewrite (IH Hr tail n); [reflexivity|].
        repeat first [rewrite app_length in Hn | progress cbn [length] in Hn]. rewrite app_length. cbn [length]. lia.
    - (* ASpread *) destruct Hall as [[Hwf He] Hr]. destruct n as [|n]; [cbn in Hn; lia|].
      rewrite sx_arr_spread in *. change (lit "...") with [46%N; 46%N; 46%N] in *. cbn [app] in *. rewrite <- !app_assoc in *.
      destruct (arr_rest r tail) as [c [q [HR [Hc [H93 H44]]]]]. rewrite HR in *.
      cbn [arr_loop]. rewrite skip_head by (reflexivity || discriminate). cbn.
      rewrite (pc_sub_cond v He c q ltac:(unfold closer; destruct Hc as [-> | ->]; tauto)).
      rewrite skip_head by (destruct Hc as [-> | ->]; (reflexivity || discriminate)).
      destruct Hc as [-> | ->].
      + destruct (H93 eq_refl) as [-> ->]. cbn. reflexivity.
      + cbn. rewrite (H44 eq_refl) in *. rewrite (IH Hr tail n); [reflexivity|].
        repeat first [rewrite app_length in Hn | progress cbn [length] in Hn]. rewrite app_length. cbn [length]. lia.
    - (* AHole *) destruct n as [|n]; [cbn in Hn; lia|]. cbn [all_a] in Hall.
      rewrite sx_arr_hole in *. cbn [app] in *. rewrite sx_arr_false in *. destruct r.
      + cbn [app] in *. change (lit ",") with [44%N] in *. cbn [app] in *. cbn [arr_loop].
        rewrite skip_head by (reflexivity || discriminate). cbn.
        pose proof (IH Hall tail n) as Hi. rewrite sx_arr_nil in Hi. cbn [app] in Hi.
        rewrite Hi; [reflexivity|]. cbn [length] in Hn |- *. lia.
      + cbn [app] in *. cbn [arr_loop]. rewrite skip_head by (reflexivity || discriminate). cbn.
        rewrite (IH Hall tail n); [reflexivity|]. cbn [length] in Hn. lia.
      + cbn [app] in *. cbn [arr_loop]. rewrite skip_head by (reflexivity || discriminate). cbn.
        rewrite (IH Hall tail n); [reflexivity|]. cbn [length] in Hn. lia.
      + cbn [app] in *. cbn [arr_loop]. rewrite skip_head by (reflexivity || discriminate). cbn.
        rewrite (IH Hall tail n); [reflexivity|]. cbn [length] in Hn. lia.
  Qed.

  (* object and array literals read by parse_lit *)
  Lemma p_lit_brace : forall x, p_lit pc (123%N :: x) =
    match obj_loop pc (S (length x)) x with
    | PFail p w => PFail p w
    | POk fs rest => match tok (lit "}") [] rest with Some rest2 => POk (EObj fs) rest2 | None => PFail (skip rest) true end
    end.
  Proof. intro x. unfold p_lit. rewrite skip_head by (reflexivity || discriminate). reflexivity. Qed.
  Lemma p_lit_bracket : forall x, p_lit pc (91%N :: x) =
    match arr_loop pc (S (length x)) x with
    | PFail p w => PFail p w
    | POk fs rest => match tok (lit "]") [] rest with Some rest2 => POk (EArr fs) rest2 | None => PFail (skip rest) true end
    end.
  Proof. intro x. unfold p_lit. rewrite skip_head by (reflexivity || discriminate). reflexivity. Qed.

  Lemma lit_obj : forall fs tail, all_o good fs -> p_lit pc (pr (EObj fs) ++ tail) = POk (EObj fs) tail.
  Proof.
    intros fs tail H. rewrite pr_obj. change (lit "{") with [123%N]. change (lit "}") with [125%N].
    cbn [app]. rewrite <- app_assoc. cbn [app]. rewrite p_lit_brace.
    rewrite (obj_loop_rt fs H tail) by lia. tk. reflexivity.
  Qed.
  Lemma lit_arr : forall fs tail, all_a good fs -> p_lit pc (pr (EArr fs) ++ tail) = POk (EArr fs) tail.
  Proof.
    intros fs tail H. rewrite pr_arr. change (lit "[") with [91%N]. change (lit "]") with [93%N].
    cbn [app]. rewrite <- app_assoc. cbn [app]. rewrite p_lit_bracket.
    rewrite (arr_loop_rt fs H tail) by lia. tk. reflexivity.
  Qed.

  (* ---- the cases ---- *)
  Arguments member_loop : simpl never.
  Arguments args_loop : simpl never.
  Arguments obj_loop : simpl never.
  Arguments arr_loop : simpl never.
  Arguments unary_loop : simpl never.
  Arguments level_loop : simpl never.
  Lemma unops_miss_kwident : forall x tail, is_ident x = true -> x <> lit "typeof" -> x <> lit "void" -> follow_id tail ->
    first_op unops (x ++ tail) = None.
  Proof.
    intros x tail Hid H1 H2 Ht. destruct (is_ident_chars x Hid) as [Hall Hh].
    apply first_op_none. unfold unops.
    destruct x as [|c r] eqn:Ex; [contradiction|]. cbn in Hh.
    assert (Hs : skip ((c :: r) ++ tail) = c :: r ++ tail) by (cbn [app]; apply ident_start_stable; exact Hh).
    rewrite <- Ex in *. cbn -[app].
    repeat (apply Forall_cons;
            [cbn [snd];
             first [ eapply tok_miss_head; [exact Hs|unfold is_ident_start, is_alpha, is_lower, is_upper in Hh; lia]
                   | apply kw_on_ident; [reflexivity|exact Hid|exact Ht|assumption] ]|]).
    apply Forall_nil.
  Qed.

  Lemma RT_ident_like : forall v x, pr v = x -> lvl v <= 1 -> (forall t, fol v t -> follow_id t) ->
    is_ident x = true -> keyword_or_field x = v -> x <> lit "typeof" -> x <> lit "void" -> RT v.
  Proof.
    intros v x Hpr Hl Hfol Hid Hk H1 H2. apply RT_from_member; [exact Hl| |].
    - intros tail n HF Hn. rewrite Hpr. apply ml_of_lit; [|exact Hn]. apply lit_ident; [exact Hid|exact Hk|apply Hfol; exact HF].
    - intros tail HF. rewrite Hpr. apply unops_miss_kwident; [exact Hid|exact H1|exact H2|apply Hfol; exact HF].
  Qed.

  Lemma RT_field : forall x, ok_name x = true -> RT (EField x).
  Proof.
    intros x H. destruct (ok_name_spec x H) as [Hid Hres].
    apply (RT_ident_like (EField x) x); [apply pr_field|cbn; lia|auto|exact Hid|apply kof_field; exact Hres| |];
      intro E; apply Hres; rewrite E; cbn; tauto.
  Qed.
  Lemma RT_undef : RT EUndef.
  Proof. apply (RT_ident_like EUndef (lit "undefined")); [apply pr_undef|cbn; lia|auto|reflexivity|reflexivity|discriminate|discriminate]. Qed.
  Lemma RT_null : RT ENull.
  Proof. apply (RT_ident_like ENull (lit "null")); [apply pr_null|cbn; lia|auto|reflexivity|reflexivity|discriminate|discriminate]. Qed.
  Lemma RT_bool : forall b, RT (EBool b).
  Proof.
    intros [|].
    - apply (RT_ident_like (EBool true) (lit "true")); [apply (pr_bool true)|cbn; lia|auto|reflexivity|reflexivity|discriminate|discriminate].
    - apply (RT_ident_like (EBool false) (lit "false")); [apply (pr_bool false)|cbn; lia|auto|reflexivity|reflexivity|discriminate|discriminate].
  Qed.

  Lemma RT_str : forall s, RT (EStr s).
  Proof.
    intro s. apply RT_from_member; [cbn; lia| |].
    - intros tail n _ Hn. apply ml_of_lit; [|exact Hn]. rewrite pr_str. apply lit_str.
    - intros tail _. rewrite pr_str. unfold wx_lit_str. cbn [app]. apply unops_miss_prim. reflexivity.
  Qed.

  Lemma RT_int : forall z, (0 <= z <= i64_max)%Z -> RT (EInt z).
  Proof.
    intros z Hz. apply RT_from_member; [cbn; lia| |].
    - intros tail n HF Hn. apply ml_of_lit; [|exact Hn]. rewrite pr_int. apply lit_int; [exact Hz|exact HF].
    - intros tail _. rewrite pr_int. pose proof (num_head z ltac:(lia)) as Hh.
      destruct (z_to_str z) as [|d r]; [contradiction|]. cbn in Hh. cbn [app]. apply unops_miss_prim.
      unfold primstart. rewrite Hh. reflexivity.
  Qed.

  Lemma RT_obj : forall fs, all_o good fs -> RT (EObj fs).
  Proof.
    intros fs H. apply RT_from_member; [cbn; lia| |].
    - intros tail n _ Hn. apply ml_of_lit; [|exact Hn]. apply lit_obj. exact H.
    - intros tail _. rewrite pr_obj. change (lit "{") with [123%N]. cbn [app]. apply unops_miss_prim. reflexivity.
  Qed.
  Lemma RT_arr : forall fs, all_a good fs -> RT (EArr fs).
  Proof.
    intros fs H. apply RT_from_member; [cbn; lia| |].
    - intros tail n _ Hn. apply ml_of_lit; [|exact Hn]. apply lit_arr. exact H.
    - intros tail _. rewrite pr_arr. change (lit "[") with [91%N]. cbn [app]. apply unops_miss_prim. reflexivity.
  Qed.

  Lemma member_loop_S : forall n obj s, member_loop pc (S n) obj s =
    match tok (lit ".") [lit ".."] s with
    | Some r => match field_name r with
                | Some (name, rest) => member_loop pc n (EMember obj name) rest
                | None => PFail (skip r) true
                end
    | None =>
        match tok (lit "[") [] s with
        | Some r => match pc r with
                    | PFail p w => PFail p w
                    | POk e rest => match tok (lit "]") [] rest with
                                    | Some rest2 => member_loop pc n (EIndex obj e) rest2
                                    | None => PFail (skip rest) (negb (is_nil (skip rest)))
                                    end
                    end
        | None =>
            match tok (lit "(") [] s with
            | Some r => match args_loop pc (S (length r)) r with
                        | PFail p w => PFail p w
                        | POk args rest => match tok (lit ")") [] rest with
                                           | Some rest2 => member_loop pc n (ECall obj args) rest2
                                           | None => PFail (skip rest) (negb (is_nil (skip rest)))
                                           end
                        end
            | None => POk obj (skip s)
            end
        end
    end.
  Proof. reflexivity. Qed.

  (* the object text of a member access *)
  Definition objtext (o : expr) : str :=
    match o with EInt _ | EFloat _ => lit "(" ++ pr o ++ lit ")" | _ => sub o L_Member end.

  Lemma pr_member' : forall o k, pr (EMember o k) = objtext o ++ 46%N :: k.
  Proof. intros o k. rewrite pr_member. reflexivity. Qed.

  Lemma objtext_member : forall o, good o -> forall tail n, follow_id tail -> length tail < n ->
    p_member pc (objtext o ++ tail) = member_loop pc n o tail.
  Proof.
    intros o [Hwf Ho] tail n HF Hn.
    destruct o; try (apply sub_member; [exact Ho|exact HF|exact Hn]).
    - unfold objtext. change (lit "(") with [40%N]. change (lit ")") with [41%N]. cbn [app]. rewrite <- app_assoc. cbn [app].
      apply paren_member; [exact (rt_cond _ Ho)|exact Hn].
    - cbn in Hwf. contradiction.
  Qed.
  Lemma objtext_un : forall o, good o -> forall tail, follow_id tail -> first_op unops (objtext o ++ tail) = None.
  Proof.
    intros o [Hwf Ho] tail HF.
    destruct o; try (apply sub_member_un; [exact Ho|exact HF]).
    - unfold objtext. change (lit "(") with [40%N]. cbn [app]. apply unops_miss_prim. reflexivity.
    - cbn in Hwf. contradiction.
  Qed.

  Lemma RT_member : forall o k, good o -> is_ident k = true -> RT (EMember o k).
  Proof.
    intros o k Ho Hk. destruct (is_ident_chars k Hk) as [_ Hh].
    apply RT_from_member; [cbn; lia| |].
    - intros tail n HF Hn. cbn [fol] in HF. rewrite pr_member', <- app_assoc. cbn [app].
      rewrite (objtext_member o Ho _ (S (S (length (k ++ tail))))); [|cbn; reflexivity|cbn [length]; lia].
      rewrite member_loop_S.
      destruct k as [|k0 kr] eqn:Ek; [contradiction|]. cbn in Hh. rewrite <- Ek in *.
      assert (Ht : tok (lit ".") [lit ".."] (46%N :: k ++ tail) = Some (k ++ tail)).
      { rewrite tok_eval by stab. rewrite Ek. cbn. replace (46 =? k0)%N with false by chars2. reflexivity. }
      rewrite Ht, (field_name_ident k tail Hk HF).
      apply (member_loop_fuel pc parse_cond_le); [rewrite app_length; lia|exact Hn].
    - intros tail HF. rewrite pr_member', <- app_assoc. apply objtext_un; [exact Ho|]. cbn. reflexivity.
  Qed.

  Lemma RT_index : forall o k, good o -> good k -> RT (EIndex o k).
  Proof.
    intros o k [Hwo Ho] [Hwk Hk].
    assert (HF' : forall x, fol o (91%N :: x)) by (intro x; apply fol_of_num; cbn; split; [reflexivity|discriminate]).
    apply RT_from_member; [cbn; lia| |].
    - intros tail n HF Hn. rewrite pr_index. change (lit "[") with [91%N]. change (lit "]") with [93%N].
      rewrite <- !app_assoc. cbn [app].
      rewrite (sub_member o Ho _ (S (S (length (sub k L_Cond ++ 93%N :: tail)))) (HF' _)) by (cbn [length]; lia).
      rewrite member_loop_S. tk.
      rewrite (pc_sub_cond k Hk 93%N tail ltac:(unfold closer; tauto)). tk.
      apply (member_loop_fuel pc parse_cond_le); [rewrite app_length; cbn [length]; lia|exact Hn].
    - intros tail HF. rewrite pr_index. change (lit "[") with [91%N]. rewrite <- !app_assoc. cbn [app].
      apply sub_member_un; [exact Ho|apply HF'].
  Qed.

  Lemma RT_call : forall f args, good f -> all_x good args -> RT (ECall f args).
  Proof.
    intros f args [Hwf Hf] Hargs.
    assert (HF' : forall x, fol f (40%N :: x)) by (intro x; apply fol_of_num; cbn; split; [reflexivity|discriminate]).
    apply RT_from_member; [cbn; lia| |].
    - intros tail n HF Hn. rewrite pr_call. change (lit "(") with [40%N]. change (lit ")") with [41%N].
      rewrite <- !app_assoc. cbn [app].
      rewrite (sub_member f Hf _ (S (S (length (prx args true ++ 41%N :: tail)))) (HF' _)) by (cbn [length]; lia).
      rewrite member_loop_S. tk.
      rewrite (args_loop_rt args Hargs tail) by lia. tk.
      apply (member_loop_fuel pc parse_cond_le); [rewrite app_length; cbn [length]; lia|exact Hn].
    - intros tail HF. rewrite pr_call. change (lit "(") with [40%N]. rewrite <- !app_assoc. cbn [app].
      apply sub_member_un; [exact Hf|apply HF'].
  Qed.

  Lemma unary_loop_S : forall n s, unary_loop pc (S n) s =
    match first_op unops s with
    | Some (u, rest) => match unary_loop pc n rest with POk e r => POk (EUn u e) r | PFail p w => PFail p w end
    | None => p_member pc s
    end.
  Proof. reflexivity. Qed.

  Lemma level_loop_S : forall next ops n left s, level_loop next ops (S n) left s =
    match first_op ops s with
    | Some (b, rest) => match next rest with
                        | POk r rest2 => level_loop next ops n (EBin b left r) rest2
                        | PFail p w => PFail p w
                        end
    | None => POk left (skip s)
    end.
  Proof. reflexivity. Qed.

  Lemma RT_un_case : forall op v, good v -> RT (EUn op v).
  Proof.
    intros op v [Hwf Hv]. apply (RT_from_level (EUn op v) 0); [lia|reflexivity| |intros b Hb; lia].
    intros tail HF HM HB. rewrite pr_un, <- app_assoc. cbn [PL]. unfold p_unary. rewrite unary_loop_S.
    destruct (unop_hit op (sub v L_Unary ++ tail) (sub_head_wf v L_Unary tail Hwf)) as [x' [Hhit Hsk]].
    rewrite Hhit. pose proof (first_op_lt _ unops _ _ _ unops_ok Hhit) as Hlt.
    rewrite (unary_loop_fuel pc parse_cond_le _ (S (length x')) x') by lia.
    change (unary_loop pc (S (length x')) x') with (PL 0 x').
    rewrite (skipinv_eq _ (PL 0) x' (sub v L_Unary ++ tail) (PL_skip 0) Hsk).
    change L_Unary with (N.of_nat (0 + 2)). rewrite (sub_PL v Hv 0 ltac:(lia) tail HF HM HB). reflexivity.
  Qed.

  Lemma lvl_bin : forall op l r, lvl (EBin op l r) = bidx op + 3.
  Proof. intros. unfold lvl. cbn [sx_level]. rewrite bidx_level. lia. Qed.

  Lemma RT_bin_case : forall op l r, good l -> good r -> RT (EBin op l r).
  Proof.
    intros op l r [Hwl Hl] [Hwr Hr]. pose proof (bidx_lt10 op) as Hb.
    assert (Hloop : RT_loop (bidx op) (EBin op l r)).
    { intros tail n HF HM HB Hn. rewrite pr_bin, <- !app_assoc.
      set (tail1 := sx_binop_text op ++ sub r (sx_right op) ++ tail).
      assert (Hhd : head_is opstart (sub r (sx_right op) ++ tail)) by (apply sub_head_wf; exact Hwr).
      unfold sx_left. rewrite bidx_level.
      rewrite (sub_loop l Hl (bidx op) Hb tail1 (S (length tail1))); try lia.
      2: apply op_follow. 2: apply op_stopsM; exact Hhd. 2: intros i Hi; apply op_below; [exact Hhd|exact Hi].
      rewrite level_loop_S.
      destruct (op_hit op _ Hhd) as [x' [Hhit Hsk]]. fold tail1 in Hhit. rewrite Hhit.
      rewrite (skipinv_eq _ (PL (bidx op)) x' _ (PL_skip (bidx op)) Hsk).
      rewrite bidx_right. rewrite (sub_PL r Hr (bidx op) ltac:(lia) tail HF HM HB).
      pose proof (skip_le tail) as Hs.
      assert (Hlen : length tail < length tail1).
      { unfold tail1. rewrite !app_length. destruct op; cbn; lia. }
      rewrite (level_loop_fuel pc parse_cond_le (PL (bidx op)) (ops_of (bidx op)) (PL_le _) (ops_of_ok _) (length tail1) n _ (skip tail)) by lia.
      destruct n as [|n]; [lia|]. apply level_loop_skip. apply ops_of_skip. }
    apply (RT_from_level (EBin op l r) (S (bidx op))); [lia|rewrite lvl_bin; lia| |].
    - intros tail HF HM HB. apply (level_of_loop (pr (EBin op l r)) (EBin op l r) follow_num (bidx op)); try assumption.
    - intros b E. injection E as ->. exact Hloop.
  Qed.

  Lemma RT_cond_case : forall c t f, good c -> good t -> good f -> RT (ECond c t f).
  Proof.
    intros c t f [Hwc Hc] [Hwt Ht] [Hwf Hf]. constructor.
    - intros tail HF HM HB HC. rewrite pr_cond. change (lit "?") with [63%N]. change (lit ":") with [58%N].
      rewrite <- !app_assoc. cbn [app].
      rewrite parse_cond_unfold. unfold cond_body. rewrite p_lor_PL.
      assert (Hhd : head_is opstart (sub t L_Cond ++ 58%N :: sub f L_Cond ++ tail)) by (apply sub_head_wf; exact Hwt).
      destruct (question_stops _ Hhd) as [QM [QB [QC QF]]].
      change L_LogicOr with (N.of_nat (10 + 2)).
      rewrite (sub_PL c Hc 10 ltac:(lia) _ QF QM (fun i _ => QB i)).
      rewrite tok_cond_skip, QC.
      rewrite (pc_sub_cond t Ht 58%N _ ltac:(unfold closer; tauto)). tk.
      rewrite (pc_sub_any f Hf tail HF HM HB HC). reflexivity.
    - intros j Hj Hle. cbn in Hle. lia.
    - intros b Hb Hle. cbn in Hle. lia.
    - intro Hle. cbn in Hle. lia.
  Qed.

  (* ---- the induction ---- *)
  Theorem wf_RT : forall e, wf e -> RT e.
  Proof.
    apply (expr_mut (fun e => wf e -> RT e) (fun l => wf_x l -> all_x good l)
                    (fun l => wf_o l -> all_o good l) (fun l => wf_a l -> all_a good l)); cbn [wf wf_x wf_o wf_a all_x all_o all_a].
    - intros i H. contradiction.
    - intros x H. apply RT_field. exact H.
    - intros e _ H. contradiction.
    - intros _. exact RT_undef.
    - intros _. exact RT_null.
    - intros s _. apply RT_str.
    - intros z H. apply RT_int. exact H.
    - intros t H. contradiction.
    - intros b _. apply RT_bool.
    - intros fs IH H. apply RT_obj. apply IH. exact H.
    - intros fs IH H. apply RT_arr. apply IH. exact H.
    - intros o IHo k [Ho Hk]. apply RT_member; [split; [exact Ho|apply IHo; exact Ho]|exact Hk].
    - intros o IHo k IHk [Ho Hk]. apply RT_index; split; auto.
    - intros f IHf args IHa [Hf Ha]. apply RT_call; [split; auto|apply IHa; exact Ha].
    - intros op v IHv Hv. apply RT_un_case. split; auto.
    - intros op l IHl r IHr [Hl Hr]. apply RT_bin_case; split; auto.
    - intros c IHc t IHt f IHf [Hc [Ht Hf]]. apply RT_cond_case; split; auto.
    - intros _. exact I.
    - intros e IHe r IHr [He Hr]. split; [split; auto|auto].
    - intros _. exact I.
    - intros k v IHv r IHr [Hk [Hv Hr]]. split; [split; [exact Hk|destruct Hv as [E|Hv]; [left; exact E|right; split; auto]]|auto].
    - intros v IHv r IHr [Hv Hr]. split; [split; auto|auto].
    - intros _. exact I.
    - intros v IHv r IHr [Hv Hr]. split; [split; auto|auto].
    - intros v IHv r IHr [Hv Hr]. split; [split; auto|auto].
    - intros r IHr Hr. auto.
  Qed.

  (* the printed text followed by the end of a binding *)
  Theorem print_parse_cond : forall e, wf e -> forall rest,
    pc (pr e ++ 125%N :: 125%N :: rest) = POk e (125%N :: 125%N :: rest).
  Proof.
    intros e H rest. destruct (closer_stops 125 (125%N :: rest) ltac:(unfold closer; tauto)) as [HM [HB [HC HF]]].
    rewrite (rt_cond e (wf_RT e H) _ HF HM (fun i _ => HB i) HC).
    rewrite skip_head by (reflexivity || discriminate). reflexivity.
  Qed.

  (* ---- the binding parser around the expression ---- *)
  Definition no_sep_head (s : str) : Prop := forall c q, skip s = c :: q -> c <> 58%N /\ c <> 44%N.

  Lemma is_object_inner_ws : forall t c s, is_ws c = true -> is_object_inner t (c :: s) = is_object_inner t s.
  Proof. intros t c s H. unfold is_object_inner, field_name. rewrite (skip_ws c s H). reflexivity. Qed.

  Lemma noi_ident : forall x tail, is_ident x = true -> follow_id tail -> no_sep_head tail ->
    is_object_inner false (x ++ tail) = false.
  Proof.
    intros x tail Hx Ht Hn. unfold is_object_inner. rewrite (field_name_ident x tail Hx Ht).
    destruct (skip tail) as [|c q] eqn:E; [reflexivity|]. destruct (Hn c q E) as [H1 H2].
    apply N.eqb_neq in H1, H2. rewrite H1, H2. reflexivity.
  Qed.

  Lemma noi_other : forall s c q, skip s = c :: q -> is_ident_start c = false -> c <> 46%N -> is_object_inner false s = false.
  Proof.
    intros s c q Hs Hc H46. unfold is_object_inner, field_name. rewrite Hs, Hc.
    change (lit "...") with [46%N; 46%N; 46%N]. cbn [starts_with].
    apply N.eqb_neq in H46. rewrite N.eqb_sym in H46. rewrite H46. reflexivity.
  Qed.

  Lemma noi_head : forall c q, is_ws c = false -> c <> 47%N -> is_ident_start c = false -> c <> 46%N ->
    is_object_inner false (c :: q) = false.
  Proof. intros c q Hw H47 Hi H46. apply (noi_other (c :: q) c q); [apply skip_head; assumption|exact Hi|exact H46]. Qed.

  Lemma op_skip_head : forall op x, head_is opstart x -> no_sep_head (sx_binop_text op ++ x) /\ follow_id (sx_binop_text op ++ x).
  Proof.
    intros op [|d x0] Hd; [contradiction|]. cbn [head_is] in Hd. split.
    - intros c q. destruct op; cbn [sx_binop_text binop_text]; cbn;
        try (rewrite skip_stable by stab; intro E; injection E as <- _; split; discriminate).
      rewrite skip_ws by reflexivity. rewrite skip_stable by stab. intro E; injection E as <- _; split; discriminate.
    - destruct op; reflexivity.
  Qed.

  Lemma noi_sub : forall e a tail, (forall t, follow_id t -> no_sep_head t -> is_object_inner false (pr e ++ t) = false) ->
    follow_id tail -> no_sep_head tail -> is_object_inner false (sub e a ++ tail) = false.
  Proof.
    intros e a tail H Ht Hn. destruct (sub_cases e a) as [[E _]|E].
    - rewrite E. apply H; assumption.
    - rewrite E. apply noi_head; (reflexivity || discriminate).
  Qed.

  Lemma no_sep_cons : forall c q, is_ws c = false -> c <> 47%N -> c <> 58%N -> c <> 44%N -> no_sep_head (c :: q).
  Proof. intros c q Hw H47 H58 H44 c' q' E. rewrite skip_head in E by assumption. injection E as <- _. split; assumption. Qed.

  Lemma noi : forall e, wf e -> forall tail, follow_id tail -> no_sep_head tail -> is_object_inner false (pr e ++ tail) = false.
  Proof.
    induction e; intros H tail Ht Hn; cbn [wf] in H; try contradiction.
    - apply ok_name_spec in H. destruct H as [H _]. rewrite pr_field. apply noi_ident; assumption.
    - rewrite pr_undef. apply noi_ident; [reflexivity|assumption|assumption].
    - rewrite pr_null. apply noi_ident; [reflexivity|assumption|assumption].
    - rewrite pr_str. unfold wx_lit_str. cbn [app]. apply noi_head; (reflexivity || discriminate).
    - destruct H as [H _]. pose proof (num_head z H) as Hh. rewrite pr_int.
      destruct (z_to_str z) as [|d r]; [contradiction|]. cbn in Hh. cbn [app]. apply noi_head; chars2.
    - rewrite pr_bool. destruct b; (apply noi_ident; [reflexivity|assumption|assumption]).
    - rewrite pr_obj. change (lit "{") with [123%N]. cbn [app]. apply noi_head; (reflexivity || discriminate).
    - rewrite pr_arr. change (lit "[") with [91%N]. cbn [app]. apply noi_head; (reflexivity || discriminate).
    - (* EMember *) rewrite pr_member', <- app_assoc. cbn [app]. destruct H as [H _].
      assert (Ht' : follow_id (46%N :: k ++ tail)) by reflexivity.
      assert (Hn' : no_sep_head (46%N :: k ++ tail)) by (apply no_sep_cons; (reflexivity || discriminate)).
      destruct e; try (apply noi_sub; [intros t Ht2 Hn2; apply IHe; assumption|exact Ht'|exact Hn']).
      + unfold objtext. change (lit "(") with [40%N]. cbn [app]. apply noi_head; (reflexivity || discriminate).
      + cbn in H. contradiction.
    - rewrite pr_index. change (lit "[") with [91%N]. rewrite <- !app_assoc. cbn [app].
      apply noi_sub; [intros t Ht2 Hn2; apply IHe1; tauto|reflexivity|apply no_sep_cons; (reflexivity || discriminate)].
    - rewrite pr_call. change (lit "(") with [40%N]. rewrite <- !app_assoc. cbn [app].
      apply noi_sub; [intros t Ht2 Hn2; apply IHe; tauto|reflexivity|apply no_sep_cons; (reflexivity || discriminate)].
    - (* EUn *) rewrite pr_un, <- app_assoc. destruct op; cbn [unop_text].
      + change (lit "!") with [33%N]. cbn [app]. apply noi_head; (reflexivity || discriminate).
      + change (lit "~") with [126%N]. cbn [app]. apply noi_head; (reflexivity || discriminate).
      + change (lit " +") with [32%N; 43%N]. cbn [app]. rewrite is_object_inner_ws by reflexivity.
        apply noi_head; (reflexivity || discriminate).
      + change (lit " -") with [32%N; 45%N]. cbn [app]. rewrite is_object_inner_ws by reflexivity.
        apply noi_head; (reflexivity || discriminate).
      + change (lit " typeof ") with (32%N :: lit "typeof" ++ [32%N]). cbn [app]. rewrite is_object_inner_ws by reflexivity.
        rewrite <- app_assoc. apply noi_ident; [reflexivity|reflexivity|].
        intros c q E. cbn [app] in E. rewrite skip_ws in E by reflexivity.
        destruct (sto_sub e L_Unary tail (fun t => skip_pr e H t)) as [c0 [q0 [Hs Hc0]]]. rewrite Hs in E. injection E as <- _. chars2.
      + change (lit " void ") with (32%N :: lit "void" ++ [32%N]). cbn [app]. rewrite is_object_inner_ws by reflexivity.
        rewrite <- app_assoc. apply noi_ident; [reflexivity|reflexivity|].
        intros c q E. cbn [app] in E. rewrite skip_ws in E by reflexivity.
        destruct (sto_sub e L_Unary tail (fun t => skip_pr e H t)) as [c0 [q0 [Hs Hc0]]]. rewrite Hs in E. injection E as <- _. chars2.
    - (* EBin *) rewrite pr_bin, <- !app_assoc. destruct H as [Hl Hr].
      destruct (op_skip_head op (sub e2 (sx_right op) ++ tail) (sub_head_wf e2 _ tail Hr)) as [Hn' Ht'].
      apply noi_sub; [intros t Ht2 Hn2; apply IHe1; assumption|exact Ht'|exact Hn'].
    - (* ECond *) rewrite pr_cond. change (lit "?") with [63%N]. rewrite <- !app_assoc. cbn [app].
      apply noi_sub; [intros t Ht2 Hn2; apply IHe1; tauto|reflexivity|apply no_sep_cons; (reflexivity || discriminate)].
  Qed.

  Theorem print_parse_binding : forall e, wf e -> forall rest,
    ExprParse.binding false (pr e ++ 125%N :: 125%N :: rest) = (Some e, rest).
  Proof.
    intros e H rest. unfold ExprParse.binding.
    destruct (skip_pr e H (125%N :: 125%N :: rest)) as [c [q [Hs Hc]]]. rewrite Hs.
    replace (starts_with (lit "}}") (c :: q)) with false
      by (change (lit "}}") with [125%N; 125%N]; cbn [starts_with]; replace (125 =? c)%N with false by chars2; reflexivity).
    unfold parse_top. rewrite (noi e H); [|reflexivity|apply no_sep_cons; (reflexivity || discriminate)].
    rewrite (print_parse_cond e H rest). reflexivity.
  Qed.

  (* the same in template-data mode (`data="{{ ... }}"` of <template is>): the value there is always an
     object literal, printed with its braces *)
  Theorem print_parse_template_data : forall fs, wf (EObj fs) -> forall rest,
    ExprParse.binding true (pr (EObj fs) ++ 125%N :: 125%N :: rest) = (Some (EObj fs), rest).
  Proof.
    intros fs H rest. unfold ExprParse.binding.
    assert (Hs : forall x, skip (pr (EObj fs) ++ x) = pr (EObj fs) ++ x).
    { intro x. rewrite pr_obj. change (lit "{") with [123%N]. cbn [app]. apply skip_head; [reflexivity|discriminate]. }
    rewrite Hs. rewrite pr_obj at 1. change (lit "{") with [123%N]. change (lit "}}") with [125%N; 125%N]. cbn [app starts_with].
    change ((125 =? 123)%N) with false. cbn [andb].
    unfold parse_top.
    assert (Hn : is_object_inner true (pr (EObj fs) ++ 125%N :: 125%N :: rest) = false).
    { unfold is_object_inner, field_name. rewrite Hs. rewrite pr_obj. change (lit "{") with [123%N]. cbn [app].
      change (is_ident_start 123) with false. cbv iota. change (lit "...") with [46%N; 46%N; 46%N]. reflexivity. }
    rewrite Hn, (print_parse_cond (EObj fs) H rest). reflexivity.
  Qed.
End Gen.
