From GE Require Import Model.AttrRoute.
Import ListNotations.
Local Open Scope N_scope.

Definition no_colon (s : str) : Prop := Forall (fun c => c <> 58) s.

Lemma split_colon_aux_no_colon : forall s cur, no_colon s -> split_colon_aux s cur = [rev cur ++ s].
Proof.
  induction s as [|c r IH]; intros cur H; cbn [split_colon_aux].
  - now rewrite app_nil_r.
  - inversion H as [|? ? Hc Hr]; subst.
    destruct (N.eqb_spec c 58) as [E|_]; [contradiction|].
    rewrite IH by assumption. cbn [rev]. now rewrite <- app_assoc.
Qed.

Lemma split_colon_aux_app : forall p cur n, no_colon p ->
  split_colon_aux (p ++ 58 :: n) cur = (rev cur ++ p) :: split_colon_aux n [].
Proof.
  induction p as [|c r IH]; intros cur n H; cbn [app split_colon_aux].
  - now rewrite N.eqb_refl, app_nil_r.
  - inversion H as [|? ? Hc Hr]; subst.
    destruct (N.eqb_spec c 58) as [E|_]; [contradiction|].
    rewrite IH by assumption. cbn [rev]. now rewrite <- app_assoc.
Qed.

Lemma split_colon_one : forall n, no_colon n -> split_colon n = [n].
Proof. intros n H. unfold split_colon. now rewrite split_colon_aux_no_colon. Qed.

Lemma split_colon_two : forall p n, no_colon p -> no_colon n -> split_colon (p ++ 58 :: n) = [p; n].
Proof.
  intros p n Hp Hn. unfold split_colon. rewrite split_colon_aux_app by assumption.
  now rewrite split_colon_aux_no_colon.
Qed.

Lemma str_eqb_nil_false : forall n, n <> [] -> str_eqb n [] = false.
Proof. destruct n; [congruence|reflexivity]. Qed.

Ltac no_colon_lit := repeat constructor; discriminate.

(* one family: the prefix decides the channel, the name is normalised as stated *)
Ltac family :=
  intros n Hn Hne;
  unfold route;
  match goal with |- context [split_colon (?p ++ ?n)] =>
    change (p ++ n) with (removelast p ++ 58 :: n)
  end;
  rewrite split_colon_two by (assumption || (vm_compute; no_colon_lit));
  rewrite (str_eqb_nil_false _ Hne); reflexivity.

Lemma route_model : forall n, no_colon n -> n <> [] ->
  route KView (lit "model:" ++ n) = Some (lit "r!:" ++ dash_to_camel n).
Proof. family. Qed.
Lemma route_change : forall n, no_colon n -> n <> [] ->
  route KView (lit "change:" ++ n) = Some (lit "p:" ++ dash_to_camel n).
Proof. family. Qed.
Lemma route_worklet : forall n, no_colon n -> n <> [] ->
  route KView (lit "worklet:" ++ n) = Some (lit "wl:" ++ dash_to_camel n).
Proof. family. Qed.
Lemma route_generic : forall n, no_colon n -> n <> [] ->
  route KView (lit "generic:" ++ n) = Some (lit "g:" ++ n).
Proof. family. Qed.
Lemma route_extra_attr : forall n, no_colon n -> n <> [] ->
  route KView (lit "extra-attr:" ++ n) = Some (lit "a:" ++ n).
Proof. family. Qed.
Lemma route_data_colon : forall k n, no_colon n -> n <> [] ->
  route k (lit "data:" ++ n) = Some (lit "d:" ++ n).
Proof. intros k; destruct k; family. Qed.
Lemma route_mark : forall k n, no_colon n -> n <> [] ->
  route k (lit "mark:" ++ n) = Some (lit "m:" ++ n).
Proof. intros k; destruct k; family. Qed.
Lemma route_slot_ref : forall k n, no_colon n -> n <> [] ->
  route k (lit "slot:" ++ n) = Some (lit "sref:" ++ dash_to_camel n).
Proof. intros k; destruct k; family. Qed.

Lemma route_events : forall k n, no_colon n -> n <> [] ->
  route k (lit "bind:" ++ n) = Some (ev_key n false false false) /\
  route k (lit "mut-bind:" ++ n) = Some (ev_key n false true false) /\
  route k (lit "catch:" ++ n) = Some (ev_key n true false false) /\
  route k (lit "capture-bind:" ++ n) = Some (ev_key n false false true) /\
  route k (lit "capture-mut-bind:" ++ n) = Some (ev_key n false true true) /\
  route k (lit "capture-catch:" ++ n) = Some (ev_key n true false true).
Proof. intros k n Hn Hne; destruct k; repeat split; revert n Hn Hne; family. Qed.

(* data-xxx : lower-cased then camel-cased, on elements and on slots *)
Lemma route_data_hyphen : forall k n, no_colon n -> n <> [] ->
  route k (lit "data-" ++ n) = Some (lit "d:" ++ dash_to_camel (lower_str n)).
Proof.
  intros k n Hn Hne. unfold route.
  rewrite split_colon_one by (apply Forall_app; split; [vm_compute; no_colon_lit | assumption]).
  destruct n as [|c n']; [congruence|]. destruct k; reflexivity.
Qed.

(* a plain attribute keeps its spelling on an element and is camel-cased on a <slot> *)
Definition reserved_plain (n : str) : bool :=
  str_eqb n (lit "id") || str_eqb n (lit "slot") || str_eqb n (lit "class") || str_eqb n (lit "style") ||
  str_eqb n (lit "name") || is_data_hyphen n.

Lemma route_plain : forall n, no_colon n -> n <> [] -> reserved_plain n = false ->
  route KView n = Some (lit "r:" ++ n) /\ route KSlot n = Some (lit "l:" ++ dash_to_camel n).
Proof.
  intros n Hn Hne Hr. unfold route. rewrite split_colon_one by assumption.
  rewrite (str_eqb_nil_false _ Hne).
  unfold reserved_plain in Hr.
  repeat match type of Hr with (_ || _)%bool = false => apply Bool.orb_false_iff in Hr; destruct Hr as [Hr ?] end.
  repeat match goal with H : _ = false |- _ => rewrite H; clear H end.
  split; reflexivity.
Qed.

(* anything else with a prefix is rejected *)
Lemma route_three_segments : forall k a b c, no_colon a -> no_colon b -> no_colon c ->
  route k (a ++ 58 :: b ++ 58 :: c) = None.
Proof.
  intros k a b c Ha Hb Hc. unfold route, split_colon.
  rewrite split_colon_aux_app by assumption. cbn [rev app].
  rewrite split_colon_aux_app by assumption. cbn [rev app].
  rewrite split_colon_aux_no_colon by assumption. reflexivity.
Qed.
