(* C17, last clause: with host conversion off nothing is moved - for EVERY token tree (malformed ones included) and every
   option set the low-priority output stays empty, the wrapper stack is restored and the mode never leaves the normal output. *)
From GE Require Import Model.Str Model.CssNum Model.CssTok Model.CssOut Model.CssUrlEnc Model.Css.
From GE Require Import Proofs.CssOutProofs Proofs.CssWalkProofs Proofs.CssFrame.
From Coq Require Import Lia.
Open Scope N_scope.

Definition keeps (st st' : wstate) : Prop :=
  w_using_low st' = false /\ w_low st' = w_low st /\ w_stack st' = w_stack st.

Lemma keeps_refl : forall st, w_using_low st = false -> keeps st st.
Proof. intros st H. unfold keeps. auto. Qed.
Lemma keeps_trans : forall a b c, keeps a b -> keeps b c -> keeps a c.
Proof. intros a b c [A1 [A2 A3]] [B1 [B2 B3]]. unfold keeps. rewrite B2, B3, A2, A3. auto. Qed.
Lemma keeps_of_Fr : forall st st', Fr st st' -> keeps st st'.
Proof. intros st st' H. exact H. Qed.

Lemma keeps_qrule_off : forall o l endp st, convert_host o = false -> w_using_low st = false ->
  keeps st (snd (qrule o l endp st)).
Proof.
  intros o l endp st Hh Hu. unfold qrule, qr_main. rewrite Hh.
  apply keeps_of_Fr. apply Fr_qr_loop. apply Fr_refl. exact Hu.
Qed.

Section AtPreludeOff.
Variables (o : opts) (rec : list node -> pos -> wstate -> wstate) (contain : bool) (mark : nat * nat).
Hypothesis Hrec : forall body be s, w_using_low s = false -> keeps s (rec body be s).

Lemma keeps_at_prelude : forall l st, w_using_low st = false ->
  keeps st (snd (at_prelude o rec contain mark l st)).
Proof.
  induction l as [|x r IH]; intros st Hu; [apply keeps_refl; exact Hu|].
  cbn [at_prelude].
  destruct (is_ws_or_comment (node_tok x)); [apply IH; exact Hu|].
  assert (Go : forall st1, keeps st st1 -> keeps st (snd (at_prelude o rec contain mark r st1))).
  { intros st1 K. eapply keeps_trans; [exact K|]. apply IH. apply K. }
  destruct x as [t p|open p body e c].
  - destruct t; try (apply Go; apply keeps_of_Fr; apply Fr_tok_at; apply Fr_refl; exact Hu).
    cbn [snd]. apply keeps_of_Fr. apply Fr_tok_at. apply Fr_refl. exact Hu.
  - assert (Blk : forall T, keeps st (tok_at (if is_layer_fn T then rpx_body o false body None (tok_at st T p None)
                                          else cn_body o body true false false (tok_at st T p None)) (close_of T) p None)).
    { intro T. apply keeps_of_Fr. apply Fr_tok_at.
      destruct (is_layer_fn T); [apply Fr_rpx_body | apply Fr_cn_body]; apply Fr_tok_at; apply Fr_refl; exact Hu. }
    destruct open; try (apply Go; apply Blk).
    (* the `{}` block: push, walk, pop *)
    cbn [snd].
    set (st1 := set_stack st (w_stack st ++ [segment_since (cur_out st) mark])).
    assert (U1 : w_using_low st1 = false) by exact Hu.
    set (st2 := tok_at st1 TCurly p None).
    assert (K2 : keeps st1 st2) by (apply keeps_of_Fr; apply Fr_tok_at; apply Fr_refl; exact U1).
    set (st3 := if contain then rec body e st2 else rpx_body o false body None st2).
    assert (K3 : keeps st2 st3).
    { unfold st3. destruct contain; [apply Hrec; apply K2 | apply keeps_of_Fr; apply Fr_rpx_body; apply Fr_refl; apply K2]. }
    set (st4 := tok_at st3 TCloseCurly p None).
    assert (K4 : keeps st3 st4) by (apply keeps_of_Fr; apply Fr_tok_at; apply Fr_refl; apply K3).
    destruct (keeps_trans _ _ _ K2 (keeps_trans _ _ _ K3 K4)) as [U [L S]].
    unfold keeps. cbn [set_stack w_using_low w_low w_stack]. split; [exact U|]. split; [exact L|].
    rewrite S. unfold st1. cbn [set_stack w_stack]. apply removelast_last.
Qed.
End AtPreludeOff.

Theorem keeps_rules_off : forall f o l endp at_start st,
  convert_host o = false -> w_using_low st = false ->
  keeps st (rules f o l endp at_start st).
Proof.
  induction f as [|f IH]; intros o l endp at_start st Hh Hu; [exact (keeps_refl st Hu)|].
  cbn [rules].
  destruct (skip_ws l) as [|x r]; [apply keeps_refl; exact Hu|].
  assert (Tail : forall st' rest lead, keeps st st' -> keeps st (rules f o rest endp lead st')).
  { intros st' rest lead K. eapply keeps_trans; [exact K|]. apply IH; [exact Hh | apply K]. }
  destruct (at_rule o (fun body be s => rules f o body be false s) (x :: r) endp at_start st) as [[rest st']|] eqn:Ea.
  - apply Tail. unfold at_rule in Ea.
    destruct x as [t p|? ? ? ? ?]; [|discriminate Ea]. destruct t; try discriminate Ea.
    destruct (if str_eqb_ci s s_import then import_sign o else None) as [sign|].
    + set (st0 := if at_start then st else warn st W_IMPORT_POS (cur_pos r endp)) in *.
      assert (F0 : Fr st st0) by (unfold st0; destruct at_start; [apply Fr_refl; exact Hu | apply Fr_warn; apply Fr_refl; exact Hu]).
      pose proof (Fr_import_try st o sign (cur_pos r endp) r endp st0 F0) as F1.
      destruct (import_try o sign (cur_pos r endp) r endp st0) as [[rest1|] s1]; inversion Ea; subst; exact F1.
    + inversion Ea as [E']. clear Ea.
      assert (K1 : keeps st (tok_at st (TAt s) p None)) by (apply keeps_of_Fr; apply Fr_tok_at; apply Fr_refl; exact Hu).
      eapply keeps_trans; [exact K1|].
      pose proof (keeps_at_prelude o (fun body be s0 => rules f o body be false s0) (contain_rule_list s) (o_mark (cur_out st))
                    (fun body be s0 H0 => IH o body be false s0 Hh H0) r (tok_at st (TAt s) p None) (proj1 K1)) as K2.
      rewrite E' in K2. exact K2.
  - pose proof (keeps_qrule_off o (x :: r) endp st Hh Hu) as K.
    destruct (qrule o (x :: r) endp st) as [rest st']. apply Tail. exact K.
Qed.

Theorem host_off_nothing_moved : forall o tree endp,
  convert_host o = false ->
  w_low (transform o tree endp) = o_init /\ w_stack (transform o tree endp) = [] /\
  w_using_low (transform o tree endp) = false.
Proof.
  intros o tree endp Hh. unfold transform.
  destruct (keeps_rules_off (S (nodes_size tree)) o tree endp true w_init Hh eq_refl) as [U [L S]].
  split; [exact L|]. split; [exact S | exact U].
Qed.
