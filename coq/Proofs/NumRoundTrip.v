(* The decimal text written for a non-negative i64 (z_to_str) is scanned back by the number
   scanner (NumLit.parse_number_fixed) as that integer, stopping at the end of the digits. *)
From GE Require Import Model.ExprGen Model.ExprParse Proofs.ExprRtTokens.
From Coq Require Import Lia ZifyBool ZifyN.
Import ListNotations.
Local Open Scope N_scope.

Ltac Zify.zify_post_hook ::= Z.div_mod_to_equations.

(* value of a digit string, continuing from acc *)
Fixpoint dval (ds : str) (acc : Z) : Z :=
  match ds with
  | [] => acc
  | c :: r => dval r (acc * 10 + Z.of_N (c - 48))%Z
  end.

Lemma dval_ge : forall ds acc, (0 <= acc)%Z -> (acc <= dval ds acc)%Z.
Proof.
  induction ds as [|c r IH]; intros acc H; cbn [dval]; [lia|].
  specialize (IH (acc * 10 + Z.of_N (c - 48))%Z ltac:(lia)). lia.
Qed.

(* ---- to_dec ---- *)
Lemma dec_aux_val : forall f n acc, n < 10 ^ N.of_nat f -> dval (dec_aux f n acc) 0 = dval acc (Z.of_N n).
Proof.
  induction f as [|f IH]; intros n acc H.
  - cbn in H. assert (n = 0) by lia. subst n. reflexivity.
  - cbn [dec_aux]. rewrite Nat2N.inj_succ, N.pow_succ_r' in H.
    destruct (N.eqb_spec (n / 10) 0) as [E|E].
    + cbn [dval]. f_equal. lia.
    + rewrite IH by lia. cbn [dval]. f_equal. lia.
Qed.

Lemma dec_aux_digits : forall f n acc, forallb is_digit acc = true -> forallb is_digit (dec_aux f n acc) = true.
Proof.
  induction f as [|f IH]; intros n acc H; cbn [dec_aux]; [exact H|].
  assert (Hd : forallb is_digit ((48 + n mod 10) :: acc) = true).
  { cbn [forallb]. rewrite H. unfold is_digit. lia. }
  destruct (n / 10 =? 0); [exact Hd|apply IH; exact Hd].
Qed.

Lemma dec_aux_head : forall f n acc, 0 < n -> n < 10 ^ N.of_nat f ->
  exists d r, dec_aux f n acc = d :: r /\ is_digit d = true /\ d <> 48.
Proof.
  induction f as [|f IH]; intros n acc Hn H.
  - cbn in H. lia.
  - cbn [dec_aux]. rewrite Nat2N.inj_succ, N.pow_succ_r' in H.
    destruct (N.eqb_spec (n / 10) 0) as [E|E].
    + exists (48 + n mod 10), acc. split; [reflexivity|]. unfold is_digit. lia.
    + apply IH; lia.
Qed.

Lemma dec_aux_nonempty : forall f n acc, acc <> [] -> dec_aux f n acc <> [].
Proof.
  induction f as [|f IH]; intros n acc H; cbn [dec_aux]; [exact H|].
  destruct (n / 10 =? 0); [discriminate|apply IH; discriminate].
Qed.

Lemma dec_aux_S_nonempty : forall f n acc, dec_aux (S f) n acc <> [].
Proof.
  intros f n acc. cbn [dec_aux]. destruct (n / 10 =? 0); [discriminate|apply dec_aux_nonempty; discriminate].
Qed.

(* ---- the decimal loop on a digit string ---- *)
Lemma digit_facts : forall c, is_digit c = true ->
  (c =? 101) = false /\ (c =? 46) = false /\ is_ident_char c = true /\ digit_val c = c - 48.
Proof. intros c H. unfold is_digit, is_ident_char, is_alpha, is_lower, is_upper, is_digit, digit_val in *. repeat split; lia. Qed.

Lemma dec_loop_digits : forall ds f tail z n,
  ds <> [] -> forallb is_digit ds = true -> follow_num tail -> (0 <= z)%Z -> (dval ds z <= i64_max)%Z ->
  (length ds <= f)%nat ->
  dec_loop f (ds ++ tail) (Some z) false n = (NInt (dval ds z), n + N.of_nat (length ds), true).
Proof.
  induction ds as [|c r IH]; intros f tail z n Hne Hd Ht Hz Hmax Hf; [congruence|].
  cbn [forallb] in Hd. apply andb_prop in Hd. destruct Hd as [Hc Hr].
  destruct f as [|f]; [cbn in Hf; lia|].
  destruct (digit_facts c Hc) as [E101 [E46 [_ Edv]]].
  cbn [app dec_loop]. rewrite E101, E46, Edv.
  cbn [dval] in Hmax. set (v := (z * 10 + Z.of_N (c - 48))%Z) in *.
  assert (Hv0 : (0 <= v)%Z) by (unfold v; lia).
  pose proof (dval_ge r v Hv0) as Hge.
  replace (v <=? i64_max)%Z with true by lia.
  destruct r as [|d r'].
  - change (dval [c] z) with v. replace (n + N.of_nat (length [c])) with (n + 1) by (cbn [length]; lia).
    cbn [app]. destruct tail as [|p tl]; [reflexivity|].
    destruct Ht as [Hp1 Hp2]. rewrite Hp1. replace (p =? 46) with false by lia. reflexivity.
  - cbn [forallb] in Hr. apply andb_prop in Hr. destruct Hr as [Hdd Hr'].
    destruct (digit_facts d Hdd) as [_ [D46 [Did _]]].
    cbn [app]. rewrite Did, Hdd. cbn [negb andb orb].
    change (d :: r' ++ tail) with ((d :: r') ++ tail).
    rewrite (IH f tail v (n + 1)); try assumption; try discriminate.
    + change (dval (c :: d :: r') z) with (dval (d :: r') v).
      replace (n + N.of_nat (length (c :: d :: r'))) with (n + 1 + N.of_nat (length (d :: r'))) by (cbn [length]; lia).
      reflexivity.
    + cbn [forallb]. rewrite Hdd, Hr'. reflexivity.
    + cbn [length] in *. lia.
Qed.

Lemma pow_10_20 : 10 ^ N.of_nat 20 = 100000000000000000000.
Proof. vm_compute. reflexivity. Qed.

(* ---- the two facts the round trip needs ---- *)
Lemma z_to_str_head : forall z, (0 <= z)%Z -> head_is is_digit (z_to_str z).
Proof.
  intros [|p|p] H; [reflexivity| |lia]. cbn [z_to_str]. unfold to_dec.
  pose proof (dec_aux_digits 20 (N.pos p) [] eq_refl) as Hd.
  pose proof (dec_aux_S_nonempty 19 (N.pos p) []) as Hn.
  destruct (dec_aux 20 (N.pos p) []) as [|d r]; [congruence|].
  cbn [forallb] in Hd. apply andb_prop in Hd. cbn. tauto.
Qed.

Lemma skipn_app_len : forall (a b : str), skipn (N.to_nat (N.of_nat (length a))) (a ++ b) = b.
Proof. intros a b. rewrite Nat2N.id. induction a as [|x a IH]; [reflexivity|exact IH]. Qed.

Theorem num_roundtrip : forall z tail, (0 <= z <= i64_max)%Z -> follow_num tail ->
  num_result (z_to_str z ++ tail) = POk (EInt z) tail.
Proof.
  intros z tail [Hz Hmax] Ht. destruct z as [|p|p]; [| |lia].
  - (* "0" *) unfold num_result, parse_number_fixed, parse_number. cbn [z_to_str lit app].
    change (lit "0") with [48]. cbn [app].
    destruct tail as [|d tl]; [reflexivity|]. destruct Ht as [H1 H2].
    replace (is_oct_digit d) with false by (unfold is_oct_digit, is_ident_char, is_alpha, is_lower, is_upper, is_digit in *; lia).
    replace (d =? 120) with false by (unfold is_ident_char, is_alpha, is_lower, is_upper, is_digit in *; lia).
    replace ((d =? 101) || (d =? 46) || (d =? 56) || (d =? 57))%bool with false
      by (unfold is_ident_char, is_alpha, is_lower, is_upper, is_digit in *; lia).
    cbn. rewrite H1. reflexivity.
  - cbn [z_to_str]. unfold i64_max in Hmax.
    assert (Hlt : N.pos p < 10 ^ N.of_nat 20) by (rewrite pow_10_20; lia).
    destruct (dec_aux_head 20 (N.pos p) [] ltac:(lia) Hlt) as [d [r [E [Hd H48]]]].
    pose proof (dec_aux_digits 20 (N.pos p) [] eq_refl) as Hall.
    pose proof (dec_aux_val 20 (N.pos p) [] Hlt) as Hval. cbn [dval] in Hval.
    unfold to_dec. rewrite E in *.
    unfold num_result, parse_number_fixed, parse_number. cbn [app].
    rewrite Hd. cbn [negb andb]. replace (d =? 48) with false by lia.
    change (d :: r ++ tail) with ((d :: r) ++ tail).
    rewrite (dec_loop_digits (d :: r) _ tail 0%Z 0); try assumption; try discriminate; try lia.
    + cbn [finish_dec]. rewrite Hval. rewrite N.add_0_l, skipn_app_len. reflexivity.
    + rewrite Hval. unfold i64_max. lia.
    + rewrite app_length. lia.
Qed.
