Model/Path.vo Model/Path.glob Model/Path.v.beautified Model/Path.required_vo: Model/Path.v Model/Str.vo
Model/Path.vio: Model/Path.v Model/Str.vio
Model/Path.vos Model/Path.vok Model/Path.required_vos: Model/Path.v Model/Str.vos
Model/Str.vo Model/Str.glob Model/Str.v.beautified Model/Str.required_vo: Model/Str.v 
Model/Str.vio: Model/Str.v 
Model/Str.vos Model/Str.vok Model/Str.required_vos: Model/Str.v 
Proofs/PathProofs.vo Proofs/PathProofs.glob Proofs/PathProofs.v.beautified Proofs/PathProofs.required_vo: Proofs/PathProofs.v Model/Str.vo Model/Path.vo Proofs/StrProofs.vo
Proofs/PathProofs.vio: Proofs/PathProofs.v Model/Str.vio Model/Path.vio Proofs/StrProofs.vio
Proofs/PathProofs.vos Proofs/PathProofs.vok Proofs/PathProofs.required_vos: Proofs/PathProofs.v Model/Str.vos Model/Path.vos Proofs/StrProofs.vos
Proofs/StrProofs.vo Proofs/StrProofs.glob Proofs/StrProofs.v.beautified Proofs/StrProofs.required_vo: Proofs/StrProofs.v Model/Str.vo
Proofs/StrProofs.vio: Proofs/StrProofs.v Model/Str.vio
Proofs/StrProofs.vos Proofs/StrProofs.vok Proofs/StrProofs.required_vos: Proofs/StrProofs.v Model/Str.vos
Properties/C13.vo Properties/C13.glob Properties/C13.v.beautified Properties/C13.required_vo: Properties/C13.v Model/Str.vo Model/Path.vo Proofs/StrProofs.vo Proofs/PathProofs.vo
Properties/C13.vio: Properties/C13.v Model/Str.vio Model/Path.vio Proofs/StrProofs.vio Proofs/PathProofs.vio
Properties/C13.vos Properties/C13.vok Properties/C13.required_vos: Properties/C13.v Model/Str.vos Model/Path.vos Proofs/StrProofs.vos Proofs/PathProofs.vos
